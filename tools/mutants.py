#!/usr/bin/env python3
"""Run registered checks against the seeded mutations (development aid, not a registered check).
usage: tools/mutants.py [sid ...] [--props C01,C02] [--tier quick]
For each /verif/seeded/<sid>/patch.diff: git -C /repo apply, run ./check <prop> with evidence redirected to a scratch
directory, then git -C /repo checkout -- .  Results are appended to /verif/seeded/results.json."""
import json, os, subprocess, sys, time
V = "/verif"
def sh(cmd, env=None, timeout=3600):
    p = subprocess.run(cmd, shell=True, env=env, stdout=subprocess.PIPE, stderr=subprocess.STDOUT, text=True, timeout=timeout)
    return p.returncode, p.stdout
def main():
    args = [a for a in sys.argv[1:] if not a.startswith("--")]
    props = None
    tier = "quick"
    for a in sys.argv[1:]:
        if a.startswith("--props="):
            props = a.split("=")[1].split(",")
        if a.startswith("--tier="):
            tier = a.split("=")[1]
    sids = args or sorted(d for d in os.listdir(f"{V}/seeded") if os.path.isdir(f"{V}/seeded/{d}"))
    rc, out = sh("git -C /repo status --porcelain --untracked-files=no")
    assert out.strip() == "", "/repo has uncommitted changes: " + out
    resf = f"{V}/seeded/results.json"
    results = json.load(open(resf)) if os.path.exists(resf) else {}
    env = dict(os.environ, VERIF_EVID=f"{V}/build/mut_evid")
    for sid in sids:
        plist = props or [sid.split("-")[0]]
        rc, out = sh(f"git -C /repo apply {V}/seeded/{sid}/patch.diff")
        if rc != 0:
            print(sid, "PATCH DOES NOT APPLY", out); continue
        try:
            for p in plist:
                if not os.path.exists(f"{V}/harness/props/{p.lower()}.py"):
                    continue
                t0 = time.time()
                rc, out = sh(f"cd {V} && ./check {p} --tier {tier}", env=env)
                lines = [l for l in out.splitlines() if l.startswith("VIOLATION") or l.startswith("  [")]
                det = rc != 0 and any(l.startswith("VIOLATION") for l in lines)
                results.setdefault(sid, {})[p] = {"detected": det, "tier": tier, "lines": lines[:4], "wall_s": round(time.time() - t0, 1)}
                print(sid, p, "DETECTED" if det else "missed", lines[1][:150] if len(lines) > 1 else "")
        finally:
            sh("git -C /repo checkout -- . ")
        json.dump(results, open(resf, "w"), indent=1)
    rc, out = sh("git -C /repo status --porcelain --untracked-files=no")
    assert out.strip() == "", out
if __name__ == "__main__":
    main()
