#!/usr/bin/env python3
"""Run registered checks against the seeded mutations (development aid, not a registered check).
usage: tools/mutants.py [sid ...] [--props=C01,C02] [--tier=quick] [--jobs=4] [--seed=N]
For each /verif/seeded/<sid>/patch.diff: a scratch worktree of /repo's HEAD is created under /tmp, the patch is applied THERE
(never in /repo), ./check <prop> runs with VERIF_REPO pointing at the scratch tree and the evidence redirected, and the
worktree is removed.  Results are merged into /verif/seeded/results.json (results_seed<N>.json with --seed)."""
import json, os, subprocess, sys, time
from concurrent.futures import ThreadPoolExecutor
V = "/verif"


def sh(cmd, env=None, timeout=3600):
    p = subprocess.run(cmd, shell=True, env=env, stdout=subprocess.PIPE, stderr=subprocess.STDOUT, text=True, timeout=timeout)
    return p.returncode, p.stdout


def one(sid, plist, tier, seed):
    wt = f"/tmp/mutwt_{sid}_{os.getpid()}"
    sh(f"git -C /repo worktree remove --force {wt}; rm -rf {wt}")
    rc, out = sh(f"git -C /repo worktree add -q --detach {wt} HEAD")
    res = {}
    if rc != 0:
        return sid, {"error": out[-200:]}
    try:
        sh(f"rm -rf {wt}/examples {wt}/docs")
        rc, out = sh(f"git -C {wt} apply {V}/seeded/{sid}/patch.diff")
        if rc != 0:
            return sid, {"error": "PATCH DOES NOT APPLY " + out[-200:]}
        env = dict(os.environ, VERIF_REPO=wt, VERIF_EVID=f"{V}/build/mut_evid/{sid}_{os.getpid()}")
        if seed is not None:
            env["VERIF_SEED"] = str(seed)
        for p in plist:
            if not os.path.exists(f"{V}/harness/props/{p.lower()}.py"):
                continue
            t0 = time.time()
            rc, out = sh(f"cd {V} && ./check {p} --tier {tier}", env=env)
            lines = [l for l in out.splitlines() if l.startswith("VIOLATION") or l.startswith("  [")]
            det = rc != 0 and any(l.startswith("VIOLATION") for l in lines)
            res[p] = {"detected": det, "tier": tier, "seed": seed or 0, "lines": lines[:4], "wall_s": round(time.time() - t0, 1)}
            print(sid, p, "DETECTED" if det else "missed", lines[1][:150] if len(lines) > 1 else "", flush=True)
    finally:
        sh(f"git -C /repo worktree remove --force {wt}; rm -rf {wt}")
    return sid, res


def main():
    args = [a for a in sys.argv[1:] if not a.startswith("--")]
    props, tier, jobs, seed = None, "quick", 4, None
    for a in sys.argv[1:]:
        if a.startswith("--props="):
            props = a.split("=")[1].split(",")
        if a.startswith("--tier="):
            tier = a.split("=")[1]
        if a.startswith("--jobs="):
            jobs = int(a.split("=")[1])
        if a.startswith("--seed="):
            seed = int(a.split("=")[1])
    sids = args or sorted(d for d in os.listdir(f"{V}/seeded") if os.path.isdir(f"{V}/seeded/{d}"))
    resf = f"{V}/seeded/results.json" if seed is None else f"{V}/seeded/results_seed{seed}.json"
    results = json.load(open(resf)) if os.path.exists(resf) else {}
    with ThreadPoolExecutor(max_workers=jobs) as ex:
        futs = [ex.submit(one, sid, props or [sid.split("-")[0]], tier, seed) for sid in sids]
        for f in futs:
            sid, res = f.result()
            if "error" in res:
                print(sid, res["error"])
                continue
            results.setdefault(sid, {}).update(res)
    json.dump({k: results[k] for k in sorted(results)}, open(resf, "w"), indent=1)
    sh("git -C /repo worktree prune")


if __name__ == "__main__":
    main()
