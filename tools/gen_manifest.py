#!/usr/bin/env python3
"""Regenerates MANIFEST.json from the table below (keeps it schema-valid at all times)."""
import json, os
V = os.path.dirname(os.path.dirname(os.path.abspath(__file__)))
BASE = "cd /repo && /venv/bin/python -m pytest -ra -q -p no:cacheprovider --timeout=900 --continue-on-collection-errors"
NOTE_COMMON = ("Trusted: Coq 8.16.1 kernel and vm_compute (no native_compute); the hand-written Gallina model (tied to /repo by the "
               "correspondence run of this check, by sampling); the Python harness; numpy/scipy/sklearn kernels as oracles with "
               "stated contracts; IEEE rounding is not modelled (exact rationals + tolerances). Axioms per theorem are printed by "
               "Print Assumptions on every run and recorded in the evidence file.")
CHECKS = {
 "C01": dict(text="Theorems (Coq, closed under the global context, unbounded n): the swap-tracked pivot list of CCQR/GQR is a permutation of 0..n-1 for every offset sequence; the SSPOR tail shuffle and the [:n_sensors] slice preserve validity; executable permutation checkers are sound. Correspondence: the model's swap replay of the observed leading pivots must reproduce the full observed ranking of QR/CCQR/GQR, shuffle_tail/selected must reproduce SSPOR.all_sensors/selected_sensors, SSPOC selections are checked by the verified checkers; LAPACK/numpy permutation contracts are validated inside Coq per case.",
             technique="Coq proof (induction over the swap list, Permutation) + vm_compute correspondence on observed rankings", ref="5/C01"),
}
NOT_APPLICABLE = {}
def main():
    props = [json.loads(l)["id"] for l in open(os.path.join(V, "properties.jsonl"))]
    checks = []
    for pid in props:
        if pid not in CHECKS:
            continue
        c = CHECKS[pid]
        checks.append({
            "property_id": pid,
            "quick_cmd": f"./check {pid} --tier quick",
            "thorough_cmd": f"./check {pid} --tier thorough",
            "evidence_file": f"/verif/evidence/{pid}.json",
            "replay_cmd_template": f"./check {pid} --replay {{path}}",
            "engine": "coq-model+correspondence",
            "level_claimed": {"category": "proof", "text": c["text"], "design_ref": "DESIGN.md section " + c["ref"]},
            "level_note": c.get("note", "") + NOTE_COMMON,
            "technique": c["technique"],
        })
    na = [{"property_id": p, "reason": NOT_APPLICABLE.get(p, "check not built yet in this session (work in progress; see DESIGN.md section 10)")}
          for p in props if p not in CHECKS]
    man = {
        "version": 1,
        "setup_cmd": "./setup.sh",
        "hooks": {"guard": "PYSENSORS_VERIF",
                  "enable": "no source hooks: checks import /repo's working tree (PYTHONPATH=/repo) and trace by wrapping module attributes from the harness; PYSENSORS_VERIF=1 is exported by ./check but nothing in /repo reads it",
                  "baseline_off_cmd": BASE, "source_commits": [], "add_only": True},
        "engines": [{"name": "coq-model+correspondence", "path": "/verif/coq + /verif/harness",
                     "serves_properties": [c["property_id"] for c in checks],
                     "kind_free_text": "Rocq/Coq 8.16.1 theorems about hand-written executable Gallina models; models evaluated with vm_compute on the same inputs as the implementation (correspondence); exact-rational Python oracle searches failing inputs"}],
        "checks": checks,
        "not_applicable": na,
        "notes": "See DESIGN.md. Replays are written under /verif/evidence/replays/. known_findings.json lists recorded/fixed genuine defects.",
    }
    json.dump(man, open(os.path.join(V, "MANIFEST.json"), "w"), indent=1)
    print("checks:", len(checks), "not_applicable:", len(na))
if __name__ == "__main__":
    main()
