#!/usr/bin/env python3
"""Regenerates MANIFEST.json from the table below (keeps it schema-valid at all times)."""
import json, os
V = os.path.dirname(os.path.dirname(os.path.abspath(__file__)))
BASE = "cd /repo && /venv/bin/python -m pytest -ra -q -p no:cacheprovider --timeout=900 --continue-on-collection-errors"
NOTE_COMMON = ("Trusted: Coq 8.16.1 kernel and vm_compute (no native_compute); the hand-written Gallina model (tied to /repo by the "
               "correspondence run of this check, by sampling); the Python harness; numpy/scipy/sklearn kernels as oracles with "
               "stated contracts; IEEE rounding is not modelled (exact rationals + tolerances). Axioms per theorem are printed by "
               "Print Assumptions on every run and recorded in the evidence file.")
CHECKS = {
 "C01": dict(text="Theorems (Coq, closed under the global context, unbounded n): the swap-tracked pivot list of CCQR/GQR is a permutation of 0..n-1 for every offset sequence; the SSPOR tail shuffle and the [:n_sensors] slice preserve validity; executable permutation checkers are sound. Correspondence: the model's swap replay of the observed leading pivots must reproduce the full observed ranking of QR/CCQR/GQR, shuffle_tail/selected must reproduce SSPOR.all_sensors/selected_sensors, SSPOC selections are checked by the verified checkers; LAPACK/numpy permutation contracts are validated inside Coq per case.",
             technique="Coq proof (induction over the swap list, Permutation) + vm_compute correspondence on observed rankings", ref="5/C01"),
 "C14": dict(text="Theorems (Coq, closed, all histories): on the SSPOR token machine a setter changes nothing but n_sensors and a rejected setter changes nothing; fit's matrix/ranking tokens do not mention n_sensors; after ANY sequence of accepted/rejected setter calls and observers the observable state equals that of a fresh model constructed with the final value (setters_equiv_ctor, by induction over the history). Correspondence: random setter/observer histories on real SSPOR objects are compared step by step with the Coq machine (outcome class, n_sensors, and the model's tokens evaluated by FRESH real objects); the oracle compares selection, ranking, predictions and score bitwise with SSPOR(n_sensors=final).fit(...).",
             technique="Coq proof (state machine, induction over operation lists) + vm_compute correspondence on random histories", ref="5/C14"),
 "C15": dict(text="Theorems (Coq, closed, all histories): refit_fresh - for every all-successful history of fit/update_n_basis_modes/set_number_of_sensors/observers on the token machine, the observable state equals that of a never-fitted model configured with the user's settings and fitted once on the last data ('no stale component' invariant); unconditional for bases with a user-chosen number of modes, with a per-fit side condition otherwise; the unrestricted statement is REFUTED for the faithful model (Identity() freezes its default, a recorded known finding); update_n_basis_modes(k<=fitted) re-ranks on the first k modes of the same basis. Correspondence: random histories over data sets of different widths/row counts on real objects vs the Coq machine (tokens evaluated by fresh real objects) + from-scratch references.",
             technique="Coq proof (invariant by induction over histories; refutation by vm_compute witness) + vm_compute correspondence", ref="5/C15"),
 "C16": dict(text="Theorems (Coq, closed): with SSPOR.fit's ranking modelled as firstn m r ++ perm_of seed (skipn m r) for an ARBITRARY function perm_of, the leading m sensors are the optimizer's and are the same for every seed, the trailing sets are permutations of each other (under the permutation contract of the generator), equal seeds give equal rankings. Correspondence: for pairs of seeds the model's shuffle_tail applied to a fresh optimizer's ranking and numpy's own permutation must equal SSPOR.all_sensors exactly, for all bases/optimizers, also when the same object is fitted repeatedly.",
             technique="Coq proof (list algebra over an arbitrary permutation oracle) + vm_compute correspondence", ref="5/C16"),
 "C19": dict(text="Theorems (Coq, closed): for every guarded entry point the decision function of its guards (Guard/Guards.v, over classes of Python values: python/numpy ints of any sign, float, str, list, None, 'auto') returns the stated exception class for EVERY value of the invalid classes, at every life-cycle state (13 theorems incl. NotFittedError for every consumer before fit); on the SSPOR machine a rejected setter changes nothing and a rejection by update_n_basis_modes' own guards changes nothing; the remaining case (rejection inside the re-fit) is REFUTED for the faithful model and recorded as a known finding. Correspondence: exhaustive table entry point x value class x state (~900 rows) compares exception classes with the model; observables before/after every rejected setter/update call; random SSPOR histories with invalid values against the Coq machine.",
             technique="Coq proof (decision tables by case analysis; state machine) + exhaustive-table vm_compute correspondence", ref="5/C19"),
 "C08": dict(text="Theorems (Coq, closed): threshold mode selects exactly the sensors with magnitude >= threshold (thr_exact), is antitone in the threshold, threshold 0 selects everything; the executable checker run on every observed top-n selection is sound for the relational specification (n distinct valid sensors in non-increasing magnitude, every selected >= every unselected - numpy's argsort is not stable, so ties are judged by the specification); a valid top-k2 selection restricted to its first k1 entries is a valid top-k1 selection; after any sequence of updates the stored n_sensors equals the number of selected sensors. Correspondence: random fit + update_sensors histories (counts 0..n, thresholds incl. 0 / exact magnitudes / above max, max/min/mean/median aggregation), checkers evaluated inside Coq on exact integers (doubles scaled by a common power of two); default threshold checked on squares.",
             technique="Coq proof (list/filter reasoning, verified checkers) + vm_compute correspondence on observed selections", ref="5/C08"),
 "C09": dict(text="Theorems (Coq, closed, all histories, every answer of the threshold-count oracle): on the SSPOC token machine the invariant 'refit_ says which kind of classifier is stored and the dummy belongs to the last fit' holds in every reachable state; after ANY successful operation predict is (a) the dummy of the last fit's labels when n_sensors = 0, (b) the classifier trained on the sensor columns of the data of THAT call for the CURRENT selection, applied directly, after refitting operations, (c) the classifier trained on the basis coordinates of that data, applied through Psi^-T of that fit, after fit(refit=False). Correspondence: random histories on real SSPOC objects vs the Coq machine, whose predict tokens are evaluated by fresh objects (sklearn.clone of the classifier, fresh basis, fresh single-fit SSPOC) and compared label by label.",
             technique="Coq proof (state machine invariant, induction over histories) + vm_compute correspondence with fresh-object token evaluation", ref="5/C09"),
 "C12": dict(text="Theorems (Coq, closed, over exact rationals Qc, every parameter value and ranking): for every shape predicate and both loc values the returned list is exactly the ranked sensors on the constrained side, in ranking order (filter homomorphism), 'in' and 'out' partition the ranking; the predicates mean closed disc / closed cylinder (3 axes) / parabola region / strictly right of the directed line / closed ellipse in the frame rotated by (c,s) (length-preserving when c^2+s^2=1); grid coordinates x = idx mod side, y = idx div side are inverse to x + side*y; Polygon (partial): crossing parity is invariant under the choice of starting vertex and of edge orientation; no Jordan-curve characterisation is proved, the exact winding-number oracle carries the general meaning. Correspondence: random shapes x loc x rankings on grids and float/int dataframes (2-D/3-D), model evaluated by vm_compute with the implementation's own cos/sin as rationals, repeated calls on one shape object.",
             technique="Coq proof (Qc field/order reasoning, list filters, div/mod) + vm_compute correspondence + exact rational geometry oracle", ref="5/C12",
             note="Polygon clause partial (see text). "),
 "C13": dict(text="Theorems (Coq, closed): on every square grid (any side) with a full permutation of the sensors and every box, the box helper returns exactly the pixels with x_min<=x<=x_max, y_min<=y<=y_max (x = j mod side, y = j div side) without duplicates - the swap-and-ravel of the code is proved to be the transposition involution; the dataframe box returns exactly the positions (after dropping incomplete rows) in the half-open box; index<->coordinate conversions are mutually inverse; equation strings mark where the equation is true, files where the function is negative; load_name(id ++ '.py') = id for EVERY id (and the pre-repair str.strip behaviour is refuted by computation). Correspondence: all boxes with integer/half-integer bounds on grids up to 5x5 (7x7 thorough), random NaN dataframes, all indices, identifiers beginning/ending in p/y/_/digits written to real files and loaded, equations/functions from a small grammar evaluated by Python eval vs the Coq expression evaluator.",
             technique="Coq proof (Z/nat div-mod with lia/nia, Permutation, Qc order) + exhaustive small-scope vm_compute correspondence", ref="5/C13"),
 "C05": dict(text="Theorems (Coq, closed, unbounded n/N/s, EVERY positive key oracle - so the guarantee does not depend on which sensors have large norms - every duplicate-free region, every feasible (N, s)): with all_sensors the complete output of the unconstrained run of the same loop, the first N sensors of the GQR loop contain at most s region sensors under max_n, exactly s under exact_n (both branches: forcing window, and deferral to max_n where the run is shown to coincide with the unconstrained run until the s best-ranked region sensors are in), and under predetermined the first N-s lie outside and the last s inside the set; N distinct sensors. Key lemmas: picks respect a static permit set over a stretch of steps; zeroing entries other than the unconstrained pick does not move numpy's first-maximum argmax. Correspondence: (a) the three Python constraint maps called directly on small inputs vs the Coq transcription, (b) real GQR runs replayed EXACTLY by the Coq loop from their own per-step residual norms (scaled integers), incl. through SSPOR(optimizer=GQR()); oracle counts region sensors.",
             technique="Coq proof (induction over loop steps, permutation/counting invariants, argmax characterisation) + exact vm_compute replay of traced runs", ref="5/C05"),
 "C06": dict(text="Theorems (Coq, closed, same abstract setting as C05): under max_n, exact_n and predetermined every one of the first N picks has the largest key among the not-yet-ranked sensors of its own class (inside/outside the region); when the unconstrained ranking already satisfies the constraint the first N sensors are the unconstrained ones (three options); with allowance zero the first N sensors of max_n / exact_n equal, in order and with identical first-maximum tie-breaking, those of the CCQR loop with a region cost exceeding every residual norm. Correspondence: real GQR and CCQR runs replayed exactly by the Coq loops from their own residual norms; oracle checks best-of-class per step on the run's own norms, inactive == QR()[:N], allowance 0 == CCQR(prohibitive)[:N].",
             technique="Coq proof (coincidence-with-unconstrained lemma, argmax uniqueness) + exact vm_compute replay of traced GQR/CCQR runs", ref="5/C06"),
}
NOT_APPLICABLE = {}
def main():
    props = [json.loads(l)["id"] for l in open(os.path.join(V, "properties.jsonl"))]
    checks = []
    for pid in props:
        if pid not in CHECKS:
            continue
        c = CHECKS[pid]
        checks.append({
            "property_id": pid,
            "quick_cmd": f"./check {pid} --tier quick",
            "thorough_cmd": f"./check {pid} --tier thorough",
            "evidence_file": f"/verif/evidence/{pid}.json",
            "replay_cmd_template": f"./check {pid} --replay {{path}}",
            "engine": "coq-model+correspondence",
            "level_claimed": {"category": "proof", "text": c["text"], "design_ref": "DESIGN.md section " + c["ref"]},
            "level_note": c.get("note", "") + NOTE_COMMON,
            "technique": c["technique"],
        })
    na = [{"property_id": p, "reason": NOT_APPLICABLE.get(p, "check not built yet in this session (work in progress; see DESIGN.md section 10)")}
          for p in props if p not in CHECKS]
    man = {
        "version": 1,
        "setup_cmd": "./setup.sh",
        "hooks": {"guard": "PYSENSORS_VERIF",
                  "enable": "no source hooks: checks import /repo's working tree (PYTHONPATH=/repo) and trace by wrapping module attributes from the harness; PYSENSORS_VERIF=1 is exported by ./check but nothing in /repo reads it",
                  "baseline_off_cmd": BASE, "source_commits": [], "add_only": True},
        "engines": [{"name": "coq-model+correspondence", "path": "/verif/coq + /verif/harness",
                     "serves_properties": [c["property_id"] for c in checks],
                     "kind_free_text": "Rocq/Coq 8.16.1 theorems about hand-written executable Gallina models; models evaluated with vm_compute on the same inputs as the implementation (correspondence); exact-rational Python oracle searches failing inputs"}],
        "checks": checks,
        "not_applicable": na,
        "notes": "See DESIGN.md. Replays are written under /verif/evidence/replays/. known_findings.json lists recorded/fixed genuine defects.",
    }
    json.dump(man, open(os.path.join(V, "MANIFEST.json"), "w"), indent=1)
    print("checks:", len(checks), "not_applicable:", len(na))
if __name__ == "__main__":
    main()
