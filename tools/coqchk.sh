#!/bin/bash
# independent re-check of every compiled file of the development with coqchk, and the axioms it reports
cd /verif/coq || exit 1
mods=$(grep -v '^-' _CoqProject 2>/dev/null | grep '\.v$' | sed 's#^theories/#PS.#; s#\.v$##; s#/#.#g')
[ -z "$mods" ] && mods=$(cd theories && find . -name '*.v' | sed 's#^\./#PS.#; s#\.v$##; s#/#.#g')
( ulimit -s unlimited; timeout 7200 coqchk -silent -o -Q theories PS $mods ) > /verif/coqchk.txt 2>&1
echo "exit=$?" >> /verif/coqchk.txt
tail -30 /verif/coqchk.txt
