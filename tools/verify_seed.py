#!/usr/bin/env python3
"""Confirm seeded mutations: in a scratch worktree of /repo's HEAD, (1) the patch applies, (2) the 33 baseline tests
still pass with it, (3) the demo FAILs with it and PASSes without.  Copies confirmed ones to /verif/seeded/<id>/."""
import json, os, shutil, subprocess, sys
SRC = os.environ.get("SEED_SRC", "/tmp/mut")
WT = "/tmp/seedcheck"
def sh(cmd, cwd=None, env=None):
    p = subprocess.run(cmd, shell=True, cwd=cwd, env=env, stdout=subprocess.PIPE, stderr=subprocess.STDOUT, text=True)
    return p.returncode, p.stdout
def main():
    props = sys.argv[1:] or [f"C{i:02d}" for i in range(1, 21)]
    sh(f"git -C /repo worktree remove --force {WT}"); sh(f"rm -rf {WT}")
    rc, out = sh(f"git -C /repo worktree add --detach {WT} HEAD")
    assert rc == 0, out
    env = dict(os.environ, PYTHONPATH=WT, PYTHONDONTWRITEBYTECODE="1", MPLBACKEND="Agg")
    results = {}
    for p in props:
        for m in sorted(x for x in os.listdir(f"{SRC}/{p}/_out") if os.path.isdir(f"{SRC}/{p}/_out/{x}")):
            d = f"{SRC}/{p}/_out/{m}"
            if not os.path.exists(f"{d}/patch.diff"):
                continue
            sid = f"{p}-{m}"
            sh("git reset -q --hard HEAD && git clean -fdq", cwd=WT)
            rc0, o0 = sh(f"/venv/bin/python {d}/demo.py", cwd=WT, env=env)
            rc, out = sh(f"git apply {d}/patch.diff", cwd=WT)
            if rc != 0:
                rc, out = sh(f"git apply --3way {d}/patch.diff", cwd=WT)
            if rc != 0:
                sh("git reset -q --hard HEAD && git clean -fdq", cwd=WT)
                results[sid] = {"ok": False, "why": "patch does not apply: " + out[-200:]}
                print(sid, results[sid]); continue
            sh("git reset -q", cwd=WT)
            sh(f"git diff -- pysensors > /tmp/seed_{sid}.diff", cwd=WT)
            rc1, o1 = sh(f"/venv/bin/python {d}/demo.py", cwd=WT, env=env)
            rct, ot = sh("/venv/bin/python -m pytest -q -p no:cacheprovider --continue-on-collection-errors tests 2>&1 | tail -1", cwd=WT, env=env)
            sh("git reset -q --hard HEAD && git clean -fdq", cwd=WT)
            ok = rc0 == 0 and rc1 != 0 and "33 passed" in ot
            results[sid] = {"ok": ok, "demo_clean_rc": rc0, "demo_mutant_rc": rc1, "tests": ot.strip()}
            print(sid, results[sid])
            if ok:
                dst = f"/verif/seeded/{sid}"
                os.makedirs(dst, exist_ok=True)
                shutil.copy(f"/tmp/seed_{sid}.diff", f"{dst}/patch.diff")
                shutil.copy(f"{d}/demo.py", f"{dst}/demo.py")
                meta = json.load(open(f"{d}/meta.json"))
                meta["confirmed"] = {"ran": ["git apply patch.diff in a scratch worktree of /repo HEAD",
                                             "pytest tests -> " + ot.strip(), f"demo.py on clean tree rc={rc0}", f"demo.py on mutated tree rc={rc1}"]}
                json.dump(meta, open(f"{dst}/meta.json", "w"), indent=1)
    sh(f"git -C /repo worktree remove --force {WT}")
    json.dump(results, open("/verif/seeded/confirm_log.json", "w"), indent=1)
if __name__ == "__main__":
    main()
