#!/usr/bin/env python3
"""Re-confirm every /verif/seeded/<sid> against /repo's CURRENT HEAD in a scratch worktree (patch applies, 33 tests pass,
demo FAILs with the patch and PASSes without); rewrites patch.diff when a 3-way merge was needed."""
import json, os, subprocess, sys
WT = "/tmp/seedcheck"
def sh(cmd, cwd=None, env=None):
    p = subprocess.run(cmd, shell=True, cwd=cwd, env=env, stdout=subprocess.PIPE, stderr=subprocess.STDOUT, text=True)
    return p.returncode, p.stdout
def main():
    sids = sys.argv[1:] or sorted(d for d in os.listdir("/verif/seeded") if os.path.isdir(f"/verif/seeded/{d}"))
    sh(f"git -C /repo worktree remove --force {WT}"); sh(f"rm -rf {WT}")
    rc, out = sh(f"git -C /repo worktree add --detach {WT} HEAD"); assert rc == 0, out
    env = dict(os.environ, PYTHONPATH=WT, PYTHONDONTWRITEBYTECODE="1", MPLBACKEND="Agg")
    bad = []
    for sid in sids:
        d = f"/verif/seeded/{sid}"
        sh("git reset -q --hard HEAD && git clean -fdq", cwd=WT)
        rc0, _ = sh(f"/venv/bin/python {d}/demo.py", cwd=WT, env=env)
        rc, out = sh(f"git apply {d}/patch.diff", cwd=WT)
        merged = False
        if rc != 0:
            rc, out = sh(f"git apply --3way {d}/patch.diff", cwd=WT)
            merged = rc == 0
        if rc != 0:
            print(sid, "DOES NOT APPLY"); bad.append(sid); continue
        if merged:
            sh("git reset -q", cwd=WT)
            sh(f"git diff > {d}/patch.diff", cwd=WT)
        rc1, _ = sh(f"/venv/bin/python {d}/demo.py", cwd=WT, env=env)
        _, ot = sh("/venv/bin/python -m pytest -q -p no:cacheprovider --continue-on-collection-errors tests 2>&1 | tail -1", cwd=WT, env=env)
        ok = rc0 == 0 and rc1 != 0 and "33 passed" in ot
        print(sid, "ok" if ok else f"PROBLEM clean={rc0} mutant={rc1} tests={ot.strip()}", "(re-merged)" if merged else "")
        if not ok:
            bad.append(sid)
    sh(f"git -C /repo worktree remove --force {WT}")
    print("need attention:", bad)
if __name__ == "__main__":
    main()
