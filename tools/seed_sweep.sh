#!/bin/bash
# development aid: run every registered quick check under several seeds, evidence redirected; print anything that is not OK
cd "$(dirname "$0")/.."
[ -d coq/theories ] && [ ! -f coq/Makefile ] && ./setup.sh >/dev/null 2>&1
export VERIF_EVID=$(pwd)/build/sweep_evid
mkdir -p $VERIF_EVID
TIER=${TIER:-quick}
for seed in ${SEEDS:-1 2 3 4 5 6}; do
  for p in $(python3 -c "import json;print(' '.join(c['property_id'] for c in json.load(open('MANIFEST.json'))['checks']))"); do
    out=$(VERIF_SEED=$seed ./check $p --tier $TIER 2>&1)
    rc=$?
    echo "seed=$seed $p rc=$rc $(echo "$out" | grep -c VIOLATION) violations; $(echo "$out" | tail -1 | cut -c1-100)"
    if [ $rc != 0 ]; then echo "$out" | grep -A1 VIOLATION | head -8; fi
  done
done
