"""Shared by C02 / C07 / C17: exact minimum-norm least squares over Fractions, fitted SSPOR models, Coq literals."""
from fractions import Fraction as F

import numpy as np

from . import common as C
from . import impl


def fr_mat(B):
    return [[F(float(v)) for v in row] for row in np.asarray(B)]


def solve_consistent(M, rhs):
    """one solution of the (consistent, possibly singular) square system M z = rhs over Fractions: free variables = 0"""
    n = len(M)
    A = [list(M[i]) + [rhs[i]] for i in range(n)]
    piv_cols, r = [], 0
    for c in range(n):
        p = next((i for i in range(r, n) if A[i][c] != 0), None)
        if p is None:
            continue
        A[r], A[p] = A[p], A[r]
        pv = A[r][c]
        A[r] = [v / pv for v in A[r]]
        for i in range(n):
            if i != r and A[i][c] != 0:
                f = A[i][c]
                A[i] = [a - f * b for a, b in zip(A[i], A[r])]
        piv_cols.append(c)
        r += 1
    for i in range(r, n):
        if A[i][n] != 0:
            return None
    z = [F(0)] * n
    for i, c in enumerate(piv_cols):
        z[c] = A[i][n]
    return z


def minnorm_lsq(BS, y):
    """(a, z): a = BS^T z is the minimum-norm least-squares solution of BS a = y (exact)"""
    p, m = len(BS), len(BS[0]) if BS else 0
    M = [[sum(BS[i][t] * BS[j][t] for t in range(m)) for j in range(p)] for i in range(p)]
    M2 = [[sum(M[i][k] * M[k][j] for k in range(p)) for j in range(p)] for i in range(p)]
    My = [sum(M[i][k] * y[k] for k in range(p)) for i in range(p)]
    z = solve_consistent(M2, My)
    a = [sum(BS[i][t] * z[i] for i in range(p)) for t in range(m)]
    return a, z


def exact_rank(Bq):
    M = [list(r) for r in Bq]
    rk, rows, cols = 0, len(M), len(M[0]) if M else 0
    for c in range(cols):
        piv = next((i for i in range(rk, rows) if M[i][c] != 0), None)
        if piv is None:
            continue
        M[rk], M[piv] = M[piv], M[rk]
        for i in range(rk + 1, rows):
            f = M[i][c] / M[rk][c]
            M[i] = [a - f * b for a, b in zip(M[i], M[rk])]
        rk += 1
    return rk


def fitted_model(rng, nmax=9, mmax=5, kinds=("generic",), optimizers=("QR", "CCQR", "GQR")):
    """a fitted SSPOR with a prefit-free basis on dyadic data; returns (model, X, config)"""
    from pysensors.reconstruction import SSPOR
    from . import gen
    n = int(rng.integers(2, nmax + 1))
    m = int(rng.integers(1, min(n, mmax) + 1))
    rows = m + int(rng.integers(0, 3))
    kind = kinds[int(rng.integers(0, len(kinds)))]
    X, _ = gen.training(rng, n, rows, kind)
    bk = ["Identity", "SVD", "RandomProjection"][int(rng.integers(0, 3))]
    mm = m if bk != "SVD" else max(1, min(m, n - 1, rows))
    ok = optimizers[int(rng.integers(0, len(optimizers)))]
    ocfg = {"kind": ok}
    if ok == "CCQR":
        ocfg["sensor_costs"] = (rng.integers(-8, 9, size=n) / 4.0).tolist()
    # the count requested at construction (default, below the mode count, anything up to n) must not matter once the caller sets
    # the number of sensors; integer-valued training data may arrive in an integer-typed array
    u = rng.random()
    ns_req = None if u < 0.3 else (int(rng.integers(1, mm)) if (u < 0.7 and mm >= 2) else int(rng.integers(1, n + 1)))
    if bk == "Identity" and rng.random() < 0.4:
        X = np.round(X * 8).astype(np.int64)          # the same data in integer units (entries are multiples of 1/8), held in an integer array
    elif bk == "Identity" and rng.random() < 0.45:
        X = X * 2.0 ** -float(rng.integers(34, 45))  # the same data in tiny units (exact rescaling): a basis whose entries are ~1e-10
        kind = kind + "*tiny"
        if ok == "CCQR":
            ocfg["sensor_costs"] = [0.0] * n
            ok = ok
    model = SSPOR(basis=impl.make_basis({"kind": bk, "n_basis_modes": mm}), optimizer=impl.make_optimizer(ocfg), n_sensors=ns_req)
    impl.quiet(model.fit, X, quiet=True, seed=int(rng.integers(0, 100)))
    cfg = {"X": X.tolist(), "matrix_kind": kind, "basis": {"kind": bk, "n_basis_modes": mm}, "optimizer": ocfg, "n_sensors_at_construction": ns_req,
           "dtype": str(X.dtype)}
    return model, X, cfg
