"""placeholder while the static part is being built"""


def static_part(chk):
    chk.count("static-part-not-built-yet")
