"""Stage G of C20: a fail-closed Python-ast translator from /repo/pysensors/**.py to the effect IR of coq/theories/Eff/IR.v.
Re-run on every check; the generated Coq file is compiled and `history_safe prog entries n = true` is decided by vm_compute.
Anything the translator cannot classify raises TranslationError (the check then reports the obligation as not discharged).
The tables classifying numpy / scipy / sklearn / pandas / builtin callees are trusted (and validated by the dynamic part).

Abstraction.  Every local name is a variable.  Object attributes are GLOBAL variables, one per attribute name whatever
object carries it (field-based): `self.x`, `self.basis.x`, `model.x` all read/write the global `self.x`.  Globals a
function (transitively) touches are passed to it as trailing parameters and handed back as out-variables.  Subscripts,
views (.T, .real, reshape, squeeze, ...) and containers alias their base; copies, arithmetic and constructors are fresh;
element / slice assignment, augmented assignment and mutating methods write their base in place."""
import ast
import os

from . import common as C

MODULES = ["optimizers/_qr.py", "optimizers/_ccqr.py", "optimizers/_gqr.py", "utils/_norm_calc.py", "utils/_base.py", "utils/_validation.py",
           "utils/_optimizers.py", "basis/_base.py", "basis/_identity.py", "basis/_svd.py", "basis/_random_projection.py", "basis/_custom.py",
           "reconstruction/_sspor.py", "classification/_sspoc.py", "utils/_constraints.py"]
SKIP_PREFIX = ("draw", "plot", "annotate", "sensors_dataframe")        # plotting code: no property concerns it


class TranslationError(Exception):
    pass


# external callees: result is "fresh" (new object) or "alias" (may be a view of / the same object as some argument or the
# receiver); "write" = mutates the receiver in place.  None of the others mutates an argument.
FRESH_FUNCS = {
    "len", "range", "int", "float", "abs", "isinstance", "hasattr", "type", "str", "bool", "round",
    "super", "eval", "__import__", "ValueError", "Exception", "NotImplementedError", "NotFittedError", "TypeError", "format",
    "ndim", "identity", "pinv", "qr", "solve", "lstsq", "lil_matrix", "warn", "DummyClassifier", "LinearDiscriminantAnalysis", "MultiTaskLasso",
    "OrthogonalMatchingPursuit", "check_is_fitted",
}
# may hand back (a view of) an argument, or a container / iterator whose items are (views of) the items of an argument
ALIAS_FUNCS = {"check_array", "getattr", "enumerate", "zip", "list", "tuple", "sorted", "set", "reversed", "iter", "dict", "min", "max", "next"}
NP_FRESH = {"abs", "arange", "argmax", "argsort", "array", "cos", "sin", "count_nonzero", "dot", "isin", "issubdtype", "logical_not", "matmul", "mean", "ndim",
            "nonzero", "outer", "ravel_multi_index", "shape", "sign", "sqrt", "stack", "sum", "unravel_index", "where", "zeros", "zeros_like", "max", "min",
            "median", "eye", "ones", "copy", "concatenate", "linspace", "full", "empty", "empty_like", "ones_like", "full_like", "hstack", "vstack",
            "column_stack", "argwhere", "argmin", "cumsum", "prod", "diff", "flatnonzero", "unique", "sort", "meshgrid", "tile", "repeat", "delete", "insert",
            "append", "setdiff1d", "intersect1d", "union1d", "in1d", "all", "any", "allclose", "array_equal", "isnan", "isfinite", "floor", "ceil", "round",
            "exp", "log", "square", "power", "maximum", "minimum", "clip", "einsum", "inner", "cross", "trace", "std", "var", "argpartition", "flip", "roll",
            "logical_and", "logical_or", "logical_xor", "isclose", "sign", "hypot", "arctan2", "deg2rad", "rad2deg", "tan", "searchsorted", "bincount", "indices", "finfo", "iinfo"}
NP_WRITE_FIRST = {"copyto", "put", "place", "putmask", "fill_diagonal", "put_along_axis"}      # mutate their first argument
NP_ALIAS = {"squeeze", "transpose", "asarray", "ascontiguousarray", "asfortranarray", "atleast_2d", "ravel", "reshape", "asanyarray"}
METHOD_FRESH = {"copy", "tolist", "any", "all", "sum", "max", "min", "mean", "format", "lower", "keys", "isnull", "issubset", "basename", "dirname",
                "expanduser", "splitext", "default_rng", "permutation", "norm", "det", "transform", "predict", "catch_warnings", "filterwarnings", "warn",
                "dot", "strip", "split", "join", "startswith", "endswith", "count", "index",
                "isfile", "isdir", "exists", "abspath", "realpath", "spec_from_file_location", "module_from_spec", "exec_module", "import_module"}
METHOD_ALIAS = {"conj", "reshape", "to_numpy", "get", "fit", "squeeze", "ravel", "view", "transpose", "values", "dropna", "items", "astype", "flatten"}   # dropna(inplace=...) is rejected below
METHOD_WRITE = {"append", "insert", "extend", "sort", "fill", "setflags", "update", "setdefault", "pop", "remove", "clear", "resize", "put", "itemset"}
VIEW_ATTRS = {"T", "real", "imag", "values", "flat", "loc", "iloc", "path"}
SCALAR_ATTRS = {"shape", "ndim", "dtype", "size", "pi", "integer", "int64", "int32", "int16", "int8", "float64", "linalg", "random", "ndarray", "DataFrame",
                "newaxis", "nan", "inf"}
# helpers whose in-place contract is part of the internal design (their callers hand them freshly computed arrays): they
# are analysed like every other function, but are not public entry points
INTERNAL_HELPERS = {"unconstrained", "exact_n", "max_n", "predetermined", "qr_reflector", "returnInstance"}
# attributes / names that hold pysensors objects of a known family (any other receiver is classified by the external tables)
RECEIVER_KIND = {"optimizer": "optimizers/", "basis": "basis/"}
NORM_CALC = ["unconstrained", "exact_n", "max_n", "predetermined"]
IN_PLACE_SWITCHES = ("overwrite_", "inplace", "copy_X")
# external routines that receive the caller's **keywords and can be switched by them to overwrite an argument which is NOT an argument of
# the user's own call (scipy.linalg.qr inside QR.fit: the optimizer's input - through SSPOR.fit the model's stored basis).  solve / lstsq
# inside predict receive the measurements of that very call: overwrite_b=True there is the caller's own request about the caller's own array.
SPREAD_OVERWRITES = {"qr": [0]}


class Fn:
    def __init__(self, qual, name, cls, node, module):
        self.qual, self.name, self.cls, self.node, self.module = qual, name, cls, node, module
        self.body, self.rets = [], []
        self.vars = {}
        self.globals = set()          # names of the global variables ("self", "self.x") touched, transitively
        self.callees = set()
        self.cyclic = set()


class Translator:
    def __init__(self, repo):
        self.repo = repo
        self.fns = {}            # qual -> Fn
        self.by_name = {}        # simple name -> [qual]
        self.classes = {}        # class name -> {attr names assigned in __init__}
        self.renames = {}        # module -> {local alias: imported name}
        self.bases, self.class_module = {}, {}
        self.getters, self.setters = {}, {}      # property name -> [qual]
        self.used = set()        # (table, callee name) pairs the translation relied on

    # ------------------------------------------------------------ collection
    def load(self):
        for m in MODULES:
            path = os.path.join(self.repo, "pysensors", m)
            tree = ast.parse(open(path).read(), filename=path)
            self.renames[m] = {a.asname: a.name for node in ast.walk(tree) if isinstance(node, ast.ImportFrom) for a in node.names if a.asname}
            for node in tree.body:
                if isinstance(node, ast.FunctionDef):
                    if node.decorator_list:
                        raise TranslationError(f"{node.name}: decorators are not handled")
                    if not node.name.startswith(SKIP_PREFIX):
                        self.add_fn(node.name, node.name, None, node, m)
                elif isinstance(node, ast.ClassDef):
                    self.classes.setdefault(node.name, set())
                    self.bases[node.name] = [b.id if isinstance(b, ast.Name) else getattr(b, "attr", "?") for b in node.bases]
                    self.class_module[node.name] = m
                    for sub in node.body:
                        if isinstance(sub, ast.FunctionDef) and not sub.name.startswith(SKIP_PREFIX):
                            decos = [ast.unparse(d) for d in sub.decorator_list]
                            if decos == ["property"]:
                                self.add_fn(f"{node.name}.{sub.name}", sub.name, node.name, sub, m, table=self.getters)
                            elif decos == [sub.name + ".setter"]:
                                self.add_fn(f"{node.name}.{sub.name}.setter", sub.name, node.name, sub, m, table=self.setters)
                            elif decos == ["abstractmethod"]:
                                self.add_fn(f"{node.name}.{sub.name}", sub.name, node.name, sub, m)
                            elif decos:
                                raise TranslationError(f"{node.name}.{sub.name}: decorator {decos} is not handled")
                            else:
                                self.add_fn(f"{node.name}.{sub.name}", sub.name, node.name, sub, m)
        for f in list(self.fns.values()):
            for sub in ast.walk(f.node):
                if isinstance(sub, ast.FunctionDef) and sub is not f.node:
                    self.add_fn(f"{f.qual}.<{sub.name}>", sub.name, f.cls, sub, f.module)

    def add_fn(self, qual, name, cls, node, module, table=None):
        if qual in self.fns:
            raise TranslationError(f"two definitions of {qual}")
        self.fns[qual] = Fn(qual, name, cls, node, module)
        (self.by_name if table is None else table).setdefault(name, []).append(qual)

    # ------------------------------------------------------------ per-function translation
    def var(self, f, name):
        if name == "self" or name.startswith("self."):
            f.globals.add(name)
        if name not in f.vars:
            f.vars[name] = len(f.vars)
        return f.vars[name]

    def attr(self, f, name):
        return self.var(f, "self." + name)

    def tmp(self, f):
        return self.var(f, f"%t{len(f.vars)}")

    def fresh(self, f):
        t = self.tmp(f)
        f.body.append(("fresh", t))
        return t

    def alias_of(self, f, srcs):
        t = self.tmp(f)
        f.body.append(("fresh", t))
        for s in srcs:
            f.body.append(("alias", t, s))
        return t

    def expr(self, f, e):
        """translate an expression; returns the variable holding (an over-approximation of) what the value may alias"""
        if e is None:
            return self.fresh(f)
        if isinstance(e, ast.Name):
            return self.var(f, e.id)
        if isinstance(e, ast.Constant):
            if isinstance(e.value, str) and any(sw in e.value for sw in IN_PLACE_SWITCHES):
                raise TranslationError(f"{f.qual}: string literal {e.value!r} (an in-place switch of an external routine may be set dynamically)")
            return self.fresh(f)
        if isinstance(e, ast.Attribute):
            base = self.expr(f, e.value)
            if e.attr in SCALAR_ATTRS:
                return self.fresh(f)
            if e.attr in VIEW_ATTRS:
                return self.alias_of(f, [base, self.attr(f, e.attr)])      # a view of the object (or a plain attribute of that name)
            if e.attr in self.getters:               # a property of some pysensors class: reading it may run its getter
                d = self.user_call(f, self.getters[e.attr], [], [], {})
                return self.alias_of(f, [self.attr(f, e.attr), d])
            return self.attr(f, e.attr)              # field-based: the global variable of that attribute name
        if isinstance(e, ast.Subscript):
            base = self.expr(f, e.value)
            self.expr(f, e.slice)
            return self.alias_of(f, [base])          # basic slicing gives a view; fancy indexing a copy: alias is the safe answer
        if isinstance(e, ast.Slice):
            for x in (e.lower, e.upper, e.step):
                if x is not None:
                    self.expr(f, x)
            return self.fresh(f)
        if isinstance(e, (ast.Tuple, ast.List, ast.Set)):
            return self.alias_of(f, [self.expr(f, x) for x in e.elts])
        if isinstance(e, ast.Dict):
            return self.alias_of(f, [self.expr(f, x) for x in list(e.keys) + list(e.values) if x is not None])
        if isinstance(e, ast.Starred):
            return self.expr(f, e.value)
        if isinstance(e, ast.BinOp):
            self.expr(f, e.left), self.expr(f, e.right)
            return self.fresh(f)
        if isinstance(e, ast.UnaryOp):
            self.expr(f, e.operand)
            return self.fresh(f)
        if isinstance(e, ast.BoolOp):
            return self.alias_of(f, [self.expr(f, x) for x in e.values])      # `a or b` returns one of its operands
        if isinstance(e, ast.Compare):
            self.expr(f, e.left)
            for x in e.comparators:
                self.expr(f, x)
            return self.fresh(f)
        if isinstance(e, ast.IfExp):
            self.expr(f, e.test)
            return self.alias_of(f, [self.expr(f, e.body), self.expr(f, e.orelse)])
        if isinstance(e, ast.JoinedStr):
            for x in e.values:
                if isinstance(x, ast.FormattedValue):
                    self.expr(f, x.value)
            return self.fresh(f)
        if isinstance(e, ast.DictComp):
            for g in e.generators:
                it = self.expr(f, g.iter)
                self.assign_target(f, g.target, it)
                for c in g.ifs:
                    self.expr(f, c)
            return self.alias_of(f, [self.expr(f, e.key), self.expr(f, e.value)])
        if isinstance(e, (ast.ListComp, ast.GeneratorExp, ast.SetComp)):
            for g in e.generators:
                it = self.expr(f, g.iter)
                self.assign_target(f, g.target, it)
                for c in g.ifs:
                    self.expr(f, c)
            return self.alias_of(f, [self.expr(f, e.elt)])
        if isinstance(e, ast.Lambda):
            for sub in ast.walk(e.body):      # a lambda cannot assign, but it could call a mutating method on a captured object
                if isinstance(sub, ast.Call) and isinstance(sub.func, ast.Attribute) and (sub.func.attr in METHOD_WRITE or sub.func.attr in NP_WRITE_FIRST):
                    raise TranslationError(f"{f.qual}: lambda at line {e.lineno} calls the mutating method .{sub.func.attr}()")
            return self.fresh(f)
        if isinstance(e, ast.Call):
            return self.call(f, e)
        raise TranslationError(f"{f.qual}: expression {type(e).__name__} at line {getattr(e, 'lineno', '?')} is not handled")

    def call(self, f, e):
        pos, star, kw = [], [], {}
        for a in e.args:
            if isinstance(a, ast.Starred):
                star.append(("*", self.expr(f, a.value)))
            else:
                pos.append(self.expr(f, a))
        for k in e.keywords:
            v = self.expr(f, k.value)
            if k.arg is None:
                star.append(("**", v))
            else:
                if any(sw in k.arg for sw in IN_PLACE_SWITCHES) and not (isinstance(k.value, ast.Constant) and k.value.value is False):
                    raise TranslationError(f"{f.qual}: keyword {k.arg}= at line {e.lineno} may switch an external routine to in-place operation")
                if k.arg == "out":                   # numpy's out= : the result is written into the given array
                    f.body.append(("write", v))
                kw[k.arg] = v
        args = pos + [a for _, a in star] + list(kw.values())
        fn = e.func
        recv = None
        if isinstance(fn, ast.Name):
            name = self.renames.get(f.module, {}).get(fn.id, fn.id)
        elif isinstance(fn, ast.Attribute):
            name = fn.attr
            if isinstance(fn.value, ast.Call) and isinstance(fn.value.func, ast.Name) and fn.value.func.id == "super":
                recv = self.var(f, "self")            # super().m(...): the sklearn base class
                if name == "__init__":
                    return self.fresh(f)
                if name == "fit":
                    return self.alias_of(f, [recv])
                if name == "transform":
                    return self.fresh(f)
                raise TranslationError(f"{f.qual}: super().{name} is not classified")
            recv = self.expr(f, fn.value)
        else:
            raise TranslationError(f"{f.qual}: call of {type(fn).__name__} at line {e.lineno}")
        is_np = isinstance(fn, ast.Attribute) and isinstance(fn.value, ast.Name) and fn.value.id in ("np", "numpy")
        if "copy" in kw and name not in self.by_name:      # copy=... given explicitly (array(x, copy=False), astype(t, copy=False), ...): may alias
            return self.alias_of(f, args + ([recv] if recv is not None else []))
        if is_np:
            if "out" in kw:
                return self.alias_of(f, [kw["out"]])
            if name in NP_FRESH:
                self.used.add(("np_fresh", name))
                return self.fresh(f)
            if name in NP_ALIAS:
                self.used.add(("np_alias", name))
                return self.alias_of(f, args)
            if name in NP_WRITE_FIRST and pos:
                f.body.append(("write", pos[0]))
                return self.fresh(f)
            raise TranslationError(f"{f.qual}: numpy.{name} is not classified (line {e.lineno})")
        if isinstance(fn, ast.Name) and name == "setattr":
            targets = [a for a in self.classes.get(f.cls, set()) if not a.endswith("_")]     # keyword names are the documented settings
            if not targets:
                raise TranslationError(f"{f.qual}: setattr on a class without known settings")
            for a in sorted(targets):
                f.body.append(("alias", self.attr(f, a), args[-1]))
            return self.fresh(f)
        if isinstance(fn, ast.Attribute) and isinstance(fn.value, ast.Name) and fn.value.id == "self" and name == "_norm_calc_Instance":
            return self.user_call(f, [q for n in NORM_CALC for q in self.by_name.get(n, [])], pos, star, kw)
        if isinstance(fn, ast.Name):
            if name in self.classes:                      # constructor of a pysensors class
                cands = [q for q in self.by_name.get("__init__", []) if q.startswith(name + ".")]
                if not cands:
                    return self.fresh(f)
            else:
                cands = [q for q in self.by_name.get(name, []) if self.fns[q].cls is None or "<" in q]
        else:
            cands = self.method_candidates(f, fn.value, name)
        if cands:
            return self.user_call(f, cands, pos, star, kw)
        # external callees
        if isinstance(fn, ast.Name) and name in SPREAD_OVERWRITES and any(kd == "**" for kd, _ in star):
            # the caller's keyword dictionary is forwarded to a LAPACK wrapper whose documented keywords include overwrite_*: the
            # array arguments named here may be overwritten in place unless they are fresh copies
            for i_ in SPREAD_OVERWRITES[name]:
                if i_ < len(pos):
                    f.body.append(("write", pos[i_]))
        if isinstance(fn, ast.Name):
            if name in FRESH_FUNCS or name in f.vars:      # a local callable is a user-supplied function (score, method, func): trusted not to mutate
                self.used.add(("fresh", name) if name in FRESH_FUNCS else ("user_callable", name))
                return self.fresh(f)
            if name in ALIAS_FUNCS:
                self.used.add(("alias", name))
                if name == "getattr":
                    return self.alias_of(f, args + [self.attr(f, a) for a in sorted(self.classes.get(f.cls, set()))])
                return self.alias_of(f, args)
            raise TranslationError(f"{f.qual}: external function {name} is not classified (line {e.lineno})")
        if name in METHOD_WRITE:
            self.used.add(("method_write", name))
            f.body.append(("write", recv))
            f.body += [("alias", recv, a) for a in args]
            return self.alias_of(f, [recv] + args)
        if name in METHOD_FRESH:
            self.used.add(("method_fresh", name))
            return self.fresh(f)
        if name in METHOD_ALIAS:
            self.used.add(("method_alias", name))
            return self.alias_of(f, [recv] + (args if name == "get" else []))
        raise TranslationError(f"{f.qual}: method .{name}() is not classified (line {e.lineno})")

    def family(self, cls):
        fam, changed = {cls}, True
        while changed:
            changed = False
            for c, bs in self.bases.items():
                if c in fam and any(b in self.classes and b not in fam for b in bs):
                    fam |= {b for b in bs if b in self.classes}
                    changed = True
                if c not in fam and any(b in fam for b in bs):
                    fam.add(c)
                    changed = True
        return fam

    def receiver_kind(self, e):
        """which pysensors classes the receiver of a method call may be an instance of (None = not a pysensors object)"""
        if isinstance(e, ast.Name) and e.id == "self":
            return "self"
        if isinstance(e, ast.Attribute) and isinstance(e.value, ast.Name) and e.value.id == "self" and e.attr in RECEIVER_KIND:
            return RECEIVER_KIND[e.attr]
        if isinstance(e, ast.Name) and e.id in RECEIVER_KIND:
            return RECEIVER_KIND[e.id]
        if isinstance(e, ast.Call) and isinstance(e.func, ast.Attribute) and e.func.attr == "fit":
            return self.receiver_kind(e.func.value)          # fit returns self
        return None

    def method_candidates(self, f, recv_expr, name):
        kind = self.receiver_kind(recv_expr)
        if kind == "self":
            fam = self.family(f.cls) if f.cls else set()
            return [q for q in self.by_name.get(name, []) if self.fns[q].cls in fam and "<" not in q]
        if kind is not None:
            return [q for q in self.by_name.get(name, []) if self.fns[q].cls and self.class_module[self.fns[q].cls].startswith(kind) and "<" not in q]
        if name in METHOD_FRESH or name in METHOD_ALIAS or name in METHOD_WRITE:
            return []                                        # receiver is not a pysensors object: classified by the external tables
        return [q for q in self.by_name.get(name, []) if self.fns[q].cls and "<" not in q]     # unknown receiver: every method of that name

    def user_call(self, f, cands, pos, star, kw):
        d = self.tmp(f)
        f.body.append(("fresh", d))
        for q in cands:
            f.callees.add(q)
            f.body.append(("call", q, list(pos), list(star), dict(kw), d))
        return d

    def assign_target(self, f, t, v):
        if isinstance(t, ast.Name):
            f.body.append(("alias", self.var(f, t.id), v))
        elif isinstance(t, (ast.Tuple, ast.List)):
            for x in t.elts:
                self.assign_target(f, x, v)
        elif isinstance(t, ast.Starred):
            self.assign_target(f, t.value, v)
        elif isinstance(t, ast.Attribute):
            self.expr(f, t.value)
            if (t.attr in VIEW_ATTRS or t.attr in SCALAR_ATTRS) and not (isinstance(t.value, ast.Name) and t.value.id == "self"):
                raise TranslationError(f"{f.qual}: assignment to the view attribute .{t.attr}")
            f.body.append(("alias", self.attr(f, t.attr), v))      # field-based
            if t.attr in self.setters:                # a property with a setter
                self.user_call(f, self.setters[t.attr], [v], [], {})
        elif isinstance(t, ast.Subscript):
            base = self.expr(f, t.value)
            self.expr(f, t.slice)
            f.body.append(("write", base))            # element / slice assignment mutates the container in place
            f.body.append(("alias", base, v))
        else:
            raise TranslationError(f"{f.qual}: assignment target {type(t).__name__}")

    def stmts(self, f, body):
        for s in body:
            if isinstance(s, ast.Expr):
                self.expr(f, s.value)
            elif isinstance(s, ast.Assign):
                v = self.expr(f, s.value)
                for t in s.targets:
                    self.assign_target(f, t, v)
            elif isinstance(s, ast.AnnAssign):
                if s.value is not None:
                    self.assign_target(f, s.target, self.expr(f, s.value))
            elif isinstance(s, ast.AugAssign):
                self.expr(f, s.value)
                if isinstance(s.target, ast.Name):
                    f.body.append(("write", self.var(f, s.target.id)))       # x op= y may work in place on an array
                elif isinstance(s.target, ast.Subscript):
                    f.body.append(("write", self.expr(f, s.target.value)))
                elif isinstance(s.target, ast.Attribute):
                    f.body.append(("write", self.expr(f, s.target)))
                else:
                    raise TranslationError(f"{f.qual}: augmented assignment to {type(s.target).__name__}")
            elif isinstance(s, ast.Return):
                f.rets.append(self.expr(f, s.value))
            elif isinstance(s, ast.If):
                self.expr(f, s.test)
                self.stmts(f, s.body)
                self.stmts(f, s.orelse)
            elif isinstance(s, ast.For):
                it = self.expr(f, s.iter)
                self.assign_target(f, s.target, it)
                self.stmts(f, s.body)
                self.stmts(f, s.orelse)
            elif isinstance(s, ast.While):
                self.expr(f, s.test)
                self.stmts(f, s.body)
                self.stmts(f, s.orelse)
            elif isinstance(s, ast.With):
                for it in s.items:
                    v = self.expr(f, it.context_expr)
                    if it.optional_vars is not None:
                        self.assign_target(f, it.optional_vars, v)
                self.stmts(f, s.body)
            elif isinstance(s, ast.Try):
                self.stmts(f, s.body)
                for h in s.handlers:
                    self.stmts(f, h.body)
                self.stmts(f, s.orelse)
                self.stmts(f, s.finalbody)
            elif isinstance(s, ast.Raise):
                if s.exc is not None:
                    self.expr(f, s.exc)
            elif isinstance(s, ast.Assert):
                self.expr(f, s.test)
            elif isinstance(s, (ast.Pass, ast.Import, ast.ImportFrom, ast.Break, ast.Continue)):
                pass
            elif isinstance(s, ast.FunctionDef):
                f.body.append(("fresh", self.var(f, s.name)))    # nested function: translated separately, resolved by name
            else:
                raise TranslationError(f"{f.qual}: statement {type(s).__name__} at line {s.lineno} is not handled")

    def translate_fn(self, f):
        a = f.node.args
        pos = [x.arg for x in a.posonlyargs + a.args]
        f.is_method = bool(f.cls) and "<" not in f.qual and pos[:1] == ["self"]
        if f.is_method:
            pos = pos[1:]
            self.var(f, "self")
        f.pos = pos
        f.vararg = a.vararg.arg if a.vararg else None
        f.kwonly = [x.arg for x in a.kwonlyargs]
        f.kwarg = a.kwarg.arg if a.kwarg else None
        f.explicit = pos + ([f.vararg] if f.vararg else []) + f.kwonly + ([f.kwarg] if f.kwarg else [])
        for n in f.explicit:
            self.var(f, n)
        for dflt in a.defaults + [d for d in a.kw_defaults if d is not None]:
            self.expr(f, dflt)
        self.stmts(f, f.node.body)
        if "<" in f.qual:
            # a nested function is translated on its own: a variable captured from the enclosing function would be lost, so a
            # nested function that performs any in-place write while using names it does not bind itself is not accepted
            bound = {f.vars[n] for n in f.explicit} | {s[1] for s in f.body if s[0] in ("alias", "fresh")}
            free = {v for n, v in f.vars.items() if v not in bound and not n.startswith(("%t", "self")) and n not in ("np", "numpy")}
            if free and any(s[0] == "write" for s in f.body):
                raise TranslationError(f"{f.qual}: nested function writes in place and captures names from the enclosing scope")

    def run(self):
        self.load()
        for f in self.fns.values():          # attributes assigned in __init__ = the settings of a class
            if f.name == "__init__" and f.cls:
                for n in ast.walk(f.node):
                    if isinstance(n, ast.Attribute) and isinstance(n.ctx, ast.Store) and isinstance(n.value, ast.Name) and n.value.id == "self":
                        self.classes[f.cls].add(n.attr)
        for f in self.fns.values():
            self.translate_fn(f)
        changed = True                        # globals a function touches, transitively through its callees
        while changed:
            changed = False
            for f in self.fns.values():
                for q in f.callees:
                    new = self.fns[q].globals - f.globals
                    if new:
                        f.globals |= new
                        changed = True
        order, state = [], {}                 # topological order (callees first)

        def visit(q):
            state[q] = 1
            for c in sorted(self.fns[q].callees):
                if state.get(c) == 1:
                    self.fns[q].cyclic.add(c)
                elif c not in state:
                    visit(c)
            state[q] = 2
            order.append(q)
        for q in sorted(self.fns):
            if q not in state:
                visit(q)
        self.order = order
        self.index = {q: i for i, q in enumerate(order)}
        self.all_globals = sorted({g for f in self.fns.values() for g in f.globals})
        self.gid = {g: i for i, g in enumerate(self.all_globals)}
        return self

    # ------------------------------------------------------------ emission
    def globals_of(self, f):
        return sorted(f.globals)

    def params_of(self, f):
        return list(f.explicit) + self.globals_of(f)

    def emit_call(self, f, body, s):
        _, cq, pos, star, kw, d = s
        g = self.fns[cq]
        if cq in f.cyclic or self.index[cq] >= self.index[f.qual]:
            for a in pos + [a for _, a in star] + list(kw.values()) + [self.var(f, x) for x in self.globals_of(g)]:      # recursion: most pessimistic effect
                body.append(f"SWrite {a}")
                body.append(f"SAlias {d} {a}")
                for x in self.globals_of(g):
                    body.append(f"SAlias {self.var(f, x)} {a}")
            return
        src = {p: [] for p in g.explicit}
        for i, a in enumerate(pos):
            if i < len(g.pos):
                src[g.pos[i]].append(a)
            elif g.vararg:
                src[g.vararg].append(a)
            else:
                for p in g.explicit:
                    src[p].append(a)
        for k, a in kw.items():
            if k in src and k not in (g.vararg, g.kwarg):
                src[k].append(a)
            elif g.kwarg:
                src[g.kwarg].append(a)
            else:
                for p in g.explicit:
                    src[p].append(a)
        for kind, a in star:
            if kind == "*":                             # *seq: its items fill the positional parameters that are left, and *args
                for p in g.pos[len(pos):] + ([g.vararg] if g.vararg else []):
                    src[p].append(a)
            else:                                       # **mapping: its items fill named parameters not bound otherwise, and **kwargs
                for p in g.pos[len(pos):] + g.kwonly + ([g.kwarg] if g.kwarg else []):
                    if p not in kw:
                        src[p].append(a)
        vals = []
        for p in g.explicit:
            if len(src[p]) == 1:
                vals.append(src[p][0])
            else:
                t = self.tmp(f)
                body.append(f"SFresh {t}")
                body += [f"SAlias {t} {a}" for a in src[p]]
                vals.append(t)
        gl = [self.var(f, x) for x in self.globals_of(g)]
        body.append(f"SCall {self.index[cq]} [{'; '.join(map(str, vals + gl))}] {d} [{'; '.join(map(str, gl))}]")

    def emit(self):
        lines = ["(* GENERATED by harness/effects.py from /repo on every run - do not edit *)",
                 "From Coq Require Import List Arith Bool. Import ListNotations.", "From PS Require Import Eff.IR Eff.History.", ""]
        for q in self.order:
            f = self.fns[q]
            body = []
            for s in f.body:
                if s[0] == "alias":
                    body.append(f"SAlias {s[1]} {s[2]}")
                elif s[0] == "fresh":
                    body.append(f"SFresh {s[1]}")
                elif s[0] == "write":
                    body.append(f"SWrite {s[1]}")
                else:
                    self.emit_call(f, body, s)
            params = self.params_of(f)
            pids = [self.var(f, p) for p in params]
            outs = [self.var(f, p) for p in self.globals_of(f)]
            lines.append(f"(* {q}  [{f.module}]  params: {', '.join(params)} *)")
            lines.append(f"Definition fn_{self.index[q]} : func := {{| f_params := [{'; '.join(map(str, pids))}]; f_body := [{'; '.join(body)}]; "
                         f"f_rets := [{'; '.join(map(str, f.rets))}]; f_outs := [{'; '.join(map(str, outs))}] |}}.")
        lines.append("")
        lines.append("Definition prog : program := [" + "; ".join("fn_%d" % i for i in range(len(self.order))) + "].")
        ents = []
        for q in self.entries():
            f = self.fns[q]
            ents.append(f"{{| e_fn := {self.index[q]}; e_nexp := {len(f.explicit)}; e_fields := [{'; '.join(str(self.gid[g]) for g in self.globals_of(f))}] |}}")
        lines.append("Definition entries : list entry := [\n  " + ";\n  ".join(ents) + "\n].")
        lines.append(f"Definition nglobals : nat := {len(self.all_globals)}.")
        return "\n".join(lines) + "\n"

    def entries(self):
        """public entry points: every function or method whose name is public (or a constructor), except the internal helpers"""
        return [q for q in self.order if "<" not in q and (not self.fns[q].name.startswith("_") or self.fns[q].name == "__init__")
                and self.fns[q].name not in INTERNAL_HELPERS]

    # ------------------------------------------------------------ explanation of a failed obligation (python mirror, diagnostics only)
    def explain(self, q, pname, depth=0, seen=frozenset()):
        f = self.fns[q]
        if pname not in f.vars:
            return []
        inv = {v: k for k, v in f.vars.items()}
        parent = {f.vars[pname]: None}
        changed = True
        while changed:
            changed = False
            for s in f.body:
                if s[0] == "alias" and s[2] in parent and s[1] not in parent:
                    parent[s[1]] = s[2]
                    changed = True
                elif s[0] == "call":
                    used = [a for a in s[2] + [a for _, a in s[3]] + list(s[4].values()) if a in parent]
                    if used and s[5] not in parent:
                        parent[s[5]] = used[0]          # coarse: the result may alias an argument
                        changed = True

        def chain(v):
            out = []
            while v is not None and len(out) < 12:
                out.append(inv.get(v, str(v)))
                v = parent[v]
            return " <- ".join(x for x in out if not x.startswith("%t")) or "?"
        lines = []
        for s in f.body:
            if s[0] == "write" and s[1] in parent:
                lines.append("  " * depth + f"{q}: in-place write to {chain(s[1])}")
            elif s[0] == "call" and (q, s[1]) not in seen and depth < 5:
                g = self.fns[s[1]]
                for i, a in enumerate(s[2]):
                    if a in parent and i < len(g.pos):
                        sub = self.explain(s[1], g.pos[i], depth + 1, seen | {(q, s[1])})
                        if sub:
                            lines.append("  " * depth + f"{q}: passes {chain(a)} to {s[1]}({g.pos[i]})")
                            lines += sub
                for k, a in s[4].items():
                    if a in parent and k in g.explicit:
                        sub = self.explain(s[1], k, depth + 1, seen | {(q, s[1])})
                        if sub:
                            lines.append("  " * depth + f"{q}: passes {chain(a)} to {s[1]}({k}=)")
                            lines += sub
                for gname in self.globals_of(g):
                    if gname != "self" and gname in f.vars and f.vars[gname] in parent:
                        sub = self.explain(s[1], gname, depth + 1, seen | {(q, s[1])})
                        if sub:
                            lines.append("  " * depth + f"{q}: {chain(f.vars[gname])} is visible to {s[1]}")
                            lines += sub
        return list(dict.fromkeys(lines))[:14]


def static_part(chk):
    try:
        tr = Translator(C.REPO).run()
        src = tr.emit()
    except TranslationError as e:
        chk.violation("proof", "translator-fail-closed", f"stage G: the translator cannot classify a construct of the current source: {e}", {"error": str(e)})
        chk.extra["static"] = {"error": str(e)}
        return
    from . import effects_tables
    chk.extra["external_tables"] = effects_tables.validate(tr.used, chk)
    ents = tr.entries()
    body = (src + "\nEval vm_compute in history_safe_fast prog entries nglobals.\n"
            "Eval vm_compute in tainted_with (summaries_fast prog) entries nglobals.\n"
            "Eval vm_compute in map (fun e => match nth_error (summaries_fast prog) (e_fn e) with Some sm => s_writes sm | None => [] end) entries.\n")
    res = C.coq_eval("C20", [("Gen_effects", body)], timeout=1500)[0]
    if not res["ok"]:
        chk.violation("proof", "generated-model-does-not-compile", "stage G: coqc failed on the generated effect model: " + res["log"][-400:], {"log": res["log"][-1500:]})
        return
    safe, tainted, writes = res["values"]
    tainted_names = sorted(tr.all_globals[i] for i in tainted)
    n_ob = sum(len(tr.params_of(tr.fns[q])) for q in ents)
    bad = []
    for q, ws in zip(ents, writes):
        f = tr.fns[q]
        ps = tr.params_of(f)
        for i in ws:
            if i < len(f.explicit):
                bad.append((q, ps[i], "explicit"))
            elif ps[i] in tainted_names:
                bad.append((q, ps[i], "tainted"))
    chk.extra["static"] = {"functions_translated": len(tr.order), "statements": sum(len(f.body) for f in tr.fns.values()), "entry_points": len(ents),
                           "globals": len(tr.all_globals), "globals_that_may_hold_caller_arrays": tainted_names,
                           "obligations (entry point x parameter: never written in place unless an attribute that never holds a caller array)": n_ob,
                           "history_safe": bool(safe is True)}
    if chk.proof:
        chk.proof["obligations"] = chk.proof.get("obligations", 0) + n_ob
        chk.proof["discharged"] = chk.proof.get("discharged", 0) + (n_ob - len(bad) if (safe is True or bad) else 0)
    chk.count("static_entry_points", len(ents))
    chk.count("static_obligations", n_ob)
    if safe is True:
        chk.count("static_history_safe")
        return
    if not bad:
        chk.violation("proof", "history-safe-false", "stage G: history_safe evaluates to false on the regenerated model (ill-formed entry or taint set not closed)", {})
    for q, p, why in bad:
        f = tr.fns[q]
        path = tr.explain(q, p)
        what = (f"stage G: on the model regenerated from the source, {q} may write its argument `{p}` in place" if why == "explicit" else
                f"stage G: {q} may write the attribute {p} in place, and that attribute may hold an array supplied by a caller")
        chk.violation("proof", f"may-write:{q}:{p}", what + ("; " + " | ".join(x.strip() for x in path[:4]) if path else ""),
                      {"entry": q, "parameter": p, "module": f.module, "alias_and_write_chain": path,
                       "theorem": "C20_history_safe_sound: the obligation `history_safe prog entries nglobals = true` no longer evaluates to true"})
