"""Shared machinery: paths, Coq stages (P: proofs, M: model evaluation), evidence, replays,
known findings and the verdict.  Every check is `./check Cxx --tier quick|thorough`."""
import fcntl
import hashlib
import json
import os
import re
import subprocess
import sys
import time
from concurrent.futures import ThreadPoolExecutor
from fractions import Fraction

VERIF = os.path.dirname(os.path.dirname(os.path.abspath(__file__)))
REPO = os.environ.get("VERIF_REPO", "/repo")
COQ = os.path.join(VERIF, "coq")
BUILD = os.path.join(VERIF, "build")
EVID = os.environ.get("VERIF_EVID", os.path.join(VERIF, "evidence"))
REPLAYS = os.path.join(EVID, "replays")
GUARD = "PYSENSORS_VERIF"

FORBIDDEN = [r"\bAdmitted\b", r"\badmit\b", r"\bAxiom\b", r"\bParameter\b", r"\bConjecture\b",
             r"Unset\s+Guard", r"bypass_check", r"type-in-type", r"impredicative-set",
             r"\bAdmit\s+Obligations\b", r"Unset\s+Universe\s+Checking", r"Unset\s+Positivity"]

# axioms of the standard library that a theorem may depend on (named in DESIGN.md section 7)
ALLOWED_AXIOMS = {
    "ClassicalDedekindReals.sig_not_dec",
    "ClassicalDedekindReals.sig_forall_dec",
    "FunctionalExtensionality.functional_extensionality_dep",
    "Classical_Prop.classic",
}


def setup_import_path():
    """Make `import pysensors` resolve to REPO's current working tree."""
    os.environ["PYTHONHASHSEED"] = "0"
    os.environ[GUARD] = "1"
    os.environ.setdefault("MPLBACKEND", "Agg")
    if REPO in sys.path:
        sys.path.remove(REPO)
    sys.path.insert(0, REPO)
    import warnings
    warnings.filterwarnings("ignore")
    import pysensors  # noqa
    assert os.path.realpath(pysensors.__file__).startswith(os.path.realpath(REPO)), pysensors.__file__


# ------------------------------------------------------------------ Coq stages
def _run(cmd, cwd=None, timeout=600):
    try:
        p = subprocess.run(cmd, cwd=cwd, stdout=subprocess.PIPE, stderr=subprocess.STDOUT,
                           timeout=timeout, text=True)
        return p.returncode, p.stdout
    except subprocess.TimeoutExpired as e:
        return 124, (e.stdout or "") + "\nTIMEOUT"


def coq_build(timeout=1800):
    """Full .vo build of the development (incremental), serialised by a file lock."""
    os.makedirs(BUILD, exist_ok=True)
    with open(os.path.join(BUILD, ".coq.lock"), "w") as lk:
        fcntl.flock(lk, fcntl.LOCK_EX)
        files = sorted(
            os.path.relpath(os.path.join(d, f), COQ)
            for d, _, fs in os.walk(os.path.join(COQ, "theories")) for f in fs
            if f.endswith(".v") and not f.startswith("."))
        stamp = os.path.join(BUILD, ".coqfiles")
        prev = open(stamp).read() if os.path.exists(stamp) else ""
        if not os.path.exists(os.path.join(COQ, "Makefile")) or prev != "\n".join(files):
            open(stamp, "w").write("\n".join(files))
            rc, out = _run(["coq_makefile", "-f", "_CoqProject", "-o", "Makefile"] + files, cwd=COQ)
            if rc != 0:
                return False, out
        rc, out = _run(["timeout", str(timeout), "make", "-j16"], cwd=COQ, timeout=timeout + 30)
        return rc == 0, out


def scan_forbidden():
    hits = []
    for d, _, fs in os.walk(os.path.join(COQ, "theories")):
        for f in fs:
            if not f.endswith(".v"):
                continue
            txt = open(os.path.join(d, f)).read()
            txt = re.sub(r"\(\*.*?\*\)", "", txt, flags=re.S)
            for pat in FORBIDDEN:
                for m in re.finditer(pat, txt):
                    hits.append(f"{f}:{m.group(0)}")
    for f in ("_CoqProject",):
        txt = open(os.path.join(COQ, f)).read()
        for pat in (r"type-in-type", r"impredicative-set", r"-vos", r"bypass"):
            if re.search(pat, txt):
                hits.append(f"{f}:{pat}")
    return hits


def coq_properties(prop):
    """Stage P.  Rebuild, then recompile theories/Properties/<prop>.v on its own so that its
    Print Assumptions output is fresh; parse it.  Returns a dict."""
    t0 = time.time()
    res = {"ok": False, "theorems": [], "axioms": {}, "obligations": 0, "discharged": 0,
           "log": "", "forbidden": [], "broken": None}
    ok, out = coq_build()
    res["log"] = out[-4000:]
    src = os.path.join(COQ, "theories", "Properties", f"{prop}.v")
    text = open(src).read()
    stated = re.findall(r"^\s*Theorem\s+(\w+)", text, flags=re.M)
    res["obligations"] = len(stated)
    res["forbidden"] = scan_forbidden()
    if not ok:
        m = re.search(r'File "([^"]+)", line (\d+)', out)
        res["broken"] = f"build failed: {m.group(0) if m else 'see log'}"
        res["wall_s"] = time.time() - t0
        return res
    tmpd = os.path.join(BUILD, "props", f"{prop}_{os.getpid()}")
    os.makedirs(tmpd, exist_ok=True)
    tmpv = os.path.join(tmpd, f"{prop}_fresh.v")
    open(tmpv, "w").write(text)
    rc, out2 = _run(["timeout", "600", "coqc", "-Q", os.path.join(COQ, "theories"), "PS", tmpv], timeout=630)
    res["log"] += "\n" + out2[-4000:]
    for f in os.listdir(tmpd):
        try:
            os.remove(os.path.join(tmpd, f))
        except OSError:
            pass
    try:
        os.rmdir(tmpd)
    except OSError:
        pass
    if rc != 0:
        res["broken"] = "Properties file does not compile: " + out2.strip().splitlines()[-1] if out2.strip() else "coqc failed"
        res["wall_s"] = time.time() - t0
        return res
    # Print Assumptions blocks appear in order of the theorems
    blocks = re.split(r"(?=Closed under the global context|Axioms:)", out2)
    blocks = [b for b in blocks if b.startswith("Closed") or b.startswith("Axioms:")]
    printed = re.findall(r"^\s*Print\s+Assumptions\s+(\w+)", text, flags=re.M)
    bad = []
    for name, b in zip(printed, blocks):
        if b.startswith("Closed"):
            res["axioms"][name] = []
        else:
            ax = re.findall(r"^([A-Za-z_][\w\.']*)\s*:", b, flags=re.M)
            ax = [a for a in ax if a != "Axioms"]
            res["axioms"][name] = ax
            for a in ax:
                if a not in ALLOWED_AXIOMS:
                    bad.append(f"{name} depends on {a}")
    res["theorems"] = stated
    missing = [t for t in stated if t not in res["axioms"]]
    if len(blocks) != len(printed) or missing:
        res["broken"] = f"Print Assumptions missing for {missing or 'some theorem'}"
    elif bad:
        res["broken"] = "unexpected axiom: " + "; ".join(bad)
    elif res["forbidden"]:
        res["broken"] = "forbidden construct in development: " + ", ".join(res["forbidden"][:5])
    else:
        res["ok"] = True
        res["discharged"] = len(stated)
    res["wall_s"] = time.time() - t0
    return res


def coq_eval(prop, files, jobs=12, timeout=900):
    """Stage M.  `files` is a list of (name, coq_source).  Each source is compiled with coqc; the
    values printed by its `Eval vm_compute in` commands are returned as python lists (nested lists of
    ints), one list of results per file, in order."""
    d = os.path.join(BUILD, "cases", f"{prop}_{os.getpid()}")
    os.makedirs(d, exist_ok=True)

    def one(item):
        name, src = item
        path = os.path.join(d, name + ".v")
        open(path, "w").write(src)
        rc, out = _run(["timeout", str(timeout), "coqc", "-Q", os.path.join(COQ, "theories"), "PS", path],
                       timeout=timeout + 30)
        if rc != 0:
            return {"ok": False, "log": out[-2000:], "values": []}
        vals = []
        for m in re.finditer(r"=\s*(.*?)\n\s*:\s", out, flags=re.S):
            vals.append(parse_coq_value(m.group(1)))
        return {"ok": True, "log": "", "values": vals}

    with ThreadPoolExecutor(max_workers=jobs) as ex:
        results = list(ex.map(one, files))
    for f in os.listdir(d):
        try:
            os.remove(os.path.join(d, f))
        except OSError:
            pass
    try:
        os.rmdir(d)
    except OSError:
        pass
    return results


def parse_coq_value(s):
    """Parse printed Coq values made of lists, pairs, numbers, booleans, Some/None into python."""
    s = s.replace("%nat", "").replace("%Z", "").replace("%positive", "").replace("%N", "")
    toks = re.findall(r"\[|\]|\(|\)|;|,|-?\d+|true|false|Some|None|[A-Za-z_][\w']*", s)
    pos = 0

    def val():
        nonlocal pos
        t = toks[pos]
        if t == "[":
            pos += 1
            out = []
            while toks[pos] != "]":
                out.append(val())
                if toks[pos] == ";":
                    pos += 1
            pos += 1
            return out
        if t == "(":
            pos += 1
            out = [val()]
            while toks[pos] == ",":
                pos += 1
                out.append(val())
            assert toks[pos] == ")", toks[pos]
            pos += 1
            return out[0] if len(out) == 1 else tuple(out)
        if t == "Some":
            pos += 1
            return ("Some", val())
        pos += 1
        if t == "true":
            return True
        if t == "false":
            return False
        if t == "None":
            return None
        if re.fullmatch(r"-?\d+", t):
            return int(t)
        return t

    v = val()
    return v


# ------------------------------------------------------------------ Coq literal printers
def cnat(i):
    return f"{int(i)}%nat"


def cnatlist(l):
    return "[" + "; ".join(str(int(i)) for i in l) + "]%nat" if len(l) else "(@nil nat)"


def cz(i):
    i = int(i)
    return f"({i})%Z"


def czlist(l):
    return "[" + "; ".join(f"({int(i)})" if int(i) < 0 else str(int(i)) for i in l) + "]%Z" if len(l) else "(@nil Z)"


def cbool(b):
    return "true" if b else "false"


def cq(x):
    """A rational (Fraction, int or finite float) as a Qc literal `(q a b)`."""
    fr = Fraction(x) if not isinstance(x, Fraction) else x
    return f"(q ({fr.numerator}) {fr.denominator})"


def cqlist(l):
    return "[" + "; ".join(cq(x) for x in l) + "]" if len(l) else "(@nil Qc)"


def cqmat(m):
    return "[" + "; ".join(cqlist(r) for r in m) + "]" if len(m) else "(@nil (list Qc))"


# ------------------------------------------------------------------ findings / verdict
def load_known():
    p = os.path.join(VERIF, "known_findings.json")
    if not os.path.exists(p):
        return []
    return json.load(open(p))["findings"]


class Check:
    """Collects what one run of one property's check covered and produces evidence + verdict."""

    def __init__(self, prop, tier, seed):
        self.prop, self.tier, self.seed = prop, tier, seed
        self.t0 = time.time()
        self.evaluations = 0
        self.hashes = set()
        self.samples = []
        self.counts = {}
        self.violations = []      # dicts: kind, sig, what, data
        self.proof = None
        self.extra = {}
        self.assumptions = []
        self.rule = ""
        self.traces = 0

    def count(self, key, n=1):
        self.counts[key] = self.counts.get(key, 0) + n

    def case(self, obj, nontrivial=True, sample_cap=4):
        """Register one explored case (canonical-JSON hashed for distinctness)."""
        self.evaluations += 1
        if nontrivial:
            h = hashlib.sha1(json.dumps(obj, sort_keys=True, default=str).encode()).hexdigest()
            if h not in self.hashes:
                self.hashes.add(h)
                if len(self.samples) < sample_cap:
                    self.samples.append(obj)

    def violation(self, kind, sig, what, data):
        """kind: impl (real code breaks the property on `data`), correspondence (model and code
        differ on `data`), proof (a theorem no longer checks)."""
        self.violations.append({"kind": kind, "sig": sig, "what": what, "data": data})

    def finish(self, trusted_base, checker_cmd, explanation=""):
        known = [k for k in load_known() if k["property"] == self.prop and k["status"] == "known"]
        known_sigs = {k["sig"]: k for k in known}
        reported_known = {}
        unlisted = []
        for v in self.violations:
            if v["sig"] in known_sigs and v["kind"] in ("impl", "correspondence"):
                reported_known.setdefault(v["sig"], v)
            else:
                unlisted.append(v)
        proof = self.proof or {}
        cov = {
            "obligations": max(1, proof.get("obligations", 0)),
            "discharged": proof.get("discharged", 0),
            "checker_cmd": checker_cmd,
            "trusted_base": trusted_base,
            "evaluations": self.evaluations,
            "distinct_nontrivial": len(self.hashes),
            "rule": self.rule,
            "samples": self.samples[:6] or [{"note": "no case explored"}],
            "traces_validated_against_impl": self.traces,
            "theorems": proof.get("theorems", []),
            "axioms_printed": proof.get("axioms", {}),
            "verdict_counts": self.counts,
            "explanation": explanation,
        }
        cov.update(self.extra)
        ev = {
            "property_id": self.prop, "tier": self.tier, "seed": self.seed, "level": "proof",
            "coverage": cov, "assumptions": self.assumptions or list(trusted_base),
            "wall_s": round(time.time() - self.t0, 2),
            "violations": len(unlisted),
            "known_findings_reproduced": sorted(reported_known),
        }
        os.makedirs(EVID, exist_ok=True)
        with open(os.path.join(EVID, f"{self.prop}.json"), "w") as f:
            json.dump(ev, f, indent=1, default=str)
        for sig, v in reported_known.items():
            print(f"KNOWN-FINDING: property={self.prop} {known_sigs[sig]['what']}")
        if not unlisted:
            print(f"OK property={self.prop} tier={self.tier} evaluations={self.evaluations} "
                  f"distinct={len(self.hashes)} theorems={proof.get('discharged', 0)}/{proof.get('obligations', 0)} "
                  f"counts={json.dumps(self.counts, sort_keys=True)} wall={ev['wall_s']}s")
            return 0
        os.makedirs(REPLAYS, exist_ok=True)
        # an implementation-level failing input takes precedence as the replay
        impl = [v for v in unlisted if v["kind"] == "impl"]
        seen = set()
        for v in (impl or unlisted)[:5]:
            if v["sig"] in seen:
                continue
            seen.add(v["sig"])
            h = hashlib.sha1(json.dumps(v, sort_keys=True, default=str).encode()).hexdigest()[:10]
            path = os.path.join(REPLAYS, f"{self.prop}-{h}.json")
            with open(path, "w") as f:
                json.dump({"property": self.prop, **v}, f, indent=1, default=str)
            tail = "" if v["kind"] == "impl" else " no-failing-input-found"
            print(f"VIOLATION property={self.prop} replay={path}{tail}")
            print(f"  [{v['kind']}] {v['sig']}: {v['what']}")
        if impl:
            for v in [v for v in unlisted if v["kind"] != "impl"][:4]:
                print(f"  also broken: [{v['kind']}] {v['sig']}: {v['what'][:300]}")
        return 1


def fr(x):
    """exact rational of a python/numpy number"""
    return Fraction(float(x)) if not isinstance(x, (int, Fraction)) else Fraction(x)
