"""Shared by C05 / C06: generators of region settings, real GQR runs with traces, Coq literals."""
import numpy as np

from . import common as C
from . import gqr_trace, impl
from .sspoc_util import scale_ints

OPT = {"": "OFree", "exact_n": "OExact", "max_n": "OMax", "predetermined": "OPre"}


def coq_settings(L, A, ns, s):
    nsq = "None" if ns is None else f"(Some {int(ns)})"
    return f"(G {C.cnatlist(L)} {C.cnatlist(A)} {nsq} {int(s)})"


_shared = {}


def run_gqr(B, opt, L, A, N, s, reuse=False):
    """real GQR with a trace; returns (pivots, steps).  With reuse=True one long-lived GQR object serves every call (all settings are
    passed on every call, so it must behave like a fresh optimizer: a refit leaves no trace of the earlier option)"""
    from pysensors.optimizers import GQR
    steps = []
    with gqr_trace.trace_gqr(steps):
        if reuse:
            g = _shared.setdefault("gqr", GQR())
            kws = dict(constraint_option="")
        else:
            g = GQR()
            kws = {}
        if opt != "":
            kws = dict(idx_constrained=np.array(L, dtype=int), n_sensors=N, n_const_sensors=s, all_sensors=np.array(A, dtype=int), constraint_option=opt)
        piv = impl.quiet(g.fit, B.copy(), **kws).get_sensors()
    return [int(i) for i in piv], steps


def run_gqr_partial(B, opt, L, A, N, s, s2):
    """one GQR object: a fit with the full settings, then a refit that passes ONLY the new allowance (the other settings stay in
    force, as GQR keeps them on the object); returns the second fit's (pivots, steps)"""
    from pysensors.optimizers import GQR
    g = GQR()
    impl.quiet(g.fit, B.copy(), idx_constrained=np.array(L, dtype=int), n_sensors=N, n_const_sensors=s, all_sensors=np.array(A, dtype=int),
               constraint_option=opt)
    steps = []
    with gqr_trace.trace_gqr(steps):
        piv = impl.quiet(g.fit, B.copy(), n_const_sensors=s2).get_sensors()
    return [int(i) for i in piv], steps


def run_gqr_edited(B, opt, L_first, L, A, N, s):
    """one GQR object; the caller keeps ONE region list and ONE ranking array, fits, edits the region list in place, fits again passing
    the same objects; returns the second fit's (pivots, steps)"""
    from pysensors.optimizers import GQR
    g = GQR()
    Lobj = [int(v) for v in L_first]
    Aobj = np.array(A, dtype=int)
    impl.quiet(g.fit, B.copy(), idx_constrained=Lobj, n_sensors=N, n_const_sensors=s, all_sensors=Aobj, constraint_option=opt)
    Lobj[:] = [int(v) for v in L]
    steps = []
    with gqr_trace.trace_gqr(steps):
        piv = impl.quiet(g.fit, B.copy(), idx_constrained=Lobj, n_sensors=N, n_const_sensors=s, all_sensors=Aobj, constraint_option=opt).get_sensors()
    return [int(i) for i in piv], steps


def listing(rng, L, A):
    """the same region listed in another way: sorted, in rank order, descending, shuffled, or with repeats"""
    form = ["sorted", "rank-order", "descending", "shuffled", "repeats", "repeats"][int(rng.integers(0, 6))]
    if form == "sorted" or not L:
        return list(L), "sorted"
    if form == "rank-order":
        return [a for a in A if a in L], form
    if form == "descending":
        return sorted(L, reverse=True), form
    if form == "shuffled":
        return [int(v) for v in rng.permutation(L)], form
    return [int(v) for v in rng.permutation(list(L) + [L[int(rng.integers(0, len(L)))] for _ in range(int(rng.integers(1, 3)))])], form


def run_gqr_own(B, opt, L, N, s):
    """one GQR object ranks B without constraints, and the very array it hands back is then given to the same object as all_sensors
    (the usual way to obtain all_sensors when no second optimizer is at hand); returns (pivots, steps, all_sensors as a list, intact?)"""
    from pysensors.optimizers import GQR
    g = GQR()
    r = impl.quiet(g.fit, B.copy()).get_sensors()
    A = [int(i) for i in r]
    steps = []
    with gqr_trace.trace_gqr(steps):
        piv = impl.quiet(g.fit, B.copy(), idx_constrained=np.array(L, dtype=int), n_sensors=N, n_const_sensors=s, all_sensors=r,
                         constraint_option=opt).get_sensors()
    return [int(i) for i in piv], steps, A, [int(i) for i in r] == A


def table_from_steps(steps, n):
    """norm of every sensor at every step as exact scaled integers (0 for sensors already ranked).  The table stops before the
    first step whose norms are not finite (beyond the first n_sensors steps every candidate may be masked; the loop then
    'reflects' with an unnormalised vector and the trailing block blows up - no property speaks about those steps)"""
    good = []
    for st in steps:
        if not all(np.isfinite(v) for v in st["dlens"]):
            break
        good.append(st)
    steps = good
    vals = []
    for st in steps:
        vals += st["dlens"]
    ints, shift = scale_ints(vals)
    table, k = [], 0
    for st in steps:
        row = [0] * n
        j = st["j"]
        for i, c in enumerate(st["p"][j:]):
            row[c] = ints[k + i]
        k += len(st["dlens"])
        table.append(row)
    return table


def exact_residuals(B, picks):
    """squared residual norm of every sensor row before each pick, in exact rational arithmetic (pivoted Cholesky on the Gram
    matrix, a zero pivot removes nothing): independent of whatever norms the implementation's loop works with"""
    from fractions import Fraction as F
    n = B.shape[0]
    Bq = [[F(float(v)) for v in row] for row in B]
    G = [[sum(x * y for x, y in zip(Bq[a], Bq[b])) for b in range(n)] for a in range(n)]
    out = []
    for p in picks:
        out.append([G[a][a] for a in range(n)])
        if G[p][p] != 0:
            gp = G[p][p]
            col = [G[a][p] for a in range(n)]
            G = [[G[a][b] - col[a] * col[b] / gp for b in range(n)] for a in range(n)]
    return out


def degenerate_steps(B, piv, N, rel=1e-9):
    """does some not-yet-ranked sensor have an exactly zero / numerically negligible (relative to its own row norm) residual
    at one of the first N steps?  (the counting theorems need positive residuals)"""
    res = exact_residuals(B, piv[:N])
    zero = tiny = False
    for j, row in enumerate(res):
        for c in piv[j:]:
            if row[c] == 0:
                zero = True
            elif float(row[c]) < (rel ** 2) * float(res[0][c]):
                tiny = True
    return zero, tiny, res


def gen_region_case(rng, nmax=9, mmax=5, feasible_only=True, graded=0.0, tiny=0.0, ties=0.0, faint=0.0):
    n = int(rng.integers(3, nmax + 1))
    m = int(rng.integers(2, min(n, mmax) + 1))
    B = rng.integers(-40, 41, size=(n, m)) / 8.0
    if rng.random() < ties:
        B = rng.integers(-3, 4, size=(n, m)).astype(float)        # small integers: exact ties between residual norms do occur
    k = min(n, m)
    N = int(rng.integers(1, k + 1))
    Lsize = int(rng.integers(0, n + 1))
    L = sorted(rng.choice(n, size=Lsize, replace=False).tolist())
    s = int(rng.integers(0, N + 1))
    if feasible_only:
        # region holds at least s sensors, at least N - s outside
        tries = 0
        while not (s <= len(L) and N - s <= n - len(L)) and tries < 50:
            Lsize = int(rng.integers(0, n + 1))
            L = sorted(rng.choice(n, size=Lsize, replace=False).tolist())
            s = int(rng.integers(0, N + 1))
            tries += 1
        if not (s <= len(L) and N - s <= n - len(L)):
            L, s = [], 0
    if rng.random() < 0.2:
        # many exactly zero entries: pivot columns whose leading entry in the trailing block is exactly 0
        B = np.where(rng.random(B.shape) < 0.4, 0.0, B)
    if rng.random() < tiny:
        # entries that are zero only up to round-off (1e-13 ... 1e-19 of the others): leading entries of pivot columns among them
        mask = rng.random(B.shape) < 0.35
        B = np.where(mask, rng.choice([-1.0, 1.0], size=B.shape) * 2.0 ** -rng.integers(44, 64, size=B.shape), B)
    if L and len(L) < n and rng.random() < faint:
        # one whole class (the region, or everything outside it) is faint - 2^-55 ... 2^-70 of the other - but independent and non-zero:
        # a constraint that has to force sensors of that class must still find them
        B = B.copy()
        cls = L if rng.random() < 0.5 else [c for c in range(n) if c not in L]
        B[cls] *= 2.0 ** -float(rng.integers(55, 71))
    elif L and rng.random() < graded:
        # badly scaled data: the region rows live on a scale 2^27 .. 2^32 times larger (exact in doubles)
        B = B.copy()
        B[L] *= float(2 ** int(rng.integers(27, 33)))
    return B, n, m, N, L, s
