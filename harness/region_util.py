"""Shared by C05 / C06: generators of region settings, real GQR runs with traces, Coq literals."""
import numpy as np

from . import common as C
from . import gqr_trace, impl
from .sspoc_util import scale_ints

OPT = {"": "OFree", "exact_n": "OExact", "max_n": "OMax", "predetermined": "OPre"}


def coq_settings(L, A, ns, s):
    nsq = "None" if ns is None else f"(Some {int(ns)})"
    return f"(G {C.cnatlist(L)} {C.cnatlist(A)} {nsq} {int(s)})"


_shared = {}


def run_gqr(B, opt, L, A, N, s, reuse=False):
    """real GQR with a trace; returns (pivots, steps).  With reuse=True one long-lived GQR object serves every call (all settings are
    passed on every call, so it must behave like a fresh optimizer: a refit leaves no trace of the earlier option)"""
    from pysensors.optimizers import GQR
    steps = []
    with gqr_trace.trace_gqr(steps):
        if reuse:
            g = _shared.setdefault("gqr", GQR())
            kws = dict(constraint_option="")
        else:
            g = GQR()
            kws = {}
        if opt != "":
            kws = dict(idx_constrained=np.array(L, dtype=int), n_sensors=N, n_const_sensors=s, all_sensors=np.array(A, dtype=int), constraint_option=opt)
        piv = impl.quiet(g.fit, B.copy(), **kws).get_sensors()
    return [int(i) for i in piv], steps


def table_from_steps(steps, n):
    """norm of every sensor at every step as exact scaled integers (0 for sensors already ranked)"""
    vals = []
    for st in steps:
        vals += st["dlens"]
    ints, shift = scale_ints(vals)
    table, k = [], 0
    for st in steps:
        row = [0] * n
        j = st["j"]
        for i, c in enumerate(st["p"][j:]):
            row[c] = ints[k + i]
        k += len(st["dlens"])
        table.append(row)
    return table


def gen_region_case(rng, nmax=9, mmax=5, feasible_only=True):
    n = int(rng.integers(3, nmax + 1))
    m = int(rng.integers(2, min(n, mmax) + 1))
    B = rng.integers(-40, 41, size=(n, m)) / 8.0
    k = min(n, m)
    N = int(rng.integers(1, k + 1))
    Lsize = int(rng.integers(0, n + 1))
    L = sorted(rng.choice(n, size=Lsize, replace=False).tolist())
    s = int(rng.integers(0, N + 1))
    if feasible_only:
        # region holds at least s sensors, at least N - s outside
        tries = 0
        while not (s <= len(L) and N - s <= n - len(L)) and tries < 50:
            Lsize = int(rng.integers(0, n + 1))
            L = sorted(rng.choice(n, size=Lsize, replace=False).tolist())
            s = int(rng.integers(0, N + 1))
            tries += 1
        if not (s <= len(L) and N - s <= n - len(L)):
            L, s = [], 0
    return B, n, m, N, L, s
