"""C17 - scores and error metrics equal their definitions."""
import copy
from fractions import Fraction as F

import numpy as np

from .. import common as C
from .. import impl
from .. import recon_util as U

TRUSTED = [
    "Coq 8.16.1 kernel + vm_compute",
    "hand-written model Recon/Scores.v (the definitions, exact rationals) tied to score / reconstruction_error / relative_reconstruction_error / "
    "determinant by recomputation through the public predict on the same object and by evaluating the exact definitions inside Coq on the float "
    "outputs (as rationals)",
    "numpy mean / sqrt / linalg.norm / linalg.det, scipy sparse selection matrix; IEEE rounding (relative 1e-9 tolerance, determinants scaled by conditioning)",
]


def fr_rows(A):
    return [[F(float(v)) for v in row] for row in np.atleast_2d(np.asarray(A))]


def run(chk):
    from pysensors.utils._validation import determinant, relative_reconstruction_error
    rng = np.random.default_rng(chk.seed + 17)
    thorough = chk.tier == "thorough"
    N = 300 if thorough else 70
    chk.rule = ("random fitted SSPOR models x test batches of the right width x sensor_range lists (ascending, descending, repeated, None) x custom "
                "score callables; (sensors, basis) pairs with p >= m incl. rank-deficient ones for determinant; distinct by canonical JSON; "
                "non-trivial = the reconstruction is not exact (non-zero error)")
    exprs, meta = [], []
    for _ in range(N):
        try:
            model, X, cfg = U.fitted_model(rng, *((10, 5) if thorough else (8, 4)), kinds=("generic", "generic", "duprows"))
        except Exception as e:
            chk.count("fit-rejected:" + type(e).__name__)
            continue
        if rng.random() < 0.5:
            # the object has a past: its error curve was asked for, then it was fitted again on other data of the same shape
            try:
                nn = np.array(model.basis_matrix_).shape[0]
                impl.quiet(model.reconstruction_error, rng.integers(-16, 17, size=(2, nn)) / 4.0)
                impl.quiet(model.score, rng.integers(-16, 17, size=(2, nn)) / 4.0)
                X = (np.asarray(X, dtype=float) + rng.integers(-8, 9, size=np.shape(X)) / 4.0)
                impl.quiet(model.fit, X, quiet=True, seed=int(rng.integers(0, 100)))
                cfg = {**cfg, "X": X.tolist(), "history": "reconstruction_error + score on the first fit, then refitted on X"}
                chk.count("refitted_after_use")
            except Exception as e:
                chk.count("refit-rejected:" + type(e).__name__)
                continue
        B = np.array(model.basis_matrix_)
        n, m = B.shape
        p = int(rng.integers(1, n + 1))
        model.set_number_of_sensors(p)
        S = [int(i) for i in model.selected_sensors]
        k = int(rng.integers(1, 4))
        Xt = rng.integers(-16, 17, size=(k, n)) / 4.0
        case = {**cfg, "n_sensors": p, "test": Xt.tolist()}
        cond = np.linalg.cond(B[S])
        if not np.isfinite(cond) or cond > 1e6:
            chk.count("ILLCOND-SKIP")
            continue
        # ---------------- score
        try:
            pred = impl.quiet(model.predict, Xt[:, S].copy())
            sc = float(impl.quiet(model.score, Xt.copy()))
        except Exception as e:
            if p == m:
                chk.count("SINGULAR-SQUARE-SKIP")
                continue
            chk.violation("impl", "score-raises", f"score raised {type(e).__name__}: {e}", case)
            continue
        exp = -float(np.sqrt(np.mean((pred - Xt) ** 2)))
        chk.case(case, nontrivial=abs(exp) > 1e-9)
        chk.count("score_cases")
        if abs(sc - exp) > 1e-9 * (1 + abs(exp)):
            chk.violation("impl", "score-wrong", f"score = {sc}, minus the RMS difference through predict = {exp}", {**case, "observed": sc})
        # custom callable: receives (data, prediction) in this order, plus keywords
        seen = {}

        def rec(a, b, **kw):
            seen["a"], seen["b"], seen["kw"] = np.array(a), np.array(b), kw
            return 42.0
        r_ = impl.quiet(model.score, Xt.copy(), score_function=rec, score_kws={"w": 3})
        if r_ != 42.0 or not np.array_equal(seen.get("a"), Xt) or np.max(np.abs(seen.get("b") - pred)) > 1e-9 * (1 + np.abs(pred).max()) or seen.get("kw") != {"w": 3}:
            chk.violation("impl", "score-function-arguments", "custom score function is not applied to (data, prediction, **score_kws)", case)
        # Coq: exact mse of the float prediction vs score^2
        exprs.append(f"mse {C.cqmat(fr_rows(Xt))} {C.cqmat(fr_rows(pred))}")
        meta.append(("mse", sc * sc, 1e-9, {**case, "what": "score"}))
        # ---------------- reconstruction_error
        choices = [None, list(range(1, min(p, n) + 1)), [p], sorted(set(int(v) for v in rng.integers(1, n + 1, size=3)), reverse=True),
                   [int(v) for v in rng.integers(1, n + 1, size=3)]]
        sr = choices[int(rng.integers(0, len(choices)))]
        before = (model.n_sensors, np.array(model.ranked_sensors_).tolist())
        try:
            err = impl.quiet(model.reconstruction_error, Xt.copy(), sensor_range=None if sr is None else np.array(sr))
        except Exception as e:
            chk.count("recon-error-rejected:" + type(e).__name__)
            err = None
        if rng.random() < 0.4:
            # ... and an error curve whose user-supplied score function fails part-way (caught by the caller) changes nothing either
            calls = [0]

            def failing_score(a_, b_):
                calls[0] += 1
                if calls[0] >= 2:
                    raise RuntimeError("user score function failed")
                return 0.0
            try:
                impl.quiet(model.reconstruction_error, Xt.copy(), sensor_range=np.array([1, max(1, min(p, n) - 1), 1]), score=failing_score)
            except Exception:
                chk.count("recon_error_failed_part_way")
        if (model.n_sensors, np.array(model.ranked_sensors_).tolist()) != before:
            chk.violation("impl", "reconstruction-error-changes-model", "reconstruction_error changed n_sensors or the ranking", case)
        if err is not None:
            rng_list = sr if sr is not None else list(range(1, min(p, n) + 1))
            ref = copy.deepcopy(model)
            expv = []
            for q_ in rng_list:
                ref.set_number_of_sensors(int(q_))
                Sq = [int(i) for i in ref.selected_sensors]
                try:
                    expv.append(float(np.sqrt(np.mean((impl.quiet(ref.predict, Xt[:, Sq].copy()) - Xt) ** 2))))
                except Exception:
                    expv.append(None)
            chk.count("recon_error_cases")
            bad = [i for i, (a, b) in enumerate(zip(np.asarray(err).tolist(), expv))
                   if b is not None and np.linalg.cond(B[[int(x) for x in model.ranked_sensors_[:rng_list[i]]]]) < 1e6 and abs(a - b) > 1e-7 * (1 + abs(b))]
            if len(err) != len(rng_list) or bad:
                chk.violation("impl", "reconstruction-error-wrong", f"reconstruction_error({rng_list}) = {np.asarray(err).tolist()}, RMSE with the first k ranked sensors through predict = {expv}",
                              {**case, "sensor_range": rng_list})
        # ---------------- relative error
        rel = float(relative_reconstruction_error(Xt, pred))
        expr = 100.0 * np.linalg.norm(Xt - pred) / np.linalg.norm(Xt) if np.linalg.norm(Xt) > 0 else None
        if expr is not None:
            if abs(rel - expr) > 1e-9 * (1 + abs(expr)):
                chk.violation("impl", "relative-error-wrong", f"relative_reconstruction_error = {rel}, 100*|d-p|/|d| = {expr}", case)
            exprs.append(f"rel_err2 {C.cqmat(fr_rows(Xt))} {C.cqmat(fr_rows(pred))}")
            meta.append(("rel", rel * rel, 1e-9, {**case, "what": "relative error"}))
            # the same experiment in tiny (2^-70) and huge (2^70) units - an exact rescaling of data and prediction - has the same relative error
            for sc in (2.0 ** -70, 2.0 ** 70):
                rel_s = float(relative_reconstruction_error(Xt * sc, pred * sc))
                if abs(rel_s - rel) > 1e-9 * (1 + abs(rel)):
                    chk.violation("impl", "relative-error-not-scale-invariant", f"relative_reconstruction_error of the same data and prediction in units of {sc:.3g}: "
                                  f"{rel_s}, in ordinary units {rel}", {**case, "scale": sc})
        # the same for data held in narrow integer types (pixel data) and float32: the definition is about the numbers, not the dtype
        for dt, lo, hi in ((np.uint8, 0, 256), (np.int16, -3000, 3000), (np.float32, -50, 50)):
            D = rng.integers(lo, hi, size=(3, 6)).astype(dt)
            Pd = D.astype(float) + rng.integers(-3, 4, size=D.shape)
            try:
                got = relative_reconstruction_error(D, Pd)
                want = 100.0 * np.linalg.norm(D.astype(float) - Pd) / np.linalg.norm(D.astype(float))
                if not np.isrealobj(got) or abs(float(got) - want) > 1e-5 * (1 + want):
                    chk.violation("impl", "relative-error-wrong", f"relative_reconstruction_error on {np.dtype(dt).name} data = {got}, 100*|d-p|/|d| = {want}",
                                  {"data": D.tolist(), "prediction": Pd.tolist(), "dtype": np.dtype(dt).name})
                chk.count("rel_error_dtype_cases")
            except Exception as e:
                chk.violation("impl", "relative-error-raises", f"relative_reconstruction_error on {np.dtype(dt).name} data raised {type(e).__name__}: {e}", {"dtype": np.dtype(dt).name})
        # ---------------- determinant
        pd_ = m if rng.random() < 0.4 else int(rng.integers(m, n + 1))
        Sd = [int(i) for i in model.ranked_sensors_[:pd_]]
        if m >= 2 and rng.random() < 0.35:
            # exactly rank-deficient selections: a repeated sensor (square case) or too few distinct sensors (tall case)
            if pd_ == m:
                Sd[1] = Sd[0]
            else:
                Sd = [Sd[i % (m - 1)] for i in range(pd_)]
            chk.count("det:rank-deficient")
        dv = float(determinant(np.array(Sd), n, B))
        BSq = fr_rows(B[Sd])
        exprs.append(f"optimality {C.cqmat(BSq)}")
        scale = float(np.abs(B[Sd]).max() + 1e-30) ** (m if pd_ == m else 2 * m) * 1e-9 * max(1.0, float(m) ** m)
        meta.append(("det", dv, scale, {**case, "what": "determinant", "sensors": Sd}))
        chk.count("det:" + ("square" if pd_ == m else "tall"))
        # the same for a basis held in an integer-typed array (an Identity basis of pixel counts): the determinant is about the numbers
        if rng.random() < 0.4 and m <= 3:
            dt, hi_ = [(np.int8, 100), (np.int16, 3000), (np.int32, 100000), (np.int64, 1000)][int(rng.integers(0, 4))]
            Bi = rng.integers(-hi_, hi_ + 1, size=(n, m)).astype(dt)
            pi_ = m if rng.random() < 0.4 else int(rng.integers(m, n + 1))
            Si = [int(i) for i in rng.permutation(n)[:pi_]]
            try:
                dvi = float(determinant(np.array(Si), n, Bi))
                exprs.append(f"optimality {C.cqmat(fr_rows(Bi[Si].astype(float)))}")
                meta.append(("det", dvi, 0.0, {**case, "what": f"determinant of a basis held as {np.dtype(dt).name}", "sensors": Si, "basis": Bi.tolist()}))
                chk.count("det:integer-typed")
            except Exception as e:
                chk.violation("impl", "determinant-raises", f"determinant on a {np.dtype(dt).name} basis raised {type(e).__name__}: {e}", {"dtype": np.dtype(dt).name})
    files = []
    for i in range(0, len(exprs), 40):
        body = ("From Coq Require Import List Arith QArith Qcanon. Import ListNotations.\nFrom PS Require Import Recon.Scores.\n"
                "Eval vm_compute in map (fun x : Qc => (Qnum (this x), Qden (this x))) [\n  " + ";\n  ".join(exprs[i:i + 40]) + "\n].\n")
        files.append((f"cases_{i // 40}", body))
    out = []
    for r in C.coq_eval("C17", files):
        if not r["ok"]:
            chk.violation("correspondence", "model-eval-failed", "coqc failed on a cases file: " + r["log"][-300:], {})
            out = None
            break
        out += r["values"][0]
    if out is not None:
        for (num, den), (kind, obs, tol, ctx) in zip(out, meta):
            chk.traces += 1
            exact = F(num, den)
            ok = abs(float(exact) - obs) <= (tol * (1 + abs(float(exact))) if kind != "det" else max(tol, 1e-9 * abs(float(exact))))
            if ok:
                chk.count("AGREE")
            else:
                chk.count("DISAGREE")
                sig = {"mse": "score-wrong", "rel": "relative-error-wrong", "det": "determinant-wrong"}[kind]
                chk.violation("impl", sig, f"{ctx['what']}: implementation {obs} vs exact definition {float(exact)}", {**ctx, "exact": str(exact), "observed": obs})
    return chk.finish(TRUSTED, "make -C coq && coqc theories/Properties/C17.v && coqc cases_*.v (vm_compute)")


def replay(data):
    import json
    print(json.dumps(data["data"], default=str)[:3000])
    return 0
