"""C16 - the seed only orders the unranked tail; equal seeds give equal rankings."""
import numpy as np

from .. import common as C
from .. import gen, impl
from .c01 import opt_configs

TRUSTED = [
    "Coq 8.16.1 kernel + vm_compute",
    "hand-written model Sel/Perm.v (shuffle_tail) tied to SSPOR.fit by this correspondence run",
    "numpy.random.default_rng(seed).permutation is an oracle (contract: returns a permutation of its argument, a function of seed and argument; checked per case by same_multiset in Coq)",
    "python harness",
]


def fit_once(X, bcfg, ocfg, seed, nsens=None):
    from pysensors.optimizers import QR
    from pysensors.reconstruction import SSPOR
    cfg2 = dict(ocfg)
    if cfg2.get("all_sensors") == "QR":
        b2 = impl.make_basis(bcfg)
        impl.quiet(b2.fit, X)
        cfg2["all_sensors"] = QR().fit(b2.matrix_representation()).get_sensors().tolist()
    kws = impl.gqr_kws(cfg2)
    model = SSPOR(basis=impl.make_basis(bcfg), optimizer=impl.make_optimizer(cfg2), n_sensors=nsens)
    impl.quiet(model.fit, X, seed=seed, quiet=True, **kws)
    return model, cfg2, kws


def run(chk):
    rng = np.random.default_rng(chk.seed + 16)
    thorough = chk.tier == "thorough"
    N = 600 if thorough else 120
    nmax, mmax = (14, 6) if thorough else (10, 4)
    chk.rule = ("random (training set, basis, optimizer config, seed pair); distinct by canonical JSON; non-trivial = the tail "
                "(n_features - n_basis_modes) has at least 2 sensors, so that two seeds can differ")
    exprs, meta = [], []
    for _ in range(N):
        n = int(rng.integers(2, nmax + 1))
        m = int(rng.integers(1, min(n, mmax) + 1))
        if rng.random() < 0.15:
            m = n  # empty tail
        X, kind = gen.training(rng, n, m + int(rng.integers(0, 2)))
        bkind = ["Identity", "SVD", "RandomProjection"][int(rng.integers(0, 3))]
        bcfg = {"kind": bkind, "n_basis_modes": m}
        ocfg = opt_configs(rng, n, m)[int(rng.integers(0, 6))]
        s1, s2 = int(rng.integers(0, 10 ** 6)), int(rng.integers(0, 10 ** 6))
        if rng.random() < 0.3:
            s1 = 0                                   # seed 0 is a seed like any other
        elif rng.random() < 0.1:
            s1 = -int(rng.integers(1, 10))           # numpy refuses negative seeds: no ranking at all - never a ranking that differs from fit to fit
        nsens = None if rng.random() < 0.4 else int(rng.integers(1, n + 1))      # the requested count (also below n_basis_modes) must not matter
        case = {"X": X.tolist(), "matrix_kind": kind, "basis": bcfg, "opt": ocfg, "seeds": [s1, s2], "n_sensors": nsens}
        try:
            m1, cfg2, kws = fit_once(X, bcfg, ocfg, s1, nsens)
            a1 = [int(i) for i in m1.all_sensors]
            Bm = np.array(m1.basis_matrix_)
            a2 = [int(i) for i in fit_once(X, bcfg, ocfg, s2, nsens)[0].all_sensors]
            a1b = [int(i) for i in fit_once(X, bcfg, ocfg, s1, nsens)[0].all_sensors]
            # the SAME object fitted again at once with the SAME seed (plainly, then on its prefit basis): "equal seeds give equal
            # rankings" also from one call to the next on one object (a generator kept between fits would continue its stream)
            impl.quiet(m1.fit, X, seed=s1, quiet=True, **kws)
            a1_twice = [int(i) for i in m1.all_sensors]
            impl.quiet(m1.fit, X, seed=s1, quiet=True, prefit_basis=True, **kws)
            a1_thrice = [int(i) for i in m1.all_sensors]
            # the SAME object fitted again (seed 2, then seed 1 again): fitting twice must give the identical ranking
            impl.quiet(m1.fit, X, seed=s2, quiet=True, **kws)
            a2_same = [int(i) for i in m1.all_sensors]
            impl.quiet(m1.fit, X, seed=s1, quiet=True, **kws)
            a1_same = [int(i) for i in m1.all_sensors]
            r = [int(i) for i in impl.quiet(impl.make_optimizer(cfg2).fit, Bm.copy(), **kws).get_sensors()]
            # a ranking that was handed out stays what it was: the caller keeps the very array, then the same object is fitted on
            # OTHER data of the same width, and a second model sharing the same optimizer instance is fitted too
            held = impl.Held()
            held.hold("all_sensors kept from the fit with seed s1", m1.all_sensors)
            X_other = X[::-1].copy() * 1.5 + 0.25
            impl.quiet(m1.fit, X_other, seed=s2, quiet=True, **kws)
            dist1 = held.disturbed()
            from pysensors.reconstruction import SSPOR as _SSPOR
            shared = impl.make_optimizer(cfg2)
            ma = _SSPOR(basis=impl.make_basis(bcfg), optimizer=shared, n_sensors=nsens)
            impl.quiet(ma.fit, X, seed=s1, quiet=True, **kws)
            held.hold("all_sensors of the first of two models sharing one optimizer instance", ma.all_sensors)
            a_shared = [int(i) for i in ma.all_sensors]
            mb = _SSPOR(basis=impl.make_basis(bcfg), optimizer=shared, n_sensors=nsens)
            impl.quiet(mb.fit, X_other, seed=s2, quiet=True, **kws)
            dist2 = held.disturbed()
            a_shared_after = [int(i) for i in ma.all_sensors]
        except Exception as e:
            chk.count("rejected:" + impl.exc_class(e))
            continue
        for lab, _c in dist1 + dist2:
            chk.violation("impl", "ranking-handed-out-overwritten", f"{lab}: the array changed when another fit ran", case)
        if a_shared != a1 or a_shared_after != a_shared:
            chk.violation("impl", "shared-optimizer-changes-ranking", f"a model built with a shared optimizer instance ranks {a_shared} (alone: {a1}); after the "
                          f"second model's fit its ranking reads {a_shared_after}", case)
        mm = Bm.shape[1]
        t1 = [int(i) for i in np.random.default_rng(s1).permutation(np.array(r[mm:], dtype=int))]
        t2 = [int(i) for i in np.random.default_rng(s2).permutation(np.array(r[mm:], dtype=int))]
        chk.case(case, nontrivial=(n - mm) >= 2)
        chk.count("basis:" + bkind)
        chk.count("opt:" + ocfg["kind"])
        chk.count("n_sensors:" + ("default" if nsens is None else ("below_modes" if nsens < mm else "at_or_above_modes")))
        chk.count("tail_differs" if a1 != a2 else "tail_same")
        obs = {"r": r, "a1": a1, "a2": a2, "a1_again": a1b}
        if a1_twice != a1 or a1_thrice != a1:
            chk.violation("impl", "same-seed-twice-on-one-object-different-ranking", f"fit(seed={s1}) gave {a1}; the same object fitted again with the same seed "
                          f"gave {a1_twice}, and once more on its prefit basis {a1_thrice}", {**case, "observed": obs})
        if a1[:mm] != a2[:mm]:
            chk.violation("impl", "seed-changes-leading", f"leading {mm} sensors differ between seeds: {a1[:mm]} vs {a2[:mm]}", {**case, "observed": obs})
        if sorted(a1[mm:]) != sorted(a2[mm:]):
            chk.violation("impl", "seed-changes-tail-set", "set of trailing sensors differs between seeds", {**case, "observed": obs})
        if a1_same != a1 or a2_same != a2:
            chk.violation("impl", "refit-same-object-different-ranking", f"refitting the same object with the same seed gave {a1_same} (fresh {a1}) / {a2_same} (fresh {a2})", {**case, "observed": obs})
        if a1 != a1b:
            chk.violation("impl", "same-seed-different-ranking", f"same seed gave {a1} then {a1b}", {**case, "observed": obs})
        exprs.append(f"case_seed {mm} {C.cnatlist(r)} {C.cnatlist(t1)} {C.cnatlist(t2)} {C.cnatlist(a1)} {C.cnatlist(a2)} {C.cnatlist(a1b)}")
        meta.append((case, obs))
    files = []
    for i in range(0, len(exprs), 400):
        body = "From Coq Require Import List Arith. Import ListNotations.\nFrom PS Require Import Sel.Perm Exec.Run_C16.\n"
        body += "Eval vm_compute in [\n  " + ";\n  ".join(exprs[i:i + 400]) + "\n].\n"
        files.append((f"cases_{i // 400}", body))
    codes = []
    for r in C.coq_eval("C16", files):
        if not r["ok"]:
            chk.violation("correspondence", "model-eval-failed", "coqc failed on a cases file: " + r["log"][-300:], {})
            codes = None
            break
        codes += r["values"][0]
    if codes is not None:
        for code, (case, obs) in zip(codes, meta):
            chk.traces += 1
            if code == 0:
                chk.count("AGREE")
            else:
                chk.count("DISAGREE")
                chk.violation("correspondence", "c16-model-mismatch", f"model code {code} (bitmask, see Exec/Run_C16.v)", {**case, "observed": obs, "code": code})
    return chk.finish(TRUSTED, "make -C coq && coqc theories/Properties/C16.v && coqc cases_*.v (vm_compute)")


def replay(data):
    import json
    print(json.dumps(data["data"])[:3000])
    return 0
