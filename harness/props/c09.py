"""C09 - classifier predictions match the most recent fit or sensor update."""
import copy

import numpy as np

from .. import common as C
from .. import impl
from .. import sspoc_util as U

TRUSTED = [
    "Coq 8.16.1 kernel + vm_compute",
    "hand-written token machine Class/SSPOC.v tied to the code by random histories; its tokens are evaluated by FRESH real objects (sklearn.base.clone of the classifier, fresh basis, fresh SSPOC fitted once)",
    "the user's classifier (LDA / RidgeClassifier), OMP / MultiTaskLasso and the bases are deterministic functions of their inputs",
    "the number of sensors selected by a threshold is an oracle answer taken from the implementation (theorems hold for every answer)",
]


def gen_case(rng, thorough):
    n = int(rng.integers(4, 9))
    c = int(rng.integers(2, 4))
    nd = int(rng.integers(2, 4))
    ds = {}
    for i in range(1, nd + 1):
        X, y = U.class_data(rng, n_features=n, n_classes=c)
        ds[i] = (X, y)
    # class labels are names, not indices: 0..c-1, negative / non-contiguous integers, floats that are no indices
    lab = [None, None, np.array([-1, 1, 5]), np.array([3, 7, 20]), np.array([1.0, 2.0, 4.0]), np.array([10, 20, 30])][int(rng.integers(0, 6))]
    if lab is not None:
        ds = {i: (X_, lab[y_]) for i, (X_, y_) in ds.items()}
    minrows = min(len(ds[i][0]) for i in ds)
    # one more dataset, of ANOTHER width: never fitted on, only offered as refit data to update_sensors - a request to be rejected as a whole
    Xn, yn = U.class_data(rng, n_features=n - 1, n_classes=c)
    ds[nd + 1] = (Xn, (lab[yn] if lab is not None else yn))
    kind = U.BK[int(rng.integers(0, 3))]
    if kind == "Identity":
        bmodes = None if rng.random() < 0.5 else int(rng.integers(3, minrows + 1))
    else:
        bmodes = int(rng.integers(2, min(n, minrows)))
    mode = int(rng.integers(0, 3))
    ns = int(rng.integers(0, n + 1)) if mode == 0 else None
    thr = float(rng.integers(0, 9)) / 8.0 if mode == 1 else None
    u = rng.random()
    clf = "default" if u < 0.35 else ("lda" if u < 0.75 else "ridge")      # "default": the classifier argument is left to the constructor
    hist = [["fit", int(rng.integers(1, nd + 1)), bool(rng.random() < 0.6)]]
    for _ in range(int(rng.integers(2, 13 if thorough else 8))):
        r = rng.random()
        d = int(rng.integers(1, nd + 1))
        if r < 0.35:
            hist.append(["fit", d, bool(rng.random() < 0.5)])
        elif r < 0.8:
            if rng.random() < 0.12:
                hist.append(["upd", "count", int(rng.integers(1, n)), nd + 1])            # refit data of the wrong width
            elif rng.random() < 0.6:
                hist.append(["upd", "count", int(rng.integers(0, n + 1)), d])
            else:
                hist.append(["upd", "thr", float(rng.choice([0.0, 0.125, 0.5, 1.0, 4.0, 1e6])), d])
        else:
            hi = (bmodes or minrows)
            hist.append(["updm", int(rng.integers(1 if kind == "Identity" else 2, hi + 1)), d, bool(rng.random() < 0.5)])
    return {"n": n, "classes": c, "datasets": ds, "basis": {"kind": kind, "n_basis_modes": bmodes}, "n_sensors": ns, "threshold": thr,
            "clf": clf, "history": hist}


def make_clf(case):
    from sklearn.discriminant_analysis import LinearDiscriminantAnalysis
    from sklearn.linear_model import RidgeClassifier
    return LinearDiscriminantAnalysis() if case["clf"] in ("lda", "default") else RidgeClassifier(alpha=1.0)


def new_model(case, bmodes="ctor", **over):
    from pysensors.classification import SSPOC
    b = dict(case["basis"])
    if bmodes != "ctor":
        b["n_basis_modes"] = bmodes
    kw = {"n_sensors": case["n_sensors"], "threshold": case["threshold"]}
    kw.update(over)
    if case["clf"] == "default":
        return SSPOC(basis=impl.make_basis(b), **kw)
    return SSPOC(basis=impl.make_basis(b), classifier=make_clf(case), **kw)


def apply_op(model, case, op):
    ds = case["datasets"]
    if op[0] == "fit":
        X, y = ds[op[1]]
        impl.quiet(model.fit, X, y, quiet=True, refit=op[2])
    elif op[0] == "upd":
        X, y = ds[op[3]]
        if op[1] == "count":
            impl.quiet(model.update_sensors, n_sensors=op[2], xy=(X, y), quiet=True)
        else:
            impl.quiet(model.update_sensors, threshold=op[2], xy=(X, y), quiet=True)
    else:
        X, y = ds[op[2]]
        impl.quiet(model.update_n_basis_modes, op[1], (X, y), quiet=True, refit=op[3])


def safe_predict(model, P):
    # another default-constructed model, fitted and used on other data in between, must not influence this one
    impl.sspoc_bystander(int(np.asarray(P).shape[-1]) + 2, n_classes=2 + (int(np.asarray(P).shape[-1]) % 2))
    try:
        return np.asarray(impl.quiet(model.predict, P)).tolist(), None
    except Exception as e:
        return None, type(e).__name__ + ": " + str(e)[:80]


def oracle_step(case, model, op, probe):
    """the property's own statement, checked on the real object after one successful operation"""
    from sklearn.base import clone
    ds = case["datasets"]
    d = op[1] if op[0] == "fit" else (op[3] if op[0] == "upd" else op[2])
    X, y = ds[d]
    sel = np.array(model.selected_sensors, dtype=int)
    out = []
    if model.n_sensors == 0:
        last_fit_y = set(np.asarray(case["_last_fit_y"]).tolist())
        for lab, P in (("measurements at the (zero) selected sensors", probe[:, sel]), ("full-state measurements", probe)):
            p, err = safe_predict(model, P)
            if err or len(p) != len(probe) or not set(p) <= last_fit_y:
                out.append(("zero-sensors-predict", f"with zero sensors predict({lab}) gave {err or p}; expected one label of {sorted(last_fit_y)} per sample"))
        return out
    refits = (op[0] == "fit" and op[2]) or op[0] == "upd" or (op[0] == "updm" and op[3])
    if refits:
        ref = clone(make_clf(case)).fit(X[:, sel], y)
        exp = ref.predict(probe[:, sel]).tolist()
        p, err = safe_predict(model, probe[:, sel])
        if p != exp:
            out.append(("stale-classifier-sensor-input", f"predict(measurements at selected sensors {sel.tolist()}) = {err or p}; a fresh classifier trained on those columns of the data of this call gives {exp}"))
    else:
        Pi = np.asarray(model.basis_matrix_inverse_)
        ref = clone(make_clf(case)).fit(X @ Pi.T, y)
        exp = ref.predict(probe @ Pi.T).tolist()
        p, err = safe_predict(model, probe)
        if p != exp:
            out.append(("stale-classifier-full-state", f"after fit(refit=False) predict(full state) = {err or p}; the classifier trained on the basis coordinates gives {exp}"))
    return out


# ---------------------------------------------------------------- tokens -> fresh objects
def fresh_fit(case, fcode):
    """ftok code [data, basis data, on bmodes, on nbm] -> a fresh SSPOC fitted once (refit=False)"""
    did, bdid, onbm, onnbm = fcode
    bmodes = None if onbm == 0 else onbm - 1
    m = new_model(case, bmodes=bmodes)
    m.n_basis_modes = None if onnbm == 0 else onnbm - 1
    X, y = case["datasets"][did]
    if bdid == did:
        impl.quiet(m.fit, X, y, quiet=True, refit=False)
    else:
        impl.quiet(m.basis.fit, case["datasets"][bdid][0])
        impl.quiet(m.fit, X, y, quiet=True, refit=False, prefit_basis=True)
    return m


def fresh_selection(case, scode, thr_values):
    f, (mode, val) = scode[:4], scode[4:6]
    m = fresh_fit(case, f)
    if mode == 0:
        impl.quiet(m.update_sensors, n_sensors=val, quiet=True)
    else:
        t = thr_values[val]
        if t is None:   # the documented default: what a fresh model with neither setting uses
            m2 = new_model(case, bmodes=None if f[2] == 0 else f[2] - 1, n_sensors=None, threshold=None)
            m2.n_basis_modes = None if f[3] == 0 else f[3] - 1
            X, y = case["datasets"][f[0]]
            if f[1] == f[0]:
                impl.quiet(m2.fit, X, y, quiet=True, refit=False)
            else:
                impl.quiet(m2.basis.fit, case["datasets"][f[1]][0])
                impl.quiet(m2.fit, X, y, quiet=True, refit=False, prefit_basis=True)
            t = m2.threshold
        impl.quiet(m.update_sensors, threshold=t, quiet=True)
    return m, np.array(m.selected_sensors, dtype=int)


def eval_ptok(case, code, probe, thr_values):
    """returns (expected predictions or None, kind, which input it applies to)"""
    from sklearn.base import clone
    k = code[0]
    if k == 3:
        return None, "notfitted", None
    if k == 0:
        return set(np.asarray(case["datasets"][code[1]][1]).tolist()), "dummy", None
    if k == 1:
        c = code[1:]
    else:
        f, c = code[1:5], code[5:]
    if c[0] == 0:      # CBasis f'
        m = fresh_fit(case, c[1:5])
        Pi = np.asarray(m.basis_matrix_inverse_)
        X, y = case["datasets"][c[1]]
        clf = clone(make_clf(case)).fit(X @ Pi.T, y)
        sel = None
    else:              # CCols d st
        X, y = case["datasets"][c[1]]
        m, sel = fresh_selection(case, c[2:8], thr_values)
        clf = clone(make_clf(case)).fit(X[:, sel], y)
    if k == 1:         # applied to the input as given
        if sel is None:
            return None, "direct-basis-classifier", None
        return (clf.predict(probe[:, sel]).tolist(), sel.tolist()), "direct", "sensors"
    mf = fresh_fit(case, f)
    Pi = np.asarray(mf.basis_matrix_inverse_)
    try:
        return (clf.predict(probe @ Pi.T).tolist(), None), "via-basis", "full"
    except Exception:
        return None, "via-basis-mismatch", None


def run(chk):
    rng = np.random.default_rng(chk.seed + 9)
    thorough = chk.tier == "thorough"
    N = 500 if thorough else 90
    chk.rule = ("random histories (3-8 quick / 3-13 thorough) of fit(refit=True/False), update_sensors(count or threshold, xy) and "
                "update_n_basis_modes(k, xy, refit) over 2-3 labelled data sets (binary and 3-class), three bases, two classifiers; "
                "distinct by canonical JSON; non-trivial = at least two training operations (a classifier could go stale)")
    exprs, cases_meta = [], []
    for _ in range(N):
        case = gen_case(rng, thorough)
        n = case["n"]
        probe = rng.integers(-12, 13, size=(5, n)) / 2.0
        jc = {k: v for k, v in case.items() if k != "datasets"}
        jc["datasets"] = {str(i): [case["datasets"][i][0].tolist(), case["datasets"][i][1].tolist()] for i in case["datasets"]}
        chk.case(jc, nontrivial=len(case["history"]) >= 2)
        chk.count("basis:" + case["basis"]["kind"])
        chk.count("classes:%d" % case["classes"])
        try:
            model = new_model(case)
        except Exception as e:
            chk.count("ctor-rejected")
            continue
        thr_ids = {None: 0}
        thr_values = {0: None}
        if case["threshold"] is not None:
            thr_ids[case["threshold"]] = 1
            thr_values[1] = case["threshold"]
        coq_ops, recs = [], []
        ok = True
        for idx, op in enumerate(case["history"]):
            try:
                apply_op(model, case, op)
                err = None
            except Exception as e:
                err = e
            if err is not None:
                # valid requests only are generated; a rejection ends the history (model and code must agree on it)
                recs.append({"code": 1 if isinstance(err, ValueError) else 3, "exc": type(err).__name__ + ": " + str(err)[:80]})
                cnt = 0
            else:
                if op[0] == "fit" or op[0] == "updm":
                    case["_last_fit_y"] = case["datasets"][op[1] if op[0] == "fit" else op[2]][1]
                cnt = len(model.selected_sensors)
                sel = np.array(model.selected_sensors, dtype=int)
                ps, es = safe_predict(model, probe[:, sel])
                pf, ef = safe_predict(model, probe)
                recs.append({"code": 0, "n_sensors": int(model.n_sensors), "refit_": bool(model.refit_), "selected": sel.tolist(),
                             "pred_sensors": ps, "err_sensors": es, "pred_full": pf, "err_full": ef})
                chk.count("ops:" + op[0])
                for sig, what in oracle_step(case, model, op, probe):
                    chk.violation("impl", sig, f"after step {idx} {op}: {what}", {"case": jc, "step": idx, "op": op})
                    ok = False
            # Coq op
            def D(i):
                X, y = case["datasets"][i]
                return f"(D {i} {len(X)} {X.shape[1]})"
            if op[0] == "fit":
                coq_ops.append(f"Fit {D(op[1])} {C.cbool(op[2])} {cnt}")
            elif op[0] == "upd":
                if op[1] == "count":
                    coq_ops.append(f"Upd (Some {op[2]}) None (Some {D(op[3])}) {cnt}")
                else:
                    if op[2] not in thr_ids:
                        thr_ids[op[2]] = len(thr_ids)
                        thr_values[thr_ids[op[2]]] = op[2]
                    coq_ops.append(f"Upd None (Some {thr_ids[op[2]]}) (Some {D(op[3])}) {cnt}")
            else:
                coq_ops.append(f"UpdModes {op[1]} {D(op[2])} {C.cbool(op[3])} {cnt}")
            if err is not None or not ok:
                break
        on = lambda v: "None" if v is None else f"(Some {v})"
        thr0 = None if case["threshold"] is None else 1
        exprs.append(f"run_codes (ctor {C.cbool(case['basis']['kind'] == 'Identity')} {on(case['basis']['n_basis_modes'])} {on(case['n_sensors'])} {on(thr0)}) [{'; '.join(coq_ops)}]")
        cases_meta.append((case, jc, recs, probe, thr_values))
    # ---- stage M
    files = []
    for i in range(0, len(exprs), 100):
        body = ("From Coq Require Import List Arith. Import ListNotations.\nFrom PS Require Import Class.SSPOC.\n"
                "Definition D (i r w : nat) : data := {| d_id := i; d_rows := r; d_width := w |}.\n"
                "Eval vm_compute in [\n  " + ";\n  ".join(exprs[i:i + 100]) + "\n].\n")
        files.append((f"cases_{i // 100}", body))
    out = []
    for r in C.coq_eval("C09", files):
        if not r["ok"]:
            chk.violation("correspondence", "model-eval-failed", "coqc failed on a cases file: " + r["log"][-300:], {})
            out = None
            break
        out += r["values"][0]
    if out is not None:
        for (case, jc, recs, probe, thr_values), mres in zip(cases_meta, out):
            chk.traces += 1
            bad = None
            for i, (m_, rec) in enumerate(zip(mres, recs)):
                ecode, pcode, (mns, mrefit) = m_
                d = []
                if (ecode != 0) != (rec["code"] != 0):
                    d.append(f"outcome: model {ecode} vs real {rec['code']} ({rec.get('exc')})")
                elif rec["code"] == 0:
                    if mns != rec["n_sensors"] + 1:
                        d.append(f"n_sensors: model {mns - 1} real {rec['n_sensors']}")
                    if bool(mrefit) != rec["refit_"]:
                        d.append(f"refit_: model {bool(mrefit)} real {rec['refit_']}")
                    try:
                        exp, kind, inp = eval_ptok(case, pcode, probe, thr_values)
                    except Exception as e:
                        exp, kind, inp = None, "token-eval-failed: " + type(e).__name__ + str(e)[:60], None
                    if kind == "dummy":
                        for p in (rec["pred_sensors"], rec["pred_full"]):
                            if p is None or not set(p) <= exp or len(p) != len(probe):
                                d.append(f"dummy prediction {p} not one label of {sorted(exp)} per sample")
                    elif kind == "direct":
                        if rec["selected"] != exp[1]:
                            d.append(f"selection {rec['selected']} vs fresh pipeline {exp[1]}")
                        elif rec["pred_sensors"] != exp[0]:
                            d.append(f"predict(sensor input) {rec['pred_sensors'] or rec['err_sensors']} vs fresh classifier {exp[0]}")
                    elif kind == "via-basis":
                        if rec["pred_full"] != exp[0]:
                            d.append(f"predict(full state) {rec['pred_full'] or rec['err_full']} vs fresh classifier {exp[0]}")
                    else:
                        d.append(f"model predicts dispatch '{kind}', which no fresh computation realises")
                if d:
                    bad = (i, d)
                    break
            if bad is None:
                chk.count("AGREE")
            else:
                chk.count("DISAGREE")
                i, d = bad
                chk.violation("correspondence", "c09-model-mismatch", f"SSPOC machine and implementation differ after step {i} {case['history'][i]}: {'; '.join(d)}",
                              {"case": jc, "step": i, "diffs": d})
    # ---- "the most recent update": the caller reuses ITS arrays / classifier between two identical update requests and changes them
    #      in place in between (relabelled examples, another regularisation): the second update must train on what is there NOW
    from sklearn.base import clone
    from sklearn.linear_model import RidgeClassifier
    from pysensors.classification import SSPOC
    for it in range(30 if chk.tier == "thorough" else 10):
        X, y = U.class_data(rng, n_classes=2 + it % 2)
        nn = X.shape[1]
        kk = int(rng.integers(2, nn + 1))
        clf = RidgeClassifier(alpha=1.0)
        mdl = SSPOC(classifier=clf, n_sensors=kk)
        case = {"scenario": "fit; update_sensors(k, xy); caller changes y / the classifier in place; update_sensors(k, xy) again", "X": X.tolist(), "y": y.tolist(), "k": kk}
        chk.case(case)
        try:
            impl.quiet(mdl.fit, X, y, quiet=True)
            impl.quiet(mdl.update_sensors, n_sensors=kk, xy=(X, y), quiet=True)
            how = it % 3
            if how == 0:
                y[:] = np.roll(y, 1)                       # examples relabelled in place (same array object)
            elif how == 1:
                mdl.classifier.set_params(alpha=1e4)       # the classifier reconfigured in place
            else:
                X[:, :] = X[::-1].copy()                   # the examples reordered in place, labels not
            impl.quiet(mdl.update_sensors, n_sensors=kk, xy=(X, y), quiet=True)
            sel = np.array(mdl.selected_sensors, dtype=int)
            got = np.asarray(impl.quiet(mdl.predict, X[:, sel])).tolist()
            ref = clone(mdl.classifier).fit(X[:, sel], y)
            exp = np.asarray(ref.predict(X[:, sel])).tolist()
            chk.count("inplace_change_between_identical_updates")
            if got != exp:
                chk.violation("impl", "stale-classifier-sensor-input", f"after the caller changed {['y', 'the classifier', 'X'][how]} in place and repeated "
                              f"update_sensors(n_sensors={kk}, xy=(X, y)), predict gives {got}; a fresh classifier trained on the data as it is now gives {exp}", case)
        except Exception as e:
            chk.count("inplace-scenario-rejected:" + type(e).__name__)
    return chk.finish(TRUSTED, "make -C coq && coqc theories/Properties/C09.v && coqc cases_*.v (vm_compute)")


def replay(data):
    import json
    print(json.dumps(data["data"], default=str)[:3000])
    return 0
