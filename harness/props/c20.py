"""C20 - no call modifies the caller's arrays or the stored basis."""
import copy
import os

import numpy as np

from .. import common as C
from .. import impl
from .. import effects

TRUSTED = [
    "Coq 8.16.1 kernel + vm_compute; no axioms (Print Assumptions: closed under the global context for every C20 theorem)",
    "stage G: harness/effects.py (a fail-closed Python-ast translator) regenerates Gen_effects.v (effect IR: alias / fresh / in-place write / call with "
    "copy-in copy-out object attributes) from /repo/pysensors on every run; the translator and its tables classifying numpy / scipy / sklearn / pandas / "
    "builtin callees as view-returning, copy-returning or mutating are trusted, and validated by the dynamic part; assumptions written into the tables: "
    "self.optimizer / self.basis hold pysensors optimizers / bases, user-supplied callables and estimators do not mutate their arguments, keyword names "
    "given to GQR.fit are the documented settings, external routines are never switched to in-place operation (any overwrite_* / inplace / copy_X "
    "keyword or string in the source makes the translator fail closed)",
    "Eff/IR.v semantics: a function body is a bag of statements that may run in any order, any number of times (over-approximates all control flow); "
    "attributes are field-based globals; Eff/Sound.v + Eff/HistoryProofs.v: the executable analysis evaluated on the regenerated model "
    "(history_safe_fast) is sound for every history of caller allocations and public calls",
    "internal helpers with an in-place contract (norm_calc functions on dlens, qr_reflector on r) are analysed but are not entry points",
    "dynamic validation: byte-wise snapshots of every argument before/after every public call and calls with read-only (non-writeable) arrays",
    "memory behaviour inside C extensions (LAPACK, sklearn) is outside the model",
]


def snap(a):
    import pandas as pd
    if isinstance(a, np.ndarray):
        return ("nd", a.shape, a.dtype.str, a.tobytes())
    if isinstance(a, pd.DataFrame):
        return ("df", tuple(a.columns), a.shape, a.to_numpy(copy=True).tobytes(), tuple(map(str, a.dtypes)))
    if isinstance(a, (list, tuple)):
        return ("seq", tuple(snap(x) for x in a))
    if isinstance(a, dict):
        return ("dict", tuple((k, snap(v)) for k, v in sorted(a.items())))
    return ("other", repr(a))


class Recorder:
    def __init__(self, chk):
        self.chk = chk

    def call(self, label, fn, args, kwargs=None, readonly=False):
        """run fn(*args, **kwargs); all array arguments are snapshot before and after"""
        kwargs = kwargs or {}
        if readonly:
            for a in list(args) + list(kwargs.values()):
                for x in (a if isinstance(a, (list, tuple)) else [a]):
                    if isinstance(x, np.ndarray):
                        x.setflags(write=False)
        before = [snap(a) for a in args] + [snap(v) for v in kwargs.values()]
        try:
            out = impl.quiet(fn, *args, **kwargs)
            err = None
        except Exception as e:
            out, err = None, e
        after = [snap(a) for a in args] + [snap(v) for v in kwargs.values()]
        self.chk.count("calls" + (":readonly" if readonly else ""))
        self.chk.case({"entry": label, "readonly": readonly, "shapes": [b[1] if b[0] in ("nd",) else b[0] for b in before]}, nontrivial=True)
        changed = [i for i, (b, a) in enumerate(zip(before, after)) if b != a]
        if changed:
            names = list(range(len(args))) + list(kwargs.keys())
            self.chk.violation("impl", "argument-modified:" + label.split("(")[0], f"{label} modified its argument(s) {[names[i] for i in changed]}",
                               {"entry": label, "changed": [str(names[i]) for i in changed], "readonly": readonly})
        if err is not None and readonly and ("read-only" in str(err) or "not writeable" in str(err) or "WRITEABLE" in str(err)):
            self.chk.violation("impl", "writes-readonly-argument:" + label.split("(")[0], f"{label} failed on read-only input: {type(err).__name__}: {str(err)[:100]}",
                               {"entry": label})
        return out, err


def dynamic_part(chk, rng, thorough):
    import pandas as pd
    from pysensors.basis import SVD, Custom, Identity, RandomProjection
    from pysensors.classification import SSPOC
    from pysensors.optimizers import CCQR, GQR, QR
    from pysensors.reconstruction import SSPOR
    from pysensors.utils import _constraints as K
    from pysensors.utils import _norm_calc as NC
    from pysensors.utils._validation import determinant, relative_reconstruction_error
    R = Recorder(chk)
    for rep in range(6 if thorough else 2):
        for ro in (False, True):
            n, m, rows = int(rng.integers(5, 9)), int(rng.integers(2, 5)), int(rng.integers(5, 8))
            X = rng.integers(-24, 25, size=(rows, n)) / 8.0
            for order in ("C", "F"):
                B = np.array(rng.integers(-24, 25, size=(n, m)) / 8.0, order=order)
                costs = rng.integers(-8, 9, size=n) / 4.0
                L = np.array(sorted(rng.choice(n, size=3, replace=False)), dtype=int)
                A = np.array(QR().fit(B.copy()).get_sensors())
                # ---- optimizers (and the stored basis)
                for name, opt, kws in (("QR.fit", QR(), {}), ("CCQR.fit", CCQR(sensor_costs=costs), {}), ("GQR.fit", GQR(), {}),
                                       ("GQR.fit[max_n]", GQR(), dict(idx_constrained=L, n_sensors=min(m, 2), n_const_sensors=1, all_sensors=A, constraint_option="max_n")),
                                       ("GQR.fit[exact_n]", GQR(), dict(idx_constrained=L, n_sensors=min(m, 2), n_const_sensors=1, all_sensors=A, constraint_option="exact_n")),
                                       ("GQR.fit[predetermined]", GQR(), dict(idx_constrained=L, n_sensors=min(m, 2), n_const_sensors=1, all_sensors=A, constraint_option="predetermined"))):
                    R.call(f"{name}({order}-ordered basis)", opt.fit, [B], kws, readonly=ro)
                    if name == "CCQR.fit":
                        R.call("CCQR.fit(second fit, same cost array)", opt.fit, [B], {}, readonly=ro)
                        R.call("CCQR(sensor_costs).costs", lambda c: None, [costs], {}, readonly=False)
            # ---- the documented pass-through of keywords to the QR routine: whatever they switch on, the model's stored basis (the
            #      optimizer's input) stays what the basis produced, and so do the model's later reconstructions
            if not ro:
                for bname, mkb in (("Identity", lambda: Identity(n_basis_modes=min(3, rows))), ("SVD", lambda: SVD(n_basis_modes=2, random_state=0))):
                    try:
                        mdl = SSPOR(basis=mkb(), n_sensors=3)
                        impl.quiet(mdl.fit, X.copy(), quiet=True, seed=1, overwrite_a=True)
                        ref_b = mkb()
                        impl.quiet(ref_b.fit, X.copy())
                        chk.count("calls")
                        chk.case({"entry": f"SSPOR[{bname},QR].fit(x, overwrite_a=True)", "shape": list(X.shape)}, nontrivial=True)
                        if not np.allclose(np.array(mdl.basis_matrix_), np.array(ref_b.matrix_representation()), rtol=1e-12, atol=1e-12):
                            chk.violation("impl", "stored-basis-modified:SSPOR.fit", f"SSPOR[{bname},QR].fit(x, overwrite_a=True): the stored basis_matrix_ is no "
                                          "longer what the basis produced (the QR routine overwrote the optimizer's input)",
                                          {"entry": f"SSPOR[{bname},QR].fit(x, overwrite_a=True)", "X": X.tolist()})
                    except Exception as e:
                        chk.count("overwrite-kw-rejected:" + type(e).__name__)
            # the constraint maps called by GQR: only the freshly computed norms may be zeroed
            for f in (NC.exact_n, NC.max_n, NC.predetermined):
                dl = np.ones(n - 1)
                piv = np.arange(n)
                before = (snap(L), snap(piv), snap(A))
                f(L, dl, piv, 1, 1, all_sensors=A, n_sensors=2)
                if (snap(L), snap(piv), snap(A)) != before:
                    chk.violation("impl", "argument-modified:norm_calc", f"{f.__name__} modified lin_idx / piv / all_sensors", {"entry": f.__name__})
                chk.count("calls")
            # ---- bases
            for name, mk in (("Identity", lambda: Identity(n_basis_modes=min(m, rows))), ("SVD", lambda: SVD(n_basis_modes=min(m, n - 1, rows), random_state=0)),
                             ("RandomProjection", lambda: RandomProjection(n_basis_modes=m, random_state=0))):
                b = mk()
                R.call(f"{name}.fit", b.fit, [X], {}, readonly=ro)
                M0 = np.array(b.basis_matrix_, copy=True)
                v = b.matrix_representation(n_basis_modes=1)
                c = b.matrix_representation(n_basis_modes=1, copy=True)
                c[:] = 99.0
                b.matrix_inverse(n_basis_modes=1)
                if not np.array_equal(M0, b.basis_matrix_):
                    chk.violation("impl", "stored-basis-modified", f"{name}: writing into matrix_representation(copy=True) changed the stored basis", {"entry": name})
                if name == "Identity":
                    Xc = X.copy()
                    b2 = Identity().fit(Xc)
                    Xc[:] = -5.0
                    if np.array_equal(np.array(b2.basis_matrix_), Xc.T):
                        chk.violation("impl", "identity-aliases-training-data", "Identity stores a view of the training data", {"entry": "Identity.fit"})
            Uc = rng.integers(-8, 9, size=(n, m + 1)) / 4.0
            R.call("Custom(U).fit", lambda U_: Custom(U_, n_basis_modes=m).fit().matrix_representation(), [Uc], {}, readonly=ro)
            # ---- SSPOR over a sequence of calls
            for bk in ("Identity", "SVD", "RandomProjection"):
                for ok in ("QR", "CCQR", "GQR"):
                    mm = min(m, rows, n - 1)
                    model = SSPOR(basis=impl.make_basis({"kind": bk, "n_basis_modes": mm}),
                                  optimizer=impl.make_optimizer({"kind": ok, "sensor_costs": costs.tolist() if ok == "CCQR" else None}))
                    R.call(f"SSPOR[{bk},{ok}].fit", model.fit, [X], {"quiet": True, "seed": 3}, readonly=ro)
                    Bm = np.array(model.basis_matrix_, copy=True)
                    Bb = np.array(model.basis.basis_matrix_, copy=True)
                    for p in sorted({mm, n, int(rng.integers(1, n + 1))}):
                        model.set_number_of_sensors(p)
                        S = np.array(model.selected_sensors)
                        Y = np.array(rng.integers(-16, 17, size=(3, p)) / 4.0, order="F" if rep % 2 else "C")
                        R.call(f"SSPOR[{bk},{ok}].predict(batch, p={'m' if p == mm else 'other'})", model.predict, [Y], {}, readonly=ro)
                        R.call(f"SSPOR[{bk},{ok}].predict(vector)", model.predict, [np.array(Y[0])], {}, readonly=ro)
                    Xt = rng.integers(-16, 17, size=(3, n)) / 4.0
                    R.call(f"SSPOR[{bk},{ok}].score", model.score, [Xt], {}, readonly=ro)
                    R.call(f"SSPOR[{bk},{ok}].reconstruction_error", model.reconstruction_error, [Xt], {"sensor_range": np.array([1, 2, mm])}, readonly=ro)
                    R.call(f"SSPOR[{bk},{ok}].update_n_basis_modes", model.update_n_basis_modes, [max(1, mm - 1)], {"x": X, "quiet": True}, readonly=ro)
                    if not np.array_equal(Bb, np.array(model.basis.basis_matrix_)):
                        chk.violation("impl", "stored-basis-modified", f"SSPOR[{bk},{ok}]: the basis object's matrix changed after predict / score / update_n_basis_modes "
                                      "(sensor selection must not corrupt the stored basis)", {"entry": f"SSPOR[{bk},{ok}]"})
                    R.call(f"determinant", determinant, [np.array(model.ranked_sensors_[:mm]), n, np.array(model.basis_matrix_)], {}, readonly=ro)
            R.call("relative_reconstruction_error", relative_reconstruction_error, [X, X + 0.5], {}, readonly=ro)
            # GQR through SSPOR with keyword arrays
            model = SSPOR(basis=Identity(n_basis_modes=min(m, rows)), optimizer=GQR())
            R.call("SSPOR[GQR].fit(**kws)", model.fit, [X], dict(quiet=True, seed=1, idx_constrained=L, n_sensors=2, n_const_sensors=1, all_sensors=A, constraint_option="max_n"), readonly=ro)
            # ---- SSPOC
            y = np.arange(rows) % 2
            Xc = X + y[:, None] * 3.0
            for bk in ("Identity", "SVD", "RandomProjection"):
                mm = min(max(2, m), rows - 1, n - 1)
                clf = SSPOC(basis=impl.make_basis({"kind": bk, "n_basis_modes": mm}), n_sensors=3)
                R.call(f"SSPOC[{bk}].fit", clf.fit, [Xc, y], {"quiet": True}, readonly=ro)
                S = np.array(clf.selected_sensors)
                R.call(f"SSPOC[{bk}].predict", clf.predict, [np.array(Xc[:, S])], {}, readonly=ro)
                R.call(f"SSPOC[{bk}].update_sensors", clf.update_sensors, [], {"n_sensors": 2, "xy": (Xc, y), "quiet": True}, readonly=ro)
                R.call(f"SSPOC[{bk}].update_n_basis_modes", clf.update_n_basis_modes, [max(2, mm - 1), (Xc, y)], {"quiet": True}, readonly=ro)
            # ---- constraint helpers
            side = 4
            sens = rng.permutation(side * side)
            R.call("get_constrained_sensors_indices", K.get_constrained_sensors_indices, [0, 2, 0, 2, side, side, sens], {}, readonly=ro)
            df = pd.DataFrame({"x": rng.integers(-8, 9, size=9) / 2.0, "y": rng.integers(-8, 9, size=9) / 2.0, "f": rng.integers(0, 3, size=9) / 1.0})
            df.iloc[2, 0] = np.nan
            R.call("get_constrained_sensors_indices_dataframe", K.get_constrained_sensors_indices_dataframe, [-2, 2, -2, 2, df], {"X_axis": "x", "Y_axis": "y"})
            info = np.zeros((2, side * side))
            R.call("get_coordinates_from_indices", K.get_coordinates_from_indices, [sens, info], {}, readonly=ro)
            dfc = df.dropna().reset_index(drop=True)
            for shp in (K.Circle(1, 1, 2, loc="in", data=info), K.Ellipse(1, 1, 3, 2, angle=30, loc="out", data=info), K.Line(0, 3, 0, 2, data=info),
                        K.Parabola(1, 1, 0.5, "in", data=info), K.Polygon([(0, 0), (3, 0), (3, 3), (0, 3)], loc="in", data=info)):
                R.call(type(shp).__name__ + ".get_constraint_indices", shp.get_constraint_indices, [sens, info], {}, readonly=ro)
            cs = K.Circle(0, 0, 2, loc="in", data=dfc, X_axis="x", Y_axis="y", Field="f")
            R.call("Circle(dataframe).get_constraint_indices", cs.get_constraint_indices, [np.arange(len(dfc)), dfc], {})
            u = K.UserDefinedConstraints(sens, data=info, equation="x + y <= 3")
            R.call("UserDefinedConstraints.constraint", lambda s_: u.constraint(), [sens], {}, readonly=ro)
            R.call("order_constrained_sensors", K.order_constrained_sensors, [[3, 1, 2], [2, 0, 1]], {})


def run(chk):
    rng = np.random.default_rng(chk.seed + 20)
    thorough = chk.tier == "thorough"
    chk.rule = ("(static) every function of the translated modules with every array parameter: obligation may_write = false for the public entry "
                "points, regenerated from /repo; (dynamic) every public entry point of SSPOR, SSPOC, the bases, the optimizers and the constraint "
                "helpers over call sequences, C- and Fortran-ordered inputs, writeable and read-only arrays: byte-wise snapshots of every argument; "
                "distinct by (entry, argument shapes, readonly); non-trivial = the call receives at least one array")
    # ---- stage G: regenerate the effect model from the source and check the obligations inside Coq
    effects.static_part(chk)
    # ---- dynamic validation
    dynamic_part(chk, rng, thorough)
    return chk.finish(TRUSTED, "make -C coq && coqc theories/Properties/C20.v && python ast translator -> Gen_effects.v -> coqc (vm_compute obligations) && dynamic snapshots")


def replay(data):
    import json
    print(json.dumps(data["data"], default=str)[:3000])
    return 0
