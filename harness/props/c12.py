"""C12 - shape constraints return exactly the sensors on the constrained side."""
from fractions import Fraction as F

import numpy as np

from .. import common as C
from .. import impl

TRUSTED = [
    "Coq 8.16.1 kernel + vm_compute",
    "hand-written model Geo/Shapes.v over exact rationals, tied to the six shape classes by random shapes/rankings on grids and dataframes",
    "numpy cos/sin of the ellipse angle are taken from the implementation as exact rationals (the model is evaluated with the same (c, s))",
    "pandas .loc lookup and numpy unravel_index; points within 2^-40 of an ellipse boundary and points on a polygon edge are skipped (TIE-SKIP)",
]


def fr(x):
    return F(float(x))


def qpair(p):
    return "(" + ", ".join(C.cq(fr(v)) for v in p) + ")"


INT_PARAMS = [False]      # shape parameters given as python ints (so that integer coordinates are not promoted to float by them)


def dy(rng, lo, hi, den=4):
    if INT_PARAMS[0]:
        v = int(rng.integers(lo, hi + 1))
        if rng.random() < 0.4:
            # ... or numpy integer scalars of any width (values read from an integer array): the number is the same
            for dt in rng.permutation([np.int8, np.uint8, np.int16, np.int32, np.int64]).tolist():
                if np.iinfo(dt).min <= v <= np.iinfo(dt).max:
                    return dt(v)
        return v
    return float(rng.integers(lo * den, hi * den + 1)) / den


def gen_points(rng, thorough):
    """returns (kind, info, kwargs, pts) where pts[i] = exact coordinates of sensor i"""
    import pandas as pd
    if rng.random() < 0.5:
        side = int(rng.integers(2, 8 if thorough else 7))
        n = side * side
        info = np.zeros((2, n))
        pts = [(i % side, i // side) for i in range(n)]
        return "grid", info, {}, pts, side
    n = int(rng.integers(4, 26))
    three = rng.random() < 0.4
    ints = rng.random() < 0.35
    idt = [np.int64, np.int32, np.int16, np.int8, np.uint8, np.uint16, np.uint32, np.uint64][int(rng.integers(0, 8))]   # any integer width, signed or not
    unsigned = ints and np.dtype(idt).kind == "u"
    clo = 0 if unsigned else -16
    cols = {"x": rng.integers(clo, clo + 33, size=n) / (1 if ints else 4), "y": rng.integers(clo, clo + 33, size=n) / (1 if ints else 4),
            "f": rng.integers(0, 9, size=n) / 2.0}
    if three:
        cols["z"] = rng.integers(clo, clo + 33, size=n) / (1 if ints else 4)
    if ints:
        for k in ("x", "y") + (("z",) if three else ()):
            cols[k] = cols[k].astype(idt)
    df = pd.DataFrame(cols)
    kw = {"X_axis": "x", "Y_axis": "y", "Field": "f"}
    if three:
        kw["Z_axis"] = "z"
    pts = [tuple(float(df[c][i]) for c in (("x", "y", "z") if three else ("x", "y"))) for i in range(n)]
    return "df3" if three else "df2", df, kw, pts, None


def winding(poly, p):
    """exact winding number; returns None when p lies on an edge"""
    x, y = p
    wn = 0
    n = len(poly)
    for i in range(n):
        x1, y1 = poly[i]
        x2, y2 = poly[(i + 1) % n]
        cr = (x2 - x1) * (y - y1) - (x - x1) * (y2 - y1)
        if cr == 0 and min(x1, x2) <= x <= max(x1, x2) and min(y1, y2) <= y <= max(y1, y2):
            return None
        if y1 <= y:
            if y2 > y and cr > 0:
                wn += 1
        elif y2 <= y and cr < 0:
            wn -= 1
    return wn


def run(chk):
    from pysensors.utils._constraints import Circle, Cylinder, Ellipse, Line, Parabola, Polygon
    rng = np.random.default_rng(chk.seed + 12)
    thorough = chk.tier == "thorough"
    N = 1500 if thorough else 300
    chk.rule = ("random shape (6 classes, dyadic parameters, angles incl. 0/30/45/90/120/180, convex/concave/star polygons, three cylinder axes) x "
                "loc in/out x ranking (permutations and sub-lists) x coordinates (square grids side 2-7, float and integer dataframes of 2-D/3-D "
                "points); distinct by canonical JSON; non-trivial = the constrained side holds some but not all of the ranked sensors")
    exprs, meta = [], []
    bystander = [None]
    for _ in range(N):
        kind, info, kw, pts, side = gen_points(rng, thorough)
        INT_PARAMS[0] = bool((kind != "grid" and info["x"].dtype.kind in "iu" and rng.random() < 0.6) or (kind == "grid" and rng.random() < 0.3))
        n = len(pts)
        ranking = rng.permutation(n)
        if rng.random() < 0.3:
            ranking = ranking[: int(rng.integers(1, n + 1))]
        ranking = np.array(ranking, dtype=int)
        lo = min(min(p[:2]) for p in pts)
        hi = max(max(p[:2]) for p in pts)
        # the data handed to the constructor (used for plotting) need not be the data the question is about
        ctor_data = info
        if rng.random() < 0.3:
            if kind == "grid":
                ctor_data = np.zeros((2, (side + 1 + int(rng.integers(0, 3))) ** 2))
            else:
                ctor_data = info.iloc[::-1].reset_index(drop=True).copy()
                for cname in ("x", "y") + (("z",) if kind == "df3" else ()):
                    ctor_data[cname] = (ctor_data[cname].astype(float) * 2 + 3)
            chk.count("constructed_on_other_data")
        # sensors whose position is not known (NaN in a coordinate column) lie on neither side: they are 'out', never 'in'
        nan_rows = set()
        if kind in ("df2", "df3") and info["x"].dtype.kind == "f" and rng.random() < 0.25:
            info = info.copy()
            for i_ in rng.choice(n, size=int(rng.integers(1, min(3, n) + 1)), replace=False):
                info.loc[int(i_), ["x", "y"][int(rng.integers(0, 2))]] = np.nan
                nan_rows.add(int(i_))
            pts = [tuple(0.0 if np.isnan(v) else v for v in (float(info[c][i]) for c in (("x", "y", "z") if kind == "df3" else ("x", "y")))) for i in range(n)]
            chk.count("nan-coordinates")
        shapes = ["circle", "ellipse", "parabola", "line", "polygon"] if kind != "df3" else ["cylinder"]
        if nan_rows:
            shapes = [x for x in shapes if x not in ("line",)]
        sh = shapes[int(rng.integers(0, len(shapes)))]
        loc = "in" if rng.random() < 0.5 else "out"
        P = {}
        tie = set()
        ptq = [tuple(fr(v) for v in p) for p in pts]
        if sh == "circle":
            P = {"center_x": dy(rng, int(lo), int(hi)), "center_y": dy(rng, int(lo), int(hi)), "radius": dy(rng, 0, max(1, int(hi - lo)))}
            mk = lambda l: Circle(P["center_x"], P["center_y"], P["radius"], loc=l, data=ctor_data, **kw)
            inside = [(p[0] - fr(P["center_x"])) ** 2 + (p[1] - fr(P["center_y"])) ** 2 <= fr(P["radius"]) ** 2 for p in ptq]
            shape_q = f"(circle_in {C.cq(fr(P['center_x']))} {C.cq(fr(P['center_y']))} {C.cq(fr(P['radius']))})"
        elif sh == "ellipse":
            ang = float(rng.choice([0.0, 30.0, 45.0, 90.0, 120.0, 180.0, float(rng.integers(-180, 181))]))
            P = {"center_x": dy(rng, int(lo), int(hi)), "center_y": dy(rng, int(lo), int(hi)), "width": dy(rng, 1, max(2, int(hi - lo))) + 0.25,
                 "height": dy(rng, 1, max(2, int(hi - lo))) + 0.25, "angle": ang}
            mk = lambda l: Ellipse(P["center_x"], P["center_y"], P["width"], P["height"], angle=P["angle"], loc=l, data=ctor_data, **kw)
            a = P["angle"] * np.pi / 180
            c_, s_ = fr(np.cos(a)), fr(np.sin(a))
            hw, hh = fr(P["width"] / 2), fr(P["height"] / 2)
            inside = []
            for i, p in enumerate(ptq):
                dx, dy_ = p[0] - fr(P["center_x"]), p[1] - fr(P["center_y"])
                u, v = dx * c_ + dy_ * s_, -dx * s_ + dy_ * c_
                E = u * u / (hw * hw) + v * v / (hh * hh) - 1
                if abs(E) < F(1, 2 ** 40) and (E != 0 or ang != 0.0):
                    tie.add(i)
                inside.append(E <= 0)
            shape_q = f"(ellipse_in {C.cq(fr(P['center_x']))} {C.cq(fr(P['center_y']))} {C.cq(hw)} {C.cq(hh)} {C.cq(c_)} {C.cq(s_)})"
        elif sh == "parabola":
            P = {"h": dy(rng, int(lo), int(hi)), "k": dy(rng, int(lo), int(hi)), "a": dy(rng, -2, 2, 8)}
            mk = lambda l: Parabola(P["h"], P["k"], P["a"], loc=l, data=ctor_data, **kw)
            inside = [fr(P["a"]) * (p[0] - fr(P["h"])) ** 2 <= p[1] - fr(P["k"]) for p in ptq]
            shape_q = f"(parabola_in {C.cq(fr(P['h']))} {C.cq(fr(P['k']))} {C.cq(fr(P['a']))})"
        elif sh == "line":
            P = {"x1": dy(rng, int(lo), int(hi)), "x2": dy(rng, int(lo), int(hi)), "y1": dy(rng, int(lo), int(hi)), "y2": dy(rng, int(lo), int(hi))}
            mk = lambda l: Line(P["x1"], P["x2"], P["y1"], P["y2"], data=ctor_data, **kw)
            loc = "line"
            cross = [(p[1] - fr(P["y1"])) * (fr(P["x2"]) - fr(P["x1"])) - (fr(P["y2"]) - fr(P["y1"])) * (p[0] - fr(P["x1"])) for p in ptq]
            inside = [c < 0 for c in cross]      # strictly right of the directed line = constrained
            shape_q = None
        elif sh == "polygon":
            m = int(rng.integers(3, 8))
            cxp, cyp = (lo + hi) / 2, (lo + hi) / 2
            R = max(1.0, (hi - lo) / 2)
            angs = np.sort(rng.random(m) * 2 * np.pi)
            rad = R * (0.3 + 0.9 * rng.random(m))       # star-shaped: convex or concave
            poly = [(round((cxp + r_ * np.cos(t)) * 4) / 4, round((cyp + r_ * np.sin(t)) * 4) / 4) for r_, t in zip(rad, angs)]
            if rng.random() < 0.5:
                poly = poly[::-1]
            k0 = int(rng.integers(0, m))
            poly = poly[k0:] + poly[:k0]
            form = ["tuples", "tuples", "lists", "float-array", "int-array", "uint8-array", "uint16-array"][int(rng.integers(0, 7))]
            if form.endswith("int-array") or form.startswith("uint"):
                poly = [(float(round(a)), float(round(b))) for a, b in poly]
                if form.startswith("uint") and min(min(v) for v in poly) < 0:
                    sh_ = -min(min(v) for v in poly)
                    poly = [(a + sh_, b + sh_) for a, b in poly]
            poly_arg = {"tuples": poly, "lists": [list(v) for v in poly], "float-array": np.array(poly, dtype=float),
                        "int-array": np.array(poly).astype(np.int64), "uint8-array": np.array(poly).astype(np.uint8),
                        "uint16-array": np.array(poly).astype(np.uint16)}[form]
            chk.count("polygon-vertices:" + form)
            P = {"xy_coords": poly, "vertex_container": form}
            mk = lambda l: Polygon(poly_arg, loc=l, data=ctor_data, **kw)
            pq = [(fr(a), fr(b)) for a, b in poly]
            if any(pq[i][1] == pq[(i + 1) % m][1] and False for i in range(m)):
                pass
            inside = []
            for i, p in enumerate(ptq):
                w = winding(pq, p[:2])
                if w is None:
                    tie.add(i)
                    inside.append(False)
                else:
                    inside.append(w != 0)
            shape_q = f"(polygon_in [{'; '.join(qpair(v) for v in poly)}])"
        else:
            ax = ["Z_axis", "Y_axis", "X_axis"][int(rng.integers(0, 3))]
            P = {"center_x": dy(rng, -3, 3), "center_y": dy(rng, -3, 3), "center_z": dy(rng, -3, 3), "radius": dy(rng, 1, 5), "height": dy(rng, 0, 8), "axis": ax}
            if rng.random() < 0.5:
                # a sensor exactly ON an end cap (and on the axis, so well within the radius): both caps of all three axes are closed
                j_ = int(rng.integers(0, n))
                a_ = {"X_axis": 0, "Y_axis": 1, "Z_axis": 2}[ax]
                upper_ = bool(rng.random() < 0.5)
                c_axis = pts[j_][a_] - float(P["height"]) / 2 if upper_ else pts[j_][a_] + float(P["height"]) / 2
                if j_ not in nan_rows and (not INT_PARAMS[0] or float(c_axis).is_integer()):
                    for t_, nm_ in enumerate(("center_x", "center_y", "center_z")):
                        v_ = c_axis if t_ == a_ else pts[j_][t_]
                        P[nm_] = int(v_) if INT_PARAMS[0] else float(v_)
                    chk.count("cylinder:sensor-on-" + ("upper" if upper_ else "lower") + "-cap:" + ax)
            mk = lambda l: Cylinder(P["center_x"], P["center_y"], P["center_z"], P["radius"], P["height"], loc=l, axis=ax, data=ctor_data, **kw)
            cx, cy, cz, r_, h_ = (fr(P[k]) for k in ("center_x", "center_y", "center_z", "radius", "height"))
            inside = []
            for x, y, z in ptq:
                if ax == "Z_axis":
                    inside.append((x - cx) ** 2 + (y - cy) ** 2 <= r_ ** 2 and cz - h_ / 2 <= z <= cz + h_ / 2)
                elif ax == "Y_axis":
                    inside.append((x - cx) ** 2 + (z - cz) ** 2 <= r_ ** 2 and cy - h_ / 2 <= y <= cy + h_ / 2)
                else:
                    inside.append((y - cy) ** 2 + (z - cz) ** 2 <= r_ ** 2 and cx - h_ / 2 <= x <= cx + h_ / 2)
            shape_q = f"(cylinder_in {C.cq(cx)} {C.cq(cy)} {C.cq(cz)} {C.cq(r_)} {C.cq(h_)} {'Ax' + ax[0]})"
        for i_ in nan_rows:
            inside[i_] = False
            tie.discard(i_)
        case = {"coords": kind, "points": [list(p) for p in pts] if kind != "grid" else f"grid side {side}", "shape": sh, "params": P, "loc": loc, "nan_rows": sorted(nan_rows),
                "ranking": ranking.tolist(), "int_dataframe": bool(kind != "grid" and info["x"].dtype.kind in "iu"), "dtype": "float64" if kind == "grid" else str(info["x"].dtype)}
        # ---- run the implementation (both loc values for the partition clause)
        got = {}
        for l in (("in", "out") if loc != "line" else ("line",)):
            try:
                obj = mk(l)
                if bystander[0] is not None:
                    # another shape object with other data is asked in between: nothing of it may show up in this object's answer
                    try:
                        bo, br, bi = bystander[0]
                        impl.quiet(lambda: bo.get_constraint_indices(all_sensors=br.copy(), info=bi))
                    except Exception:
                        pass
                if rng.random() < 0.6:
                    # the same shape object is asked first about another ranking of the same length (call sequences)
                    impl.quiet(lambda: obj.get_constraint_indices(all_sensors=rng.permutation(ranking), info=info))
                if kind != "grid" and rng.random() < 0.6:
                    # ... and about ANOTHER dataframe of the same shape and column types (other coordinates)
                    try:
                        info2 = info.copy()
                        for cname in ("x", "y") + (("z",) if kind == "df3" else ()):
                            info2[cname] = np.roll(info[cname].to_numpy(), int(rng.integers(1, n)))[::-1].copy()
                        impl.quiet(lambda: obj.get_constraint_indices(all_sensors=ranking.copy(), info=info2))
                        chk.count("asked_about_another_dataframe_first")
                    except Exception:
                        pass
                res = impl.quiet(lambda: obj.get_constraint_indices(all_sensors=ranking.copy(), info=info))
                got[l] = [int(i) for i in res[0]]
                bystander[0] = (obj, ranking.copy(), info)
            except Exception as e:
                got[l] = "EXC " + type(e).__name__ + ": " + str(e)[:80]
        rk = ranking.tolist()
        exp = {"in": [i for i in rk if inside[i]], "out": [i for i in rk if not inside[i]], "line": [i for i in rk if inside[i]]}
        nontriv = 0 < len(exp["in"]) < len(rk)
        chk.case(case, nontrivial=nontriv)
        chk.count("shape:" + sh)
        chk.count("coords:" + kind)
        if tie:
            chk.count("TIE-SKIP-points", len(tie))
        strip = lambda lst: [i for i in lst if i not in tie]
        for l in got:
            ctx = {**case, "loc": l, "observed": got[l], "expected": exp[l]}
            if isinstance(got[l], str):
                chk.violation("impl", f"{sh}-raises" + ("-int-dataframe" if case["int_dataframe"] else ""),
                              f"{sh}(loc={l}).get_constraint_indices raised {got[l]}", ctx)
            elif strip(got[l]) != strip(exp[l]):
                chk.violation("impl", f"{sh}-{l}-wrong-sensors", f"{sh} loc={l}: returned {got[l]}, exact geometry gives {exp[l]} (same order as the ranking)", ctx)
        if loc != "line" and all(isinstance(got[l], list) for l in got):
            if sorted(got["in"] + got["out"]) != sorted(rk):
                chk.violation("impl", f"{sh}-partition", f"{sh}: 'in' {got['in']} and 'out' {got['out']} do not partition the ranking {rk}", {**case, "observed": got})
        # ---- model expression for the requested loc
        if nan_rows:
            continue            # positions that are not numbers have no rational model: the exact oracle above judges these cases
        if kind == "grid":
            pt = f"(grid_point {side})"
        elif kind == "df2":
            pt = f"(table2 [{'; '.join(qpair(p) for p in pts)}])"
        else:
            pt = f"(table3 [{'; '.join(qpair(p) for p in pts)}])"
        if sh == "line":
            e = f"constrained_line {C.cq(fr(P['x1']))} {C.cq(fr(P['x2']))} {C.cq(fr(P['y1']))} {C.cq(fr(P['y2']))} {pt} {C.cnatlist(rk)}"
            l = "line"
        else:
            l = loc
            e = f"constrained {shape_q} {'LIn' if loc == 'in' else 'LOut'} {pt} {C.cnatlist(rk)}"
        exprs.append(e)
        meta.append((case, got[l], tie))
    files = []
    for i in range(0, len(exprs), 150):
        body = ("From Coq Require Import List Arith ZArith QArith Qcanon. Import ListNotations.\nFrom PS Require Import Geo.Shapes.\n"
                "Eval vm_compute in [\n  " + ";\n  ".join(exprs[i:i + 150]) + "\n].\n")
        files.append((f"cases_{i // 150}", body))
    out = []
    for r in C.coq_eval("C12", files):
        if not r["ok"]:
            chk.violation("correspondence", "model-eval-failed", "coqc failed on a cases file: " + r["log"][-300:], {})
            out = None
            break
        out += r["values"][0]
    if out is not None:
        for mres, (case, real, tie) in zip(out, meta):
            chk.traces += 1
            strip = lambda lst: [i for i in lst if i not in tie]
            if isinstance(real, list) and strip(mres) == strip(real):
                chk.count("AGREE")
            else:
                chk.count("DISAGREE")
                chk.violation("correspondence", f"c12-model-mismatch:{case['shape']}", f"model returns {mres}, implementation {real}", {**case, "model": mres, "observed": real})
    return chk.finish(TRUSTED, "make -C coq && coqc theories/Properties/C12.v && coqc cases_*.v (vm_compute)")


def replay(data):
    import json
    print(json.dumps(data["data"], default=str)[:3000])
    return 0
