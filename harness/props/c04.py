"""C04 - cost-constrained ranking maximises residual norm minus cost at every step."""
from fractions import Fraction as F

import numpy as np

from .. import common as C
from .. import gen, impl
from .c03 import RHO, TAU_REL, exact_follow, fr_mat, own_norms, sqrt_le

TRUSTED = [
    "Coq 8.16.1 kernel + vm_compute; C04 theorems about sqrt depend on the standard-library real-number axioms "
    "(ClassicalDedekindReals.sig_not_dec, sig_forall_dec, functional_extensionality_dep)",
    "hand-written model LA/Ccqr.v + LA/SqrtCmp.v over the Gram model, tied to CCQR by (a) equality of rankings when every choice has a margin, "
    "(b) equality of the exact squared residuals along the observed picks with an independent Fractions Gram-Schmidt, (c) the exact follow-mode rule",
    "Householder arithmetic of CCQR is float: rounding is not modelled (relative 2^-20 / absolute 2^-40 slack on norms)",
]


def judge(Bq, costs, picks, f32=False):
    """returns (ok, exact, zero_pivot_step): follow-mode verdicts of the rule 'maximise sqrt(residual) - cost'.
    f32: the matrix was handed over in single precision - the slack is widened to that arithmetic (2^-10 relative, 2^-16 absolute)"""
    RHO, TAU_REL = (F(1, 2 ** 10), F(1, 2 ** 16)) if f32 else (globals()["RHO"], globals()["TAU_REL"])
    diags = exact_follow(Bq, picks)
    scale = max([sum(x * x for x in r) for r in Bq] + [F(0)])
    tau = TAU_REL * (1 + scale) / 2
    s0 = own_norms(Bq)         # CCQR's residual norms are accurate relative to the sensor's OWN norm (see c03.judge, own=True)
    ranked, ok, exact, zp = set(), True, True, None
    for j, (d, p) in enumerate(zip(diags, picks)):
        if p in ranked:
            ok = exact = False
        for c in range(len(d)):
            if c in ranked:
                continue
            # ... and norm - cost is formed in floating point: what is below 2^-50 of the costs involved is absorbed
            t_ = min(tau, TAU_REL / 2 * (s0[c] + s0[p])) + F(1, 2 ** 50) * (abs(costs[c]) + abs(costs[p]))
            if not sqrt_le((1 - RHO) ** 2 * d[c], costs[c] + t_, d[p], costs[p]):
                ok = False
            if not sqrt_le(d[c], costs[c], d[p], costs[p]):
                exact = False
        if zp is None and d[p] == 0 and any(d[c] > 0 for c in range(len(d)) if c not in ranked):
            zp = j
        ranked.add(p)
    return ok, exact, zp, diags


def run(chk):
    from pysensors.optimizers import CCQR, QR
    rng = np.random.default_rng(chk.seed + 4)
    thorough = chk.tier == "thorough"
    N = 600 if thorough else 120
    nmax, mmax = (12, 6) if thorough else (9, 5)
    chk.rule = ("random basis matrices of every kind (incl. exactly-zero rows) x cost vectors (zero, positive, negative, mixed, prohibitive, one "
                "strongly preferred sensor - also a zero-residual one); metamorphic pairs (costs shifted by a constant, zero costs vs QR); "
                "distinct by canonical JSON; non-trivial = costs change the unconstrained ranking")
    exprs, meta = [], []
    corpus = [(np.array([[2, -1, 0, 3], [4, 1, -2, 0], [0, 0, 0, 0], [1, 3, 2, -1], [-2, 2, 1, 1], [3, 0, -1, 2], [1, -1, 4, 0]], dtype=float),
               np.array([0, 0, -100.0, 0, 0, 0, 0]))]
    for it in range(N + len(corpus)):
        if it < len(corpus):       # minimised failures run first (here: the recorded known finding)
            B, costs = corpus[it]
            n, m = B.shape
            kind, ck = "zerorows", "zero_row_preferred"
        else:
            n, m = gen.shape(rng, nmax, mmax)
            B, kind = gen.matrix(rng, n, m, "localized" if rng.random() < 0.3 else None)      # pivot columns that are already triangular
            costs, ck = gen.costs(rng, n)
        k = min(n, m)
        Bq = fr_mat(B)
        if it >= len(corpus) and rng.random() < 0.15:
            # the same problem in tiny units (exact power-of-two rescaling of matrix and costs)
            B = B * 2.0 ** -36
            costs = costs * 2.0 ** -36
            kind = kind + "*2^-36"
            Bq = fr_mat(B)
        if it >= len(corpus) and kind == "zerorows" and rng.random() < 0.6:
            z = [i for i in range(n) if not np.any(B[i])]
            if z:
                costs = costs.copy()
                costs[z[0]] = -100.0
                ck = "zero_row_preferred"
        if it >= len(corpus) and n >= 3 and rng.random() < 0.3:
            if rng.random() < 0.7 or kind.startswith("allzero"):
                B, kind = gen.matrix(rng, n, m, "generic")         # dense rows: the reflections leave rounding residue on the dependent row
            # sensors whose residual becomes exactly zero once other sensors are ranked (a copy, a multiple, a sum of two rows), all of
            # them made the preferred pivots by their costs: after the first ones are taken the dependent one removes no direction
            B = B.copy()
            costs = costs.copy()
            i0, i1, i2 = (int(v) for v in rng.permutation(n)[:3])
            form = int(rng.integers(0, 3))
            if form == 0:
                B[i1] = B[i0]
                pref = [i0, i1]
            elif form == 1:
                B[i1] = B[i0] * float([-1.0, 2.0, 0.5, -3.0][int(rng.integers(0, 4))])
                pref = [i0, i1]
            else:
                B[i2] = B[i0] + B[i1]
                pref = [i0, i1, i2]
            big = 4.0 * (1.0 + float(np.abs(B).max())) * m
            for t, i in enumerate(pref):
                costs[i] = -big * (len(pref) - t + 1)
            kind, ck = kind + "+dependent", "dependent_row_preferred"
            Bq = fr_mat(B)
        elif it >= len(corpus) and n >= 3 and rng.random() < 0.25 and np.any(B):
            if rng.random() < 0.7:
                B, kind = gen.matrix(rng, n, m, "generic")         # dense rows: removing the faint sensor's direction changes every residual
            # a faint but non-zero sensor (2^-60 of the others) made the preferred pivot: its direction is a real direction and has to go
            B = B.copy()
            costs = costs.copy()
            nz = [i for i in range(n) if np.any(B[i])]
            i0 = nz[int(rng.integers(0, len(nz)))]
            B[i0] = B[i0] * 2.0 ** -60
            costs[i0] = -4.0 * (1.0 + float(np.abs(B).max())) * m
            kind, ck = kind + "+faint", "faint_row_preferred"
            Bq = fr_mat(B)
        if it >= len(corpus) and n >= 2 and rng.random() < 0.12:
            # prohibitive costs given as huge or infinite numbers next to ordinary ones: such sensors come last, the others are ranked as before
            costs = costs.copy()
            import sys as _sys
            hv = [1e18, 1e25, _sys.float_info.max, np.inf][int(rng.integers(0, 4))]
            for i_ in rng.choice(n, size=int(rng.integers(1, n)), replace=False):
                costs[int(i_)] = hv
            ck = "prohibitive_huge" if np.isfinite(hv) else "prohibitive_inf"
        f32 = False
        Bfit = B
        if it >= len(corpus) and rng.random() < (0.5 if ck == "dependent_row_preferred" else 0.1) and np.array_equal(B.astype(np.float32).astype(float), B):
            Bfit = B.astype(np.float32)            # the same real matrix in single precision
            f32 = True
            kind = kind + "/float32"
        cq = [F(float(c)) if np.isfinite(c) else F(2) ** 300 for c in costs]
        case = {"B": B.tolist(), "kind": kind, "costs": [float(c) if np.isfinite(c) else "inf" for c in costs], "cost_kind": ck}
        try:
            user_costs = costs.copy()
            opt = CCQR(sensor_costs=user_costs)
            piv = [int(i) for i in impl.quiet(opt.fit, Bfit.copy()).get_sensors()]
            # the same optimizer object (and the user's cost array) used again must give the same ranking
            piv_again = [int(i) for i in impl.quiet(opt.fit, Bfit.copy()).get_sensors()]
            if piv_again != piv or not np.array_equal(user_costs, costs):
                chk.violation("impl", "ccqr-second-fit-differs", f"fitting the same CCQR object twice on the same matrix gives {piv} then {piv_again}; "
                              f"cost array modified: {not np.array_equal(user_costs, costs)}", {**case, "observed": [piv, piv_again]})
            qrp = [int(i) for i in QR().fit(B).get_sensors()]
            if it >= len(corpus) and rng.random() < 0.5:
                # the same object with OTHER costs afterwards (attribute, set_params, None): the ranking must follow the costs in force
                costs_b, ck_b = gen.costs(rng, n)
                how = int(rng.integers(0, 3))
                if how == 0:
                    opt.sensor_costs = costs_b.copy()
                elif how == 1:
                    opt.set_params(sensor_costs=costs_b.copy())
                else:
                    costs_b, ck_b = np.zeros(n), "none"
                    opt.sensor_costs = None
                piv_b = [int(i) for i in impl.quiet(opt.fit, B.copy()).get_sensors()]
                ok_b, _, zp_b, _ = judge(Bq, [F(float(c)) for c in costs_b], piv_b[:k])
                chk.count("costs_changed_on_the_same_object")
                if not ok_b:
                    chk.violation("impl", "ccqr-refit-ignores-new-costs", f"after the costs of the same CCQR object were changed ({ck} -> {ck_b}) the ranking {piv_b[:k]} "
                                  f"does not maximise (residual norm - new cost)", {**case, "new_costs": costs_b.tolist(), "observed": piv_b})
        except Exception as e:
            chk.violation("impl", "ccqr-raises", f"CCQR.fit raised {type(e).__name__}: {e}", case)
            continue
        picks = piv[:k]
        chk.case(case, nontrivial=picks != qrp[:k])
        chk.count("kind:" + kind)
        chk.count("costs:" + ck)
        ok, exact, zp, diags = judge(Bq, cq, picks, f32)
        ctx = {**case, "observed": piv}
        if not ok:
            if zp is not None:
                chk.violation("impl", "ccqr-zero-residual-pivot", f"CCQR ranking {picks} stops maximising (norm - cost) after the zero-residual sensor {picks[zp]} was "
                              f"chosen at step {zp} while other sensors still had non-zero residual", {**ctx, "zero_pivot_step": zp})
            else:
                chk.violation("impl", "ccqr-not-max", f"CCQR ranking {picks} does not maximise (residual norm - cost) at every step", ctx)
        if zp is not None:
            chk.count("zero_residual_pivot_cases")
        # metamorphic: a common shift of the costs, zero costs
        if exact and zp is None and not f32 and "prohibitive_" not in ck:
            d = float(rng.integers(-16, 17)) / 4.0
            piv2 = [int(i) for i in impl.quiet(CCQR(sensor_costs=costs + d).fit, B.copy()).get_sensors()]
            ok2, ex2, zp2, _ = judge(Bq, [c_ + F(d) for c_ in cq], piv2[:k])       # judged with the costs it was computed with (their size sets the rounding)
            if piv2[:k] != picks and not ok2:
                chk.violation("impl", "ccqr-shift-changes-ranking", f"adding {d} to every cost changed the ranking from {picks} to {piv2[:k]}", {**ctx, "shift": d, "observed_shifted": piv2})
            chk.count("shift_pairs")
        if ck == "zero":
            okq, _, _, _ = judge(Bq, cq, qrp[:k])
            if picks != qrp[:k] and not (ok and okq):
                chk.violation("impl", "ccqr-zero-costs-differ-from-qr", f"zero costs: CCQR {picks} vs QR {qrp[:k]}", ctx)
        if ck == "prohibitive":
            norms2 = [sum(x * x for x in r) for r in Bq]
            for j, p in enumerate(picks):
                if cq[p] > 0 and cq[p] * cq[p] > max(norms2):
                    free = [c for c in range(n) if c not in picks[:j] and cq[c] == 0 and diags[j][c] > (TAU_REL * (1 + max(norms2))) ** 2]
                    if free:
                        chk.violation("impl", "ccqr-prohibitive-ranked-early", f"sensor {p} (cost {costs[p]}) ranked at step {j} before zero-cost sensors {free} with non-zero residual", ctx)
                        break
        G = f"(gram {m} (of_rows {C.cqmat(Bq)}))"
        exprs.append(f"case_c04 {n} {k} {C.cqlist(cq)} {G} {C.cnatlist(picks)}")
        meta.append((ctx, picks, diags, ok, zp))
    files = []
    for i in range(0, len(exprs), 40):
        body = ("From Coq Require Import List Arith QArith Qcanon. Import ListNotations.\nFrom PS Require Import LA.Sums LA.Gram LA.Ccqr Exec.Run_C03.\n"
                "Eval vm_compute in [\n  " + ";\n  ".join(exprs[i:i + 40]) + "\n].\n")
        files.append((f"cases_{i // 40}", body))
    out = []
    for r in C.coq_eval("C04", files):
        if not r["ok"]:
            chk.violation("correspondence", "model-eval-failed", "coqc failed on a cases file: " + r["log"][-300:], {})
            out = None
            break
        out += r["values"][0]
    if out is not None:
        for (mrank, mdiags), (ctx, picks, diags, ok, zp) in zip(out, meta):
            chk.traces += 1
            md = [[F(a, b) for a, b in row] for row in mdiags]
            if md != diags:
                chk.count("DISAGREE")
                chk.violation("correspondence", "c04-schur-vs-gram-schmidt", "the model's squared residuals along the observed picks differ from the exact Gram-Schmidt oracle", ctx)
                continue
            if mrank == picks:
                chk.count("AGREE")
            elif ok:
                chk.count("TIE-SKIP")
            elif zp is not None:
                chk.count("DISAGREE-known-class")
                chk.violation("correspondence", "ccqr-zero-residual-pivot", f"model ranks {mrank}, CCQR {picks} (a zero-residual sensor was chosen at step {zp})", {**ctx, "model": mrank})
            else:
                chk.count("DISAGREE")
                chk.violation("correspondence", "c04-model-mismatch", f"model ranks {mrank}, CCQR {picks}, and the observed order breaks the rule", {**ctx, "model": mrank})
    return chk.finish(TRUSTED, "make -C coq && coqc theories/Properties/C04.v && coqc cases_*.v (vm_compute)")


def replay(data):
    import json
    print(json.dumps(data["data"], default=str)[:3000])
    return 0
