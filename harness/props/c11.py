"""C11 - bases return consistent mode matrices and inverses."""
from fractions import Fraction as F

import numpy as np

from .. import common as C
from .. import impl

TRUSTED = [
    "Coq 8.16.1 kernel + vm_compute",
    "hand-written model Basis/Basis.v: pysensors' own data movements (prefix slicing, bound checks, Identity transposition) are compared "
    "bit-exactly; sklearn TruncatedSVD, GaussianRandomProjection and numpy.linalg.pinv are oracles whose contracts (orthonormal modes, "
    "Penrose / left inverse, projection = X^T G, determinism for a fixed random_state) are validated per case by checkers evaluated inside Coq",
]


def q(M):
    return [[F(float(v)) for v in row] for row in np.atleast_2d(np.asarray(M))]


def run(chk):
    from pysensors.basis import SVD, Custom, Identity, RandomProjection
    rng = np.random.default_rng(chk.seed + 11)
    thorough = chk.tier == "thorough"
    N = 400 if thorough else 130
    chk.rule = ("random training matrices (generic and low-rank) x Identity / SVD (randomized and arpack) / RandomProjection / Custom x every admissible "
                "n_basis_modes (sampled) x every requested k <= n_basis_modes, 0, negatives and k > n_basis_modes x copy=True/False; distinct by "
                "canonical JSON; non-trivial = more than one mode")
    exprs, meta = [], []

    def coq(expr, ctx):
        exprs.append(expr)
        meta.append(ctx)

    for _ in range(N):
        n = int(rng.integers(2, 9))
        rows = int(rng.integers(2, 8))
        kind = ["Identity", "SVD", "SVD", "SVD-arpack", "RandomProjection", "RandomProjection", "Custom", "RandomProjection-auto"][int(rng.integers(0, 8))]
        if kind == "RandomProjection-auto":
            # the documented "auto": the Johnson-Lindenstrauss dimension for n sensors must fit into the number of examples
            n = int(rng.integers(2, 6))
            rows = int(rng.integers(45, 70))
        lowrank = rng.random() < (0.6 if kind.startswith("SVD") else 0.3) and min(n, rows) >= 2
        if lowrank:
            r0 = int(rng.integers(1, min(n, rows)))
            X = (rng.integers(-6, 7, size=(rows, r0)) @ rng.integers(-4, 5, size=(r0, n))).astype(float) / 4.0
        else:
            r0 = min(n, rows)
            X = rng.integers(-24, 25, size=(rows, n)) / 8.0
        bad_scaled = False
        if kind == "RandomProjection" and rng.random() < 0.55:
            # badly scaled examples (exact powers of two): the modes X^T G stay full rank but become ill-conditioned
            X = X * (2.0 ** -np.linspace(0, int(rng.integers(12, 25)), rows))[:, None]
            chk.count("rp_badly_scaled")
            bad_scaled = True
        if kind == "Identity":
            nb = None if rng.random() < 0.4 else int(rng.integers(1, rows + 1))
            if nb is not None and rng.random() < 0.15:
                nb = rows + int(rng.integers(1, 3))           # more modes than examples: to be rejected, or at least consistent
                chk.count("modes-beyond-limit:Identity")
            mk = lambda: Identity(n_basis_modes=nb)
        elif kind.startswith("SVD"):
            hi = min(n, rows) - (1 if kind == "SVD-arpack" else 0)
            if hi < 1:
                continue
            nb = int(rng.integers(1, hi + 1))
            if lowrank and r0 < hi and rng.random() < 0.5:
                nb = int(rng.integers(r0 + 1, hi + 1))       # more modes than the rank of the data: some singular values are zero
                chk.count("svd_more_modes_than_rank")
            if rng.random() < 0.3:
                # more modes than features and/or examples: to be rejected, or at least consistent
                nb = int(rng.integers(min(n, rows) + 1, max(n, rows) + 3))
                chk.count("modes-beyond-limit:SVD")
            mk = (lambda: SVD(n_basis_modes=nb, random_state=0)) if kind == "SVD" else (lambda: SVD(n_basis_modes=nb, algorithm="arpack", random_state=0))
        elif kind == "RandomProjection-auto":
            nb = "auto"
            mk = lambda: RandomProjection(n_basis_modes="auto", eps=0.99, random_state=7)
        elif kind == "RandomProjection":
            nb = int(rng.integers(1, 6)) if not bad_scaled else max(2, min(rows, n) - int(rng.integers(0, 2)))      # as many modes as the data can carry
            mk = lambda: RandomProjection(n_basis_modes=nb, random_state=7)
        else:
            nb = int(rng.integers(1, n + 1))
            ucols = nb + int(rng.integers(0, 3)) if rng.random() < 0.65 else int(rng.integers(1, nb + 1)) - (1 if nb > 1 else 0) or 1
            custom_default = rng.random() < 0.25          # leave n_basis_modes to the constructor (10)
            if custom_default:
                nb = 10
                ucols = int(rng.integers(1, 14))
            Uc = rng.integers(-16, 17, size=(n, ucols)) / 4.0
            mk = (lambda: Custom(Uc)) if custom_default else (lambda: Custom(Uc, n_basis_modes=nb))
            chk.count("custom:" + ("narrow" if ucols < nb else "wide-enough"))
        case = {"basis": kind, "n_basis_modes": nb, "X": X.tolist(), "low_rank": lowrank}
        try:
            # a bystander of the same class, fitted on other data of the same shape: whatever it is asked later must not show up in b
            by = None
            if kind != "Custom":
                by = mk()
                impl.quiet(by.fit, X + rng.integers(-8, 9, size=X.shape) / 2.0)
            b = mk()
            impl.quiet(b.fit, X) if kind != "Custom" else b.fit()
        except Exception as e:
            chk.count("fit-rejected:" + type(e).__name__)
            if kind == "Custom":
                coq(f"match custom_fit {C.cqmat(q(Uc))} {Uc.shape[1]} {nb} with None => {'true' if isinstance(e, ValueError) else 'false'} | Some _ => false end",
                    {**case, "what": f"Custom.fit raised {type(e).__name__} ({Uc.shape[1]} columns, {nb} modes)"})
            continue
        if kind == "Custom":
            coq(f"match custom_fit {C.cqmat(q(Uc))} {Uc.shape[1]} {nb} with Some (M, a) => Nat.eqb a {int(b.n_basis_modes)}%nat && check_close 0 {n} {nb} M {C.cqmat(q(np.array(b.basis_matrix_)))} | None => false end",
                {**case, "what": f"Custom.fit accepted ({Uc.shape[1]} columns, {nb} modes)"})
        try:
            avail = int(b.n_basis_modes)
        except Exception:
            chk.case(case, nontrivial=True)
            chk.violation("impl", "n-basis-modes-not-a-count", f"{kind}: after fit, n_basis_modes is {b.n_basis_modes!r}, not the number of retained modes", case)
            continue
        if kind == "RandomProjection-auto":
            import math
            jl = int(4 * math.log(n) / (0.99 ** 2 / 2 - 0.99 ** 3 / 3))
            if avail != jl:
                chk.violation("impl", "auto-mode-count", f"RandomProjection('auto', eps=0.99) on {n} sensors retains {avail} modes, Johnson-Lindenstrauss gives {jl}", case)
            kind = "RandomProjection"
            case["basis"] = "RandomProjection(auto)"
        if by is not None:
            try:
                for kb in range(1, int(by.n_basis_modes) + 1):
                    by.matrix_representation(n_basis_modes=kb), by.matrix_inverse(n_basis_modes=kb)
                by.matrix_representation(), by.matrix_inverse()
            except Exception:
                pass
        full = np.array(b.matrix_representation())
        chk.case(case, nontrivial=avail > 1)
        chk.count("basis:" + kind)
        # ---- shape, prefix consistency, rejection, copy
        if full.shape != (n, avail):
            chk.violation("impl", "basis-shape", f"{kind}: matrix_representation() has shape {full.shape}, expected {(n, avail)}", case)
            continue
        for k in sorted({1, avail, int(rng.integers(1, avail + 1))}):
            for cp in (False, True):
                Mk = b.matrix_representation(n_basis_modes=k, copy=cp)
                if Mk.shape != (n, k) or not np.array_equal(Mk, full[:, :k]):
                    chk.violation("impl", "basis-not-prefix", f"{kind}: matrix_representation({k}, copy={cp}) is not the first {k} columns of the full matrix", {**case, "k": k})
                if cp and np.shares_memory(Mk, b.basis_matrix_):
                    chk.violation("impl", "basis-copy-aliases", f"{kind}: copy=True returned a view of the stored basis", {**case, "k": k})
            Ik = np.array(b.matrix_inverse(n_basis_modes=k))
            coq(f"match matrix_representation (Some {C.cqmat(q(full))}) {avail} (ReqCount {k}) with RMatrix M => check_close 0 {n} {k} M {C.cqmat(q(b.matrix_representation(n_basis_modes=k)))} | _ => false end",
                {**case, "what": f"prefix k={k}"})
            # ---- inverse relations
            Mk = full[:, :k]
            if kind == "Identity":
                if not np.array_equal(Ik, np.eye(n)):
                    chk.violation("impl", "identity-inverse", "Identity.matrix_inverse is not the identity matrix", {**case, "k": k})
            elif kind.startswith("SVD") or kind == "Custom":
                if not np.array_equal(Ik, Mk.T):
                    chk.violation("impl", "inverse-not-transpose", f"{kind}: matrix_inverse({k}) is not the transpose of the first {k} modes", {**case, "k": k})
            else:
                cond = float(np.linalg.cond(Mk))
                if np.linalg.matrix_rank(Mk) == k and cond < 1e9:
                    # a backward-stable pseudo-inverse has |P M - I| ~ eps * cond; anything that squares the condition number is far outside
                    tol = 1e-12 * cond + 1e-13
                    err = float(np.max(np.abs(Ik @ Mk - np.eye(k))))
                    if err > tol:
                        chk.violation("impl", "pinv-not-left-inverse", f"RandomProjection: matrix_inverse({k}) @ modes differs from the identity by {err:.3g} "
                                      f"(cond {cond:.3g}, tolerance {tol:.3g})", {**case, "k": k})
                    coq(f"check_left_inverse {C.cq(F(tol))} {n} {k} {C.cqmat(q(Ik))} {C.cqmat(q(Mk))}", {**case, "what": f"pinv left inverse k={k}"})
        for bad in (0, -1, avail + 1, avail + 5):
            for meth in ("matrix_representation", "matrix_inverse"):
                try:
                    getattr(b, meth)(n_basis_modes=bad)
                    chk.violation("impl", "bad-mode-count-accepted", f"{kind}.{meth}(n_basis_modes={bad}) with {avail} modes available was accepted", {**case, "k": bad})
                except ValueError:
                    pass
            coq(f"match matrix_representation (Some {C.cqmat(q(full))}) {avail} (ReqCount ({bad})) with RValueError => true | _ => false end", {**case, "what": f"reject k={bad}"})
        # ---- basis-specific exactness / contracts
        if kind == "Identity":
            if not np.array_equal(full, X[:avail].T):
                chk.violation("impl", "identity-not-exact", "Identity basis does not reproduce the first training examples exactly", case)
            nbq = "None" if nb is None else f"(Some {nb}%nat)"
            coq(f"match identity_fit {C.cqmat(q(X))} {n} {nbq} with Some (M, a) => Nat.eqb a {avail}%nat && check_close 0 {n} {avail} M {C.cqmat(q(full))} | None => false end",
                {**case, "what": "identity fit"})
        elif kind.startswith("SVD"):
            G = full.T @ full
            if np.max(np.abs(G - np.eye(avail))) > 1e-8:
                chk.violation("impl", "svd-not-orthonormal", f"{kind}: modes are not orthonormal (max deviation {np.max(np.abs(G - np.eye(avail))):.2e})", case)
            coq(f"check_orthonormal {C.cq(F(1, 10 ** 8))} {n} {avail} {C.cqmat(q(full))}", {**case, "what": "orthonormal modes"})
            if lowrank and r0 <= avail:
                rec = X @ full @ full.T
                if np.max(np.abs(rec - X)) > 1e-7 * (1 + np.abs(X).max()):
                    chk.violation("impl", "svd-low-rank-not-reproduced", f"{kind}: data of rank {r0} are not reproduced by {avail} modes", case)
                coq(f"check_reproduces {C.cq(F(1, 10 ** 6))} {rows} {n} {avail} {C.cqmat(q(X))} {C.cqmat(q(full))}", {**case, "what": "rank<=k reproduced"})
                chk.count("lowrank_reproduction_cases")
            # the same object fitted again on OTHER data of the same width must forget the first fit
            r1 = int(rng.integers(1, avail + 1))
            X2 = (rng.integers(-6, 7, size=(rows, r1)) @ rng.integers(-4, 5, size=(r1, n))).astype(float) / 4.0
            try:
                impl.quiet(b.fit, X2)
                M2 = np.array(b.matrix_representation())
                # (modes of degenerate singular values are not unique, so the refit is judged by the property, not by equality with a fresh fit)
                if M2.shape != (n, avail) or np.max(np.abs(M2.T @ M2 - np.eye(avail))) > 1e-8:
                    chk.violation("impl", "svd-refit-not-orthonormal", f"{kind}: after a refit on other data the modes are not {avail} orthonormal vectors", {**case, "X2": X2.tolist()})
                elif np.max(np.abs(X2 @ M2 @ M2.T - X2)) > 1e-7 * (1 + np.abs(X2).max()):
                    chk.violation("impl", "svd-refit-low-rank-not-reproduced", f"{kind}: after a refit, data of rank {r1} are not reproduced by {avail} modes", {**case, "X2": X2.tolist()})
                chk.count("svd_refit_checked")
            except Exception as e:
                chk.count("svd-refit-rejected:" + type(e).__name__)
        elif kind == "RandomProjection":
            Gm = np.array(b.components_)            # (n_components, n_examples)
            if not np.allclose(full, X.T @ Gm.T, rtol=1e-12, atol=1e-12):
                chk.violation("impl", "rp-not-combination", "RandomProjection modes are not X^T G for the fitted projection matrix G", case)
            b2 = mk()
            impl.quiet(b2.fit, X)
            if not np.array_equal(np.array(b2.matrix_representation()), full):
                chk.violation("impl", "rp-not-repeatable", "two RandomProjection objects with the same random_state give different modes", case)
            impl.quiet(b.fit, X)                    # the same object fitted again with the same data
            if not np.array_equal(np.array(b.matrix_representation()), full):
                chk.violation("impl", "rp-refit-not-repeatable", "refitting the same RandomProjection object (fixed random_state) changes the modes", case)
            # ... and on OTHER data of the same shape: inverses must belong to the new modes
            X3 = X + rng.integers(-12, 13, size=X.shape) / 2.0
            impl.quiet(b.fit, X3)
            full3 = np.array(b.matrix_representation())
            for k3 in sorted({1, avail}):
                M3, I3 = full3[:, :k3], np.array(b.matrix_inverse(n_basis_modes=k3))
                c3 = float(np.linalg.cond(M3))
                if np.linalg.matrix_rank(M3) == k3 and c3 < 1e9 and float(np.max(np.abs(I3 @ M3 - np.eye(k3)))) > 1e-12 * c3 + 1e-13:
                    chk.violation("impl", "pinv-not-left-inverse", f"RandomProjection refitted on other data: matrix_inverse({k3}) is not a left inverse of the new modes", {**case, "X3": X3.tolist(), "k": k3})
            chk.count("rp_refit_other_data")
        else:
            if not np.array_equal(full, Uc[:, :nb]):
                chk.violation("impl", "custom-not-prefix", "Custom basis is not the first n_basis_modes columns of the supplied matrix", case)
        # ---- a fit that is REJECTED (too few examples for the modes) and caught by the caller: whatever the basis answers afterwards must
        #      still be consistent (one column per retained mode, requests beyond them rejected) - the earlier fit or no fit at all
        if kind in ("Identity", "SVD", "SVD-arpack") and nb is not None and nb >= 2:
            try:
                b3 = mk()
                impl.quiet(b3.fit, X)
                try:
                    impl.quiet(b3.fit, X[: nb - 1].copy())
                    rej = False
                except Exception:
                    rej = True
                if rej:
                    chk.count("rejected_fit_then_queried")
                    try:
                        M3 = np.array(b3.matrix_representation())
                        ok3 = M3.shape == (n, int(b3.n_basis_modes))
                        try:
                            b3.matrix_representation(n_basis_modes=int(b3.n_basis_modes) + 1)
                            ok3 = False
                        except ValueError:
                            pass
                        Mk3 = np.array(b3.matrix_representation(n_basis_modes=int(b3.n_basis_modes)))
                        ok3 = ok3 and Mk3.shape == (n, int(b3.n_basis_modes))
                    except Exception as e3:
                        from sklearn.exceptions import NotFittedError as _NF
                        ok3 = isinstance(e3, _NF)
                    if not ok3:
                        chk.violation("impl", "basis-inconsistent-after-rejected-fit", f"{kind}: after a rejected fit (too few examples) the basis reports "
                                      f"{b3.n_basis_modes} modes but answers with shape {np.shape(b3.basis_matrix_)}", case)
            except Exception:
                pass
        # ---- the caller's later edits of ITS training array must not reach the fitted basis
        if kind != "Custom":
            try:
                Xa = np.array(X, dtype=float)
                b2 = mk()
                impl.quiet(b2.fit, Xa)
                before = np.array(b2.matrix_representation(), copy=True)
                Xa *= -3.0
                Xa += 1.0
                if not np.array_equal(before, np.array(b2.matrix_representation())):
                    chk.violation("impl", "basis-aliases-training-data", f"{kind}: editing the training array in place after fit changed matrix_representation()", case)
                chk.count("training_data_edited_after_fit")
            except Exception:
                pass
    files = []
    for i in range(0, len(exprs), 40):
        body = ("From Coq Require Import List Arith ZArith QArith Qcanon Bool. Import ListNotations.\nFrom PS Require Import LA.Sums LA.Gram Basis.Basis.\n"
                "Eval vm_compute in map (fun b : bool => if b then 1%nat else 0%nat) [\n  " + ";\n  ".join(exprs[i:i + 40]) + "\n].\n")
        files.append((f"cases_{i // 40}", body))
    out = []
    for r in C.coq_eval("C11", files):
        if not r["ok"]:
            chk.violation("correspondence", "model-eval-failed", "coqc failed on a cases file: " + r["log"][-300:], {})
            out = None
            break
        out += r["values"][0]
    if out is not None:
        for v, ctx in zip(out, meta):
            chk.traces += 1
            if v == 1:
                chk.count("AGREE")
            else:
                chk.count("DISAGREE")
                chk.violation("correspondence", "c11-model-mismatch", f"Coq model / contract checker rejects: {ctx.get('what')}", ctx)
    return chk.finish(TRUSTED, "make -C coq && coqc theories/Properties/C11.v && coqc cases_*.v (vm_compute)")


def replay(data):
    import json
    print(json.dumps(data["data"], default=str)[:3000])
    return 0
