"""C02 - signals in the span of the basis are reconstructed exactly."""
from fractions import Fraction as F

import numpy as np

from .. import common as C
from .. import impl
from .. import recon_util as U

TRUSTED = [
    "Coq 8.16.1 kernel + vm_compute",
    "hand-written model Recon/Predict.v tied to SSPOR.predict by exact certificates (Fractions) validated inside Coq and compared with the float "
    "output within a conditioning-scaled tolerance",
    "scipy.linalg.solve / lstsq contracts; for the default QR optimizer the independence of the leading sensor rows of a full-column-rank basis "
    "is checked exactly per case (the dimension argument behind it is not proved: partial)",
]


def run(chk):
    rng = np.random.default_rng(chk.seed + 2)
    thorough = chk.tier == "thorough"
    N = 500 if thorough else 100
    chk.rule = ("random fitted SSPOR models (Identity / SVD / RandomProjection / prefit bases x QR / CCQR / GQR) whose basis matrix has exact full "
                "column rank x every n_sensors in [n_basis_modes, n_features] (sampled) x random rational coefficient vectors (single and batch); "
                "distinct by canonical JSON; non-trivial = n_features > n_basis_modes")
    exprs, meta = [], []
    for it in range(N):
        try:
            model, X, cfg = U.fitted_model(rng, *((12, 6) if thorough else (8, 4)), kinds=("generic", "localized", "localized"))
            if it % 5 == 0:     # prefit basis
                from pysensors.reconstruction import SSPOR
                basis = impl.make_basis(cfg["basis"])
                impl.quiet(basis.fit, X)
                model = SSPOR(basis=basis, optimizer=impl.make_optimizer(cfg["optimizer"]))
                impl.quiet(model.fit, X, prefit_basis=True, quiet=True, seed=1)
                cfg = {**cfg, "prefit": True}
        except Exception as e:
            chk.count("fit-rejected:" + type(e).__name__)
            continue
        for rnd in range(2):
            if rnd == 1:
                # the SAME object moves on (refit on other data of the same shape / fewer basis modes); exact recovery must hold again
                try:
                    if rng.random() < 0.35:
                        X2 = X + rng.integers(-8, 9, size=X.shape) / 4.0
                        impl.quiet(model.fit, X2, quiet=True, seed=int(rng.integers(0, 100)))
                        cfg = {**cfg, "then": "fit(other data)", "X2": X2.tolist()}
                    else:
                        kk = int(rng.integers(1, np.array(model.basis_matrix_).shape[1] + 1))
                        impl.quiet(model.update_n_basis_modes, kk, quiet=True)
                        cfg = {**cfg, "then": f"update_n_basis_modes({kk})"}
                except Exception as e:
                    chk.count("transition-rejected:" + type(e).__name__)
                    break
            B = np.array(model.basis_matrix_)
            n, m = B.shape
            Bq = U.fr_mat(B)
            if U.exact_rank(Bq) < m:
                chk.count("BASIS-NOT-FULL-RANK-SKIP")
                continue
            ps = sorted({m, n, int(rng.integers(m, n + 1))})
            okind = cfg["optimizer"]["kind"]
            for p in ps:
                model.set_number_of_sensors(p)
                S = [int(i) for i in model.selected_sensors]
                BS = [Bq[i] for i in S]
                rankS = U.exact_rank(BS)
                k = int(rng.integers(1, 4))
                A0 = rng.integers(-12, 13, size=(k, m)) / 4.0
                Xsig = A0 @ B.T                      # signals in the span (float product of dyadics: exact for these sizes? judged with tolerance)
                case = {**cfg, "n_sensors": p, "selected": S, "coefficients": A0.tolist(), "basis_matrix": B.tolist()}
                chk.case(case, nontrivial=n > m)
                chk.count("opt:" + okind)
                if rankS < m:
                    if okind in ("QR", "GQR"):
                        chk.violation("impl", "default-ranking-rows-dependent", f"{okind}: the first {p} ranked rows of a full-column-rank basis have rank {rankS} < {m}", case)
                    else:
                        chk.count("CONSTRAINED-RANK-DEFICIENT-SKIP")
                    continue
                cond = np.linalg.cond(B[S])
                if cond > 1e6:
                    chk.count("ILLCOND-SKIP")
                    continue
                try:
                    impl.sspor_bystander(n, p)      # another model fitted and used in between must not influence this one
                    out = impl.quiet(model.predict, Xsig[:, S].copy())
                    # the reconstruction handed out is kept while the model reconstructs OTHER signals of the same batch shape and is scored
                    held = impl.Held()
                    held.hold("predict result", out)
                    impl.quiet(model.predict, (Xsig[::-1, :][:, S] * 3 + 1).copy())
                    impl.quiet(model.score, np.ascontiguousarray(Xsig[::-1] * 2))
                    for lab, _c in held.disturbed():
                        chk.violation("impl", "result-handed-out-overwritten", f"{lab}: the array returned by predict changed when predict / score were called again", case)
                    out = impl.quiet(model.predict, Xsig[:, S].copy())
                    one = impl.quiet(model.predict, Xsig[0, S].copy())
                except Exception as e:
                    chk.violation("impl", "predict-raises", f"predict raised {type(e).__name__}: {e}", case)
                    continue
                tol = 1e-9 * cond * cond * (1.0 + float(np.abs(Xsig).max()))
                err = float(np.max(np.abs(out - Xsig)))
                err1 = float(np.max(np.abs(one - Xsig[0])))
                if err > tol or err1 > tol:
                    chk.violation("impl", "span-signal-not-recovered", f"{okind}, {p} sensors, {m} modes: reconstruction error {max(err, err1):.3g} exceeds {tol:.3g} "
                                  f"(cond {cond:.3g})", {**case, "observed": np.asarray(out).tolist(), "expected": Xsig.tolist()})
                # exact: certificate for the exact measurements B_S a0 must be a0 itself (z from the exact solver), validated in Coq
                a0 = [F(float(v)) for v in A0[0]]
                yq = [sum(BS[i][t] * a0[t] for t in range(m)) for i in range(p)]
                a, z = U.minnorm_lsq(BS, yq)
                if a != a0:
                    chk.violation("correspondence", "c02-exact-solver-not-a0", "exact minimum-norm least squares of in-span measurements is not the generating coefficient vector", case)
                yhat = [sum(Bq[i][t] * a[t] for t in range(m)) for i in range(n)]
                exprs.append(f"check_predict {n} {m} (of_rows {C.cqmat(Bq)}) {C.cnatlist(S)} {C.cqlist(yq)} {C.cqlist(a0)} {C.cqlist(z)} {C.cqlist(yhat)}")
                meta.append(case)
    files = []
    for i in range(0, len(exprs), 60):
        body = ("From Coq Require Import List Arith QArith Qcanon. Import ListNotations.\nFrom PS Require Import LA.Sums LA.Gram Recon.Predict.\n"
                "Eval vm_compute in map (fun b : bool => if b then 1%nat else 0%nat) [\n  " + ";\n  ".join(exprs[i:i + 60]) + "\n].\n")
        files.append((f"cases_{i // 60}", body))
    out = []
    for r in C.coq_eval("C02", files):
        if not r["ok"]:
            chk.violation("correspondence", "model-eval-failed", "coqc failed on a cases file: " + r["log"][-300:], {})
            out = None
            break
        out += r["values"][0]
    if out is not None:
        for v, ctx in zip(out, meta):
            chk.traces += 1
            if v == 1:
                chk.count("AGREE")
            else:
                chk.count("DISAGREE")
                chk.violation("correspondence", "c02-certificate-rejected", "the Coq checker rejects (a0, z) as certificate for the in-span measurements", ctx)
    return chk.finish(TRUSTED, "make -C coq && coqc theories/Properties/C02.v && coqc cases_*.v (vm_compute)")


def replay(data):
    import json
    print(json.dumps(data["data"], default=str)[:3000])
    return 0
