"""C19 - invalid requests are rejected and rejected setters change nothing."""
import numpy as np

from .. import common as C
from .. import impl
from .. import sspor_machine as M

TRUSTED = [
    "Coq 8.16.1 kernel + vm_compute",
    "hand-written guard model Guard/Guards.v and SSPOR token machine Recon/SSPOR.v, tied to the code by an exhaustive table "
    "(entry point x value class x life-cycle state) and random histories",
    "python harness; sklearn's check_is_fitted / NotFittedError",
]


def real_code(f):
    from sklearn.exceptions import NotFittedError
    try:
        impl.quiet(f)
        return 0, None
    except NotFittedError as e:
        return 2, e
    except ValueError as e:
        return 1, e
    except NotImplementedError as e:
        return 4, e
    except Exception as e:
        return 5, e


def coq_pv(v):
    k = v[0]
    if k == "int":
        return f"(PInt ({v[1]}))"
    if k == "npint":
        return f"(PNpInt ({v[1]}))"
    return {"float": "PFloat", "str": "PStr", "none": "PNone", "list": "PList", "auto": "PAuto"}[k]


def pyv(v):
    if v[0] == "auto":
        return "auto"
    return M.pyvalue(v)


def values(limit):
    vs = [["int", z] for z in (-3, -1, 0, 1, 2, limit, limit + 1, limit + 5)]
    vs += [["npint", z] for z in (-2, 0, 1, limit, limit + 2)]
    vs += [["float"], ["float", 1], ["float", limit], ["str"], ["none"], ["list"]]
    vs += [["float", 4], ["float", 5], ["float", 3], ["int", 4], ["int", 5]]       # also values EQUAL to what the model currently holds
    return vs


def observe_sspoc(model, probe):
    out = {}
    try:
        out["selected"] = np.array(model.selected_sensors).tolist()
        out["n_sensors"] = model.n_sensors
        out["predict"] = np.array(impl.quiet(model.predict, probe[:, np.array(model.selected_sensors, dtype=int)])).tolist() \
            if model.n_sensors not in (0, None) else None
    except Exception as e:
        out["error"] = type(e).__name__
    return out


def run(chk):
    from pysensors.basis import SVD, Identity, RandomProjection
    from pysensors.classification import SSPOC
    from pysensors.optimizers import CCQR, GQR
    from pysensors.reconstruction import SSPOR
    from pysensors.utils._constraints import get_constrained_sensors_indices
    rng = np.random.default_rng(chk.seed + 19)
    thorough = chk.tier == "thorough"
    chk.rule = ("exhaustive table: every guarded entry point x every value class (negatives, 0, valid, limit, beyond limit as python int and "
                "numpy int; float; str; list; None; 'auto') x life-cycle state (unfitted / fitted / after updates), plus random SSPOR histories "
                "with invalid values at every point; distinct by (entry, value, state); non-trivial = the value is invalid or at a boundary")
    rows = []   # (label, coq expr, thunk, nontrivial)
    nf, nrows = 8, 6
    X = rng.integers(-16, 17, size=(nrows, nf)) / 4.0
    y = np.arange(nrows) % 2
    probe = rng.integers(-16, 17, size=(3, nf)) / 4.0

    def sspor_at(stage):
        if stage == 3:      # a model whose only fit was rejected is still unfitted
            m = SSPOR(n_sensors=nf + 3)
            try:
                impl.quiet(m.fit, X, quiet=True)
            except ValueError:
                pass
            return m
        m = SSPOR(n_sensors=5)
        if stage == 4:
            # a model with a past: fitted on WIDER data first, then handed a basis fitted beforehand on X and refitted through
            # prefit_basis=True - its limits are those of the data it is fitted on NOW (nf sensors), as for stage 1
            from pysensors.basis import Identity as _Identity
            impl.quiet(m.fit, np.hstack([X, X[:, :6] * 0.5 + 1.0]), quiet=True, seed=1)
            b_ = _Identity()
            impl.quiet(b_.fit, X)
            m.basis = b_
            impl.quiet(m.fit, X, quiet=True, prefit_basis=True, seed=1)
            return m
        if stage >= 1:
            impl.quiet(m.fit, X, quiet=True, seed=1)
        if stage >= 2:
            m.set_number_of_sensors(4)
            impl.quiet(m.update_n_basis_modes, 3, quiet=True)
        return m

    # ---- SSPOR
    for v in values(nf):
        rows.append((f"SSPOR(n_sensors={v})", f"g_sspor_ctor {coq_pv(v)}", lambda v=v: SSPOR(n_sensors=pyv(v)), True))
    for stage in (0, 1, 2, 3, 4):
        fitted = "true" if stage in (1, 2, 4) else "false"
        ns = 4 if stage in (2, 3) else 5
        have = 0 if stage == 0 else nrows
        for v in values(nf):
            for setter in ("set_number_of_sensors", "set_n_sensors"):
                rows.append((f"SSPOR[{stage}].{setter}({v})", f"g_sspor_set_n {fitted} {nf} {coq_pv(v)}",
                             lambda v=v, stage=stage, setter=setter: getattr(sspor_at(stage), setter)(pyv(v)), True))
        for v in values(nrows):
            for xr in (None, 4, nrows):
                xs = "None" if xr is None else f"(Some {xr})"
                # the method's own guards; acceptance then re-fits (covered by the SSPOR machine below), so only rejections are compared
                rows.append((f"SSPOR[{stage}].update_n_basis_modes({v}, x rows={xr})", f"g_sspor_update_modes {have} {xs} {coq_pv(v)}",
                             lambda v=v, stage=stage, xr=xr: sspor_at(stage).update_n_basis_modes(pyv(v), x=None if xr is None else X[:xr], quiet=True),
                             "reject-only"))
        arrs = [("NotArray", "list", lambda w: probe[:, :w].tolist())] + \
               [(f"(Arr {w})", f"arr{w}", lambda w_, w=w: probe[:, :w]) for w in (1, 3, 4, 5, nf)] + \
               [(f"(Arr {w})", f"vec{w}", lambda w_, w=w: probe[0, :w]) for w in (4, 5, nf)] + \
               [("BadRank", "arr0d", lambda w: np.array(3.0)), ("BadRank", "arr3d", lambda w: np.zeros((2, 3, w)))]
        for cq, lab, mk in arrs:
            rows.append((f"SSPOR[{stage}].predict({lab})", f"g_sspor_predict {fitted} {ns} {cq}",
                         lambda stage=stage, mk=mk, ns=ns: sspor_at(stage).predict(mk(ns)), True))
            if not lab.startswith("vec"):
                rows.append((f"SSPOR[{stage}].score({lab})", f"g_sspor_score {fitted} {nf} {cq}",
                             lambda stage=stage, mk=mk: sspor_at(stage).score(mk(nf)), True))
                rows.append((f"SSPOR[{stage}].reconstruction_error({lab})", f"g_sspor_recon_error {fitted} {nf} {cq}",
                             lambda stage=stage, mk=mk: sspor_at(stage).reconstruction_error(mk(nf)), True))
        for g in ("get_selected_sensors", "get_all_sensors"):
            rows.append((f"SSPOR[{stage}].{g}()", f"g_sspor_getter {fitted}", lambda stage=stage, g=g: getattr(sspor_at(stage), g)(), stage in (0, 3)))
        for g in ("selected_sensors", "all_sensors"):
            rows.append((f"SSPOR[{stage}].{g}", f"g_sspor_getter {fitted}", lambda stage=stage, g=g: getattr(sspor_at(stage), g), stage in (0, 3)))
    for n in (1, nf, nf + 1, nf + 7):
        rows.append((f"SSPOR(n_sensors={n}).fit", f"g_sspor_fit_count {n} {nf}", lambda n=n: SSPOR(n_sensors=n).fit(X, quiet=True), True))

    # ---- SSPOC
    y3 = np.arange(nrows) % 3                       # a three-class labelling: sensor_coef_ is then a matrix (n_features x 3)

    def sspoc_at(stage):
        if stage in (4, 5):
            # a model that holds a stored threshold: fitted without n_sensors (4), then updated by threshold (5)
            m = SSPOC()
            impl.quiet(m.fit, X, y, quiet=True)
            if stage == 5:
                impl.quiet(m.update_sensors, threshold=float(np.sort(np.abs(m.sensor_coef_))[-3]), xy=(X, y), quiet=True)
            return m
        m = SSPOC(n_sensors=3)
        if stage == 3:
            impl.quiet(m.fit, X, y3, quiet=True)
            return m
        if stage >= 1:
            impl.quiet(m.fit, X, y, quiet=True)
        if stage >= 2:
            impl.quiet(m.update_sensors, n_sensors=5, xy=(X, y), quiet=True)
        return m
    for stage in (0, 1, 2, 3, 4, 5):
        fitted = "true" if stage else "false"
        for v in values(nf):
            for thr in (None, 0.5):
                for with_xy in ((False, True) if stage in (1, 2, 4, 5) else (False,)):
                    rows.append((f"SSPOC[{stage}].update_sensors(n_sensors={v}, threshold={thr}{', xy' if with_xy else ''})",
                                 f"g_sspoc_update_sensors {fitted} {nf} {coq_pv(v)} {'true' if thr is not None else 'false'}",
                                 lambda v=v, stage=stage, thr=thr, with_xy=with_xy: sspoc_at(stage).update_sensors(
                                     n_sensors=pyv(v), threshold=thr, xy=(X, y) if with_xy else None, quiet=True), True))
        if stage in (4, 5):
            continue
        rows.append((f"SSPOC[{stage}].selected_sensors", f"g_sspoc_getter {fitted}", lambda stage=stage: sspoc_at(stage).selected_sensors, stage == 0))
        rows.append((f"SSPOC[{stage}].predict", f"g_sspoc_getter {fitted}", lambda stage=stage: sspoc_at(stage).predict(probe[:, :3] if stage in (1, 3) else probe[:, :5]), stage == 0))
        if stage:
            for v in values(nrows):
                for xr in (4, nrows):
                    rows.append((f"SSPOC[{stage}].update_n_basis_modes({v}, rows={xr})", f"g_sspoc_update_modes {nrows} {xr} {coq_pv(v)}",
                                 lambda v=v, stage=stage, xr=xr: sspoc_at(stage).update_n_basis_modes(pyv(v), (X[:xr], y[:xr]), quiet=True), "reject-only"))

    # ---- bases
    for v in values(nrows) + [["auto"]]:
        rows.append((f"Identity({v})", f"g_identity_ctor {coq_pv(v)}", lambda v=v: Identity(n_basis_modes=pyv(v)), True))
        rows.append((f"SVD({v})", f"g_svd_ctor {coq_pv(v)}", lambda v=v: SVD(n_basis_modes=pyv(v)), True))
        rows.append((f"RandomProjection({v})", f"g_rp_ctor {coq_pv(v)}", lambda v=v: RandomProjection(n_basis_modes=pyv(v)), True))
    for k in (1, nrows, nrows + 1, nrows + 4):
        rows.append((f"Identity({k}).fit(rows={nrows})", f"g_identity_fit {k} {nrows}", lambda k=k: Identity(n_basis_modes=k).fit(X), True))
    for k in (1, min(nrows, nf), nrows + 1, nf + 1, max(nrows, nf) + 3):
        for Xd, lab in ((X, "X"), (X.T.copy(), "X^T")):
            rows.append((f"SVD({k}).fit({lab}: {Xd.shape[0]} examples x {Xd.shape[1]} features)", f"g_svd_fit {k} {Xd.shape[0]} {Xd.shape[1]}",
                         lambda k=k, Xd=Xd: SVD(n_basis_modes=k, random_state=0).fit(Xd), True))
    for mkb, avail, nm in ((lambda: Identity(), nrows, "Identity"), (lambda: SVD(n_basis_modes=4, random_state=0), 4, "SVD"),
                           (lambda: RandomProjection(n_basis_modes=4, random_state=0), 4, "RandomProjection")):
        for fitted in (False, True):
            for v in values(avail):
                for meth in ("matrix_representation", "matrix_inverse"):
                    def thunk(mkb=mkb, fitted=fitted, v=v, meth=meth):
                        b = mkb()
                        if fitted:
                            impl.quiet(b.fit, X)
                        return getattr(b, meth)(n_basis_modes=pyv(v))
                    rows.append((f"{nm}[{'fitted' if fitted else 'unfitted'}].{meth}({v})",
                                 f"g_basis_modes {'true' if fitted else 'false'} {avail} {coq_pv(v)}", thunk, True))

    # ---- optimizers and helpers
    for nd, arr in ((0, 3.0), (1, np.zeros(nf)), (2, np.zeros((2, 2))), (3, np.zeros((1, 1, 1)))):
        rows.append((f"CCQR(costs ndim={nd})", f"g_ccqr_ctor (Some {nd})", lambda arr=arr: CCQR(sensor_costs=arr), True))
    rows.append(("CCQR(None)", "g_ccqr_ctor None", lambda: CCQR(), False))
    for ln in (nf - 1, nf, nf + 1, 1):
        rows.append((f"CCQR(len={ln}).fit(n={nf})", f"g_ccqr_fit (Some {ln}) {nf}", lambda ln=ln: CCQR(sensor_costs=np.zeros(ln)).fit(X.T.copy()), True))
    rows.append((f"CCQR(None).fit", f"g_ccqr_fit None {nf}", lambda: CCQR().fit(X.T.copy()), False))
    allq = np.arange(nf)
    for name, cq in (("", "OptNone"), ("exact_n", "OptExact"), ("max_n", "OptMax"), ("predetermined", "OptPredetermined"),
                     ("bogus", "OptOther"), ("MAX_N", "OptOther"), ("exact", "OptOther"), (["max_n"], "OptOther"), ({"max_n": 1}, "OptOther"),
                     (3, "OptOther"), (None, "OptOther"), (("max_n",), "OptOther")):
        rows.append((f"GQR.fit(constraint_option={name!r})", f"g_gqr_option {cq}",
                     lambda name=name: GQR().fit(X.T.copy(), idx_constrained=[1, 2], n_sensors=3, n_const_sensors=1, all_sensors=allq, constraint_option=name), True))
    # the same invalid request repeated on ONE optimizer object (fresh, and after a valid constrained fit) must be rejected every time
    def gqr_repeat(prefit, name):
        g = GQR()
        kw = dict(idx_constrained=[1, 2], n_sensors=3, n_const_sensors=1, all_sensors=allq)
        if prefit:
            g.fit(X.T.copy(), constraint_option="max_n", **kw)
        try:
            g.fit(X.T.copy(), constraint_option=name, **kw)
        except Exception:
            pass
        return g.fit(X.T.copy(), constraint_option=name, **kw)
    for prefit in (False, True):
        for name in ("bogus", "exact"):
            rows.append((f"GQR[{'fitted max_n' if prefit else 'fresh'}].fit(constraint_option={name!r}) second identical request", "g_gqr_option OptOther",
                         lambda prefit=prefit, name=name: gqr_repeat(prefit, name), True))
    sens = np.arange(16)
    for ns_, dt, xmn, xmx, ymn, ymx, nxi, nyi in [(16, True, 0, 2, 0, 2, True, True), (0, True, 0, 2, 0, 2, True, True), (16, False, 0, 2, 0, 2, True, True),
                                                  (16, True, 2, 2, 0, 2, True, True), (16, True, 3, 1, 0, 2, True, True), (16, True, 0, 2, 2, 2, True, True),
                                                  (16, True, 0, 2, 3, 0, True, True), (16, True, 0, 2, 0, 2, False, True), (16, True, 0, 2, 0, 2, True, False),
                                                  (16, True, 1, 3, 1, 2, True, True)]:
        def thunk(ns_=ns_, dt=dt, xmn=xmn, xmx=xmx, ymn=ymn, ymx=ymx, nxi=nxi, nyi=nyi):
            s = sens[:ns_] if dt else sens[:ns_].astype(float)
            return get_constrained_sensors_indices(xmn, xmx, ymn, ymx, 4 if nxi else 4.0, 4 if nyi else 4.0, s)
        rows.append((f"box(n={ns_},int={dt},x=[{xmn},{xmx}],y=[{ymn},{ymx}],nx_int={nxi},ny_int={nyi})",
                     f"g_box {ns_} {'true' if dt else 'false'} {xmn} {xmx} {ymn} {ymx} {'true' if nxi else 'false'} {'true' if nyi else 'false'}", thunk, True))

    # ---- evaluate the table
    body = ("From Coq Require Import List ZArith. Import ListNotations.\nFrom PS Require Import Guard.Guards.\nOpen Scope Z_scope.\n"
            "Eval vm_compute in [\n  " + ";\n  ".join(f"out_code ({r[1]})" for r in rows) + "\n].\n")
    res = C.coq_eval("C19", [("table", body)])[0]
    if not res["ok"]:
        chk.violation("correspondence", "model-eval-failed", "coqc failed on the guard table: " + res["log"][-300:], {})
        model_codes = None
    else:
        model_codes = res["values"][0]
    names = {0: "accepted", 1: "ValueError", 2: "NotFittedError", 4: "NotImplementedError", 5: "other exception"}
    for i, (label, expr, thunk, nontriv) in enumerate(rows):
        code, exc = real_code(thunk)
        chk.case({"entry": label, "model": expr}, nontrivial=bool(nontriv))
        chk.count("real:" + names[code])
        if model_codes is None:
            continue
        mc = model_codes[i]
        chk.traces += 1
        if nontriv == "reject-only" and mc == 0:
            chk.count("ACCEPT-SKIP")   # model accepts; what follows is a re-fit, covered by the machine
            continue
        if mc == code:
            chk.count("AGREE")
            continue
        chk.count("DISAGREE")
        what = f"{label}: model says {names[mc]}, implementation: {names[code]} ({type(exc).__name__ + ': ' + str(exc)[:80] if exc else 'no exception'})"
        # the model states what the property demands for the invalid classes; a mismatch on an invalid value IS a failing input
        if mc in (1, 2, 4) and code != mc:
            site = label.split("(")[0].split("[")[0] + "." + label.split("].")[-1].split("(")[0] if "]." in label else label.split("(")[0]
            chk.violation("impl", "not-rejected:" + site, what, {"entry": label, "model_expr": expr, "expected": names[mc], "observed": names[code]})
        else:
            chk.violation("correspondence", "c19-guard-mismatch", what, {"entry": label, "model_expr": expr})

    # ---- rejected setter / update calls leave the model unchanged (SSPOR and SSPOC objects)
    def rejected_noop(label, mk, call, obs):
        m = mk()
        before = obs(m)
        code, exc = real_code(lambda: call(m))
        if code == 0:
            return
        after = obs(m)
        chk.count("rejected_calls_checked")
        same = (before.get("selected") == after.get("selected") and before.get("n_sensors", 0) == after.get("n_sensors", 0)
                and np.array_equal(np.array(before.get("predict"), dtype=object), np.array(after.get("predict"), dtype=object))
                and before.get("error") == after.get("error"))
        if not same:
            chk.violation("impl", "rejected-call-changed-state:" + label.split("(")[0], f"{label} raised {type(exc).__name__} but changed the model: "
                          f"before {str(before)[:150]} after {str(after)[:150]}", {"entry": label})

    def obs_sspor(m):
        o = M.observe(m, probe)
        o["n_sensors"] = m.n_sensors
        if "predict" in o:
            o["predict"] = np.array(o["predict"]).tolist()
        return o
    for v in values(nf):
        rejected_noop(f"SSPOR.set_number_of_sensors({v})@4", lambda: sspor_at(4), lambda m, v=v: m.set_number_of_sensors(pyv(v)), obs_sspor)
    for stage in (1, 2):
        for v in values(nf):
            rejected_noop(f"SSPOR.set_number_of_sensors({v})@{stage}", lambda stage=stage: sspor_at(stage), lambda m, v=v: m.set_number_of_sensors(pyv(v)), obs_sspor)
        for v in values(nrows):
            for xr in (None, 4):
                rejected_noop(f"SSPOR.update_n_basis_modes({v}, rows={xr})@{stage}", lambda stage=stage: sspor_at(stage),
                              lambda m, v=v, xr=xr: m.update_n_basis_modes(pyv(v), x=None if xr is None else X[:xr], quiet=True), obs_sspor)
        # late rejection: the guards pass, the re-fit on narrower data fails
        Xn = X[:, :3]
        rejected_noop(f"SSPOR.update_n_basis_modes-late(k={nrows}, x narrower than n_sensors)@{stage}", lambda stage=stage: sspor_at(stage),
                      lambda m: (setattr(m.basis, "n_basis_modes", 2), m.update_n_basis_modes(nrows, x=Xn, quiet=True)), obs_sspor)
        for st2 in (stage, stage + 3):
            for v in values(nf):
                for thr in (None, 0.5):
                    for with_xy in (False, True):
                        rejected_noop(f"SSPOC.update_sensors({v}, thr={thr}{', xy' if with_xy else ''})@{st2}", lambda st2=st2: sspoc_at(st2),
                                      lambda m, v=v, thr=thr, with_xy=with_xy: m.update_sensors(n_sensors=pyv(v), threshold=thr,
                                                                                                xy=(X, y) if with_xy else None, quiet=True),
                                      lambda m: observe_sspoc(m, probe))
        # rejected for another reason than the count: refit data of the wrong width, an aggregation function that cannot be called that way
        rejected_noop(f"SSPOC.update_sensors(4, xy of the wrong width)@{stage}", lambda stage=stage: sspoc_at(stage),
                      lambda m: m.update_sensors(n_sensors=4, xy=(X[:, :2], y), quiet=True), lambda m: observe_sspoc(m, probe))
        rejected_noop(f"SSPOC.update_sensors(2, method=np.percentile)@3", lambda: sspoc_at(3),
                      lambda m: m.update_sensors(n_sensors=2, method=np.percentile, quiet=True), lambda m: observe_sspoc(m, probe))
        for v in values(nrows):
            rejected_noop(f"SSPOC.update_n_basis_modes({v})@{stage}", lambda stage=stage: sspoc_at(stage),
                          lambda m, v=v: m.update_n_basis_modes(pyv(v), (X[:4], y[:4]), quiet=True), lambda m: observe_sspoc(m, probe))

    # ---- random SSPOR histories with invalid values at every point, against the Coq machine
    N = 400 if thorough else 80
    cases = []
    for _ in range(N):
        ds = M.make_datasets(rng, 2, rows=int(rng.integers(4, 7)))
        widths = [ds[i].shape[1] for i in ds]
        basis = M.BK[int(rng.integers(0, 3))]
        r0 = ds[1].shape[0]
        bmodes = int(rng.integers(1, (min(r0, min(widths)) if basis == "SVD" else r0) + 1))
        hist = []
        for _ in range(int(rng.integers(2, 9))):
            c = rng.random()
            if c < 0.25:
                hist.append(["fit", int(rng.integers(1, 3)), int(rng.integers(0, 50))])
            elif c < 0.6:
                hist.append(["setn", M.rand_value(rng, min(widths), 0.4)])
            elif c < 0.85:
                v = M.rand_value(rng, r0, 0.5)
                if basis == "SVD" and v[0] in ("int", "npint") and v[1] > min(r0, min(widths)):
                    v = ["int", 0]
                hist.append(["upd", v, None if rng.random() < 0.5 else int(rng.integers(1, 3))])
            else:
                hist.append(["obs"])
        cases.append({"basis": basis, "bmodes": bmodes, "opt": M.opt_cfg(rng, widths), "ctor_n": M.rand_value(rng, min(widths), 0.7),
                      "datasets": ds, "history": hist})
    codes, log = M.eval_cases("C19", cases)
    if codes is None:
        chk.violation("correspondence", "model-eval-failed", "coqc failed on a cases file: " + log[-300:], {})
    else:
        for case, mc in zip(cases, codes):
            recs, _ = M.run_real(case)
            chk.case(M.jsonable(case))
            chk.traces += 1
            bad = None
            for i, (me, rec) in enumerate(zip(mc, recs)):
                if me[0] == 3:
                    chk.count("UNMODELLED-SKIP")
                    break
                d = M.compare_step(case, me, rec)
                if d:
                    bad = (i, d)
                    break
            if bad is None:
                chk.count("HIST-AGREE")
            else:
                chk.count("HIST-DISAGREE")
                i, d = bad
                chk.violation("correspondence", "c19-machine-mismatch", f"SSPOR machine and implementation differ after step {i} "
                              f"{case['history'][i - 1] if i else 'ctor'}: {'; '.join(d)}", {"case": M.jsonable(case), "step": i, "diffs": d})
    return chk.finish(TRUSTED, "make -C coq && coqc theories/Properties/C19.v && coqc table.v cases_*.v (vm_compute)")


def replay(data):
    import json
    print(json.dumps(data["data"], default=str)[:2000])
    return 0
