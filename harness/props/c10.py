"""C10 - sparse sensor weights reproduce the full-state discriminant."""
import contextlib
from fractions import Fraction as F

import numpy as np

from .. import common as C
from .. import impl
from .. import sspoc_util as U

TRUSTED = [
    "Coq 8.16.1 kernel + vm_compute",
    "hand-written model Class/Coef.v: pysensors' glue (orientation of w and of the result, shapes, which arguments reach the solver) compared "
    "exactly by wrapping constrained_binary_solve / constrained_multiclass_solve; sklearn OrthogonalMatchingPursuit and MultiTaskLasso are "
    "oracles: the binary contract is validated inside Coq per case, the multiclass optimality only by an objective-gap comparison (partial)",
]


@contextlib.contextmanager
def record_solvers(calls):
    from pysensors.classification import _sspoc
    ob, om = _sspoc.constrained_binary_solve, _sspoc.constrained_multiclass_solve

    def wb(w, psi, **kw):
        out = ob(w, psi, **kw)
        calls.append({"kind": "binary", "w": np.array(w, copy=True), "psi": np.array(psi, copy=True), "kw": dict(kw), "out": np.array(out, copy=True)})
        return out

    def wm(w, psi, alpha=1.0, **kw):
        out = om(w, psi, alpha=alpha, **kw)
        calls.append({"kind": "multi", "w": np.array(w, copy=True), "psi": np.array(psi, copy=True), "alpha": alpha, "kw": dict(kw), "out": np.array(out, copy=True)})
        return out
    _sspoc.constrained_binary_solve, _sspoc.constrained_multiclass_solve = wb, wm
    try:
        yield calls
    finally:
        _sspoc.constrained_binary_solve, _sspoc.constrained_multiclass_solve = ob, om


def objective(psi, W, S, b, alpha):
    r = psi.shape[0]
    return float(np.sum((W - psi @ S - b[None, :]) ** 2) / (2 * r) + alpha * np.sum(np.sqrt(np.sum(S ** 2, axis=1))))


def run(chk):
    from sklearn.linear_model import MultiTaskLasso
    rng = np.random.default_rng(chk.seed + 10)
    thorough = chk.tier == "thorough"
    N = 260 if thorough else 60
    chk.rule = ("random binary and 3/4-class training sets x Identity / SVD / RandomProjection bases with at least two modes (incl. n_classes == "
                "n_basis_modes) x l1_penalty in a grid x data in ordinary and in large units; distinct by canonical JSON; non-trivial = the "
                "weight vector / matrix is not identically zero")
    exprs, meta = [], []
    for it in range(N):
        ncls = 2 if it % 2 == 0 else int(rng.integers(3, 5))
        X, y = U.class_data(rng, n_classes=ncls)
        k, n = X.shape
        if rng.random() < 0.35:
            X = X * float(2 ** int(rng.integers(12, 41)))          # the same data in large units (up to ~1e12): small weights
        if rng.random() < 0.2:
            # a few sensors measured in units 2^20 larger than the rest: their discriminant weights are small but not zero
            X = X.copy()
            X[:, rng.choice(n, size=int(rng.integers(1, 4)), replace=False)] *= 2.0 ** 20
        bcfg = U.basis_cfg(rng, n, k)
        if ncls > 2 and rng.random() < 0.4 and bcfg["kind"] != "Identity":
            bcfg["n_basis_modes"] = min(ncls, n - 1, k - 1) if min(ncls, n - 1, k - 1) >= 2 else bcfg["n_basis_modes"]
        l1 = float(rng.choice([0.001, 0.01, 0.1, 0.5, 2.0]))
        case = {"X": X.tolist(), "y": y.tolist(), "basis": bcfg, "l1_penalty": l1, "classes": ncls}
        calls = []
        if it % 7 == 0:
            # another default-constructed model, fitted with solver keywords of its own, must not influence the models that follow
            impl.sspoc_bystander(n, n_classes=3, extra_kws=True)
        # the weights do not depend on how many sensors are kept afterwards: any sensor count / threshold, also 0 sensors, and a
        # model "with a past" (fitted before, all sensors dropped, fitted again) must give the same kind of weights
        sel_kw = [{}, {}, {"n_sensors": 0}, {"n_sensors": int(rng.integers(1, n + 1))}, {"threshold": 1e9}, {"threshold": 0}][int(rng.integers(0, 6))]
        past = ["none", "none", "dropped-to-0", "threshold-too-high"][int(rng.integers(0, 4))]
        case["selection"] = {k_: v_ for k_, v_ in sel_kw.items()}
        case["past"] = past
        chk.count("selection:" + (",".join(sel_kw) or "default") + "/past:" + past)
        try:
            model = U.make_sspoc(bcfg, l1_penalty=l1, **sel_kw)
            if past != "none":
                impl.quiet(model.fit, X, y, quiet=True, refit=False)
                if past == "dropped-to-0":
                    impl.quiet(model.update_sensors, n_sensors=0, quiet=True)
                else:
                    impl.quiet(model.update_sensors, threshold=1e9, quiet=True)
            with record_solvers(calls):
                impl.quiet(model.fit, X, y, quiet=True, refit=False)
        except Exception as e:
            chk.violation("impl", "fit-raises", f"SSPOC.fit with default solver settings raised {type(e).__name__}: {e}", case)
            continue
        psi = np.array(model.basis_matrix_inverse_)
        r = psi.shape[0]
        coef = np.array(model.classifier.coef_)
        s = np.array(model.sensor_coef_)
        chk.case(case, nontrivial=bool(np.any(coef)))
        chk.count("classes:%d" % ncls)
        chk.count("basis:" + bcfg["kind"])
        ctx = {**case, "sensor_coef": s.tolist()}
        # ---- wiring: which arguments reached the solver, orientation of the result
        if len(calls) != 1:
            chk.violation("impl", "solver-not-called-once", f"{len(calls)} solver calls during fit", ctx)
            continue
        c0 = calls[0]
        w_exp = np.squeeze(coef).T
        if c0["kind"] != ("binary" if ncls == 2 else "multi"):
            chk.violation("impl", "wrong-solver", f"{ncls} classes were sent to the {c0['kind']} solver", ctx)
        if c0["w"].shape != w_exp.shape or not np.array_equal(c0["w"], w_exp):
            chk.violation("impl", "wrong-w", f"the solver received w of shape {c0['w'].shape}, expected squeeze(coef_).T of shape {w_exp.shape}", ctx)
        if not np.array_equal(c0["psi"], psi):
            chk.violation("impl", "wrong-psi", "the solver did not receive basis_matrix_inverse_", ctx)
        if ncls > 2 and c0.get("alpha") != l1:
            chk.violation("impl", "wrong-alpha", f"MultiTaskLasso alpha = {c0.get('alpha')}, l1_penalty = {l1}", ctx)
        if not np.array_equal(c0["out"], s):
            chk.violation("impl", "result-not-stored", "sensor_coef_ is not what the solver returned", ctx)
        exp_shape = (n,) if ncls == 2 else (n, ncls)
        if s.shape != exp_shape:
            chk.violation("impl", "coef-shape", f"sensor_coef_ has shape {s.shape}, expected {exp_shape}", ctx)
            continue
        shp = f"solve_shape {ncls} {r} {n} (squeeze_T (CMat {1 if ncls == 2 else ncls} {r}))"
        exprs.append(f"match {shp} with Some ({'CVec ' + str(n) if ncls == 2 else 'CMat ' + str(n) + ' ' + str(ncls)}) => true | _ => false end")
        meta.append({**ctx, "what": "shape glue"})
        if ncls == 2:
            # ---- binary: Psi^-1 s + b = w exactly (up to rounding), at most r non-zeros
            w = w_exp
            resid = w - psi @ s
            b = float(np.mean(resid))
            scale = float(np.abs(w).max()) + 1e-300
            err = float(np.max(np.abs(resid - b)))
            nz = int(np.count_nonzero(s))
            if err > 1e-7 * scale:
                chk.violation("impl", "binary-not-exact", f"Psi^-1 s + b reproduces w only up to {err:.3g} (|w| = {scale:.3g})", ctx)
            if nz > r:
                chk.violation("impl", "binary-too-many-sensors", f"{nz} non-zero sensors with {r} basis modes", ctx)
            tol = F(float(1e-7 * scale))
            exprs.append(f"check_affine_fit {C.cq(tol)} {r} {n} {C.cqmat([[F(float(v)) for v in row] for row in psi])} "
                         f"{C.cqlist([F(float(v)) for v in s])} {C.cqlist([F(float(v)) for v in w])} {C.cq(F(b))}")
            meta.append({**ctx, "what": "binary affine fit"})
        else:
            # ---- multiclass: objective within the solver's tolerance of a tight re-solve; not improvable by perturbations;
            #      rows reported zero satisfy the KKT inequality
            W = w_exp
            # the oracle's contract holds when it converged: sklearn stops after max_iter=1000 sweeps with a ConvergenceWarning on
            # ill-conditioned Psi^-1 (pysensors forwards **optimizer_kws, so a user can raise max_iter); those cases are not judged
            import warnings as _w
            with _w.catch_warnings(record=True) as ws:
                _w.simplefilter("always")
                probe = MultiTaskLasso(alpha=l1).fit(psi, W)
            if any("converge" in str(x.message).lower() for x in ws):
                chk.count("SOLVER-NOT-CONVERGED-SKIP")
                if not np.array_equal(probe.coef_.T, s):
                    chk.violation("impl", "multiclass-not-default-solver-result", "sensor_coef_ differs from MultiTaskLasso(alpha=l1_penalty) on (Psi^-1, w)", ctx)
                continue
            ref = MultiTaskLasso(alpha=l1, tol=1e-13, max_iter=200000).fit(psi, W)
            Sref, bref = ref.coef_.T, ref.intercept_
            b = np.mean(W - psi @ s, axis=0)
            o, oref = objective(psi, W, s, b, l1), objective(psi, W, Sref, bref, l1)
            gap_tol = 1e-4 * float(np.sum(W ** 2)) / psi.shape[0] + 1e-9 * (1 + abs(oref))
            if o > oref + gap_tol:
                chk.violation("impl", "multiclass-not-minimiser", f"group-lasso objective {o:.6g} exceeds the tight re-solve {oref:.6g} by more than the solver tolerance {gap_tol:.3g} "
                              f"(l1_penalty {l1})", {**ctx, "objective": o, "reference": oref})
            for _ in range(30):
                P = s + rng.normal(size=s.shape) * 1e-3 * (np.abs(s).max() + 1e-12)
                if objective(psi, W, P, np.mean(W - psi @ P, axis=0), l1) < o - gap_tol:
                    chk.violation("impl", "multiclass-improvable", "a small perturbation of sensor_coef_ lowers the group-lasso objective beyond the solver tolerance", ctx)
                    break
            R = W - psi @ s - b[None, :]
            for j in range(n):
                # a zero row whose optimality inequality fails by v can be improved by at least v^2 / (2 L), L = |psi_j|^2 / r (one block
                # step from 0): only an improvement beyond the solver tolerance contradicts "minimises" (the solver stops at a tolerance,
                # so the inequality itself holds only approximately)
                v = np.linalg.norm(psi[:, j] @ R) / r - l1
                Lj = float(np.sum(psi[:, j] ** 2)) / r
                if not np.any(s[j]) and v > 0 and Lj > 0 and v * v / (2 * Lj) > gap_tol:
                    chk.violation("impl", "multiclass-zero-row-kkt", f"sensor {j} has zero weights although activating it lowers the objective by at least "
                                  f"{v * v / (2 * Lj):.3g} (solver tolerance {gap_tol:.3g})", ctx)
                    break
            chk.count("multiclass_objective_checked")
            # ---- dual certificate, validated inside Coq on the exact rational values (Class/DualCheck.v): the returned weights
            #      minimise the objective up to gap_cert among ALL real matrices (weak duality is a theorem, Class/Dual.v)
            Pq = [[F(float(v)) for v in row] for row in psi]
            Wq = [[F(float(v)) for v in row] for row in W]
            Sq = [[F(float(v)) for v in row] for row in s]
            C_ = ncls
            PS = [[sum(Pq[i][j] * Sq[j][c] for j in range(n)) for c in range(C_)] for i in range(r)]
            bq = [sum(Wq[i][c] - PS[i][c] for i in range(r)) / r for c in range(C_)]          # exact column means: residual columns sum to 0
            Rq = [[Wq[i][c] - PS[i][c] - bq[c] for c in range(C_)] for i in range(r)]
            back = [[sum(Pq[i][j] * Rq[i][c] for i in range(r)) / r for c in range(C_)] for j in range(n)]
            mx = max([float(sum(v * v for v in row)) ** 0.5 for row in back] + [0.0])
            sc = F(1) if mx <= l1 else F(float(l1 / mx))
            aq = F(float(l1))
            while any(sum((sc * v) ** 2 for v in row) > aq * aq for row in back):
                sc = sc * (1 - F(1, 10 ** 13))          # active rows sit exactly on the constraint: shrink by rounding-level steps only
            thq = [[sc * Rq[i][c] / r for c in range(C_)] for i in range(r)]
            uq = []
            for j in range(n):
                n2 = sum(v * v for v in Sq[j])
                uj = F(float(n2) ** 0.5 * (1 + 1e-12)) if n2 > 0 else F(0)
                while uj * uj < n2:
                    uj = uj * F(1000001, 1000000) + F(1, 10 ** 30)
                uq.append(uj)
            Wc2 = sum((Wq[i][c] - sum(Wq[k][c] for k in range(r)) / r) ** 2 for i in range(r) for c in range(C_))
            gap_cert = F(105, 10 ** 6) * Wc2 / r + F(1, 10 ** 12)      # sklearn stops at gap <= tol * ||W centred||_F^2 (tol = 1e-4), per sample
            exprs.append(f"check_dual_lists {r} {n} {C_} {C.cqmat(Pq)} {C.cqmat(Wq)} {C.cqmat(Sq)} {C.cqmat(thq)} {C.cqlist(bq)} {C.cqlist(uq)} "
                         f"{C.cq(aq)} {C.cq(gap_cert)}")
            meta.append({**ctx, "what": "multiclass dual certificate (minimiser up to the solver's gap tolerance)", "gap_tolerance": float(gap_cert)})
            chk.count("multiclass_certificates")
    files = []
    for i in range(0, len(exprs), 40):
        body = ("From Coq Require Import List Arith QArith Qcanon Bool. Import ListNotations.\nFrom PS Require Import LA.Sums LA.Gram Basis.Basis Class.Coef Class.DualCheck.\n"
                "Eval vm_compute in map (fun b : bool => if b then 1%nat else 0%nat) [\n  " + ";\n  ".join(exprs[i:i + 40]) + "\n].\n")
        files.append((f"cases_{i // 40}", body))
    out = []
    for r_ in C.coq_eval("C10", files):
        if not r_["ok"]:
            chk.violation("correspondence", "model-eval-failed", "coqc failed on a cases file: " + r_["log"][-300:], {})
            out = None
            break
        out += r_["values"][0]
    if out is not None:
        for v, ctx in zip(out, meta):
            chk.traces += 1
            if v == 1:
                chk.count("AGREE")
            else:
                chk.count("DISAGREE")
                chk.violation("correspondence", "c10-model-mismatch", f"Coq model / contract checker rejects: {ctx.get('what')}", ctx)
    return chk.finish(TRUSTED, "make -C coq && coqc theories/Properties/C10.v && coqc cases_*.v (vm_compute)")


def replay(data):
    import json
    print(json.dumps(data["data"], default=str)[:3000])
    return 0
