"""C18 - the ranking depends only on the geometry of the sensor rows."""
from fractions import Fraction as F

import numpy as np

from .. import common as C
from .. import gen, impl
from .c03 import exact_follow, fr_mat, sqrt_le

TRUSTED = [
    "Coq 8.16.1 kernel + vm_compute; the CCQR scale theorem depends on the standard real-number axioms",
    "models LA/Gram.v / LA/Ccqr.v tied to the optimizers by metamorphic pairs on the real code (orthogonal mixings with exact rational "
    "matrices, power-of-two and other positive scalings, sensor relabelling) with the model evaluated on both members of a pair",
    "pairs in which any greedy choice of the base run is within relative 2^-18 of a tie are skipped (TIE-SKIP); relabelling equivariance "
    "is not proved (partial) and rests on this correspondence",
]


def rational_orthogonal(rng, m):
    """exactly orthogonal rational m x m matrix as Fractions: signed permutation times a rational Householder reflector"""
    perm = rng.permutation(m)
    P = [[F(0)] * m for _ in range(m)]
    for i, j in enumerate(perm):
        P[i][int(j)] = F(int(rng.choice([-1, 1])))
    if m >= 2 and rng.random() < 0.7:
        v = [F(int(x)) for x in rng.integers(-3, 4, size=m)]
        vv = sum(x * x for x in v)
        if vv != 0:
            H = [[(F(1) if i == j else F(0)) - 2 * v[i] * v[j] / vv for j in range(m)] for i in range(m)]
            P = [[sum(P[i][k] * H[k][j] for k in range(m)) for j in range(m)] for i in range(m)]
    return P


def has_margin(Bq, picks, costs=None, rel=F(1, 2 ** 18), own=False):
    """every step of the exact rule has a clear winner (needed before demanding equal rankings of a pair).
    own=True (CCQR / GQR, which recompute each residual norm from the residual and work sensor by sensor): the margin is measured on the
    scale of the two sensors' own norms - relative 2^-36, absolute 2^-38 of their norms, 2^-48 of their costs - instead of the matrix scale"""
    diags = exact_follow(Bq, picks)
    seen = set()
    scale = max([sum(x * x for x in r) for r in Bq] + [F(1, 10 ** 20)])
    if own:
        from .c03 import own_norms
        s0 = own_norms(Bq)
        for d, p in zip(diags, picks):
            for c in range(len(d)):
                if c in seen or c == p:
                    continue
                cp = costs[p] if costs else F(0)
                cc = costs[c] if costs else F(0)
                slack = F(1, 2 ** 38) * (s0[c] + s0[p]) + F(1, 2 ** 48) * (abs(cc) + abs(cp))
                if not sqrt_le((1 + F(1, 2 ** 36)) ** 2 * d[c], cc - slack, d[p], cp):
                    return False
            seen.add(p)
        return True
    for d, p in zip(diags, picks):
        for c in range(len(d)):
            if c in seen or c == p:
                continue
            cp = costs[p] if costs else F(0)
            cc = costs[c] if costs else F(0)
            # candidate c must lose clearly: (1+rel) sqrt(d_c) - cc + tau <= sqrt(d_p) - cp
            if not sqrt_le((1 + rel) ** 2 * d[c], cc - rel * (1 + scale), d[p], cp):
                return False
        seen.add(p)
    return True


def exact_greedy(Bq, costs, k):
    """the ranking the exact rule produces (maximise sqrt(residual) - cost, first index among exact ties), in rational arithmetic"""
    n = len(Bq)
    picks = []
    for _ in range(k):
        d = exact_follow(Bq, picks + [0])[-1] if picks else [sum(x * x for x in r) for r in Bq]
        best = None
        for c in range(n):
            if c in picks:
                continue
            if best is None or not sqrt_le(d[c], costs[c], d[best], costs[best]):
                best = c
        picks.append(best)
    return picks


def run(chk):
    from pysensors.optimizers import CCQR, GQR, QR
    from pysensors.reconstruction import SSPOR
    rng = np.random.default_rng(chk.seed + 18)
    thorough = chk.tier == "thorough"
    N = 400 if thorough else 80
    chk.rule = ("random generic basis matrices x {exact rational orthogonal right-multiplication, scaling by 2^k and by other positives (costs "
                "rescaled alike), sensor relabelling (costs / regions / unconstrained ranking relabelled alike)} x QR, CCQR, GQR (3 options), and "
                "SSPOR selections/reconstructions under relabelling; distinct by canonical JSON; non-trivial = the transformation is not the identity")
    exprs, meta = [], []
    for _ in range(N):
        n = int(rng.integers(3, 10 if not thorough else 13))
        m = int(rng.integers(2, min(n, 5) + 1))
        if rng.random() < 0.25:
            m = n + int(rng.integers(1, 4))          # wide basis: more modes than sensors (all modes matter for the geometry)
            chk.count("wide_basis")
        k = min(n, m)
        B = rng.integers(-40, 41, size=(n, m)) / 8.0
        u_k = rng.random()
        if u_k < 0.10:
            B, _k = gen.matrix(rng, n, m, "commonmode")           # nearly parallel sensors with well separated small individual parts
            chk.count("kind:commonmode")
        elif u_k < 0.18:
            B, _k = gen.matrix(rng, n, m, "faintrows")            # independent sensors on wildly different scales
            chk.count("kind:faintrows")
        elif u_k < 0.42 and n >= 3 and m >= 2:
            # two sensors that dominate and nearly tie: the later one is better by the factor 1 + 2^-32 (exact), the choice is unique
            i_, j_ = sorted(int(v) for v in rng.choice(n, size=2, replace=False))
            pm = rng.permutation(m)
            B[j_] = B[i_][pm] * rng.choice([-1.0, 1.0], size=m)
            if np.any(B[i_]):
                B[i_] *= 4.0
                B[j_] *= 4.0 * (1.0 + 2.0 ** -32)
                chk.count("kind:near-tie")
        Bq = fr_mat(B)
        costs = rng.integers(-16, 17, size=n) / 8.0
        if u_k < 0.42 and rng.random() < (0.8 if u_k >= 0.18 else 0.5):
            costs = np.zeros(n)
        cq = [F(float(c)) for c in costs]
        base = {"QR": [int(i) for i in QR().fit(B).get_sensors()],
                "CCQR": [int(i) for i in impl.quiet(CCQR(sensor_costs=costs).fit, B.copy()).get_sensors()]}
        Nn = int(rng.integers(1, k + 1))
        # a region that contains several of the unconstrained top-N sensors, with an allowance below that count half of the time
        top = base["QR"][:Nn]
        ntop = int(rng.integers(1, Nn + 1))
        L = set(int(x) for x in rng.choice(top, size=ntop, replace=False))
        rest = [c for c in range(n) if c not in top]
        for c in rest:
            if rng.random() < 0.3 and len(L) < n - Nn:
                L.add(c)
        L = sorted(L)
        s = int(rng.integers(0, ntop)) if rng.random() < 0.6 else int(rng.integers(0, min(len(L), Nn) + 1))
        if not (s <= len(L) and Nn - s <= n - len(L)):
            s = min(len(L), Nn)
        opt = ["max_n", "exact_n", "predetermined"][int(rng.integers(0, 3))]
        gk = dict(idx_constrained=np.array(L, dtype=int), n_sensors=Nn, n_const_sensors=s, constraint_option=opt)
        base["GQR"] = [int(i) for i in impl.quiet(GQR().fit, B.copy(), all_sensors=np.array(base["QR"]), **gk).get_sensors()]
        base["GQR0"] = [int(i) for i in impl.quiet(GQR().fit, B.copy()).get_sensors()]          # GQR without constraints: vetted on its own path
        g_0 = exact_greedy(Bq, [F(0)] * n, k)                # unconstrained GQR is vetted on the path of the exact rule as well
        ok_g0 = has_margin(Bq, g_0, own=True)
        if ok_g0 and base["GQR0"][:k] != g_0:
            chk.violation("impl", "not-the-unique-greedy-ranking:GQR", f"GQR without constraints ranks {base['GQR0'][:k]}; the exact rule has clear winners at "
                          f"every step and gives {g_0}", {"B": B.tolist()})
            base["GQR0"] = g_0 + [c for c in base["GQR0"] if c not in g_0]
        ok_qr = has_margin(Bq, base["QR"][:k])
        # CCQR is vetted on the path of the EXACT rule (not on its own answer): where that path has clear winners it is the one
        # admissible ranking, for the matrix as given and for every transformed copy alike
        g_cc = exact_greedy(Bq, cq, k)
        ok_cc = has_margin(Bq, g_cc, cq, own=True)
        if ok_cc and base["CCQR"][:k] != g_cc:
            chk.violation("impl", "not-the-unique-greedy-ranking:CCQR", f"CCQR ranks {base['CCQR'][:k]}; the exact rule has clear winners at every step and "
                          f"gives {g_cc}", {"B": B.tolist(), "costs": costs.tolist()})
            base["CCQR"] = g_cc + [c for c in base["CCQR"] if c not in g_cc]
        ok_gq = ok_qr or (has_margin(Bq, base["QR"][:k], own=True) and base["GQR"][:Nn] == base["QR"][:Nn])
        case0 = {"B": B.tolist(), "costs": costs.tolist(), "region": L, "N": Nn, "s": s, "option": opt, "base": base}
        # ---------------- (1) orthogonal mixing on the right
        Q = rational_orthogonal(rng, m)
        B2 = np.array([[float(sum(Bq[i][u] * Q[u][t] for u in range(m))) for t in range(m)] for i in range(n)])
        B2q = [[sum(Bq[i][u] * Q[u][t] for u in range(m)) for t in range(m)] for i in range(n)]
        exactQ = all(F(float(B2[i][t])) == B2q[i][t] for i in range(n) for t in range(m))
        got = {"QR": [int(i) for i in QR().fit(B2).get_sensors()],
               "CCQR": [int(i) for i in impl.quiet(CCQR(sensor_costs=costs).fit, B2.copy()).get_sensors()]}
        got["GQR"] = [int(i) for i in impl.quiet(GQR().fit, B2.copy(), all_sensors=np.array(got["QR"]), **gk).get_sensors()]
        got["GQR0"] = [int(i) for i in impl.quiet(GQR().fit, B2.copy()).get_sensors()]
        case = {**case0, "transform": "right-orthogonal", "Q": [[str(x) for x in r] for r in Q], "observed": got}
        chk.case(case)
        chk.count("pairs:orthogonal")
        for name, okm, kk in (("QR", ok_qr, k), ("CCQR", ok_cc, k), ("GQR", ok_gq, Nn), ("GQR0", ok_g0, k)):
            if not okm:
                chk.count("TIE-SKIP")
                continue
            if got[name][:kk] != base[name][:kk]:
                chk.violation("impl", "orthogonal-mixing-changes-ranking:" + name, f"{name}: ranking {base[name][:kk]} became {got[name][:kk]} after an orthogonal mixing of the modes", case)
        if exactQ:   # the model on both members (exact instance of the theorem) against the real rankings
            G1 = f"(gram {m} (of_rows {C.cqmat(Bq)}))"
            G2 = f"(gram {m} (of_rows {C.cqmat(B2q)}))"
            exprs.append(f"[firstn {k} (gram_greedy {n} {k} {G1}); firstn {k} (gram_greedy {n} {k} {G2}); "
                         f"firstn {k} (ccqr_gram {n} {k} (cost_of_list {C.cqlist(cq)}) {G1}); firstn {k} (ccqr_gram {n} {k} (cost_of_list {C.cqlist(cq)}) {G2})]")
            meta.append((case, [base["QR"][:k], got["QR"][:k], base["CCQR"][:k], got["CCQR"][:k]], [ok_qr, ok_qr, ok_cc, ok_cc]))
        # ---------------- (2) positive rescaling
        c = float(rng.choice([0.5, 4.0, 2.0 ** -20, 2.0 ** -36, 3.0, 0.375, 10.0]))
        got = {"QR": [int(i) for i in QR().fit(B * c).get_sensors()],
               "CCQR": [int(i) for i in impl.quiet(CCQR(sensor_costs=costs * c).fit, B * c).get_sensors()]}
        got["GQR"] = [int(i) for i in impl.quiet(GQR().fit, B * c, all_sensors=np.array(got["QR"]), **gk).get_sensors()]
        got["GQR0"] = [int(i) for i in impl.quiet(GQR().fit, B * c).get_sensors()]
        case = {**case0, "transform": f"scale by {c}", "observed": got}
        chk.case(case)
        chk.count("pairs:scale")
        for name, okm, kk in (("QR", ok_qr, k), ("CCQR", ok_cc, k), ("GQR", ok_gq, Nn), ("GQR0", ok_g0, k)):
            if okm and got[name][:kk] != base[name][:kk]:
                chk.violation("impl", "scaling-changes-ranking:" + name, f"{name}: ranking {base[name][:kk]} became {got[name][:kk]} after scaling matrix (and costs) by {c}", case)
        # ---------------- (2') the same real matrix held in an integer-typed array (the geometry is the same; the costs stay fractional)
        if rng.random() < 0.35:
            Bi = rng.integers(-12, 13, size=(n, m))
            Bif = Bi.astype(float)
            Biq = fr_mat(Bif)
            r_f = {"QR": [int(i) for i in QR().fit(Bif).get_sensors()],
                   "CCQR": [int(i) for i in impl.quiet(CCQR(sensor_costs=costs.copy()).fit, Bif.copy()).get_sensors()]}
            cI = int(rng.choice([1, 2, 3, 5]))
            dt = [np.int64, np.int32, np.int16][int(rng.integers(0, 3))]
            r_i = {"QR": [int(i) for i in QR().fit((Bi * cI).astype(dt)).get_sensors()],
                   "CCQR": [int(i) for i in impl.quiet(CCQR(sensor_costs=costs * cI).fit, (Bi * cI).astype(dt)).get_sensors()]}
            case = {**case0, "B": Bif.tolist(), "transform": f"integer-typed array ({np.dtype(dt).name}) scaled by {cI}", "observed": r_i, "base": r_f}
            chk.case(case)
            chk.count("pairs:integer-typed")
            for name, okm in (("QR", has_margin(Biq, r_f["QR"][:k])), ("CCQR", has_margin(Biq, r_f["CCQR"][:k], cq))):
                if okm and r_i[name][:k] != r_f[name][:k]:
                    chk.violation("impl", "integer-typing-changes-ranking:" + name, f"{name}: ranking {r_f[name][:k]} of the float matrix became {r_i[name][:k]} for the same "
                                  f"matrix held as {np.dtype(dt).name} and scaled by {cI} (costs scaled alike)", case)
        # ---------------- (3) relabelling the sensors
        sig = rng.permutation(n)            # new label of sensor i is sig[i]
        inv = np.argsort(sig)
        B3 = B[inv]                         # row sig[i] of B3 = row i of B
        costs3 = costs[inv]
        L3 = sorted(int(sig[i]) for i in L)
        g3 = dict(gk, idx_constrained=np.array(L3, dtype=int))
        got = {"QR": [int(i) for i in QR().fit(B3).get_sensors()],
               "CCQR": [int(i) for i in impl.quiet(CCQR(sensor_costs=costs3.copy()).fit, B3.copy()).get_sensors()]}
        got["GQR"] = [int(i) for i in impl.quiet(GQR().fit, B3.copy(), all_sensors=np.array([int(sig[i]) for i in base["QR"]]), **g3).get_sensors()]
        got["GQR0"] = [int(i) for i in impl.quiet(GQR().fit, B3.copy()).get_sensors()]
        case = {**case0, "transform": "relabel", "sigma": sig.tolist(), "observed": got}
        chk.case(case)
        chk.count("pairs:relabel")
        for name, okm, kk in (("QR", ok_qr, k), ("CCQR", ok_cc, k), ("GQR", ok_gq, Nn), ("GQR0", ok_g0, k)):
            exp = [int(sig[i]) for i in base[name][:kk]]
            if okm and got[name][:kk] != exp:
                chk.violation("impl", "relabelling-not-equivariant:" + name, f"{name}: relabelled input ranks {got[name][:kk]}, expected the relabelled ranking {exp}", case)
        # SSPOR: relabelled sensors give relabelled selections and reconstructions
        if ok_qr:
            X = B.T.copy()
            from pysensors.basis import Identity
            k0 = k if rng.random() < 0.5 else int(rng.integers(1, k + 1))      # fitted with fewer sensors than ranked ones, raised afterwards
            m1 = SSPOR(basis=Identity(n_basis_modes=m), n_sensors=k0)
            m2 = SSPOR(basis=Identity(n_basis_modes=m), n_sensors=k0)
            impl.quiet(m1.fit, X, quiet=True, seed=1)
            impl.quiet(m2.fit, X[:, inv].copy(), quiet=True, seed=2 if k0 < k else 1)       # the seed only orders the unranked tail
            if k0 < k:
                chk.count("sspor_pairs_raised_after_fit")
                a1, a2 = [int(i) for i in m1.all_sensors[:k]], [int(i) for i in m2.all_sensors[:k]]
                if a2 != [int(sig[i]) for i in a1]:
                    chk.violation("impl", "sspor-relabelling-selection", f"SSPOR(n_sensors={k0}): all_sensors[:{k}] = {a2} on relabelled data, expected {[int(sig[i]) for i in a1]}", case)
                m1.set_number_of_sensors(k)
                m2.set_n_sensors(k)
            s1 = [int(i) for i in m1.selected_sensors]
            s2 = [int(i) for i in m2.selected_sensors]
            if s2 != [int(sig[i]) for i in s1]:
                chk.violation("impl", "sspor-relabelling-selection", f"SSPOR selects {s2} on relabelled data, expected {[int(sig[i]) for i in s1]}", case)
            else:
                y = rng.integers(-8, 9, size=n) / 4.0
                r1 = impl.quiet(m1.predict, y[s1])
                r2 = impl.quiet(m2.predict, y[inv][s2])
                if np.linalg.cond(B[s1]) < 1e6 and np.max(np.abs(r2 - r1[inv])) > 1e-7 * (1 + np.abs(r1).max()) * np.linalg.cond(B[s1]) ** 2:
                    chk.violation("impl", "sspor-relabelling-reconstruction", "reconstruction of relabelled data is not the relabelled reconstruction", case)
            chk.count("sspor_pairs")
    files = []
    for i in range(0, len(exprs), 25):
        body = ("From Coq Require Import List Arith QArith Qcanon. Import ListNotations.\nFrom PS Require Import LA.Sums LA.Gram LA.Ccqr.\n"
                "Eval vm_compute in [\n  " + ";\n  ".join(exprs[i:i + 25]) + "\n].\n")
        files.append((f"cases_{i // 25}", body))
    out = []
    for r in C.coq_eval("C18", files):
        if not r["ok"]:
            chk.violation("correspondence", "model-eval-failed", "coqc failed on a cases file: " + r["log"][-300:], {})
            out = None
            break
        out += r["values"][0]
    if out is not None:
        for mres, (case, real, oks) in zip(out, meta):
            chk.traces += 1
            if mres[0] != mres[1] or mres[2] != mres[3]:
                chk.violation("correspondence", "c18-model-not-invariant", f"the model itself ranks the two members of an orthogonal pair differently: {mres}", case)
                continue
            bad = [i for i in range(4) if oks[i] and mres[i] != real[i]]
            if bad:
                chk.count("DISAGREE")
                chk.violation("correspondence", "c18-model-mismatch", f"model rankings {mres} vs observed {real}", case)
            else:
                chk.count("AGREE")
    return chk.finish(TRUSTED, "make -C coq && coqc theories/Properties/C18.v && coqc cases_*.v (vm_compute)")


def replay(data):
    import json
    print(json.dumps(data["data"], default=str)[:3000])
    return 0
