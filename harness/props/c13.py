"""C13 - box, coordinate and user-defined constraint helpers map sensors correctly."""
import importlib
import os
import shutil
import sys
from fractions import Fraction as F

import numpy as np

from .. import common as C
from .. import impl

TRUSTED = [
    "Coq 8.16.1 kernel + vm_compute",
    "hand-written model Geo/Helpers.v tied to the helper functions by exhaustive small grids/boxes and random dataframes, names and equations",
    "numpy unravel_index / ravel_multi_index, pandas dropna / to_numpy, Python eval and import machinery",
]


def fr(x):
    return F(float(x))


# small expression grammar shared by the equation strings, the generated files and the Coq AST
def gen_expr(rng, depth=2):
    c = int(rng.integers(0, 6 if depth else 3))
    if c == 0:
        return ("x",)
    if c == 1:
        return ("y",)
    if c == 2:
        return ("k", float(rng.integers(-16, 17)) / 4)
    op = ["add", "sub", "mul"][c - 3]
    return (op, gen_expr(rng, depth - 1), gen_expr(rng, depth - 1))


def py_expr(e):
    if e[0] in ("x", "y"):
        return e[0]
    if e[0] == "k":
        return repr(e[1])
    return "(" + py_expr(e[1]) + {"add": " + ", "sub": " - ", "mul": " * "}[e[0]] + py_expr(e[2]) + ")"


def coq_expr(e):
    if e[0] == "x":
        return "X"
    if e[0] == "y":
        return "Y"
    if e[0] == "k":
        return f"(K {C.cq(fr(e[1]))})"
    return f"({ {'add': 'Add', 'sub': 'Sub', 'mul': 'Mul'}[e[0]]} {coq_expr(e[1])} {coq_expr(e[2])})"


def ev(e, x, y):
    if e[0] == "x":
        return x
    if e[0] == "y":
        return y
    if e[0] == "k":
        return fr(e[1])
    a, b = ev(e[1], x, y), ev(e[2], x, y)
    return a + b if e[0] == "add" else a - b if e[0] == "sub" else a * b


def gen_bexpr(rng, depth=1):
    c = int(rng.integers(0, 6 if depth else 2))
    if c < 2:
        return (["le", "lt"][c], gen_expr(rng), gen_expr(rng))
    if c == 4:
        return ("not", gen_bexpr(rng, depth - 1))
    if c == 5:
        return ("xor", gen_bexpr(rng, depth - 1), gen_bexpr(rng, depth - 1))       # Python's ^ on truth values: exclusive or
    return (["and", "or"][c - 2], gen_bexpr(rng, depth - 1), gen_bexpr(rng, depth - 1))


def py_bexpr(b):
    if b[0] in ("le", "lt"):
        return "(" + py_expr(b[1]) + (" <= " if b[0] == "le" else " < ") + py_expr(b[2]) + ")"
    if b[0] == "not":
        return "(not " + py_bexpr(b[1]) + ")"
    if b[0] == "xor":
        return "(" + py_bexpr(b[1]) + " ^ " + py_bexpr(b[2]) + ")"
    return "(" + py_bexpr(b[1]) + " " + b[0] + " " + py_bexpr(b[2]) + ")"


def coq_bexpr(b):
    if b[0] in ("le", "lt"):
        return f"({'Le' if b[0] == 'le' else 'Lt'} {coq_expr(b[1])} {coq_expr(b[2])})"
    if b[0] == "not":
        return f"(Not {coq_bexpr(b[1])})"
    if b[0] == "xor":
        p_, q_ = coq_bexpr(b[1]), coq_bexpr(b[2])
        return f"(Or (And {p_} (Not {q_})) (And (Not {p_}) {q_}))"
    return f"({'And' if b[0] == 'and' else 'Or'} {coq_bexpr(b[1])} {coq_bexpr(b[2])})"


def bev(b, x, y):
    if b[0] == "le":
        return ev(b[1], x, y) <= ev(b[2], x, y)
    if b[0] == "lt":
        return ev(b[1], x, y) < ev(b[2], x, y)
    if b[0] == "not":
        return not bev(b[1], x, y)
    if b[0] == "and":
        return bev(b[1], x, y) and bev(b[2], x, y)
    if b[0] == "xor":
        return bev(b[1], x, y) != bev(b[2], x, y)
    return bev(b[1], x, y) or bev(b[2], x, y)


def ascii_list(s):
    return "[" + "; ".join(f'"{ch}"' for ch in s) + "]%char"


def run(chk):
    import pandas as pd
    from pysensors.utils import _constraints as K
    rng = np.random.default_rng(chk.seed + 13)
    thorough = chk.tier == "thorough"
    chk.rule = ("box: every square grid side 1..5 (quick) / 1..7 (thorough) x every box with integer or half-integer bounds (sampled when > 60 per "
                "grid in quick) x a random full permutation; dataframe box: random frames with NaNs; coordinate pair: every index; loader: "
                "identifiers incl. ones beginning/ending in p, y, '_' and digits; equations/functions from a small grammar on grids and "
                "dataframes; distinct by canonical JSON; non-trivial = the expected answer is neither empty nor everything")
    exprs, meta = [], []

    # ---------------- A. box on square pixel grids
    for s in range(1, (8 if thorough else 6)):
        n = s * s
        bounds = [b / 2 for b in range(-7, 2 * s + 6)]          # also bounds well outside the grid on both sides
        boxes = [(a, b, c, d) for a in bounds for b in bounds if a < b for c in bounds for d in bounds if c < d]
        cap = 400 if thorough else 70
        if len(boxes) > cap:
            boxes = [boxes[i] for i in rng.choice(len(boxes), size=cap, replace=False)]
        for (x0, x1, y0, y1) in boxes:
            ranking = rng.permutation(n).astype(int)
            case = {"helper": "get_constrained_sensors_indices", "side": s, "box": [x0, x1, y0, y1], "ranking": ranking.tolist()}
            try:
                got = [int(i) for i in K.get_constrained_sensors_indices(x0, x1, y0, y1, s, s, ranking.copy())]
            except Exception as e:
                got = "EXC " + type(e).__name__ + ": " + str(e)[:60]
            exp = {j for j in range(n) if x0 <= j % s <= x1 and y0 <= j // s <= y1}
            chk.case(case, nontrivial=0 < len(exp) < n)
            chk.count("box_grid")
            if isinstance(got, str) or set(got) != exp or len(got) != len(exp):
                chk.violation("impl", "box-grid-wrong-set", f"box {case['box']} on a {s}x{s} grid returned {got}, expected the pixel set {sorted(exp)}", {**case, "observed": got})
            exprs.append(f"box_grid 2 {C.cz(int(2 * x0))} {C.cz(int(2 * x1))} {C.cz(int(2 * y0))} {C.cz(int(2 * y1))} {s} {s} {C.cnatlist(ranking)}")
            meta.append((case, got, "exact"))

    # ---------------- B. box on dataframes
    for _ in range(200 if thorough else 60):
        n = int(rng.integers(1, 15))
        x = rng.integers(-12, 13, size=n) / 4.0
        y = rng.integers(-12, 13, size=n) / 4.0
        f = rng.integers(0, 5, size=n) / 1.0
        if rng.random() < 0.6:                                   # (complete frames take another path through the helper)
            for col in (x, y, f):
                col[rng.random(n) < 0.15] = np.nan
        df = pd.DataFrame({"a": x, "b": y, "c": f})
        u = rng.random()
        if u < 0.25:
            df.index = np.arange(100, 100 + n)                  # frames that were filtered / re-labelled keep a non-default index:
        elif u < 0.5:
            df.index = rng.permutation(n) * 3 + 7               # the answer is still about row POSITIONS (after dropping incomplete rows)
        elif u < 0.6:
            df.index = [f"s{i}" for i in range(n)]
        bx = sorted(rng.integers(-12, 13, size=2) / 4.0)
        by = sorted(rng.integers(-12, 13, size=2) / 4.0)
        snap = df.copy(deep=True)
        case = {"helper": "get_constrained_sensors_indices_dataframe", "rows": df.values.tolist(), "box": [bx[0], bx[1], by[0], by[1]],
                "index": [str(i) for i in df.index]}
        try:
            got = [int(i) for i in K.get_constrained_sensors_indices_dataframe(bx[0], bx[1], by[0], by[1], df, X_axis="a", Y_axis="b")]
        except Exception as e:
            got = "EXC " + type(e).__name__ + ": " + str(e)[:60]
        kept = [(a, b) for a, b, c in zip(x, y, f) if not (np.isnan(a) or np.isnan(b) or np.isnan(c))]
        exp = [i for i, (a, b) in enumerate(kept) if bx[0] <= a < bx[1] and by[0] <= b < by[1]]
        chk.case(case, nontrivial=0 < len(exp) < len(kept))
        chk.count("box_df")
        if got != exp:
            chk.violation("impl", "box-df-wrong", f"dataframe box returned {got}, expected positions {exp}", {**case, "observed": got})
        rows = "; ".join(f"{{| complete := {C.cbool(not (np.isnan(a) or np.isnan(b) or np.isnan(c)))}; rx := {C.cq(fr(0 if np.isnan(a) else a))}; ry := {C.cq(fr(0 if np.isnan(b) else b))} |}}"
                         for a, b, c in zip(x, y, f))
        exprs.append(f"box_df {C.cq(fr(bx[0]))} {C.cq(fr(bx[1]))} {C.cq(fr(by[0]))} {C.cq(fr(by[1]))} [{rows}]")
        meta.append((case, got, "exact"))

    # ---------------- C. index <-> coordinates
    for s in range(1, (9 if thorough else 7)):
        n = s * s
        info = np.zeros((2, n))
        idx = np.arange(n)
        xs, ys = K.get_coordinates_from_indices(idx, info)
        back = K.get_indices_from_coordinates((xs, ys), (s, s))
        case = {"helper": "coordinates<->indices", "side": s}
        chk.case(case, nontrivial=s > 1)
        chk.count("coords")
        if [int(v) for v in back] != idx.tolist() or [int(v) for v in xs] != [i % s for i in range(n)] or [int(v) for v in ys] != [i // s for i in range(n)]:
            chk.violation("impl", "coords-not-inverse", f"side {s}: coordinates {list(zip(xs, ys))} / back {back}", case)
        exprs.append(f"map (fun i => grid_ravel {s} (grid_coords {s} i)) (seq 0 {n}) ++ map (fun i => fst (grid_coords {s} i)) (seq 0 {n}) ++ map (fun i => snd (grid_coords {s} i)) (seq 0 {n})")
        meta.append((case, idx.tolist() + [int(v) for v in xs] + [int(v) for v in ys], "exact"))

    # ---------------- D. loader
    tmp = os.path.join(C.BUILD, f"c13_mods_{os.getpid()}")
    os.makedirs(tmp, exist_ok=True)
    names = ["happy", "copyp", "p", "y", "py", "pyramid", "yy_p", "constraint_y", "user_function", "_p_", "parity", "g2", "func.tion" if False else "tipy"]
    alphabet = "pypy_abz09"
    for _ in range(40 if thorough else 14):
        L = int(rng.integers(1, 8))
        nm = "".join(alphabet[int(rng.integers(0, len(alphabet)))] for _ in range(L))
        if nm[0].isdigit():
            nm = "p" + nm
        names.append(nm)
    tag = f"v{os.getpid()}"
    for nm in dict.fromkeys(names):
        mod = f"{nm}"
        path = os.path.join(tmp, mod + ".py")
        open(path, "w").write(f"def {mod}(x, y, **kwargs):\n    return x - y\n")
        case = {"helper": "load_functional_constraints", "file": mod + ".py"}
        chk.case(case, nontrivial=mod[0] in ".py" or mod[-1] in ".py")
        chk.count("loader")
        sys.modules.pop(mod, None)
        try:
            fn = K.load_functional_constraints(path)
            got = fn.__name__
        except Exception as e:
            got = "EXC " + type(e).__name__ + ": " + str(e)[:60]
        finally:
            while tmp in sys.path:
                sys.path.remove(tmp)
            sys.modules.pop(mod, None)
        if got != mod:
            chk.violation("impl", "loader-wrong-module", f"load_functional_constraints('{mod}.py') -> {got}; expected the function '{mod}'", {**case, "observed": got})
        exprs.append(f"if eqb_ascii_list (load_name {ascii_list(mod + '.py')}) {ascii_list(mod)} then [1] else [0]")
        meta.append((case, [1] if got == mod else [0], "exact"))

    # identifiers that are also the names of modules that are already imported, and the same identifier in two directories:
    # the function must come from THAT file (here nothing is removed from sys.modules beforehand)
    for mod in ("json", "string", "abc"):
        path = os.path.join(tmp, mod + ".py")
        open(path, "w").write(f"def {mod}(x, y, **kwargs):\n    return 1000 * x - y\n")
        case = {"helper": "load_functional_constraints", "file": mod + ".py", "note": "identifier equals an imported module's name"}
        chk.case(case)
        chk.count("loader_imported_name")
        saved = sys.modules.get(mod)
        try:
            fn = K.load_functional_constraints(path)
            got = fn(3, 2) if callable(fn) else "not callable"
        except Exception as e:
            got = "EXC " + type(e).__name__ + ": " + str(e)[:60]
        finally:
            while tmp in sys.path:
                sys.path.remove(tmp)
            if saved is not None:
                sys.modules[mod] = saved
        if got != 2998:
            chk.violation("impl", "loader-wrong-module", f"load_functional_constraints('<dir>/{mod}.py') did not return the function defined in that file: {got}", {**case, "observed": str(got)})
    d1, d2 = os.path.join(tmp, "dir_a"), os.path.join(tmp, "dir_b")
    os.makedirs(d1, exist_ok=True), os.makedirs(d2, exist_ok=True)
    open(os.path.join(d1, "dupname.py"), "w").write("def dupname(x, y, **kwargs):\n    return x - y\n")
    open(os.path.join(d2, "dupname.py"), "w").write("def dupname(x, y, **kwargs):\n    return y - x\n")
    case = {"helper": "load_functional_constraints", "file": "dir_a/dupname.py then dir_b/dupname.py"}
    chk.case(case)
    try:
        fa = K.load_functional_constraints(os.path.join(d1, "dupname.py"))
        fb = K.load_functional_constraints(os.path.join(d2, "dupname.py"))
        got = (fa(5, 2), fb(5, 2))
    except Exception as e:
        got = "EXC " + type(e).__name__ + ": " + str(e)[:60]
    finally:
        for d in (d1, d2):
            while d in sys.path:
                sys.path.remove(d)
        sys.modules.pop("dupname", None)
    if got != (3, -3):
        chk.violation("impl", "loader-wrong-module", f"two files named dupname.py in different directories: the second load returned {got} instead of each file's own function (3, -3)", {**case, "observed": str(got)})

    # the same file edited in place between two loads (a user refining a constraint): the second load must see the file as it is now
    for rep in range(3):
        pth = os.path.join(d1, f"edited{rep}.py")
        case = {"helper": "load_functional_constraints", "file": f"edited{rep}.py written, loaded, overwritten, loaded again"}
        chk.case(case)
        try:
            open(pth, "w").write(f"def edited{rep}(x, y, **kwargs):\n    return x - y\n")
            f1 = K.load_functional_constraints(pth)
            v1 = f1(5, 2)
            open(pth, "w").write(f"def edited{rep}(x, y, **kwargs):\n    return 10 * y - x + {rep}\n")
            os.utime(pth, (os.path.getmtime(pth) + 5, os.path.getmtime(pth) + 5))      # not the same time stamp as the first version
            f2 = K.load_functional_constraints(pth)
            got = (v1, f2(5, 2))
        except Exception as e:
            got = "EXC " + type(e).__name__ + ": " + str(e)[:60]
        finally:
            while d1 in sys.path:
                sys.path.remove(d1)
        if got != (3, 15 + rep):
            chk.violation("impl", "loader-stale-file", f"a constraint file edited in place and loaded again: values {got}, expected (3, {15 + rep})", {**case, "observed": str(got)})

    # ---------------- E. user-defined constraints
    for _ in range(200 if thorough else 50):
        grid = rng.random() < 0.5
        if grid:
            s = int(rng.integers(2, 6))
            n = s * s
            data = np.zeros((2, n))
            pts = [(i % s, i // s) for i in range(n)]
            kw = {}
            pt = f"(grid_point {s})"
        else:
            n = int(rng.integers(3, 14))
            data = pd.DataFrame({"x": rng.integers(-8, 9, size=n) / 2.0, "y": rng.integers(-8, 9, size=n) / 2.0, "f": rng.integers(0, 3, size=n) / 1.0})
            pts = list(zip(data["x"], data["y"]))
            kw = {"X_axis": "x", "Y_axis": "y", "Field": "f"}
            pt = "(table2 [" + "; ".join(f"({C.cq(fr(a))}, {C.cq(fr(b))})" for a, b in pts) + "])"
        ranking = rng.permutation(n).astype(int)
        if rng.random() < 0.5:
            b = gen_bexpr(rng)
            eq = py_bexpr(b)
            case = {"helper": "UserDefinedConstraints(equation)", "equation": eq, "grid": grid, "points": [list(map(float, p)) for p in pts], "ranking": ranking.tolist()}
            exp = [int(i) for i in ranking if bev(b, fr(pts[i][0]), fr(pts[i][1]))]
            try:
                u = K.UserDefinedConstraints(ranking.copy(), data=data, equation=eq, **kw)
                got = [int(i) for i in impl.quiet(u.constraint)[0]]
            except Exception as e:
                got = "EXC " + type(e).__name__ + ": " + str(e)[:60]
            exprs.append(f"user_eq {coq_bexpr(b)} {pt} {C.cnatlist(ranking)}")
            chk.count("user_equation")
        else:
            g = gen_expr(rng, 2)
            nm = f"gfun_{len(exprs)}_{tag}"
            path = os.path.join(tmp, nm + ".py")
            open(path, "w").write(f"def {nm}(x, y, **kwargs):\n    return {py_expr(g)} + 0 * x\n")
            case = {"helper": "UserDefinedConstraints(file)", "function": py_expr(g), "grid": grid, "points": [list(map(float, p)) for p in pts], "ranking": ranking.tolist()}
            exp = [int(i) for i in ranking if ev(g, fr(pts[i][0]), fr(pts[i][1])) < 0]
            try:
                u = K.UserDefinedConstraints(ranking.copy(), data=data, file=path, **kw)
                got = [int(i) for i in impl.quiet(u.constraint)[0]]
            except Exception as e:
                got = "EXC " + type(e).__name__ + ": " + str(e)[:60]
            finally:
                while tmp in sys.path:
                    sys.path.remove(tmp)
            exprs.append(f"user_file {coq_expr(g)} {pt} {C.cnatlist(ranking)}")
            chk.count("user_file")
        chk.case(case, nontrivial=0 < len(exp) < n)
        if got != exp:
            chk.violation("impl", "user-constraint-wrong", f"{case['helper']} {case.get('equation', case.get('function'))}: returned {got}, expected {exp}", {**case, "observed": got})
        meta.append((case, got, "exact"))
    shutil.rmtree(tmp, ignore_errors=True)

    files = []
    for i in range(0, len(exprs), 150):
        body = ("From Coq Require Import Ascii.\nFrom Coq Require Import List Arith ZArith QArith Qcanon. Import ListNotations.\n"
                "From PS Require Import Geo.Shapes Geo.Helpers.\nClose Scope Qc_scope. Open Scope nat_scope.\n"
                "Eval vm_compute in [\n  " + ";\n  ".join(exprs[i:i + 150]) + "\n].\n")
        files.append((f"cases_{i // 150}", body))
    out = []
    for r in C.coq_eval("C13", files):
        if not r["ok"]:
            chk.violation("correspondence", "model-eval-failed", "coqc failed on a cases file: " + r["log"][-400:], {})
            out = None
            break
        out += r["values"][0]
    if out is not None:
        for mres, (case, real, mode) in zip(out, meta):
            chk.traces += 1
            same = isinstance(real, list) and (mres == real if case["helper"] != "get_constrained_sensors_indices" else mres == real)
            if same:
                chk.count("AGREE")
            else:
                chk.count("DISAGREE")
                chk.violation("correspondence", "c13-model-mismatch:" + case["helper"], f"model {mres} vs implementation {real}", {**case, "model": mres, "observed": real})
    return chk.finish(TRUSTED, "make -C coq && coqc theories/Properties/C13.v && coqc cases_*.v (vm_compute)")


def replay(data):
    import json
    print(json.dumps(data["data"], default=str)[:3000])
    return 0
