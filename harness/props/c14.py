"""C14 - selected sensors are always the leading part of the ranking; ctor argument == setters."""
import numpy as np

from .. import common as C
from .. import impl
from .. import sspor_machine as M

TRUSTED = [
    "Coq 8.16.1 kernel + vm_compute",
    "hand-written token machine Recon/SSPOR.v, tied to the code by random setter/observer histories on real SSPOR objects",
    "basis.fit / optimizer.fit / Generator.permutation are deterministic functions of their arguments",
    "python harness",
]


def gen_case(rng, thorough):
    ds = M.make_datasets(rng, 1)
    X = ds[1]
    rows, w = X.shape
    basis = M.BK[int(rng.integers(0, 3))]
    if basis == "Identity" and rng.random() < 0.4:
        bmodes = None
    else:
        bmodes = int(rng.integers(1, (min(rows, w) if basis == "SVD" else rows) + 1))
    opt = M.opt_cfg(rng, [w])
    ctor_n = ["none"] if rng.random() < 0.3 else ["int", int(rng.integers(1, w + 1))]
    hist = [["fit", 1, int(rng.integers(0, 1000))]]
    for _ in range(int(rng.integers(1, 13 if thorough else 8))):
        if rng.random() < 0.7:
            hist.append(["setn", M.rand_value(rng, w, 0.7), bool(rng.random() < 0.5)])
        else:
            hist.append(["obs"])
    return {"basis": basis, "bmodes": bmodes, "opt": opt, "ctor_n": ctor_n, "datasets": ds, "history": hist}


def run(chk):
    rng = np.random.default_rng(chk.seed + 14)
    thorough = chk.tier == "thorough"
    N = 1000 if thorough else 200
    chk.rule = ("random (training set, basis, optimizer, constructor n_sensors, seed) and histories of 1-7 (quick) / 1-12 (thorough) setter "
                "calls (valid and invalid values, both setter names) interleaved with getters/predict/score; distinct by canonical JSON; "
                "non-trivial = at least one accepted setter call changes n_sensors")
    probe = rng.integers(-16, 17, size=(3, 12)) / 4.0
    cases = [gen_case(rng, thorough) for _ in range(N)]
    for case in cases:
        jc = M.jsonable(case)
        recs, model = M.run_real(case, probe)
        if model is None or recs[1]["code"] != 0:
            chk.count("fit-rejected")
            chk.case(jc, nontrivial=False)
            continue
        changed = len({r["snap"]["n_sensors"] for r in recs[1:]}) > 1
        chk.case(jc, nontrivial=changed)
        chk.count("basis:" + case["basis"])
        ranking0 = recs[1]["snap"]["ranked"]
        for i, rec in enumerate(recs[2:], start=2):
            op = case["history"][i - 1]
            snap, after = rec["snap"], rec["after"]
            ctx = {"case": jc, "step": i, "op": op}
            # the ranking and the basis never change
            if not np.array_equal(snap["ranked"], ranking0):
                chk.violation("impl", "setter-changes-ranking", f"ranking changed by {op}", ctx)
                break
            # selection is the leading part of the ranking
            ns = snap["n_sensors"]
            if "error" in after:
                chk.violation("impl", "observer-fails", f"observer failed after {op}: {after['error']}", ctx)
                break
            if after["selected"] != ranking0[:ns].tolist() or after["all"] != ranking0.tolist():
                chk.violation("impl", "selection-not-prefix", f"selected {after['selected']} is not ranking[:{ns}]", ctx)
                break
            # rejected setter: nothing observable changes
            if rec["code"] != 0:
                b = rec["before"]
                if b["selected"] != after["selected"] or not np.array_equal(b["predict"], after["predict"]) or b["score"] != after["score"]:
                    chk.violation("impl", "rejected-setter-changed-state", f"rejected {op} changed the model", ctx)
                    break
            # equivalence with a fresh model constructed with the final value
            if op[0] == "setn" and rec["code"] == 0:
                chk.count("fresh_comparisons")
                fresh = M.new_model(case, int(ns))
                impl.quiet(fresh.fit, np.array(case["datasets"][1]), seed=case["history"][0][2], quiet=True, **M.fit_kws(case))
                fo = M.observe(fresh, probe)
                if fo.get("selected") != after["selected"] or fo.get("all") != after["all"] or \
                        not np.array_equal(fo.get("predict"), after["predict"]) or fo.get("score") != after["score"]:
                    chk.violation("impl", "setter-differs-from-ctor", f"after {op} the model differs from SSPOR(n_sensors={ns}).fit(...)", ctx)
                    break
    # ---- stage M
    codes, log = M.eval_cases("C14", cases)
    if codes is None:
        chk.violation("correspondence", "model-eval-failed", "coqc failed on a cases file: " + log[-300:], {})
    else:
        for case, mc in zip(cases, codes):
            recs, _ = M.run_real(case)
            chk.traces += 1
            bad = None
            for i, (me, rec) in enumerate(zip(mc, recs)):
                if me[0] == 3:
                    chk.count("UNMODELLED-SKIP")
                    break
                d = M.compare_step(case, me, rec)
                if d:
                    bad = (i, d)
                    break
            if bad is None:
                chk.count("AGREE")
            else:
                chk.count("DISAGREE")
                i, d = bad
                chk.violation("correspondence", "c14-model-mismatch", f"model and implementation differ after step {i}: {'; '.join(d)}",
                              {"case": M.jsonable(case), "step": i, "diffs": d})
    return chk.finish(TRUSTED, "make -C coq && coqc theories/Properties/C14.v && coqc cases_*.v (vm_compute)")


def replay(data):
    import json
    print(json.dumps(data["data"], default=str)[:3000])
    return 0
