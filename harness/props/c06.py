"""C06 - constrained selection stays greedy among permitted sensors; reduces to QR / CCQR."""
import numpy as np

from .. import common as C
from .. import gqr_trace, impl
from .. import region_util as R
from ..sspoc_util import scale_ints

TRUSTED = [
    "Coq 8.16.1 kernel + vm_compute",
    "hand-written models Sel/NormCalc.v and Sel/Greedy.v (GQR and CCQR loops over a key oracle), tied to the code by replaying real GQR and CCQR "
    "runs from their own per-step residual norms (exact scaled integers)",
    "residual norms are an oracle (theorems hold for every positive key oracle); QR (LAPACK) agrees with unconstrained GQR on generic matrices (C03)",
    "tracing wraps _gqr.normCalcReturnInstance and _ccqr.qr_reflector from the harness (no source hook)",
]


def run(chk):
    from pysensors.optimizers import CCQR, QR
    rng = np.random.default_rng(chk.seed + 6)
    thorough = chk.tier == "thorough"
    chk.rule = ("random generic basis matrices (n <= 9, m <= 5; 12 x 7 thorough) x feasible (region, N, s) x options max_n / exact_n / predetermined, "
                "plus forced inactive-constraint cases and allowance-zero cases; distinct by canonical JSON; non-trivial = the constrained "
                "first N differ from the unconstrained first N, or the case is an inactive / allowance-zero reduction")
    exprs, meta = [], []
    for it in range(450 if thorough else 160):
        B, n, m, N, L, s = R.gen_region_case(rng, *((12, 7) if thorough else (9, 5)), graded=0.15, tiny=0.3, faint=0.12)
        A = [int(i) for i in QR().fit(B).get_sensors()]
        k = min(n, m)
        mode = it % 3
        if mode == 1:      # make the constraint inactive for max_n / exact_n: allowance = what the unconstrained top-N holds
            s = len([c for c in A[:N] if c in L])
        if mode == 2:      # allowance zero with enough sensors outside
            s = 0
            if N > n - len(L):
                L = L[: max(0, n - N)]
        A_qr = A
        Lset = list(L)
        L, lform = R.listing(rng, Lset, A)            # the region is a set: its listing must not matter
        chk.count("region-listing:" + lform)
        for opt in ("max_n", "exact_n", "predetermined"):
            A = A_qr
            if not (s <= len(Lset) and N - s <= n - len(Lset)):
                continue
            case = {"B": B.tolist(), "option": opt, "lin_idx": L, "n_sensors": N, "n_const_sensors": s, "all_sensors": A, "mode": ["generic", "inactive", "s0"][mode]}
            try:
                if rng.random() < 0.35:
                    piv, steps, A, intact = R.run_gqr_own(B, opt, L, N, s)
                    case["all_sensors"] = A
                    case["all_sensors_from"] = "the same GQR object's unconstrained fit"
                    chk.count("all_sensors_from_the_same_object")
                    if not intact:
                        chk.violation("impl", "all-sensors-argument-overwritten", f"{opt}: the array passed as all_sensors was modified by fit", case)
                    if A[:N] != A_qr[:N]:
                        chk.count("own-ranking-differs-from-qr(tie)")
                        continue
                else:
                    piv, steps = R.run_gqr(B, opt, L, A, N, s, reuse=(chk.evaluations % 2 == 1))
            except Exception as e:
                chk.count("gqr-rejected:" + type(e).__name__)
                continue
            zero_res, tiny_res, res2 = R.degenerate_steps(B, piv, N)      # exact arithmetic, independent of the loop's own norms
            if zero_res or tiny_res:
                chk.count("ZERO-RESIDUAL-SKIP")
                continue
            chk.case(case, nontrivial=(piv[:N] != A[:N]) or mode > 0)
            chk.count("gqr:" + opt + ":" + case["mode"])
            ctx = {**case, "observed": piv}
            # (1) every pick is the best of its own class among the sensors not yet ranked (exact: the run's own norms)
            for st in steps[:N]:
                j = st["j"]
                cands = st["p"][j:]
                pick = piv[j]
                dp = st["dlens"][cands.index(pick)]
                same = [st["dlens"][i] for i, c in enumerate(cands) if (c in L) == (pick in L)]
                if max(same) > dp:
                    chk.violation("impl", "not-best-of-class:" + opt, f"{opt}: step {j} picked sensor {pick} (norm {dp}) although a sensor of the same class has norm {max(same)}", {**ctx, "step": j})
                    break
            # (1') the same with residual norms recomputed from B in exact arithmetic (the loop's norms must BE the residual norms)
            for j in range(N):
                pick = piv[j]
                dp2 = float(res2[j][pick])
                same2 = max(float(res2[j][c]) for c in piv[j:] if (c in L) == (pick in L))
                slack = (64 * 2.2e-16 * float(np.sqrt((B ** 2).sum(axis=1)).max())) ** 2
                if same2 > dp2 * (1 + 1e-6) ** 2 + slack and np.sqrt(same2) > np.sqrt(dp2) + np.sqrt(slack):
                    chk.violation("impl", "not-best-of-class-exact:" + opt, f"{opt}: step {j} picked sensor {pick} with residual norm {np.sqrt(dp2):.6g} although a "
                                  f"sensor of the same class has residual norm {np.sqrt(same2):.6g} (recomputed exactly from the basis matrix)", {**ctx, "step": j})
                    break
            # (2) inactive constraint => unconstrained ranking
            cntN = len([c for c in A[:N] if c in L])
            inactive = (opt == "max_n" and cntN <= s) or (opt == "exact_n" and cntN == s) or \
                (opt == "predetermined" and all(c not in L for c in A[:N - s]) and all(c in L for c in A[N - s:N]))
            if inactive:
                chk.count("inactive_checked")
                if piv[:N] != A[:N]:
                    chk.violation("impl", "inactive-differs-from-qr:" + opt, f"{opt}: the QR ranking {A[:N]} already satisfies the constraint but GQR returns {piv[:N]}", ctx)
            # (3) allowance zero => CCQR with a prohibitive region cost
            if s == 0 and opt in ("max_n", "exact_n") and N <= n - len(L):
                big = float(np.ceil(np.sqrt((B ** 2).sum(axis=1)).max() * 4 + 1))
                costs = np.zeros(n)
                costs[L] = big if rng.random() < 0.5 else np.inf       # "prohibitive" also written as an infinite cost
                chk.count("s0_cost:" + ("inf" if np.isinf(costs[L]).any() else "finite"))
                csteps = []
                with gqr_trace.trace_ccqr(csteps):
                    cc = [int(i) for i in impl.quiet(CCQR(sensor_costs=costs).fit, B.copy()).get_sensors()]
                chk.count("s0_checked")
                if cc[:N] != piv[:N]:
                    chk.violation("impl", "s0-differs-from-ccqr:" + opt, f"{opt} with allowance 0 returns {piv[:N]}, CCQR with prohibitive region costs {cc[:N]}", {**ctx, "ccqr": cc})
                # replay CCQR from its own norms (the model's CCQR loop)
                vals = [v for st in csteps for v in st["dlens"]] + np.where(np.isinf(costs), big, costs).tolist()
                ints, _ = scale_ints(vals)
                tab, kk, p = [], 0, list(range(n))
                for j, st in enumerate(csteps):
                    row = [0] * n
                    for i, c in enumerate(p[j:]):
                        row[c] = ints[kk + i]
                    kk += len(st["dlens"])
                    tab.append(row)
                    ip = j + st["i_piv"]
                    p[j], p[ip] = p[ip], p[j]
                cq = C.czlist(ints[-n:])
                if not np.isinf(costs).any():        # (among sensors of infinite cost the order is arbitrary: no finite replay)
                    # (the first N positions: among the prohibitive-cost sensors that follow, norm - cost is the same float for all of them)
                    exprs.append(f"firstn {N} (ccqr_pivots {cq} {n} {k} [{'; '.join(C.czlist(r) for r in tab)}])")
                    meta.append(({**case, "part": "CCQR replay"}, cc[:N]))
            table = R.table_from_steps(steps, n)
            kk = len(table)                     # = k unless the run produced non-finite norms in its late steps
            exprs.append(f"firstn {kk} (gqr_pivots {R.OPT[opt]} {R.coq_settings(L, A, N, s)} {n} {kk} [{'; '.join(C.czlist(r) for r in table)}])")
            meta.append(({**case, "part": "GQR replay"}, piv[:kk]))
            if kk < k:
                chk.count("NONFINITE-LATE-STEPS-TRUNCATED")
                if kk < N:
                    chk.violation("impl", "nonfinite-norms-within-first-n", f"{opt}: the residual norms became non-finite at step {kk} < n_sensors = {N}", ctx)
    files = []
    for i in range(0, len(exprs), 120):
        body = ("From Coq Require Import List Arith ZArith. Import ListNotations.\nFrom PS Require Import Sel.NormCalc Exec.Run_C05.\n"
                "Eval vm_compute in [\n  " + ";\n  ".join(exprs[i:i + 120]) + "\n].\n")
        files.append((f"cases_{i // 120}", body))
    out = []
    for r in C.coq_eval("C06", files):
        if not r["ok"]:
            chk.violation("correspondence", "model-eval-failed", "coqc failed on a cases file: " + r["log"][-300:], {})
            out = None
            break
        out += r["values"][0]
    if out is not None:
        for mres, (case, real) in zip(out, meta):
            chk.traces += 1
            if mres == real:
                chk.count("AGREE")
            else:
                chk.count("DISAGREE")
                chk.violation("correspondence", "c06-model-mismatch:" + case["part"].split()[0], f"model {mres} vs implementation {real}", {**case, "model": mres, "observed": real})
    return chk.finish(TRUSTED, "make -C coq && coqc theories/Properties/C06.v && coqc cases_*.v (vm_compute)")


def replay(data):
    import json
    print(json.dumps(data["data"], default=str)[:3000])
    return 0
