"""C01 - every sensor ranking is a permutation of the sensor indices."""
import copy

import numpy as np

from .. import common as C
from .. import gen, impl

TRUSTED = [
    "Coq 8.16.1 kernel + vm_compute (no native_compute)",
    "hand-written model coq/theories/Sel/Perm.v, tied to the code by this correspondence run",
    "contracts: LAPACK jpvt, numpy Generator.permutation and numpy argsort return permutations (checked per case by is_perm_of_range/same_multiset inside Coq)",
    "python harness (generators, case writer, verdict)",
]


def opt_configs(rng, n, m):
    """optimizer configs for an n x m basis matrix, incl. infeasible / degenerate constraint settings"""
    out = [{"kind": "QR"}]
    c, ck = gen.costs(rng, n)
    out.append({"kind": "CCQR", "sensor_costs": c.tolist(), "cost_kind": ck})
    out.append({"kind": "CCQR", "sensor_costs": None})
    out.append({"kind": "GQR"})
    for _ in range(2):
        L = sorted(rng.choice(n, size=int(rng.integers(0, n + 1)), replace=False).tolist())
        opt = ["max_n", "exact_n", "predetermined"][int(rng.integers(0, 3))]
        out.append({"kind": "GQR", "idx_constrained": L, "n_sensors": int(rng.integers(0, min(n, m) + 2)),
                    "n_const_sensors": int(rng.integers(0, n + 1)), "constraint_option": opt, "all_sensors": "QR"})
    return out


def run_optimizer(cfg, B):
    from pysensors.optimizers import QR
    cfg = dict(cfg)
    if cfg.get("all_sensors") == "QR":
        cfg["all_sensors"] = QR().fit(B).get_sensors().tolist()
    o = impl.make_optimizer(cfg)
    kws = impl.gqr_kws(cfg)
    return impl.quiet(o.fit, B, **kws).get_sensors()


def run(chk):
    rng = np.random.default_rng(chk.seed)
    thorough = chk.tier == "thorough"
    n_opt = 700 if thorough else 140
    n_rec = 400 if thorough else 90
    n_cls = 150 if thorough else 40
    nmax, mmax = (14, 8) if thorough else (9, 5)
    chk.rule = ("random (shape, matrix kind, optimizer/cost/region config, basis, seed) cases; distinct by canonical JSON of "
                "the input; non-trivial = n_features >= 2 (a 1-sensor ranking is forced)")
    exprs, meta = [], []

    # ---- optimizer level
    for _ in range(n_opt):
        n, m = gen.shape(rng, nmax, mmax)
        B, kind = gen.matrix(rng, n, m)
        for cfg in opt_configs(rng, n, m):
            case = {"level": "optimizer", "B": B.tolist(), "matrix_kind": kind, "cfg": cfg}
            try:
                full = [int(i) for i in run_optimizer(cfg, B.copy())]
            except Exception as e:  # rejected configuration: nothing to check
                chk.count("rejected:" + impl.exc_class(e))
                continue
            chk.case(case, nontrivial=n >= 2)
            chk.count("kind:" + kind)
            chk.count("opt:" + cfg["kind"] + ":" + cfg.get("constraint_option", ""))
            if sorted(full) != list(range(n)):
                chk.violation("impl", "ranking-not-permutation:" + cfg["kind"],
                              f"{cfg['kind']} ranking {full} is not a permutation of range({n})", {**case, "observed": full})
            k = min(n, m)
            exprs.append(f"case_opt {n} {C.cnatlist(full[:k])} {C.cnatlist(full)}")
            meta.append(("opt", case, full))

    # ---- SSPOR level
    from pysensors.reconstruction import SSPOR
    for _ in range(n_rec):
        n, m = gen.shape(rng, nmax, mmax)
        ns_samples = m + int(rng.integers(0, 3))
        X, kind = gen.training(rng, n, ns_samples)
        bkind = ["Identity", "SVD", "RandomProjection"][int(rng.integers(0, 3))]
        bcfg = {"kind": bkind, "n_basis_modes": m}
        ocfg = opt_configs(rng, n, m)[int(rng.integers(0, 6))]
        seed = int(rng.integers(0, 1000))
        nsens = None if rng.random() < 0.3 else int(rng.integers(1, n + 1))
        if nsens is not None and rng.random() < 0.12:
            nsens = n + int(rng.integers(1, 4))        # more sensors than there are: to be rejected - if accepted, the count clause judges it
            chk.count("sspor:n_sensors-beyond-features")
        case = {"level": "SSPOR", "X": X.tolist(), "matrix_kind": kind, "basis": bcfg, "opt": ocfg, "seed": seed, "n_sensors": nsens}
        try:
            cfg2 = dict(ocfg)
            basis = impl.make_basis(bcfg)
            if cfg2.get("all_sensors") == "QR":
                from pysensors.optimizers import QR
                b2 = impl.make_basis(bcfg)
                impl.quiet(b2.fit, X)
                cfg2["all_sensors"] = QR().fit(b2.matrix_representation()).get_sensors().tolist()
            opt = impl.make_optimizer(cfg2)
            kws = impl.gqr_kws(cfg2)
            if cfg2.get("kind") == "GQR" and rng.random() < (0.7 if not cfg2.get("constraint_option") else 0.2):
                kws = dict(kws, n_sensors=n + int(rng.integers(1, 4)))     # GQR told a budget beyond the features: rejected, or consistent counts
                nsens = None if rng.random() < 0.6 else nsens
                chk.count("sspor:gqr-budget-beyond-features")
            model = SSPOR(basis=basis, optimizer=opt, n_sensors=nsens)
            impl.quiet(model.fit, X, seed=seed, quiet=True, **kws)
            Bm = np.array(model.basis_matrix_)
            opt2 = impl.make_optimizer(cfg2)
            r = [int(i) for i in impl.quiet(opt2.fit, Bm.copy(), **kws).get_sensors()]
        except Exception as e:
            chk.count("rejected:" + impl.exc_class(e))
            continue
        mm = Bm.shape[1]
        tail = [int(i) for i in np.random.default_rng(seed).permutation(np.array(r[mm:], dtype=int))]
        allv = [int(i) for i in model.all_sensors]
        sel = [int(i) for i in model.selected_sensors]
        nsv = int(model.n_sensors)
        chk.case(case, nontrivial=n >= 2)
        chk.count("basis:" + bkind)
        if sorted(allv) != list(range(n)):
            chk.violation("impl", "sspor-ranking-not-permutation", f"SSPOR.all_sensors {allv} is not a permutation", {**case, "observed": allv})
        if len(set(sel)) != len(sel) or any(i < 0 or i >= n for i in sel) or len(sel) != nsv:
            chk.violation("impl", "sspor-selection-invalid", f"selected {sel} with n_sensors={nsv}", {**case, "observed": sel})
        exprs.append(f"case_sspor {n} {mm} {C.cnatlist(r)} {C.cnatlist(tail)} {C.cnatlist(allv)} {nsv} {C.cnatlist(sel)}")
        meta.append(("sspor", case, {"r": r, "tail": tail, "all": allv, "sel": sel, "n_sensors": nsv}))
        # the same invariants along a short history on the same object: setters and refits on data of another width
        if ocfg.get("kind") != "GQR":
            hist = []
            for _step in range(3):
                c = int(rng.integers(0, 3))
                if c == 0:
                    k = int(rng.integers(1, n + 3))
                    op = ["set_number_of_sensors", k]
                elif c == 1:
                    k = int(rng.integers(1, n + 3))
                    op = ["set_n_sensors", k]
                else:
                    n2 = max(2, n + int(rng.integers(-3, 3)))
                    X2 = rng.integers(-16, 17, size=(X.shape[0], n2)) / 4.0
                    op = ["fit", X2.tolist()]
                hist.append(op if op[0] != "fit" else ["fit", f"{X.shape[0]}x{len(op[1][0])}"])
                try:
                    if op[0] == "fit":
                        if ocfg.get("kind") == "CCQR" and ocfg.get("sensor_costs") is not None and len(op[1][0]) != n:
                            continue                      # a cost vector of the old width: rejected by design
                        impl.quiet(model.fit, np.array(op[1]), seed=seed, quiet=True)
                    else:
                        getattr(model, op[0])(op[1])
                except Exception as e:
                    chk.count("sspor-step-rejected:" + impl.exc_class(e))
                    if op[0] == "fit":
                        continue          # a rejected fit leaves the model unusable until the next successful fit (no property speaks about it)
                    hist[-1] = hist[-1] + ["rejected"]
                try:
                    nn = len(model.ranked_sensors_)
                    allh = [int(i) for i in model.all_sensors]
                    selh = [int(i) for i in model.selected_sensors]
                    nsh = int(model.n_sensors)
                except Exception as e:
                    chk.count("sspor-step-unobservable:" + impl.exc_class(e))
                    continue
                caseh = {**case, "then": list(hist), "last": op if op[0] != "fit" else ["fit", op[1]]}
                chk.case(caseh)
                chk.count("sspor_history_steps")
                if sorted(allh) != list(range(nn)):
                    chk.violation("impl", "sspor-ranking-not-permutation", f"after {hist}: SSPOR.all_sensors {allh} is not a permutation", {**caseh, "observed": allh})
                if len(set(selh)) != len(selh) or any(i < 0 or i >= nn for i in selh) or len(selh) != nsh or selh != allh[:nsh]:
                    chk.violation("impl", "sspor-selection-invalid", f"after {hist}: selected {selh} with n_sensors={nsh} (ranking {allh})", {**caseh, "observed": selh})
                exprs.append(f"case_sspoc {nn} {nsh} {C.cnatlist(selh)}")
                meta.append(("sspoc", caseh, {"sel": selh, "n_sensors": nsh}))

    # ---- SSPOC level
    from pysensors.classification import SSPOC
    for _ in range(n_cls):
        n = int(rng.integers(3, nmax + 1))
        ncls = int(rng.integers(2, 4))
        nsamp = int(rng.integers(8, 16))
        X = rng.integers(-16, 17, size=(nsamp, n)) / 4.0
        y = np.arange(nsamp) % ncls
        X = X + y[:, None] * (rng.integers(-4, 5, size=n) / 2.0)[None, :]
        m = int(rng.integers(2, min(n, nsamp) + 1))
        bkind = ["Identity", "SVD", "RandomProjection"][int(rng.integers(0, 3))]
        bcfg = {"kind": bkind, "n_basis_modes": min(m, n - 1) if bkind == "SVD" else m}
        mode = int(rng.integers(0, 3))
        nsens = int(rng.integers(0, n + 1)) if mode == 0 else None
        thr = float(rng.integers(0, 9)) / 8.0 if mode == 1 else None
        case = {"level": "SSPOC", "X": X.tolist(), "y": y.tolist(), "basis": bcfg, "n_sensors": nsens, "threshold": thr}
        try:
            model = SSPOC(basis=impl.make_basis(bcfg), n_sensors=nsens, threshold=thr)
            impl.quiet(model.fit, X, y, quiet=True)
            sel = [int(i) for i in model.selected_sensors]
            nsv = int(model.n_sensors)
        except Exception as e:
            chk.count("rejected:" + impl.exc_class(e))
            continue
        chk.case(case)
        chk.count("sspoc:" + ("binary" if ncls == 2 else "multi"))
        if len(set(sel)) != len(sel) or any(i < 0 or i >= n for i in sel) or len(sel) != nsv:
            chk.violation("impl", "sspoc-selection-invalid", f"SSPOC selected {sel} with n_sensors={nsv}", {**case, "observed": sel})
        exprs.append(f"case_sspoc {n} {nsv} {C.cnatlist(sel)}")
        meta.append(("sspoc", case, {"sel": sel, "n_sensors": nsv}))
        # the same invariants after later updates on the same object (counts down to 0 and back, thresholds)
        big = [1e9, float("inf"), float(np.max(np.abs(model.sensor_coef_))) * 1.5 + 1.0][int(rng.integers(0, 3))]
        for upd in ({"n_sensors": int(rng.integers(0, n + 1))}, {"n_sensors": 0}, {"threshold": float(rng.integers(0, 9)) / 8.0},
                    {"n_sensors": np.int64(0)}, {"n_sensors": int(rng.integers(1, n + 1))},
                    {"threshold": big, **({"xy": (X, y)} if rng.random() < 0.5 else {})},          # above every coefficient: nothing is selected
                    {"n_sensors": int(rng.integers(1, n + 1))}, {"threshold": float(np.max(np.abs(model.sensor_coef_)))}):
            try:
                impl.quiet(model.update_sensors, quiet=True, **upd)
                sel2 = [int(i) for i in model.selected_sensors]
                ns2 = int(model.n_sensors)
            except Exception as e:
                chk.count("update-rejected:" + impl.exc_class(e))
                continue
            # a rejected request in between (too many sensors) is caught by the caller: count and selection must still agree
            try:
                impl.quiet(model.update_sensors, quiet=True, n_sensors=n + int(rng.integers(1, 4)))
            except Exception:
                selr, nsr = [int(i) for i in model.selected_sensors], int(model.n_sensors)
                if selr != sel2 or nsr != ns2:
                    chk.violation("impl", "sspoc-selection-invalid", f"a rejected update_sensors(n_sensors > n_features) left n_sensors={nsr} with selection {selr} "
                                  f"(before: {ns2}, {sel2})", {**case, "observed": selr})
            case2 = {**case, "then": {k: (int(v) if k == "n_sensors" else (v if k == "threshold" else "(X, y)")) for k, v in upd.items()}}
            chk.case(case2)
            if len(set(sel2)) != len(sel2) or any(i < 0 or i >= n for i in sel2) or len(sel2) != ns2:
                chk.violation("impl", "sspoc-selection-invalid", f"after update_sensors({upd}) SSPOC selected {sel2} with n_sensors={ns2}", {**case2, "observed": sel2})
            exprs.append(f"case_sspoc {n} {ns2} {C.cnatlist(sel2)}")
            meta.append(("sspoc", case2, {"sel": sel2, "n_sensors": ns2}))

    # ---- stage M
    shard = 400
    files = []
    for i in range(0, len(exprs), shard):
        body = "From Coq Require Import List Arith. Import ListNotations.\nFrom PS Require Import Sel.Perm Exec.Run_C01.\n"
        body += "Eval vm_compute in [\n  " + ";\n  ".join(exprs[i:i + shard]) + "\n].\n"
        files.append((f"cases_{i // shard}", body))
    res = C.coq_eval("C01", files)
    codes = []
    for r in res:
        if not r["ok"]:
            chk.violation("correspondence", "model-eval-failed", "coqc failed on a cases file: " + r["log"][-300:], {})
            codes = None
            break
        codes += r["values"][0]
    if codes is not None:
        assert len(codes) == len(exprs), (len(codes), len(exprs))
        for code, (lvl, case, obs) in zip(codes, meta):
            chk.traces += 1
            if code == 0:
                chk.count("AGREE")
            else:
                chk.count("DISAGREE")
                chk.violation("correspondence", f"c01-{lvl}-model-mismatch",
                              f"model code {code} on {lvl} case (bitmask, see Exec/Run_C01.v)", {**case, "observed": obs, "code": code})
    return chk.finish(TRUSTED, "make -C coq (full .vo) && coqc theories/Properties/C01.v (Print Assumptions) && coqc cases_*.v (vm_compute)")


def replay(data):
    import json
    d = data["data"]
    print(json.dumps(d)[:2000])
    if d.get("level") == "optimizer":
        full = run_optimizer(d["cfg"], np.array(d["B"]))
        print("observed now:", full.tolist())
        return 0 if sorted(full.tolist()) == list(range(len(full))) else 1
    return 0
