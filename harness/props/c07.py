"""C07 - reconstruction is the least-squares fit of the measurements in the basis."""
from fractions import Fraction as F

import numpy as np

from .. import common as C
from .. import impl
from .. import recon_util as U

TRUSTED = [
    "Coq 8.16.1 kernel + vm_compute",
    "hand-written model Recon/Predict.v (relational: minimum-norm least-squares certificate + shape/dispatch glue) tied to SSPOR.predict by "
    "(a) exact certificates computed with Fractions and VALIDATED inside Coq (check_predict), compared with the float output within a "
    "conditioning-scaled tolerance, (b) exact shape / branch / rejection behaviour",
    "scipy.linalg.solve / lstsq as oracles with the contract 'unique solution / minimum-norm least-squares solution'; IEEE rounding not modelled",
]


def run(chk):
    rng = np.random.default_rng(chk.seed + 7)
    thorough = chk.tier == "thorough"
    N = 450 if thorough else 90
    chk.rule = ("random fitted SSPOR models (3 bases x QR/CCQR/GQR, generic / rank-deficient / duplicated-row training sets) x n_sensors below, "
                "equal to and above n_basis_modes x measurements in and out of the span, 1-D and batches; distinct by canonical JSON; "
                "non-trivial = the measurements are not exactly reproducible (out of span) or the system is not square")
    exprs, meta = [], []
    for _ in range(N):
        try:
            model, X, cfg = U.fitted_model(rng, *((12, 6) if thorough else (8, 4)), kinds=("generic", "generic", "rankdef", "duprows"))
        except Exception as e:
            chk.count("fit-rejected:" + type(e).__name__)
            continue
        for rnd in range(2):
            if rnd == 1:
                # the SAME object moves on: refit on other data of the same shape / re-rank on the prefit basis with another seed /
                # fewer basis modes; everything below must hold again for the new state
                tr = int(rng.integers(0, 3))
                try:
                    if tr == 0:
                        X2 = X + rng.integers(-8, 9, size=X.shape) / 4.0
                        impl.quiet(model.fit, X2, quiet=True, seed=int(rng.integers(0, 100)))
                        cfg = {**cfg, "then": "fit(other data)", "X2": X2.tolist()}
                    elif tr == 1:
                        impl.quiet(model.fit, X, prefit_basis=True, quiet=True, seed=int(rng.integers(100, 200)))
                        cfg = {**cfg, "then": "fit(prefit_basis=True, other seed)"}
                    else:
                        kk = int(rng.integers(1, np.array(model.basis_matrix_).shape[1] + 1))
                        impl.quiet(model.update_n_basis_modes, kk, quiet=True)
                        cfg = {**cfg, "then": f"update_n_basis_modes({kk})"}
                except Exception as e:
                    chk.count("transition-rejected:" + type(e).__name__)
                    break
            B = np.array(model.basis_matrix_)
            n, m = B.shape
            p = int(rng.integers(1, n + 1))
            if rng.random() < 0.3:
                p = m
            if rnd == 1 and rng.random() < 0.6:
                p = min(p_prev, n)       # same sensor count as before the transition
            p_prev = p
            model.set_number_of_sensors(p)
            S = [int(i) for i in model.selected_sensors]
            Bq = U.fr_mat(B)
            BS = [Bq[i] for i in S]
            in_span = rng.random() < 0.4
            k = int(rng.integers(1, 4))
            if in_span:
                Y = (rng.integers(-8, 9, size=(k, m)) / 2.0) @ B[S].T
            else:
                Y = rng.integers(-16, 17, size=(k, p)) / 4.0
                if rng.random() < 0.3:
                    # the same kind of data held in an integer-typed array (counts, 8-bit pixels): the reconstruction is still real-valued
                    dt = [np.int64, np.int32, np.int16, np.uint8, np.uint16][int(rng.integers(0, 5))]
                    Y = (rng.integers(0, 33, size=(k, p)) if np.dtype(dt).kind == "u" else rng.integers(-16, 17, size=(k, p))).astype(dt)
                    chk.count("measurements:" + np.dtype(dt).name)
            case = {**cfg, "n_sensors": p, "selected": S, "measurements": Y.tolist(), "in_span": in_span, "basis_matrix": B.tolist(), "dtype": str(Y.dtype)}
            rank = U.exact_rank(BS)
            singular_square = (p == m and rank < m)
            chk.case(case, nontrivial=(not in_span) or p != m)
            chk.count("branch:" + ("square" if p == m else ("under" if p < m else "over")))
            # ---- run the implementation: batch, each row as a 1-D vector, superposition
            try:
                impl.sspor_bystander(n, p)      # another model fitted and used in between must not influence this one
                out = impl.quiet(model.predict, Y.copy())
            except Exception as e:
                if singular_square:
                    chk.count("SINGULAR-SQUARE-SKIP")   # scipy.linalg.solve refuses an exactly singular system: no reconstruction is returned
                    continue
                if p == m and type(e).__name__ == "LinAlgError" and np.linalg.cond(B[S]) > 1e12:
                    # singular to working precision (e.g. a random projection of rank-deficient data: full rank only through rounding
                    # noise): LAPACK meets an exactly zero pivot and scipy refuses; as above no reconstruction is returned to judge
                    chk.count("NUMERICALLY-SINGULAR-SQUARE-SKIP")
                    continue
                chk.violation("impl", "predict-raises", f"predict raised {type(e).__name__}: {e}", case)
                continue
            ctx = {**case, "observed": np.asarray(out).tolist()}
            # (a) the result handed out is kept while the model is used again on other measurements of the same shape;
            # (b) the basis OBJECT is fitted again by the caller (or by another model sharing it): this model was not refitted, so its
            #     reconstruction - defined by its own basis_matrix_ - must not move
            try:
                held = impl.Held()
                held.hold("predict result", out)
                impl.quiet(model.predict, (np.asarray(Y, dtype=float)[::-1] * 2 + 1).copy())
                for lab, _c in held.disturbed():
                    chk.violation("impl", "result-handed-out-overwritten", f"{lab}: the array returned by predict changed when predict was called again", ctx)
                if rng.random() < 0.35 and np.shape(out) == (k, n):
                    Xb = rng.integers(-24, 25, size=(max(m, 2) + 2, n)) / 8.0
                    impl.quiet(model.basis.fit, Xb)
                    again = impl.quiet(model.predict, Y.copy())
                    chk.count("basis_object_refitted_by_the_caller")
                    if np.shape(again) != np.shape(out) or not np.allclose(again, out, rtol=1e-9, atol=1e-9):
                        chk.violation("impl", "predict-follows-refitted-basis-object", "after the caller refitted the basis OBJECT (the model itself was not "
                                      "refitted) predict no longer reconstructs in the model's own basis_matrix_", ctx)
            except Exception as e:
                chk.count("aftercall-rejected:" + type(e).__name__)
            if np.shape(out) != (k, n):
                chk.violation("impl", "predict-shape", f"a batch of {k} samples gave shape {np.shape(out)}, expected {(k, n)}", ctx)
                continue
            cond = np.linalg.cond(B[S]) if rank == min(p, m) else np.inf
            scale = 1.0 + float(np.abs(Y).max()) * (1.0 + float(np.abs(B).max()))
            if not np.isfinite(cond) or cond > 1e6 or singular_square:
                chk.count("ILLCOND-SKIP")
                continue
            tol = 1e-9 * cond * cond * scale
            one = impl.quiet(model.predict, Y[0].copy())
            if np.shape(one) != (n,) or np.max(np.abs(one - out[0])) > tol:
                chk.violation("impl", "vector-vs-batch", f"1-D input gives shape {np.shape(one)} / values differing from the one-row batch", ctx)
            if k >= 2:
                al, be = 0.5, -1.5
                comb = impl.quiet(model.predict, (al * Y[0].astype(float) + be * Y[1].astype(float)).copy())
                if np.max(np.abs(comb - (al * out[0] + be * out[1]))) > tol:
                    chk.violation("impl", "not-linear", "predict(a*y1 + b*y2) differs from a*predict(y1) + b*predict(y2)", ctx)
            # wrong width is rejected
            for bad in (np.zeros((2, p + 1)), np.zeros(p + 1)):
                try:
                    impl.quiet(model.predict, bad)
                    chk.violation("impl", "wrong-width-accepted", f"predict accepted measurements of width {p + 1} for {p} sensors", ctx)
                except ValueError:
                    pass
            # ---- exact certificate per sample (untrusted solver), validated in Coq, compared with the float output
            for r_ in range(k):
                yq = [F(float(v)) for v in Y[r_]]
                a, z = U.minnorm_lsq(BS, yq)
                yhat = [sum(Bq[i][t] * a[t] for t in range(m)) for i in range(n)]
                err = max(abs(float(yhat[i]) - float(out[r_][i])) for i in range(n))
                if err > tol:
                    chk.violation("impl", "not-least-squares", f"predict differs from the exact minimum-norm least-squares reconstruction by {err:.3g} (tolerance {tol:.3g}, "
                                  f"{p} sensors, {m} modes)", {**ctx, "sample": r_, "exact": [float(v) for v in yhat]})
                exprs.append(f"check_predict {n} {m} (of_rows {C.cqmat(Bq)}) {C.cnatlist(S)} {C.cqlist(yq)} {C.cqlist(a)} {C.cqlist(z)} {C.cqlist(yhat)}")
                meta.append({**ctx, "sample": r_})
                if r_ >= 1 and not thorough:
                    break
            br = "Square" if p == m else "Rectangular"
            exprs.append(f"match predict_shape {n} {m} {p} (Batch {k} {p}) with POk {br} (Batch {k} {n}) => true | _ => false end")
            meta.append({**ctx, "what": "shape"})
    files = []
    for i in range(0, len(exprs), 60):
        body = ("From Coq Require Import List Arith QArith Qcanon. Import ListNotations.\nFrom PS Require Import LA.Sums LA.Gram Recon.Predict.\n"
                "Eval vm_compute in map (fun b : bool => if b then 1%nat else 0%nat) [\n  " + ";\n  ".join(exprs[i:i + 60]) + "\n].\n")
        files.append((f"cases_{i // 60}", body))
    out = []
    for r in C.coq_eval("C07", files):
        if not r["ok"]:
            chk.violation("correspondence", "model-eval-failed", "coqc failed on a cases file: " + r["log"][-300:], {})
            out = None
            break
        out += r["values"][0]
    if out is not None:
        for v, ctx in zip(out, meta):
            chk.traces += 1
            if v == 1:
                chk.count("AGREE")
            else:
                chk.count("DISAGREE")
                chk.violation("correspondence", "c07-certificate-rejected", "the Coq checker rejects the certificate / shape of this case", ctx)
    return chk.finish(TRUSTED, "make -C coq && coqc theories/Properties/C07.v && coqc cases_*.v (vm_compute)")


def replay(data):
    import json
    print(json.dumps(data["data"], default=str)[:3000])
    return 0
