"""C15 - refitting and mode updates leave no trace of earlier fits."""
import numpy as np

from .. import common as C
from .. import impl
from .. import sspor_machine as M

TRUSTED = [
    "Coq 8.16.1 kernel + vm_compute",
    "hand-written token machine Recon/SSPOR.v (attributes of SSPOR, its basis and optimizer), tied to the code by running random histories on real objects and evaluating the model's tokens with FRESH real objects",
    "numerical kernels behind the tokens (basis.fit, optimizer.fit, Generator.permutation) are deterministic functions of their arguments (sklearn objects get integer random_state)",
    "python harness",
]


def gen_case(rng, thorough):
    nd = int(rng.integers(2, 4))
    same_rows = rng.random() < 0.5
    rows = int(rng.integers(4, 7)) if same_rows else None
    ds = M.make_datasets(rng, nd, rows=rows)
    widths = [ds[i].shape[1] for i in ds]
    minrows = min(ds[i].shape[0] for i in ds)
    basis = M.BK[int(rng.integers(0, 3))]
    if basis == "Identity" and rng.random() < 0.4:
        bmodes = None
    else:
        hi = min(minrows, min(widths)) if basis == "SVD" else minrows
        bmodes = int(rng.integers(1, hi + 1))
    opt = M.opt_cfg(rng, widths)
    ctor_n = ["none"] if rng.random() < 0.5 else ["int", int(rng.integers(1, min(widths) + 1))]
    hist = [["fit", int(rng.integers(1, nd + 1)), None if rng.random() < 0.3 else int(rng.integers(0, 100))]]
    L = int(rng.integers(2, 15 if thorough else 9))
    for _ in range(L):
        c = rng.random()
        if c < 0.4:
            hist.append(["fit", int(rng.integers(1, nd + 1)), None if rng.random() < 0.3 else int(rng.integers(0, 100))])
        elif c < 0.65:
            hi = minrows if basis != "SVD" else min(minrows, min(widths))
            k = int(rng.integers(1, hi + 1))
            x = None if rng.random() < 0.4 else int(rng.integers(1, nd + 1))
            hist.append(["upd", ["int", k], x])
        elif c < 0.9:
            hist.append(["setn", ["int", int(rng.integers(1, min(widths) + 1))]])
        else:
            hist.append(["obs"])
    return {"basis": basis, "bmodes": bmodes, "opt": opt, "ctor_n": ctor_n, "datasets": ds, "history": hist}


def fresh_reference(case, st):
    """from-scratch object configured with the user's final settings, fitted once on the final data"""
    from pysensors.reconstruction import SSPOR
    bcfg = {"kind": case["basis"], "n_basis_modes": st["b_user"]}
    model = SSPOR(basis=impl.make_basis(bcfg), optimizer=impl.make_optimizer(case["opt"]), n_sensors=st["ns_user"])
    model.n_basis_modes = st["k_s"]
    impl.quiet(model.fit, np.array(case["datasets"][st["data"]]), seed=st["seed"], quiet=True, **M.fit_kws(case))
    return model


def oracle(case, probe):
    """Run the history on a real object; after every successful step compare with the from-scratch reference.
    Returns (violations, steps_compared)."""
    viols, compared = [], 0
    try:
        model = M.new_model(case, M.pyvalue(case["ctor_n"]))
    except Exception:
        return viols, compared
    st = {"b_user": case["bmodes"], "ns_user": M.pyvalue(case["ctor_n"]), "k_s": None, "data": None, "seed": None}
    for idx, op in enumerate(case["history"]):
        pre_branch1 = hasattr(model.basis, "basis_matrix_") and op[0] == "upd" and \
            isinstance(M.pyvalue(op[1]), (int, np.integer)) and M.pyvalue(op[1]) <= (model.basis.n_basis_modes or 0)
        st2 = dict(st)
        if op[0] == "fit":
            st2["data"], st2["seed"] = op[1], op[2]
        elif op[0] == "setn":
            st2["ns_user"] = M.pyvalue(op[1])
        elif op[0] == "upd":
            st2["k_s"] = M.pyvalue(op[1])
            st2["seed"] = None
            if not pre_branch1:
                st2["b_user"] = M.pyvalue(op[1])
                st2["data"] = op[2]
        try:
            M.apply_op(model, case, op)
            err = None
        except Exception as e:
            err = e
        if st2["data"] is None:
            if err is None:
                st = st2
            continue
        # what would a fresh object do?
        try:
            ref = fresh_reference(case, st2)
            ref_err = None
        except Exception as e:
            ref, ref_err = None, e
        if op[0] in ("setn", "obs") and err is not None:
            continue  # a rejected setter is C19's business
        if (err is None) != (ref_err is None):
            viols.append({"step": idx, "op": op, "what": f"real {'raised ' + type(err).__name__ + ': ' + str(err)[:90] if err else 'succeeded'} "
                          f"but a fresh object with the final settings {'raised ' + type(ref_err).__name__ if ref_err else 'succeeds'}",
                          "kind": "outcome", "settings": dict(st2)})
            break
        if err is not None:
            break  # both fail: history ends here for this oracle
        st = st2
        compared += 1
        d = []
        if not np.array_equal(np.array(model.basis_matrix_), np.array(ref.basis_matrix_)):
            d.append(f"basis_matrix_ {np.shape(model.basis_matrix_)} vs fresh {np.shape(ref.basis_matrix_)}")
        m = np.shape(ref.basis_matrix_)[1]
        a, b = np.array(model.ranked_sensors_), np.array(ref.ranked_sensors_)
        if len(a) != len(b) or not np.array_equal(a[:m], b[:m]) or (st["seed"] is not None and not np.array_equal(a, b)):
            d.append(f"ranking {a.tolist()} vs fresh {b.tolist()}")
        if model.n_sensors != ref.n_sensors:
            d.append(f"n_sensors {model.n_sensors} vs fresh {ref.n_sensors}")
        elif not d and (st["seed"] is not None or model.n_sensors <= m):
            o1, o2 = M.observe(model, probe), M.observe(ref, probe)
            if ("error" in o1) != ("error" in o2) or ("predict" in o1 and not np.array_equal(o1["predict"], o2["predict"])):
                d.append("predictions differ from the fresh object's")
        if d:
            viols.append({"step": idx, "op": op, "what": "; ".join(d), "kind": "state", "settings": dict(st),
                          "real_b_modes": model.basis.n_basis_modes})
            break
    return viols, compared


def classify(case, v):
    """signature of a violation: specific classes first, so that anything else is still reported"""
    rows = {len(case["datasets"][i]) for i in case["datasets"]}
    if case["basis"] == "Identity" and case["bmodes"] is None and v["settings"].get("b_user") is None and len(rows) > 1 \
            and ("basis_matrix_" in v["what"] or "X needs at least" in v["what"]):
        return "identity-default-modes-frozen"
    return "refit-differs-from-fresh"


def run(chk):
    rng = np.random.default_rng(chk.seed + 15)
    thorough = chk.tier == "thorough"
    N = 1200 if thorough else 220
    chk.rule = ("random histories (length 3-9 quick / 3-15 thorough) of fit / update_n_basis_modes / set_number_of_sensors / observers "
                "over 2-3 data sets of equal and different widths and row counts, 3 bases x 4 optimizer configs; distinct by canonical JSON; "
                "non-trivial = at least two fits or a mode update (something could go stale)")
    probe = rng.integers(-16, 17, size=(3, 12)) / 4.0
    cases = [gen_case(rng, thorough) for _ in range(N)]
    # corpus (runs first): the recorded known finding - Identity() keeps the number of examples of its first fit
    crng = np.random.default_rng(1234)
    cases.insert(0, {"basis": "Identity", "bmodes": None, "opt": {"kind": "QR"}, "ctor_n": ["none"],
                     "datasets": {1: crng.integers(-24, 25, size=(3, 6)) / 8.0, 2: crng.integers(-24, 25, size=(5, 6)) / 8.0},
                     "history": [["fit", 1, 7], ["fit", 2, 7]]})
    # ---- stage O: from-scratch references
    for case in cases:
        jc = M.jsonable(case)
        nontrivial = sum(1 for o in case["history"] if o[0] in ("fit", "upd")) >= 2
        chk.case(jc, nontrivial=nontrivial)
        chk.count("basis:" + case["basis"] + ("(default)" if case["bmodes"] is None else ""))
        chk.count("opt:" + case["opt"]["kind"])
        viols, compared = oracle(case, probe)
        chk.count("steps_compared_with_fresh", compared)
        for v in viols:
            chk.violation("impl", classify(case, v), f"after step {v['step']} {v['op']}: {v['what']}", {"case": jc, **{k: v[k] for k in ("step", "op", "what")}})
    # ---- optimizers alone: refitting one object must equal a fresh object with the final settings (GQR: its attributes
    #      after the last keyword merge)
    from pysensors.optimizers import CCQR, GQR, QR
    for _ in range(300 if thorough else 70):
        kind = ["QR", "CCQR", "CCQR0", "GQR"][int(rng.integers(0, 4))]
        nfits = int(rng.integers(2, 5))
        same_width = rng.random() < 0.5
        n0 = int(rng.integers(3, 9))
        mats = []
        for _i in range(nfits):
            n_ = n0 if (same_width or kind == "CCQR") else int(rng.integers(3, 9))
            m_ = int(rng.integers(1, n_ + 1))
            mats.append(rng.integers(-24, 25, size=(n_, m_)) / 8.0)
        costs = (rng.integers(-8, 9, size=n0) / 4.0) if kind == "CCQR" else None
        mk = {"QR": lambda: QR(), "CCQR": lambda: CCQR(sensor_costs=costs.copy()), "CCQR0": lambda: CCQR(), "GQR": lambda: GQR()}[kind]
        obj = mk()
        merged = {}
        hist = []
        for Bm in mats:
            kws = {}
            if kind == "GQR" and rng.random() < 0.7:
                n_ = Bm.shape[0]
                k_ = min(Bm.shape)
                Nn = int(rng.integers(1, k_ + 1))
                Ll = sorted(rng.choice(n_, size=int(rng.integers(0, max(1, n_ - Nn) + 1)), replace=False).tolist())
                kws = {"idx_constrained": np.array(Ll, dtype=int), "n_sensors": Nn, "n_const_sensors": int(rng.integers(0, min(len(Ll), Nn) + 1)),
                       "all_sensors": QR().fit(Bm).get_sensors(), "constraint_option": ["max_n", "exact_n", "predetermined", ""][int(rng.integers(0, 4))]}
            merged.update(kws)
            hist.append({"shape": list(Bm.shape), "kws": {k: (v.tolist() if hasattr(v, "tolist") else v) for k, v in kws.items()}})
            case = {"optimizer": kind, "history": hist[:], "matrices": [b.tolist() for b in mats[:len(hist)]]}
            try:
                got = [int(i) for i in impl.quiet(obj.fit, Bm.copy(), **kws).get_sensors()]
                err = None
            except Exception as e:
                got, err = None, e
            try:
                ref = [int(i) for i in impl.quiet(mk().fit, Bm.copy(), **merged).get_sensors()]
                rerr = None
            except Exception as e:
                ref, rerr = None, e
            chk.case(case, nontrivial=len(hist) >= 2)
            chk.count("optimizer_refits:" + kind)
            if (err is None) != (rerr is None) or got != ref:
                chk.violation("impl", "optimizer-refit-differs:" + kind, f"{kind} fitted {len(hist)} times gives {got if err is None else type(err).__name__}; a fresh {kind} "
                              f"with the final settings gives {ref if rerr is None else type(rerr).__name__}", case)
                break
            if err is not None:
                break
    # ---- stage M: the Coq machine on the same histories
    codes, log = M.eval_cases("C15", cases)
    if codes is None:
        chk.violation("correspondence", "model-eval-failed", "coqc failed on a cases file: " + log[-300:], {})
    else:
        for case, mc in zip(cases, codes):
            recs, _ = M.run_real(case)
            chk.traces += 1
            bad = None
            for i, (me, rec) in enumerate(zip(mc, recs)):
                if me[0] == 3:
                    chk.count("UNMODELLED-SKIP")
                    break
                d = M.compare_step(case, me, rec)
                if d:
                    bad = (i, d)
                    break
                chk.count("steps_agree")
            if bad is None:
                chk.count("AGREE")
            else:
                chk.count("DISAGREE")
                i, d = bad
                op = case["history"][i - 1] if i > 0 else "ctor"
                sig = "c15-model-mismatch"
                if case["basis"] == "Identity" and case["bmodes"] is None and any("basis_matrix_" in x for x in d):
                    sig = "identity-default-modes-frozen"
                chk.violation("correspondence", sig, f"model and implementation differ after step {i} {op}: {'; '.join(d)}", {"case": M.jsonable(case), "step": i, "diffs": d})
    # ---- data that cannot support the requested number of modes, then data that can: the refit must look like a fresh fit
    from pysensors.reconstruction import SSPOR
    for _ in range(40 if thorough else 12):
        w = int(rng.integers(6, 12))
        kreq = int(rng.integers(3, w + 1))
        small = int(rng.integers(1, kreq))             # fewer examples than requested modes (the SVD basis then returns fewer modes)
        big = int(rng.integers(kreq, kreq + 5))
        X1 = rng.integers(-24, 25, size=(small, w)) / 8.0
        X2 = rng.integers(-24, 25, size=(big, w)) / 8.0
        ocfg = M.opt_cfg(rng, [w])
        case = {"scenario": "SVD basis: few examples, then enough", "n_basis_modes": kreq, "X1": X1.tolist(), "X2": X2.tolist(), "opt": ocfg}
        chk.case(case)
        chk.count("svd_small_then_big")
        try:
            mdl = SSPOR(basis=impl.make_basis({"kind": "SVD", "n_basis_modes": kreq}), optimizer=impl.make_optimizer(ocfg))
            try:
                impl.quiet(mdl.fit, X1, quiet=True, seed=5)
            except Exception:
                chk.count("svd_small_rejected")
            impl.quiet(mdl.fit, X2, quiet=True, seed=5)
            fresh = SSPOR(basis=impl.make_basis({"kind": "SVD", "n_basis_modes": kreq}), optimizer=impl.make_optimizer(ocfg))
            impl.quiet(fresh.fit, X2, quiet=True, seed=5)
            a, b = np.array(mdl.basis_matrix_), np.array(fresh.basis_matrix_)
            if a.shape != b.shape or not np.allclose(a, b, rtol=1e-9, atol=1e-9) or list(mdl.all_sensors) != list(fresh.all_sensors):
                chk.violation("impl", "refit-differs-from-fresh", f"SVD({kreq}) fitted on {small} examples and then on {big}: basis_matrix_ {a.shape}, "
                              f"ranking {list(map(int, mdl.all_sensors))} vs fresh {b.shape}, {list(map(int, fresh.all_sensors))}", case)
        except Exception as e:
            chk.violation("impl", "refit-raises", f"SVD({kreq}) refit on enough examples raised {type(e).__name__}: {e}", case)
    # ---- histories that change the ranking or the basis WITHOUT a plain fit(x): the documented prefit workflow (basis object fitted by
    #      the user, model.fit(prefit_basis=True)) and an optimizer reconfigured by set_params and re-ranked by update_n_basis_modes.
    #      The model is USED (predict / score / reconstruction_error) before the change; afterwards everything observable must be
    #      what a fresh model with the final settings gives.
    from pysensors.optimizers import CCQR

    def observe2(mdl, P):
        sel = [int(i) for i in mdl.selected_sensors]
        return {"selected": sel, "predict": np.array(impl.quiet(mdl.predict, P[:, sel])), "score": float(impl.quiet(mdl.score, P)),
                "recon": np.array(impl.quiet(mdl.reconstruction_error, P, sensor_range=np.arange(1, len(sel) + 1)))}

    def same_obs(a, b):
        return (a["selected"] == b["selected"] and np.allclose(a["predict"], b["predict"], rtol=1e-9, atol=1e-9)
                and abs(a["score"] - b["score"]) <= 1e-9 * (1 + abs(b["score"])) and np.allclose(a["recon"], b["recon"], rtol=1e-9, atol=1e-9))
    for it in range(60 if thorough else 16):
        w = int(rng.integers(4, 9))
        rows = int(rng.integers(w, w + 4))
        bk = ["Identity", "SVD", "RandomProjection"][int(rng.integers(0, 3))]
        k = int(rng.integers(2, min(w, rows)))
        X1 = rng.integers(-24, 25, size=(rows, w)) / 8.0
        X2 = rng.integers(-24, 25, size=(rows, w)) / 8.0
        P = rng.integers(-24, 25, size=(3, w)) / 8.0
        ns = k if rng.random() < 0.6 else int(rng.integers(1, w + 1))      # the square solve (as many sensors as modes) and the others
        bcfg = {"kind": bk, "n_basis_modes": k}
        if it % 2 == 1:
            ns = min(ns, k)       # update_n_basis_modes cannot be given a seed: only the leading k sensors are determined
        if it % 2 == 0:
            case = {"scenario": "prefit workflow: basis.fit(x1); fit(prefit); use; basis.fit(x2); fit(prefit)", "basis": bcfg, "n_sensors": ns, "X1": X1.tolist(), "X2": X2.tolist()}
            try:
                basis = impl.make_basis(bcfg)
                impl.quiet(basis.fit, X1)
                mdl = SSPOR(basis=basis, n_sensors=ns)
                impl.quiet(mdl.fit, X1, prefit_basis=True, quiet=True, seed=7)
                observe2(mdl, P)
                impl.quiet(basis.fit, X2)
                impl.quiet(mdl.fit, X2, prefit_basis=True, quiet=True, seed=7)
                got = observe2(mdl, P)
                fb = impl.make_basis(bcfg)
                impl.quiet(fb.fit, X2)
                fresh = SSPOR(basis=fb, n_sensors=ns)
                impl.quiet(fresh.fit, X2, prefit_basis=True, quiet=True, seed=7)
                exp = observe2(fresh, P)
            except Exception as e:
                chk.count("prefit-scenario-rejected:" + type(e).__name__)
                continue
        else:
            c1 = (rng.integers(0, 9, size=w) / 2.0)
            c2 = (rng.integers(0, 9, size=w) / 2.0)[::-1].copy() + np.arange(w) * 0.75
            case = {"scenario": "fit; use; set_params(optimizer__sensor_costs=c2); update_n_basis_modes(k)", "basis": bcfg, "n_sensors": ns,
                    "X1": X1.tolist(), "costs1": c1.tolist(), "costs2": c2.tolist()}
            try:
                mdl = SSPOR(basis=impl.make_basis(bcfg), optimizer=CCQR(sensor_costs=c1.copy()), n_sensors=ns)
                impl.quiet(mdl.fit, X1, quiet=True, seed=7)
                observe2(mdl, P)
                mdl.set_params(optimizer__sensor_costs=c2.copy())
                impl.quiet(mdl.update_n_basis_modes, k, quiet=True)
                got = observe2(mdl, P)
                fresh = SSPOR(basis=impl.make_basis(bcfg), optimizer=CCQR(sensor_costs=c2.copy()), n_sensors=ns)
                impl.quiet(fresh.fit, X1, quiet=True, seed=7)
                exp = observe2(fresh, P)
                if list(map(int, mdl.ranked_sensors_[:k])) != list(map(int, fresh.ranked_sensors_[:k])):
                    chk.count("leading-ranking-differs(seedless update)")
            except Exception as e:
                chk.count("reconfigure-scenario-rejected:" + type(e).__name__)
                continue
        if it % 3 == 0:
            # a third history: the basis is reconfigured (another random_state) and the model refitted on data of the same shape
            try:
                from pysensors.basis import RandomProjection as _RP
                how = int(rng.integers(0, 2))
                mdl3 = SSPOR(basis=_RP(n_basis_modes=k, random_state=3), n_sensors=ns)
                impl.quiet(mdl3.fit, X1, quiet=True, seed=7)
                observe2(mdl3, P)
                if how == 0:
                    mdl3.basis.set_params(random_state=11)
                else:
                    mdl3.basis.random_state = 11
                impl.quiet(mdl3.fit, X2, quiet=True, seed=7)
                got3 = observe2(mdl3, P)
                fresh3 = SSPOR(basis=_RP(n_basis_modes=k, random_state=11), n_sensors=ns)
                impl.quiet(fresh3.fit, X2, quiet=True, seed=7)
                exp3 = observe2(fresh3, P)
                chk.count("scenario:basis reconfigured (random_state)")
                if not same_obs(got3, exp3) or not np.allclose(np.array(mdl3.basis_matrix_), np.array(fresh3.basis_matrix_), rtol=1e-12, atol=1e-12):
                    chk.violation("impl", "refit-differs-from-fresh", "RandomProjection basis given another random_state, model refitted: basis matrix / selection / "
                                  "predictions differ from a fresh model with the final random_state", {**case, "scenario": "fit; basis.random_state = 11; fit"})
            except Exception as e:
                chk.count("rp-scenario-rejected:" + type(e).__name__)
        chk.case(case)
        chk.count("scenario:" + case["scenario"].split(":")[0].split(";")[0])
        if not same_obs(got, exp):
            chk.violation("impl", "refit-differs-from-fresh", f"{case['scenario']}: selected {got['selected']} / score {got['score']:.6g} vs a fresh model with the final "
                          f"settings: {exp['selected']} / {exp['score']:.6g} (predictions equal: {np.allclose(got['predict'], exp['predict'])})", case)
    return chk.finish(TRUSTED, "make -C coq && coqc theories/Properties/C15.v && coqc cases_*.v (vm_compute)")


def replay(data):
    import json
    d = data["data"]
    case = d["case"]
    case["datasets"] = {int(k): np.array(v) for k, v in case["datasets"].items()}
    probe = np.ones((2, 12))
    v, n = oracle(case, probe)
    print(json.dumps(v, default=str)[:3000])
    return 1 if v else 0
