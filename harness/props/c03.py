"""C03 - the default ranking follows the greedy max-residual (pivoted QR) rule."""
from fractions import Fraction as F

import numpy as np

from .. import common as C
from .. import gen, impl

TRUSTED = [
    "Coq 8.16.1 kernel + vm_compute",
    "hand-written model LA/Gram.v (pivoted Cholesky on the Gram matrix, exact rationals) tied to QR / CCQR() / GQR() and to SSPOR by comparing "
    "rankings: equal to the deterministic model when every greedy choice has a margin, otherwise judged by the follow-mode checker with tolerance 2^-30",
    "LAPACK dgeqp3 (scipy.linalg.qr) and the Householder arithmetic of CCQR/GQR are float computations: rounding is not modelled; every observed "
    "ranking is validated against the exact rule per case",
    "independent oracle: exact Gram-Schmidt in Python Fractions on the observed order",
]


def fr_mat(B):
    return [[F(float(v)) for v in row] for row in B]


def exact_follow(Bq, picks):
    """exact squared residuals seen at each step when the given picks are followed (modified Gram-Schmidt on Fractions)"""
    R = [list(r) for r in Bq]
    out = []
    for p in picks:
        d = [sum(x * x for x in r) for r in R]
        out.append(d)
        if d[p] != 0:
            rp = R[p][:]
            for a in range(len(R)):
                c = sum(x * y for x, y in zip(R[a], rp)) / d[p]
                R[a] = [x - c * y for x, y in zip(R[a], rp)]
    return out


def exact_rank(Bq):
    M = [list(r) for r in Bq]
    rk, rows, cols = 0, len(M), len(M[0]) if M else 0
    for c in range(cols):
        piv = next((i for i in range(rk, rows) if M[i][c] != 0), None)
        if piv is None:
            continue
        M[rk], M[piv] = M[piv], M[rk]
        for i in range(rk + 1, rows):
            f = M[i][c] / M[rk][c]
            M[i] = [a - f * b for a, b in zip(M[i], M[rk])]
        rk += 1
    return rk


RHO = F(1, 2 ** 20)       # relative slack on residual norms (LAPACK downdates its partial column norms)
TAU_REL = F(1, 2 ** 40)   # absolute slack, relative to the largest row norm (backward error of Householder QR)


def sqrt_le(a, c1, b, c2):
    """exact decision of sqrt(a) - c1 <= sqrt(b) - c2 for rationals a, b >= 0 (mirrors LA/SqrtCmp.v)"""
    a, b = max(a, 0), max(b, 0)
    e = c1 - c2
    if e >= 0:
        t = a - b - e * e
        return t <= 0 or t * t <= 4 * e * e * b
    t = b - a - e * e
    return t >= 0 and 4 * e * e * a <= t * t


def tolerances(Bq):
    scale = max([sum(x * x for x in r) for r in Bq] + [F(0)])
    return RHO, TAU_REL * (1 + scale) / 2


def own_norms(Bq):
    """rational upper bounds of the sensors' own (original) norms"""
    import math
    return [F(math.sqrt(float(sum(x * x for x in r)))) * (1 + F(1, 2 ** 40)) for r in Bq]


def judge(Bq, picks, own=False):
    """(ok, exact): every pick maximal within tolerance (on the norm scale) / exactly maximal among the unranked sensors.
    own=True: the absolute slack is relative to the two sensors' OWN original norms (2^-41 of their sum) instead of the largest norm of the
    matrix: CCQR and GQR recompute every residual norm from the residual itself and apply the reflectors sensor by sensor, so their error
    is relative to the sensor at hand - a faint but independent sensor is ranked as reliably as a strong one (LAPACK downdates: global)."""
    diags = exact_follow(Bq, picks)
    rho, tau = tolerances(Bq)
    s0 = own_norms(Bq) if own else None
    ranked, ok, exact = set(), True, True
    for d, p in zip(diags, picks):
        if p in ranked:
            ok = exact = False
        for c in range(len(d)):
            if c in ranked:
                continue
            t_ = tau if not own else min(tau, TAU_REL / 2 * (s0[c] + s0[p]))
            if not sqrt_le((1 - rho) ** 2 * d[c], t_, d[p], 0):
                ok = False
            if d[c] > d[p]:
                exact = False
        ranked.add(p)
    return ok, exact


def run(chk):
    from pysensors.optimizers import CCQR, GQR, QR
    from pysensors.reconstruction import SSPOR
    rng = np.random.default_rng(chk.seed + 3)
    thorough = chk.tier == "thorough"
    N = 700 if thorough else 130
    nmax, mmax = (13, 7) if thorough else (9, 5)
    chk.rule = ("random basis matrices of every kind (generic, rank-deficient, duplicated / zero rows, all-zero, integer with exact ties, "
                "ill-conditioned, negative leading entries; tall, wide, square, 1x1) through QR, CCQR(), GQR() and SSPOR with three bases; "
                "distinct by canonical JSON; non-trivial = at least two sensors and a non-zero matrix")
    exprs, meta = [], []
    for it in range(N):
        n, m = gen.shape(rng, nmax, mmax)
        u_k = rng.random()
        if u_k < 0.2:
            n, m = max(n, 5), max(m, 4)          # room for several faint sensors among the ranked positions
        B, kind = gen.matrix(rng, n, m, "faintrows" if u_k < 0.2 else ("commonmode" if u_k < 0.27 else None))
        k = min(n, m)
        Bq = fr_mat(B)
        rankB = exact_rank(Bq)
        runs = {}
        Bfit = B
        if np.all(B == np.round(B)) and np.abs(B).max() < 2 ** 40 and rng.random() < 0.5:
            Bfit = B.astype(np.int64)          # the same real matrix held in an integer-typed array (e.g. pixel counts)
            kind += "/int64"
        # GQR "without constraints" comes in several forms: plain, told the sensor count only, and an object that was used before
        kreq = int(rng.integers(1, n + 1))

        def gqr_told():
            g = GQR()
            return type("W", (), {"fit": staticmethod(lambda M: g.fit(M, n_sensors=kreq))})()

        def gqr_used():
            g = GQR()
            n0 = int(rng.integers(1, 6))
            impl.quiet(g.fit, rng.integers(-8, 9, size=(n0, int(rng.integers(1, 5)))) / 4.0, n_sensors=int(rng.integers(1, n0 + 1)))
            return g

        def ccqr_used():
            c = CCQR()
            impl.quiet(c.fit, rng.integers(-8, 9, size=(int(rng.integers(1, 6)), int(rng.integers(1, 5)))) / 4.0)
            return c
        forms = [("QR", lambda: QR()), ("CCQR", lambda: CCQR()), ("GQR", lambda: GQR())]
        extra = [("GQR/n_sensors", gqr_told), ("GQR/used", gqr_used), ("CCQR/used", ccqr_used)][int(rng.integers(0, 3))]
        for name, mk in forms + [extra]:
            try:
                o_ = mk()
                kept = impl.quiet(o_.fit, Bfit.copy()).get_sensors()
                runs[name] = [int(i) for i in kept]
                if hasattr(o_, "get_sensors"):
                    # the ranking handed out is kept (not copied) while the same optimizer object ranks other data of the same shape
                    held_ = impl.Held()
                    held_.hold(name, kept)
                    impl.quiet(o_.fit, (Bfit[::-1] * 2).copy())
                    for lab, _c in held_.disturbed():
                        chk.violation("impl", "ranking-handed-out-overwritten", f"{lab}: the array returned by get_sensors() changed when the same optimizer was fitted "
                                      f"again on other data", {"B": B.tolist(), "kind": kind})
            except Exception as e:
                chk.violation("impl", "optimizer-raises:" + name.split("/")[0], f"{name}.fit raised {type(e).__name__}: {e}", {"B": B.tolist(), "kind": kind, "dtype": str(Bfit.dtype)})
        if it % 2 == 0:     # SSPOR with its own basis matrix
            bk = ["Identity", "SVD", "RandomProjection"][int(rng.integers(0, 3))]
            X = B.T.copy()
            mm = m if bk != "SVD" else max(1, min(m, n) - (1 if min(m, n) > 1 else 0))
            try:
                # any of the three optimizers in its unconstrained form, and any requested sensor count (also below the mode count):
                # the leading min(n, modes) ranked sensors must be the greedy ranking of the model's OWN basis matrix as it is after the fit
                omk = [lambda: QR(), lambda: CCQR(), lambda: GQR()][int(rng.integers(0, 3))]
                u_ = rng.random()
                ns_req = None if u_ < 0.35 else (int(rng.integers(1, mm)) if (u_ < 0.75 and mm >= 2) else int(rng.integers(1, n + 1)))
                mdl = SSPOR(basis=impl.make_basis({"kind": bk, "n_basis_modes": mm}), optimizer=omk(), n_sensors=ns_req)
                okw = {}
                if isinstance(mdl.optimizer, GQR) and ns_req is not None and rng.random() < 0.5:
                    okw = {"n_sensors": ns_req}          # GQR is told the sensor count (no region): still the unconstrained ranking
                    chk.count("sspor_gqr_told_n_sensors")
                impl.quiet(mdl.fit, X, quiet=True, seed=int(rng.integers(0, 1000)), **okw)
                if np.array(mdl.basis_matrix_).shape[1] >= 2 and rng.random() < 0.4:
                    # fewer modes afterwards: the ranking must be the greedy ranking of the TRUNCATED basis matrix
                    impl.quiet(mdl.update_n_basis_modes, int(rng.integers(1, np.array(mdl.basis_matrix_).shape[1])), quiet=True)
                    chk.count("sspor_modes_lowered")
                Bs = np.array(mdl.basis_matrix_)
                runs["SSPOR:" + bk] = ([int(i) for i in mdl.ranked_sensors_], Bs)
            except Exception as e:
                chk.count("sspor-rejected:" + type(e).__name__)
        case0 = {"B": B.tolist(), "kind": kind, "shape": [n, m], "exact_rank": rankB}
        chk.case(case0, nontrivial=n >= 2 and bool(np.any(B)))
        chk.count("kind:" + kind)
        for name, val in runs.items():
            if name.startswith("SSPOR"):
                piv, Bm = val
                Bmq = fr_mat(Bm)
                kk = min(Bm.shape)
                rk_exact = exact_rank(Bmq)
            else:
                piv, Bm, Bmq, kk, rk_exact = val, B, Bq, k, rankB
            picks = piv[:kk]
            case = {**case0, "optimizer": name, "observed": piv}
            if name.startswith("SSPOR"):
                case["basis_matrix"] = Bm.tolist()
            # ---- oracle: exact Gram-Schmidt on the observed order
            ok, exact = judge(Bmq, picks, own=name.startswith(("CCQR", "GQR")))
            if not ok:
                chk.violation("impl", "not-greedy:" + name.split(":")[0], f"{name}: ranking {picks} violates the max-residual rule beyond tolerance", case)
            # rank clause.  For float basis matrices produced by SVD / random projections of rank-deficient data the exact rational
            # rank counts rounding noise; the clause is judged up to the numerical rank: the steps at which some unranked row
            # still has a residual above 2^-30 of the largest row norm (exact arithmetic along the observed order)
            from ..region_util import exact_residuals
            res2 = exact_residuals(np.array(Bm, dtype=float), picks)
            scale2 = max([float(v) for v in res2[0]] + [0.0]) if res2 else 0.0
            r_num = 0
            for j in range(len(picks)):
                if max(float(res2[j][c]) for c in piv[j:]) > (2.0 ** -60) * scale2:
                    r_num += 1
                else:
                    break
            r_test = min(rk_exact, r_num)
            if r_test < rk_exact:
                chk.count("RANK-NOISE-SKIP")
            lead = [Bmq[i] for i in picks[:r_test]]
            if exact_rank(lead) != len(lead):
                chk.violation("impl", "leading-rows-dependent:" + name.split(":")[0], f"{name}: the first {r_test} ranked rows of a rank-{rk_exact} matrix are dependent", case)
            chk.count("opt:" + name.split(":")[0])
            if exact:
                chk.count("exactly_greedy")
            # ---- model: deterministic ranking and follow-mode checker
            nn = Bm.shape[0]
            rho, tau = tolerances(Bmq)
            G = f"(gram {Bm.shape[1]} (of_rows {C.cqmat(Bmq)}))"
            exprs.append(f"case_c03 {C.cq(rho)} {C.cq(tau)} {nn} {kk} {G} {C.cnatlist(picks)}")
            meta.append((case, picks, ok, exact))
        # unconstrained CCQR / GQR agree with QR whenever the greedy choice is unique
        if all(x in runs for x in ("QR", "CCQR", "GQR")):
            _, ex = judge(Bq, runs["QR"][:k])
            diags = exact_follow(Bq, runs["QR"][:k])
            unique = True
            seen = set()
            for d, p in zip(diags, runs["QR"][:k]):
                rest = sorted((d[c] for c in range(n) if c not in seen), reverse=True)
                if len(rest) > 1 and (rest[0] - rest[1]) <= max(diags[0] + [F(1)]) / 2 ** 20:
                    unique = False
                seen.add(p)
            if unique:
                chk.count("unique_choice_cases")
                if not (runs["QR"][:k] == runs["CCQR"][:k] == runs["GQR"][:k]):
                    chk.violation("impl", "optimizers-disagree", f"unique greedy choices but QR {runs['QR'][:k]}, CCQR {runs['CCQR'][:k]}, GQR {runs['GQR'][:k]}", case0)
    files = []
    for i in range(0, len(exprs), 40):
        body = ("From Coq Require Import List Arith QArith Qcanon. Import ListNotations.\nFrom PS Require Import LA.Sums LA.Gram Exec.Run_C03.\n"
                "Eval vm_compute in [\n  " + ";\n  ".join(exprs[i:i + 40]) + "\n].\n")
        files.append((f"cases_{i // 40}", body))
    out = []
    for r in C.coq_eval("C03", files):
        if not r["ok"]:
            chk.violation("correspondence", "model-eval-failed", "coqc failed on a cases file: " + r["log"][-300:], {})
            out = None
            break
        out += r["values"][0]
    if out is not None:
        for (mrank, mtol, mex), (case, picks, ok, exact) in zip(out, meta):
            chk.traces += 1
            if mrank == picks:
                chk.count("AGREE")
            elif mtol == 1:
                chk.count("TIE-SKIP")          # a different but equally good (within tolerance) choice
            else:
                chk.count("DISAGREE")
                chk.violation("correspondence", "c03-model-mismatch", f"{case['optimizer']}: observed {picks}, model ranks {mrank} and its checker rejects the observed order",
                              {**case, "model": mrank})
            if (mtol == 1) != ok or (mex == 1) != exact:
                chk.count("CHECKER-ORACLE-DISAGREE")
                chk.violation("correspondence", "c03-checker-vs-oracle", f"Coq checker (tol {mtol}, exact {mex}) and the Fractions oracle (tol {ok}, exact {exact}) disagree", case)
    return chk.finish(TRUSTED, "make -C coq && coqc theories/Properties/C03.v && coqc cases_*.v (vm_compute)")


def replay(data):
    import json
    print(json.dumps(data["data"], default=str)[:3000])
    return 0
