"""C08 - classification sensors are the top-magnitude sensors, or those above threshold."""
import numpy as np

from .. import common as C
from .. import impl
from .. import sspoc_util as U

TRUSTED = [
    "Coq 8.16.1 kernel + vm_compute",
    "hand-written model Class/Select.v over exact integers (all doubles of a case scaled by one power of two), tied to SSPOC.update_sensors by random histories",
    "numpy argsort / nonzero / abs / max / min / mean / median as oracles, checked per case (check_topk, check_thr, check_agg) inside Coq",
    "sklearn classifier and OMP / MultiTaskLasso only produce the coefficient array that is being selected from",
]
METHODS = {"max": (np.max, "MMax"), "min": (np.min, "MMin"), "mean": (np.mean, "MMean"), "median": (np.median, "MMedian")}


def mags_of(model, method):
    s = np.asarray(model.sensor_coef_)
    return np.abs(s) if s.ndim == 1 else METHODS[method][0](np.abs(s), axis=1)


def run(chk):
    rng = np.random.default_rng(chk.seed + 8)
    thorough = chk.tier == "thorough"
    N = 500 if thorough else 110
    chk.rule = ("random binary/multiclass training sets x bases x (n_sensors | threshold | neither) followed by 2-6 (quick) / 2-10 (thorough) "
                "update_sensors calls with counts 0..n, thresholds >= 0 (incl. 0, exact magnitudes, above the maximum) and aggregation "
                "methods; distinct by canonical JSON; non-trivial = the coefficient vector has at least two distinct magnitudes")
    exprs, meta = [], []
    for _ in range(N):
        X, y = U.class_data(rng)
        k, n = X.shape
        c = len(set(y.tolist()))
        bcfg = U.basis_cfg(rng, n, k)
        mode = int(rng.integers(0, 3))
        kw = {}
        if mode == 0:
            kw["n_sensors"] = int(rng.integers(0, n + 1))
        elif mode == 1:
            kw["threshold"] = float(rng.integers(0, 9)) / 8.0
            if rng.random() < 0.25:
                kw["threshold"] = [0, 0.0][int(rng.integers(0, 2))]       # "threshold 0 selects every sensor" also when given to the constructor
        kw["l1_penalty"] = float(rng.choice([0.01, 0.1, 0.5]))
        case = {"X": X.tolist(), "y": y.tolist(), "basis": bcfg, "ctor": kw, "ops": []}
        try:
            model = U.make_sspoc(bcfg, **kw)
            impl.quiet(model.fit, X, y, quiet=True)
        except Exception as e:
            chk.count("fit-rejected:" + type(e).__name__)
            continue
        s = np.asarray(model.sensor_coef_)
        flat = s.ravel().tolist()
        nontriv = len({abs(v) for v in flat}) >= 2
        steps = []
        # step 0: the state right after fit
        # what was ASKED for decides the expectation (the model's own report is compared with it, not trusted)
        fit_req = ("count", kw["n_sensors"]) if mode == 0 else ("thr", float(kw["threshold"]) if mode == 1 else float(model.threshold))
        if mode == 1 and float(model.threshold) != float(kw["threshold"]):
            chk.violation("impl", "threshold-not-kept", f"constructed with threshold={kw['threshold']!r}, after fit the model reports {model.threshold!r}", {"case": case})
        steps.append((fit_req, "max"))
        ops = []
        for _ in range(int(rng.integers(2, 11 if thorough else 7))):
            meth = "max" if s.ndim == 1 else list(METHODS)[int(rng.integers(0, 4))]
            m = mags_of(model, meth)
            if rng.random() < 0.5:
                req = ("count", int(rng.integers(0, n + 1)))
            else:
                ch = int(rng.integers(0, 7))
                mk_ = float(np.sort(m)[int(rng.integers(0, n))])
                t = [0.0, mk_, float(m.max()) * 1.5 + 1.0, float(rng.integers(0, 17)) / 16.0, float(np.median(m)),
                     float(np.nextafter(mk_, np.inf)), mk_ * (1.0 + 1e-13)][ch]        # ... and thresholds a hair above a magnitude: "at least" is exact
                req = ("thr", t)
            ops.append((req, meth, bool(rng.random() < 0.5)))
        case["ops"] = [[list(r), me, xy] for r, me, xy in ops]
        chk.case(case, nontrivial=nontriv)
        chk.count("classes:%d" % c)
        chk.count("basis:" + bcfg["kind"])

        def record(req, meth, label):
            m = mags_of(model, meth)
            sel = [int(i) for i in model.selected_sensors]
            ns = model.n_sensors
            ctx = {"case": case, "after": label, "request": list(req), "method": meth, "selected": sel, "n_sensors": ns, "magnitudes": m.tolist()}
            # ---- oracle on the real observations
            if ns != len(sel):
                chk.violation("impl", "count-mismatch", f"{label}: n_sensors={ns} but {len(sel)} sensors selected", ctx)
            if req[0] == "count":
                kk = req[1]
                unsel = [j for j in range(n) if j not in sel]
                ok = len(sel) == kk and len(set(sel)) == kk and all(m[sel[a]] >= m[sel[a + 1]] for a in range(len(sel) - 1)) and \
                    (not sel or not unsel or min(m[sel]) >= max(m[unsel]))
                if not ok:
                    chk.violation("impl", "topk-wrong", f"{label}: selected {sel} is not the top-{kk} by magnitude in non-increasing order", ctx)
            else:
                exp = [i for i in range(n) if m[i] >= req[1]]
                if sel != exp:
                    chk.violation("impl", "threshold-wrong", f"{label}: selected {sel}, sensors with magnitude >= {req[1]} are {exp}", ctx)
            # ---- model expression
            ints, sh = U.scale_ints(list(m) + ([req[1]] if req[0] == "thr" else []))
            mi = ints[:n]
            if req[0] == "count":
                exprs.append(f"case_count {C.czlist(mi)} {req[1]} {C.cnatlist(sel)} {int(ns)}")
            else:
                exprs.append(f"case_thr {C.czlist(mi)} {C.cz(ints[n])} {C.cnatlist(sel)} {int(ns)}")
            meta.append(ctx)
            if s.ndim == 2:
                vals = s.ravel().tolist() + list(m)
                iv, sh2 = U.scale_ints(vals)
                rows = [iv[r * s.shape[1]:(r + 1) * s.shape[1]] for r in range(n)]
                tol = (max(abs(v) for v in iv) >> 46) + 1     # a few ulps of the largest entry, in scaled units
                exprs.append(f"case_agg {METHODS[meth][1]} [{'; '.join(C.czlist(r) for r in rows)}] {C.czlist(iv[n * s.shape[1]:])} {tol}")
                meta.append({**ctx, "what": "aggregation"})
            return sel, m

        record(steps[0][0], "max", "fit")
        # default threshold
        if mode == 2:
            r_ = model.basis_matrix_inverse_.shape[0]
            thr = float(model.threshold)
            expect = float(np.sqrt(np.sum(s ** 2)) / (2 * r_ * c))
            if abs(thr - expect) > 1e-12 * max(1.0, abs(expect)):
                chk.violation("impl", "default-threshold-wrong", f"threshold in effect {thr}, documented default {expect}", {"case": case})
            iv, sh = U.scale_ints(flat + [thr])
            sq = sum(v * v for v in iv[:-1])
            tol2 = max(1, (sq * (4 * r_ * r_ * c * c)) >> 40)
            # thr^2 (2rc)^2 vs sum s^2, all on the squared common scale
            exprs.append(f"case_default {C.czlist(iv[:-1])} {r_} {c} {C.cz(iv[-1])} {C.cz(tol2)}")
            meta.append({"case": case, "what": "default threshold", "threshold": thr})
            chk.count("default_threshold_cases")
        prev, prevt = {}, {}
        for req, meth, use_xy in ops:
            kwargs = {"quiet": True}
            if s.ndim == 2:
                kwargs["method"] = METHODS[meth][0]
            if use_xy:
                kwargs["xy"] = (X, y)
            if rng.random() < 0.3:
                # a request that has to be rejected (more sensors than there are, a negative count, nothing at all) is caught by the caller:
                # the model must still report as many sensors as it has selected, and the same ones
                bad = [{"n_sensors": n + int(rng.integers(1, 4))}, {"n_sensors": np.int64(n + 1)}, {"n_sensors": -1}, {}][int(rng.integers(0, 4))]
                before_sel, before_n = [int(i) for i in model.selected_sensors], model.n_sensors
                try:
                    impl.quiet(model.update_sensors, **bad, **kwargs)
                    rejected = False
                except Exception:
                    rejected = True
                if rejected:
                    chk.count("rejected_requests_in_between")
                    after_sel, after_n = [int(i) for i in model.selected_sensors], model.n_sensors
                    if after_sel != before_sel or after_n != before_n or int(after_n) != len(after_sel):
                        chk.violation("impl", "rejected-update-changed-state", f"update_sensors({ {k_: int(v_) for k_, v_ in bad.items()} }) was rejected but the model now "
                                      f"reports n_sensors={after_n} with selection {after_sel} (before: {before_n}, {before_sel})", {"case": case})
                        break
            try:
                impl.sspoc_bystander(X.shape[1], n_classes=2 + (len(case.get("history", [])) % 2))      # another model used in between
                if req[0] == "count":
                    impl.quiet(model.update_sensors, n_sensors=req[1], **kwargs)
                else:
                    impl.quiet(model.update_sensors, threshold=req[1], **kwargs)
            except Exception as e:
                chk.violation("impl", "valid-update-rejected", f"update_sensors({req}) raised {type(e).__name__}: {e}", {"case": case, "request": list(req)})
                break
            sel, m = record(req, meth, f"update_sensors({req[0]}={req[1]}, method={meth})")
            chk.count("mode:" + req[0])
            # metamorphic facts on the same coefficients
            if req[0] == "count":
                for (k2, me2), sel2 in prev.items():
                    if me2 == meth:
                        a, b = (sel, sel2) if req[1] <= k2 else (sel2, sel)
                        if len(set(np.round(m, 12))) == len(m) and b[:len(a)] != a:
                            chk.violation("impl", "not-prefix", f"top-{len(a)} {a} is not a prefix of top-{len(b)} {b}", {"case": case})
                prev[(req[1], meth)] = sel
            else:
                if req[1] == 0.0 and sel != list(range(n)):
                    chk.violation("impl", "threshold0-not-all", f"threshold 0 selected {sel}", {"case": case})
                for (t2, me2), sel2 in prevt.items():
                    if me2 == meth:
                        lo, hi = (sel2, sel) if t2 <= req[1] else (sel, sel2)
                        if not set(hi) <= set(lo):
                            chk.violation("impl", "threshold-not-antitone", f"raising the threshold added sensors: thresholds {t2} -> {sel2}, {req[1]} -> {sel} ({meth})", {"case": case})
                prevt[(float(req[1]), meth)] = sel
    files = []
    for i in range(0, len(exprs), 300):
        body = ("From Coq Require Import List Arith ZArith. Import ListNotations.\nFrom PS Require Import Class.Select Exec.Run_C08.\n"
                "Eval vm_compute in [\n  " + ";\n  ".join(exprs[i:i + 300]) + "\n].\n")
        files.append((f"cases_{i // 300}", body))
    codes = []
    for r in C.coq_eval("C08", files):
        if not r["ok"]:
            chk.violation("correspondence", "model-eval-failed", "coqc failed on a cases file: " + r["log"][-300:], {})
            codes = None
            break
        codes += r["values"][0]
    if codes is not None:
        for code, ctx in zip(codes, meta):
            chk.traces += 1
            if code == 0:
                chk.count("AGREE")
            else:
                chk.count("DISAGREE")
                chk.violation("correspondence", "c08-model-mismatch", f"model checker code {code} ({ctx.get('what', ctx.get('after'))})", ctx)
    return chk.finish(TRUSTED, "make -C coq && coqc theories/Properties/C08.v && coqc cases_*.v (vm_compute)")


def replay(data):
    import json
    print(json.dumps(data["data"], default=str)[:3000])
    return 0
