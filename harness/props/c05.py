"""C05 - region constraints bound the number of selected sensors inside the region."""
import itertools

import numpy as np

from .. import common as C
from .. import impl
from .. import region_util as R

TRUSTED = [
    "Coq 8.16.1 kernel + vm_compute",
    "hand-written models Sel/NormCalc.v (transcription of _norm_calc.py) and Sel/Greedy.v (the GQR loop), tied to the code (a) by calling the three "
    "Python functions directly on small inputs and (b) by replaying real GQR runs from their own per-step residual norms (exact scaled integers)",
    "the residual norms themselves (Householder arithmetic) are an oracle here: theorems hold for EVERY positive key oracle; C03 covers what the norms mean",
    "tracing wraps the module attribute pysensors.optimizers._gqr.normCalcReturnInstance from the harness (no source hook)",
]


def run(chk):
    from pysensors.optimizers import QR
    from pysensors.reconstruction import SSPOR
    from pysensors.optimizers import GQR
    from pysensors.utils import _norm_calc as NC
    rng = np.random.default_rng(chk.seed + 5)
    thorough = chk.tier == "thorough"
    chk.rule = ("(a) the three constraint maps called directly: n <= 5 (6 thorough), random region subsets / rankings / pivot arrays, every step j, "
                "every N incl. None and 0, every allowance; (b)+(c) random generic basis matrices (n <= 9, m <= 5; 12 x 7 thorough) x feasible "
                "(region, N, s) x three options through GQR and through SSPOR(optimizer=GQR()); distinct by canonical JSON; non-trivial = the "
                "constraint changes the unconstrained top-N")
    exprs, meta = [], []
    # ---------------- (a) the Python functions called directly
    fn = {"exact_n": NC.exact_n, "max_n": NC.max_n, "predetermined": NC.predetermined}
    for _ in range(1500 if thorough else 350):
        n = int(rng.integers(1, (7 if thorough else 6)))
        L = sorted(rng.choice(n, size=int(rng.integers(0, n + 1)), replace=False).tolist())
        A = rng.permutation(n).tolist()
        piv = rng.permutation(n).tolist()
        j = int(rng.integers(0, n))
        s = int(rng.integers(0, n + 1))
        Nopt = [None, 0] + list(range(1, n + 1))
        N = Nopt[int(rng.integers(0, len(Nopt)))]
        opt = ["exact_n", "max_n", "predetermined"][int(rng.integers(0, 3))]
        if opt == "predetermined" and N is None:
            N = int(rng.integers(0, n + 1))
        case = {"part": "norm_calc direct", "option": opt, "lin_idx": L, "all_sensors": A, "piv": piv, "j": j, "n_sensors": N, "n_const_sensors": s}
        dl = np.ones(n - j) + np.arange(n - j)
        try:
            out = fn[opt](np.array(L, dtype=int), dl.copy(), np.array(piv), j, s, all_sensors=np.array(A), n_sensors=N)
            got = [bool(v != 0) for v in out]
        except Exception as e:
            chk.count("direct-rejected:" + type(e).__name__)
            continue
        chk.case(case, nontrivial=not all(got))
        chk.count("direct:" + opt)
        exprs.append(f"map (fun b : bool => if b then 1 else 0) (permits {R.OPT[opt]} {R.coq_settings(L, A, N, s)} {j} {C.cnatlist(piv[j:])})")
        meta.append((case, [1 if g else 0 for g in got]))

    # ---------------- (b) real GQR runs replayed by the model from their own norms, (c) the counts
    # minimised failures run first: the recorded finding (exact ties broken differently by scipy's QR and by GQR's argmax)
    corpus = [(np.array([[1, 0, -3, -1, -2], [1, 0, -3, 2, 3], [2, -1, 2, -3, 1], [-2, -3, 0, 3, 1], [3, 3, 0, 0, 3]], dtype=float), [2, 3, 4], 2, 2),
              (np.array([[-1, 2, 0], [-1, -1, 3], [1, 3, 0], [-3, -3, -1], [1, -2, 2], [-1, 0, 2]], dtype=float), [4], 3, 0),
              (np.array([[0, 1, 2, 2], [0, 2, -3, -1], [-3, 0, -1, 2], [2, -1, 0, 2], [-3, 1, -3, -3], [0, 3, -2, 1], [1, 1, -1, 1]], dtype=float), [0, 1, 2], 2, 1)]
    for it in range((500 if thorough else 110) + len(corpus)):
        if it < len(corpus):
            B, L, N, s = corpus[it]
            n, m = B.shape
        else:
            B, n, m, N, L, s = R.gen_region_case(rng, *((12, 7) if thorough else (9, 5)), graded=0.25, tiny=0.15, ties=0.25, faint=0.15)
        if it >= len(corpus) and rng.random() < 0.3:
            # numerically rank-deficient basis (rank < N possible): residuals become rounding-level; the counts are then outside
            # the property's feasibility clause, but SSPOR must still hand back GQR's own first N sensors
            r0 = int(rng.integers(1, m + 1))
            B = (rng.integers(-8, 9, size=(n, r0)) / 4.0) @ (rng.integers(-8, 9, size=(r0, m)) / 3.0)
        A = [int(i) for i in QR().fit(B).get_sensors()]
        own = [int(i) for i in impl.quiet(GQR().fit, B.copy()).get_sensors()]      # GQR's own unconstrained ranking (its own tie-breaking)
        k = min(n, m)
        Lset = list(L)
        L, lform = R.listing(rng, Lset, A) if it >= len(corpus) else (Lset, "sorted")          # the region is a SET: how it is listed must not matter
        chk.count("region-listing:" + lform)
        for opt in ("max_n", "exact_n", "predetermined"):
            case = {"part": "GQR", "B": B.tolist(), "option": opt, "lin_idx": L, "n_sensors": N, "n_const_sensors": s, "all_sensors": A}
            try:
                s_first = None
                if it >= len(corpus) and opt != "predetermined" and rng.random() < 0.35:
                    # the allowance is changed on the same object by a refit that passes only n_const_sensors
                    lo_s, hi_s = max(0, N - (n - len(Lset))), min(N, len(Lset))
                    s_first = int(rng.integers(lo_s, hi_s + 1))
                    piv, steps = R.run_gqr_partial(B, opt, L, A, N, s_first, s)
                    case["history"] = f"fit(all settings, n_const_sensors={s_first}); fit(B, n_const_sensors={s})"
                    chk.count("allowance_changed_by_partial_refit")
                elif it >= len(corpus) and rng.random() < 0.25:
                    # the caller keeps one region list, fits, edits the list in place, fits again with the same objects
                    L_first = sorted(set(int(v) for v in rng.choice(n, size=int(rng.integers(0, n)), replace=False)))
                    piv, steps = R.run_gqr_edited(B, opt, L_first, L, A, N, s)
                    case["history"] = f"fit(region {L_first}); the same list edited in place to {L}; fit again"
                    chk.count("region_list_edited_in_place")
                else:
                    piv, steps = R.run_gqr(B, opt, L, A, N, s, reuse=(chk.evaluations % 2 == 1))
            except Exception as e:
                chk.count("gqr-rejected:" + type(e).__name__)
                continue
            inreg = [c for c in piv[:N] if c in L]
            zero_residual, tiny, _ = R.degenerate_steps(B, piv, N)     # exact arithmetic, independent of the loop's own norms
            nontriv = piv[:N] != A[:N]
            chk.case(case, nontrivial=nontriv)
            chk.count("gqr:" + opt)
            ctx = {**case, "observed": piv}
            if zero_residual or tiny:
                chk.count("ZERO-RESIDUAL-SKIP")
            else:
                # a failure that needs the handed-in unconstrained ranking to break an exact tie differently from GQR's own argmax is the
                # recorded finding (known_findings.json); the same failure with all_sensors equal to GQR's own ranking is a different one
                tie_sfx = ":all_sensors-breaks-a-tie-differently" if own[:N] != A[:N] else ""
                if tie_sfx:
                    chk.count("all_sensors_differs_from_gqr_own_ranking")
                if opt == "max_n" and len(inreg) > s:
                    chk.violation("impl", "max_n-count" + tie_sfx, f"max_n: {len(inreg)} region sensors among the first {N} (allowance {s}): {piv[:N]}"
                                  + (f"; all_sensors[:N] = {A[:N]}, GQR's own unconstrained ranking starts {own[:N]}" if tie_sfx else ""), ctx)
                if opt == "exact_n" and len(inreg) != s:
                    chk.violation("impl", "exact_n-count" + tie_sfx, f"exact_n: {len(inreg)} region sensors among the first {N} (required {s}): {piv[:N]}"
                                  + (f"; all_sensors[:N] = {A[:N]}, GQR's own unconstrained ranking starts {own[:N]}" if tie_sfx else ""), ctx)
                if opt == "predetermined" and (any(c in L for c in piv[:N - s]) or any(c not in L for c in piv[N - s:N])):
                    chk.violation("impl", "predetermined-split", f"predetermined: first {N - s} must be outside and the next {s} inside the set: {piv[:N]}", ctx)
            # the same through SSPOR (keywords forwarded; N lies below the shuffled tail) - also for degenerate matrices
            try:
                from pysensors.basis import Identity
                mdl = SSPOR(basis=Identity(n_basis_modes=m), optimizer=GQR(), n_sensors=N)
                impl.quiet(mdl.fit, B.T.copy(), quiet=True, seed=3, idx_constrained=np.array(L, dtype=int), n_sensors=N, n_const_sensors=s,
                           all_sensors=np.array(A, dtype=int), constraint_option=opt)
                sel = [int(i) for i in mdl.selected_sensors]
                if sel != piv[:N]:
                    chk.violation("impl", "sspor-gqr-differs", f"SSPOR(GQR) selected {sel}, GQR alone ranks {piv[:N]} first", ctx)
                chk.count("sspor_checked")
            except Exception as e:
                chk.violation("impl", "sspor-gqr-raises", f"SSPOR(optimizer=GQR()).fit(**kws) raised {type(e).__name__}: {e}", ctx)
            table = R.table_from_steps(steps, n)
            tq = "[" + "; ".join(C.czlist(r) for r in table) + "]"
            kk = len(table)                     # = k unless the run produced non-finite norms in its late steps
            exprs.append(f"firstn {kk} (gqr_pivots {R.OPT[opt]} {R.coq_settings(L, A, N, s)} {n} {kk} {tq})")
            meta.append((case, piv[:kk]))
            if kk < k:
                chk.count("NONFINITE-LATE-STEPS-TRUNCATED")
                if kk < N:
                    chk.violation("impl", "nonfinite-norms-within-first-n", f"{opt}: the residual norms became non-finite at step {kk} < n_sensors = {N}", ctx)
    files = []
    for i in range(0, len(exprs), 120):
        body = ("From Coq Require Import List Arith ZArith. Import ListNotations.\nFrom PS Require Import Sel.NormCalc Exec.Run_C05.\n"
                "Eval vm_compute in [\n  " + ";\n  ".join(exprs[i:i + 120]) + "\n].\n")
        files.append((f"cases_{i // 120}", body))
    out = []
    for r in C.coq_eval("C05", files):
        if not r["ok"]:
            chk.violation("correspondence", "model-eval-failed", "coqc failed on a cases file: " + r["log"][-300:], {})
            out = None
            break
        out += r["values"][0]
    if out is not None:
        for mres, (case, real) in zip(out, meta):
            chk.traces += 1
            if mres == real:
                chk.count("AGREE")
            else:
                chk.count("DISAGREE")
                chk.violation("correspondence", "c05-model-mismatch:" + case["part"].split()[0], f"model {mres} vs implementation {real}", {**case, "model": mres, "observed": real})
    return chk.finish(TRUSTED, "make -C coq && coqc theories/Properties/C05.v && coqc cases_*.v (vm_compute)")


def replay(data):
    import json
    print(json.dumps(data["data"], default=str)[:3000])
    return 0
