"""Helpers shared by the SSPOC properties (C08, C09, C10)."""
from fractions import Fraction

import numpy as np

from . import impl

BK = ["Identity", "SVD", "RandomProjection"]


def class_data(rng, n_features=None, n_classes=None, n_samples=None):
    n = int(n_features or rng.integers(4, 10))
    c = int(n_classes or rng.integers(2, 4))
    k = int(n_samples or rng.integers(3 * c + 2, 3 * c + 9))
    y = np.arange(k) % c
    centers = rng.integers(-12, 13, size=(c, n)) / 2.0
    X = centers[y] + rng.integers(-8, 9, size=(k, n)) / 8.0
    p = rng.permutation(k)
    return np.ascontiguousarray(X[p]), y[p]


def basis_cfg(rng, n, k):
    kind = BK[int(rng.integers(0, 3))]
    if kind == "Identity":
        return {"kind": kind, "n_basis_modes": None if rng.random() < 0.5 else int(rng.integers(2, k + 1))}
    return {"kind": kind, "n_basis_modes": int(rng.integers(2, min(n, k)))}


def make_sspoc(bcfg, **kw):
    from pysensors.classification import SSPOC
    return SSPOC(basis=impl.make_basis(bcfg), **kw)


def scale_ints(values):
    """Common power-of-two scaling of finite floats to exact integers. Returns (ints, shift) with v = int * 2^-shift."""
    frs = [Fraction(float(v)) for v in values]
    shift = 0
    for f in frs:
        d = f.denominator
        shift = max(shift, d.bit_length() - 1)
    return [int(f * (1 << shift)) for f in frs], shift
