"""Builders for real pysensors objects from small JSON-able configs (used by all property modules)."""
import copy
import warnings

import numpy as np


def ps():
    import pysensors
    return pysensors


def make_basis(cfg):
    from pysensors.basis import SVD, Identity, RandomProjection, Custom
    k = cfg.get("kind", "Identity")
    nb = cfg.get("n_basis_modes")
    if k == "Identity":
        return Identity(n_basis_modes=nb)
    if k == "SVD":
        return SVD(n_basis_modes=nb, random_state=cfg.get("random_state", 0), algorithm=cfg.get("algorithm", "randomized"))
    if k == "RandomProjection":
        return RandomProjection(n_basis_modes=nb, random_state=cfg.get("random_state", 0))
    raise ValueError(k)


def make_optimizer(cfg):
    from pysensors.optimizers import CCQR, GQR, QR
    k = cfg.get("kind", "QR")
    if k == "QR":
        return QR()
    if k == "CCQR":
        c = cfg.get("sensor_costs")
        return CCQR(sensor_costs=None if c is None else np.array(c, dtype=float))
    if k == "GQR":
        return GQR()
    raise ValueError(k)


def gqr_kws(cfg):
    """keyword arguments for GQR.fit from a config"""
    if cfg.get("kind") != "GQR":
        return {}
    kws = {}
    for name in ("idx_constrained", "all_sensors"):
        if name in cfg:
            kws[name] = np.array(cfg[name], dtype=int)
    for name in ("n_sensors", "n_const_sensors", "constraint_option"):
        if name in cfg:
            kws[name] = cfg[name]
    return kws


def quiet(f, *a, **k):
    with warnings.catch_warnings():
        warnings.simplefilter("ignore")
        return f(*a, **k)


def exc_class(e):
    return type(e).__name__
