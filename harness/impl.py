"""Builders for real pysensors objects from small JSON-able configs (used by all property modules)."""
import copy
import warnings

import numpy as np


def ps():
    import pysensors
    return pysensors


def make_basis(cfg):
    from pysensors.basis import SVD, Identity, RandomProjection, Custom
    k = cfg.get("kind", "Identity")
    nb = cfg.get("n_basis_modes")
    if k == "Identity":
        return Identity(n_basis_modes=nb)
    if k == "SVD":
        return SVD(n_basis_modes=nb, random_state=cfg.get("random_state", 0), algorithm=cfg.get("algorithm", "randomized"))
    if k == "RandomProjection":
        return RandomProjection(n_basis_modes=nb, random_state=cfg.get("random_state", 0))
    raise ValueError(k)


def make_optimizer(cfg):
    from pysensors.optimizers import CCQR, GQR, QR
    k = cfg.get("kind", "QR")
    if k == "QR":
        return QR()
    if k == "CCQR":
        c = cfg.get("sensor_costs")
        return CCQR(sensor_costs=None if c is None else np.array(c, dtype=float))
    if k == "GQR":
        return GQR()
    raise ValueError(k)


def gqr_kws(cfg):
    """keyword arguments for GQR.fit from a config"""
    if cfg.get("kind") != "GQR":
        return {}
    kws = {}
    for name in ("idx_constrained", "all_sensors"):
        if name in cfg:
            kws[name] = np.array(cfg[name], dtype=int)
    for name in ("n_sensors", "n_const_sensors", "constraint_option"):
        if name in cfg:
            kws[name] = cfg[name]
    return kws


def quiet(f, *a, **k):
    with warnings.catch_warnings():
        warnings.simplefilter("ignore")
        return f(*a, **k)


def exc_class(e):
    return type(e).__name__


# ---------------------------------------------------------------------------------------------------------------------
# bystanders: OTHER objects of the same classes, built with the default constructor arguments and used with other data
# right before the object under test is observed.  State that leaks between objects (class-level caches, mutable or
# shared default arguments) then shows up as a wrong observation of the object under test.
def sspor_bystander(width, n_sensors=None, seed=12345):
    from pysensors.reconstruction import SSPOR
    width = int(max(1, width))
    rng = np.random.default_rng(seed + width)
    rows = int(rng.integers(2, 6))
    X = rng.integers(-17, 18, size=(rows, width)) / 4.0
    try:
        b = SSPOR()                                    # defaults on purpose
        quiet(b.fit, X, quiet=True)
        if n_sensors is not None and 1 <= n_sensors <= width:
            b.set_number_of_sensors(int(n_sensors))
        sel = np.array(b.selected_sensors, dtype=int)
        quiet(b.predict, X[:, sel])
        quiet(b.score, X)
        quiet(b.reconstruction_error, X)
    except Exception:
        pass


def sspoc_bystander(width, n_classes=3, seed=54321, extra_kws=False):
    from pysensors.classification import SSPOC
    width = int(max(2, width))
    rng = np.random.default_rng(seed + width + n_classes)
    rows = 6 * n_classes
    y = np.arange(rows) % n_classes
    X = rng.integers(-17, 18, size=(rows, width)) / 4.0 + y[:, None] * (np.arange(width) % 3)
    try:
        b = SSPOC()                                    # defaults on purpose (classifier, basis, ...)
        kws = {"max_iter": 1} if (extra_kws and n_classes > 2) else {}
        quiet(b.fit, X, y, quiet=True, **kws)
        quiet(b.predict, X[:, np.array(b.selected_sensors, dtype=int)])
    except Exception:
        pass


# ---------------------------------------------------------------------------------------------------------------------
# results that were handed out stay what they were: the caller keeps the very object a call returned (not a copy); later
# calls on the same object, or on another object sharing an optimizer / basis instance, must not reach into it
class Held:
    def __init__(self):
        self.items = []

    def hold(self, label, obj, ctx=None):
        try:
            self.items.append((label, obj, np.array(obj, copy=True), ctx))
        except Exception:
            pass
        return obj

    def disturbed(self):
        out = []
        for label, obj, snap, ctx in self.items:
            now = np.asarray(obj)
            if now.shape != snap.shape or not np.array_equal(now, snap, equal_nan=True):
                out.append((label, ctx))
        self.items = []
        return out
