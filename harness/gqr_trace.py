"""Per-step traces of GQR / CCQR without touching the repository: the module attributes
pysensors.optimizers._gqr.normCalcReturnInstance and pysensors.optimizers._ccqr.qr_reflector are wrapped."""
import contextlib

import numpy as np


@contextlib.contextmanager
def trace_gqr(steps):
    """records, for every step of every GQR.fit inside the block: j, p (copy), the residual norms of p[j:] BEFORE the
    constraint map, and the map's output"""
    from pysensors.optimizers import _gqr
    orig = _gqr.normCalcReturnInstance

    def wrapped(cls, name):
        f = orig(cls, name)

        def g(lin_idx, dlens, piv, j, n_const_sensors, **kw):
            before = np.array(dlens, copy=True)
            pcopy = np.array(piv, copy=True)
            out = f(lin_idx, dlens, piv, j, n_const_sensors, **kw)
            steps.append({"j": int(j), "p": pcopy.tolist(), "dlens": before.tolist(), "updated": np.array(out, copy=True).tolist()})
            return out
        return g
    _gqr.normCalcReturnInstance = wrapped
    try:
        yield steps
    finally:
        _gqr.normCalcReturnInstance = orig


@contextlib.contextmanager
def trace_ccqr(steps):
    """records, for every step of CCQR.fit: the residual norms, the permuted costs and the pivot offset"""
    from pysensors.optimizers import _ccqr
    orig = _ccqr.qr_reflector

    def wrapped(r, costs, *a, **k):
        dl = np.sqrt(np.sum(np.abs(r) ** 2, axis=0))
        u, i_piv = orig(r, costs, *a, **k)
        steps.append({"dlens": dl.tolist(), "costs": np.array(costs, copy=True).tolist(), "i_piv": int(i_piv)})
        return u, i_piv
    _ccqr.qr_reflector = wrapped
    try:
        yield steps
    finally:
        _ccqr.qr_reflector = orig
