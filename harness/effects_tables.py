"""Validation of the callee classification tables of harness/effects.py (C20, stage G): every (table, callee) pair the current
translation relied on is exercised once on sample arrays and its classification is checked against what the real
library does: a callee classified FRESH must return an object that shares no memory with any array argument, and no
classified callee (fresh, alias) may modify an argument; a callee classified WRITE is exempt.  A pair without a sample is
reported in the evidence as not validated (not a violation)."""
import warnings

import numpy as np


def _arrs():
    rng = np.random.default_rng(0)
    a = rng.integers(-9, 10, size=(5, 4)).astype(float)
    v = rng.integers(-9, 10, size=6).astype(float)
    sq = a[:4, :4] + 5 * np.eye(4)
    return a, v, sq


def samples():
    """(table, name) -> (list of argument objects, thunk performing the call and returning its result)"""
    import pandas as pd
    from scipy.linalg import lstsq, qr, solve
    from scipy.sparse import identity, lil_matrix
    from sklearn.discriminant_analysis import LinearDiscriminantAnalysis
    from sklearn.dummy import DummyClassifier
    from sklearn.linear_model import MultiTaskLasso, OrthogonalMatchingPursuit
    from sklearn.utils.validation import check_array

    a, v, sq = _arrs()
    idx = np.array([0, 2, 3])
    S = {}

    def np_(name, fn, *args):
        S[("np_fresh" if name not in ("squeeze", "transpose") else "np_alias", name)] = (list(args), lambda: fn(*args))
    np_("abs", np.abs, a)
    np_("any", np.any, a)
    np_("arange", np.arange, 5)
    np_("argmax", np.argmax, v)
    np_("argsort", np.argsort, v)
    np_("array", np.array, a)
    np_("cos", np.cos, v)
    np_("sin", np.sin, v)
    np_("count_nonzero", np.count_nonzero, a)
    np_("dot", np.dot, a, a.T.copy())
    np_("isfinite", np.isfinite, a)
    np_("isin", np.isin, idx, idx)
    np_("logical_not", np.logical_not, a > 0)
    np_("matmul", np.matmul, a, a.T.copy())
    np_("max", np.max, a)
    np_("mean", np.mean, a)
    np_("ndim", np.ndim, a)
    np_("nonzero", np.nonzero, v)
    np_("outer", np.outer, v, v)
    np_("shape", np.shape, a)
    np_("sign", np.sign, v)
    np_("sqrt", np.sqrt, np.abs(v))
    np_("stack", lambda x, y: np.stack((x, y), axis=1), v, v.copy())
    np_("sum", lambda x: np.sum(x, axis=0), a)
    np_("where", lambda x: np.where(x > 0), v)
    np_("zeros", np.zeros, 4)
    np_("zeros_like", np.zeros_like, a)
    np_("ravel_multi_index", lambda x, y: np.ravel_multi_index((x, y), (4, 4)), idx, idx)
    np_("unravel_index", lambda x: np.unravel_index(x, (4, 4)), idx)
    np_("squeeze", np.squeeze, a[:, :1])
    np_("transpose", np.transpose, a)
    S[("np_fresh", "issubdtype")] = ([], lambda: np.issubdtype(a.dtype, np.integer))
    S[("np_fresh", "finfo")] = ([], lambda: np.finfo(a.dtype))
    S[("np_fresh", "iinfo")] = ([], lambda: np.iinfo(np.int64))

    S[("fresh", "qr")] = ([a], lambda: qr(a, pivoting=True))
    S[("fresh", "solve")] = ([sq, v[:4]], lambda: solve(sq, v[:4]))
    S[("fresh", "lstsq")] = ([a, v[:5]], lambda: lstsq(a, v[:5]))
    S[("fresh", "pinv")] = ([a], lambda: np.linalg.pinv(a))
    S[("fresh", "lil_matrix")] = ([], lambda: lil_matrix((3, 4)))
    S[("fresh", "identity")] = ([], lambda: identity(4))
    S[("fresh", "ndim")] = ([a], lambda: np.ndim(a))
    S[("fresh", "abs")] = ([], lambda: abs(-2.0))
    S[("fresh", "min")] = ([], lambda: min(3, 4))
    S[("fresh", "sorted")] = ([v], lambda: sorted(v))
    S[("fresh", "set")] = ([idx], lambda: set(idx.tolist()))
    S[("fresh", "len")] = ([a], lambda: len(a))
    S[("alias", "check_array")] = ([a], lambda: check_array(a))
    y2 = np.array([0, 1, 0, 1, 1])
    W = np.stack([v[:5], -v[:5]], axis=1)
    S[("fresh", "OrthogonalMatchingPursuit")] = ([a, v[:5]], lambda: OrthogonalMatchingPursuit(tol=0).fit(a, v[:5]).coef_)
    S[("fresh", "MultiTaskLasso")] = ([a, W], lambda: MultiTaskLasso(alpha=0.1).fit(a, W).coef_)
    S[("fresh", "LinearDiscriminantAnalysis")] = ([a, y2], lambda: LinearDiscriminantAnalysis().fit(a, y2).coef_)
    S[("fresh", "DummyClassifier")] = ([a, y2], lambda: DummyClassifier(strategy="stratified", random_state=0).fit(a[:, :0], y2).predict(a[:, :0]))

    S[("method_fresh", "copy")] = ([a], lambda: a.copy())
    S[("method_fresh", "tolist")] = ([a], lambda: a.tolist())
    S[("method_fresh", "any")] = ([a], lambda: (a > 0).any())
    S[("method_fresh", "sum")] = ([a], lambda: a.sum(axis=1))
    S[("method_fresh", "norm")] = ([a], lambda: np.linalg.norm(a))
    S[("method_fresh", "det")] = ([sq], lambda: np.linalg.det(sq))
    S[("method_fresh", "permutation")] = ([idx], lambda: np.random.default_rng(3).permutation(idx))
    S[("method_fresh", "default_rng")] = ([], lambda: np.random.default_rng(1))
    df = pd.DataFrame({"x": [0.0, 1.0, np.nan, 3.0], "y": [1.0, 2.0, 3.0, 4.0]})
    S[("method_fresh", "isnull")] = ([df], lambda: df.isnull())
    S[("method_alias", "dropna")] = ([df], lambda: df.dropna())
    S[("method_alias", "to_numpy")] = ([df], lambda: df.to_numpy())
    S[("method_alias", "conj")] = ([a], lambda: a.conj())
    S[("method_alias", "reshape")] = ([a], lambda: a.reshape(4, 5))
    S[("method_alias", "get")] = ([a], lambda: {"k": a}.get("k", None))
    lda = LinearDiscriminantAnalysis()
    S[("method_alias", "fit")] = ([a, y2], lambda: lda.fit(a, y2))
    S[("method_fresh", "predict")] = ([a], lambda: lda.fit(a, y2).predict(a))
    return S


def snap(x):
    import pandas as pd
    if isinstance(x, np.ndarray):
        return x.tobytes()
    if isinstance(x, pd.DataFrame):
        return x.to_numpy(copy=True).tobytes() + repr(list(x.columns)).encode()
    return repr(x).encode()


def arrays_in(obj, depth=0):
    import pandas as pd
    if isinstance(obj, np.ndarray):
        yield obj
    elif isinstance(obj, pd.DataFrame):
        yield obj.to_numpy(copy=False)
    elif isinstance(obj, (tuple, list)) and depth < 3:
        for o in obj:
            yield from arrays_in(o, depth + 1)


def validate(used, chk):
    """used: set of (table, name).  Returns the evidence dict; violations go to chk."""
    S = samples()
    done, missing = [], []
    for key in sorted(used):
        table, name = key
        if table in ("user_callable", "method_write"):
            continue
        if key not in S:
            missing.append(f"{table}:{name}")
            continue
        with warnings.catch_warnings():
            warnings.simplefilter("ignore")
            try:
                args, thunk = S[key]
                before = [snap(x) for x in args]
                res = thunk()
                after = [snap(x) for x in args]
            except Exception as e:
                chk.violation("correspondence", f"table-sample-raises:{table}:{name}", f"sample call for {table}:{name} raised {type(e).__name__}: {e}", {})
                continue
        done.append(f"{table}:{name}")
        if before != after:
            chk.violation("correspondence", f"table-entry-wrong:{table}:{name}", f"{name} is classified as non-mutating ({table}) but modified an argument of the sample call", {})
        if table.endswith("fresh"):
            for r in arrays_in(res):
                for x in arrays_in(args):
                    if np.shares_memory(r, x):
                        chk.violation("correspondence", f"table-entry-wrong:{table}:{name}", f"{name} is classified as returning a fresh object ({table}) but its result shares memory with an argument", {})
    chk.count("table_entries_validated", len(done))
    chk.count("table_entries_without_sample", len(missing))
    return {"validated": done, "without_sample (pure python builtins / exception classes / os.path helpers)": missing}
