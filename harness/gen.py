"""Seeded generators.  All matrices have dyadic entries k/8 (|k| <= 40) or small integers, so the doubles
handed to the implementation are exactly the rationals handed to the Coq model."""
import numpy as np

KINDS = ["generic", "generic", "generic", "rankdef", "duprows", "zerorows", "allzero", "intties",
         "illcond", "negative_lead", "sparseint", "sparseint", "nearrank", "nearrank", "localized", "localized", "faintrows", "commonmode"]


def shape(rng, nmax=9, mmax=5):
    c = rng.integers(0, 10)
    if c == 0:
        return 1, 1
    if c == 1:                      # wide basis matrix: fewer sensors than modes
        n = int(rng.integers(1, max(2, mmax)))
        return n, int(rng.integers(n, mmax + 2))
    if c == 2:                      # square
        n = int(rng.integers(1, mmax + 1))
        return n, n
    n = int(rng.integers(2, nmax + 1))
    m = int(rng.integers(1, min(n, mmax) + 1))
    return n, m


def matrix(rng, n, m, kind=None):
    """n sensors (rows) x m modes (columns) basis-like matrix."""
    kind = kind or KINDS[int(rng.integers(0, len(KINDS)))]
    if kind == "generic":
        B = rng.integers(-40, 41, size=(n, m)) / 8.0
    elif kind == "rankdef":
        r = max(1, min(n, m) - int(rng.integers(1, 3)))
        B = (rng.integers(-4, 5, size=(n, r)) @ rng.integers(-3, 4, size=(r, m))).astype(float) / 4.0
    elif kind == "duprows":
        B = rng.integers(-40, 41, size=(n, m)) / 8.0
        for _ in range(int(rng.integers(1, 3))):
            if n > 1:
                i, j = rng.integers(0, n, size=2)
                B[i] = B[j] * float(rng.choice([1.0, -1.0, 2.0]))
    elif kind == "zerorows":
        B = rng.integers(-40, 41, size=(n, m)) / 8.0
        for _ in range(int(rng.integers(1, 3))):
            B[int(rng.integers(0, n))] = 0.0
    elif kind == "allzero":
        B = np.zeros((n, m))
    elif kind == "intties":
        B = rng.integers(-2, 3, size=(n, m)).astype(float)
    elif kind == "sparseint":
        # many exact zeros: pivot columns whose leading entry in the trailing block is exactly 0
        B = (rng.integers(-3, 4, size=(n, m)) * (rng.random((n, m)) < 0.5)).astype(float)
        if n > 1 and m > 1 and rng.random() < 0.7:
            i = int(rng.integers(0, n))
            B[i] = rng.integers(2, 5, size=m) * rng.choice([-1.0, 1.0], size=m)
            B[i, 0] = 0.0          # the largest row has a zero in the first mode
    elif kind == "nearrank":
        # numerically (not exactly) rank-deficient: low rank plus noise of relative size 2^-30
        r = max(1, min(n, m) - int(rng.integers(1, 3)))
        B = (rng.integers(-4, 5, size=(n, r)) @ rng.integers(-3, 4, size=(r, m))).astype(float) / 4.0
        B = B + rng.integers(-8, 9, size=(n, m)) / 2.0 ** 33
    elif kind == "faintrows":
        # independent sensors on wildly different scales (exact powers of two): some rows 2^-30 ... 2^-70 of the others
        B = rng.integers(-40, 41, size=(n, m)) / 8.0
        nstrong = 1 if rng.random() < 0.7 else int(rng.integers(1, max(2, min(n, m))))      # fewer strong sensors than ranked positions: faint ones get ranked too
        strong = set(int(i) for i in rng.choice(n, size=min(nstrong, n), replace=False))
        lo = 30 if rng.random() < 0.25 else 55
        for i in range(n):
            if i not in strong:
                B[i] *= 2.0 ** -int(rng.integers(lo, 71))
    elif kind == "commonmode":
        # nearly parallel sensors: a dominant common component plus individual parts 2^-26 ... 2^-30 as large (well separated)
        v = rng.integers(1, 9, size=m) / 2.0
        B = np.outer(rng.integers(4, 9, size=n) / 4.0, v) + (rng.integers(-40, 41, size=(n, m)) / 8.0) * 2.0 ** -int(rng.integers(26, 31))
    elif kind == "localized":
        # modes with (nearly) disjoint supports: sensor rows that are zero in the leading modes
        B = np.zeros((n, m))
        for i in range(n):
            B[i, i % m] = float(rng.integers(1, 17)) / 4.0 * float(rng.choice([-1.0, 1.0]))
        if n > m:
            B[rng.integers(0, n), :] += rng.integers(-4, 5, size=m) / 8.0
    elif kind == "illcond":
        t = np.arange(1, n + 1, dtype=float) / 2.0
        B = np.vander(t, m, increasing=True)
        B = np.round(B * 8) / 8
    elif kind == "negative_lead":
        B = rng.integers(-40, 41, size=(n, m)) / 8.0
        B[:, 0] = -np.abs(B[:, 0]) - 0.125
    else:
        raise ValueError(kind)
    return np.ascontiguousarray(B, dtype=float), kind


def training(rng, n_features, n_samples, kind=None):
    """training data: n_samples x n_features"""
    B, kind = matrix(rng, n_features, n_samples, kind)
    return np.ascontiguousarray(B.T), kind


def costs(rng, n):
    c = int(rng.integers(0, 6))
    if c == 0:
        return np.zeros(n), "zero"
    if c == 1:
        return rng.integers(0, 33, size=n) / 8.0, "positive"
    if c == 2:
        return -rng.integers(0, 33, size=n) / 8.0, "negative"
    if c == 3:
        return rng.integers(-32, 33, size=n) / 8.0, "mixed"
    if c == 4:
        v = np.zeros(n)
        v[rng.random(n) < 0.4] = 1000.0
        return v, "prohibitive"
    v = rng.integers(-8, 9, size=n) / 8.0
    v[int(rng.integers(0, n))] = -100.0
    return v, "one_preferred"


def to_list(a):
    return np.asarray(a).tolist()
