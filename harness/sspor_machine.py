"""Random histories on real SSPOR objects, their encoding for the Coq token machine (Recon/SSPOR.v), evaluation of
the model's tokens with FRESH real objects, and from-scratch references (used by C14, C15, C19)."""
import copy

import numpy as np

from . import common as C
from . import impl

BK = ["Identity", "SVD", "RandomProjection"]
BK_COQ = ["Identity", "SVD", "RandProj"]


# ------------------------------------------------------------------ values
def pyvalue(v):
    """JSON-able value descriptor -> actual python value"""
    k = v[0]
    if k == "int":
        return int(v[1])
    if k == "npint":
        return np.int64(v[1])
    if k == "float":
        return 2.5 if len(v) < 2 else float(v[1])      # ["float", z]: a float that happens to hold an integer
    if k == "str":
        return "3"
    if k == "none":
        return None
    if k == "list":
        return [3]
    raise ValueError(v)


def coq_value(v):
    k = v[0]
    if k in ("int", "npint"):
        return f"(VInt ({int(v[1])})%Z)"
    return {"float": "VFloat", "str": "VStr", "none": "VNone", "list": "VList"}[k]


def rand_value(rng, hi, valid_p=0.6):
    if rng.random() < valid_p:
        return ["int" if rng.random() < 0.7 else "npint", int(rng.integers(1, hi + 1))]
    c = int(rng.integers(0, 7))
    if c == 0:
        return ["int", 0]
    if c == 1:
        return ["int", -int(rng.integers(1, 5))]
    if c == 2:
        return ["float"]
    if c == 3:
        return ["str"]
    if c == 4:
        return ["list"]
    if c == 5:
        return ["int", hi + int(rng.integers(1, 4))]
    return ["none"]


# ------------------------------------------------------------------ cases
def make_datasets(rng, k, rows=None, widths=None):
    ds = {}
    for i in range(1, k + 1):
        r = int(rows if rows is not None else rng.integers(3, 7))
        w = int(widths[i - 1] if widths is not None else rng.integers(4, 10))
        X = rng.integers(-24, 25, size=(r, w)) / 8.0
        ds[i] = X
    return ds


def opt_cfg(rng, widths):
    c = int(rng.integers(0, 5))
    if c == 0:
        return {"kind": "QR"}
    if c == 1:
        if rng.random() < 0.5:
            # GQR with constraint keywords handed to fit (the sensor budget is NOT among them): the ranking is a function of the basis
            # matrix and these keywords only - not of how many sensors the model was told to use
            return {"kind": "GQR", "fit_kws": {"idx_constrained": [0, 1], "n_const_sensors": 1, "constraint_option": "exact_n"}}
        return {"kind": "GQR"}
    if c == 2:
        return {"kind": "CCQR", "sensor_costs": None}
    w = int(widths[int(rng.integers(0, len(widths)))])
    return {"kind": "CCQR", "sensor_costs": (rng.integers(-8, 9, size=w) / 8.0).tolist(), "cost_id": 1}


def coq_ocfg(o):
    if o["kind"] == "QR":
        return "OQR"
    if o["kind"] == "GQR":
        return "OGQR"
    if o["sensor_costs"] is None:
        return "(OCCQR None)"
    return f"(OCCQR (Some ({o.get('cost_id', 1)}, {len(o['sensor_costs'])})))"


def coq_data(case, i):
    X = case["datasets"][i]
    return f"(D {i} {len(X)} {len(X[0])})"


def coq_op(case, op):
    k = op[0]
    if k == "fit":
        seed = "None" if op[2] is None else f"(Some {op[2]})"
        return f"Fit {coq_data(case, op[1])} {seed}"
    if k == "setn":
        return f"SetN {coq_value(op[1])}"
    if k == "upd":
        x = "None" if op[2] is None else f"(Some {coq_data(case, op[2])})"
        return f"UpdModes {coq_value(op[1])} {x}"
    return "Observe"


def coq_case(case):
    bm = "None" if case["bmodes"] is None else f"(Some {case['bmodes']})"
    hist = "[" + "; ".join(coq_op(case, o) for o in case["history"]) + "]"
    return f"run_case {BK_COQ[BK.index(case['basis'])]} {bm} {coq_ocfg(case['opt'])} {coq_value(case['ctor_n'])} {hist}"


# ------------------------------------------------------------------ running the real thing
def err_code(e):
    from sklearn.exceptions import NotFittedError
    if e is None:
        return 0
    if isinstance(e, NotFittedError):
        return 2
    if isinstance(e, ValueError):
        return 1
    return 3


def snapshot(model):
    s = {}
    s["bm"] = None if not hasattr(model, "basis_matrix_") else np.array(model.basis_matrix_, copy=True)
    s["ranked"] = None if not hasattr(model, "ranked_sensors_") else np.array(model.ranked_sensors_, copy=True)
    s["n_sensors"] = model.n_sensors
    s["n_basis_modes"] = model.n_basis_modes
    s["b_modes"] = model.basis.n_basis_modes
    return s


def observe(model, probe):
    """selected sensors, ranking, predictions and score on a probe batch (None when not available)"""
    out = {}
    try:
        sel = np.array(model.selected_sensors)
        out["selected"] = sel.tolist()
        out["all"] = np.array(model.all_sensors).tolist()
        w = len(model.ranked_sensors_)
        P = probe[:, :w] if probe.shape[1] >= w else np.pad(probe, ((0, 0), (0, w - probe.shape[1])))
        impl.sspor_bystander(w, len(sel))      # another model, fitted and used in between, must not influence this one
        out["predict"] = impl.quiet(model.predict, P[:, sel])
        out["score"] = float(impl.quiet(model.score, P))
    except Exception as e:
        out["error"] = type(e).__name__ + ": " + str(e)[:80]
    return out


def new_model(case, n_value):
    from pysensors.reconstruction import SSPOR
    basis = impl.make_basis({"kind": case["basis"], "n_basis_modes": case["bmodes"]}) if not (
        case["basis"] == "Identity" and case["bmodes"] is None) else impl.make_basis({"kind": "Identity"})
    opt = impl.make_optimizer(case["opt"])
    if case["basis"] == "Identity" and case["bmodes"] is None and case["opt"].get("kind") == "QR":
        return SSPOR(n_sensors=n_value)          # exactly the constructor defaults: leave them to the constructor
    return SSPOR(basis=basis, optimizer=opt, n_sensors=n_value)


def fit_kws(case):
    """keyword arguments every fit of this case hands to the optimizer (GQR constraint settings)"""
    return {k_: (np.array(v_, dtype=int) if k_ == "idx_constrained" else v_) for k_, v_ in case["opt"].get("fit_kws", {}).items()}


def apply_op(model, case, op):
    ds = case["datasets"]
    k = op[0]
    if k == "fit":
        kws = {k_: (np.array(v_, dtype=int) if k_ == "idx_constrained" else v_) for k_, v_ in case["opt"].get("fit_kws", {}).items()}
        impl.quiet(model.fit, np.array(ds[op[1]]), seed=op[2], quiet=True, **kws)
    elif k == "setn":
        (model.set_number_of_sensors if len(op) < 3 or not op[2] else model.set_n_sensors)(pyvalue(op[1]))
    elif k == "upd":
        x = None if op[2] is None else np.array(ds[op[2]])
        impl.quiet(model.update_n_basis_modes, pyvalue(op[1]), x=x, quiet=True)
    elif k == "obs":
        _ = model.selected_sensors
        _ = model.all_sensors
        # pure observations include an error curve whose user-supplied score function fails part-way (caught by the caller):
        # observing - successfully or not - changes nothing
        if hasattr(model, "ranked_sensors_"):
            w = len(model.ranked_sensors_)
            calls = [0]

            def failing_score(a, b):
                calls[0] += 1
                if calls[0] >= 2:
                    raise RuntimeError("user score function failed")
                return 0.0
            try:
                kk = max(1, min(w, int(model.basis_matrix_.shape[1]) - 1))
                impl.quiet(model.reconstruction_error, np.ones((2, w)), sensor_range=np.array([1, kk, 1]), score=failing_score)
            except Exception:
                pass
    else:
        raise ValueError(op)


def run_real(case, probe=None):
    """returns list of records: code, exception text, snapshot, observation"""
    recs = []
    try:
        model = new_model(case, pyvalue(case["ctor_n"]))
    except Exception as e:
        return [{"code": err_code(e), "exc": type(e).__name__, "snap": None}], None
    recs.append({"code": 0, "exc": None, "snap": snapshot(model)})
    for op in case["history"]:
        before = observe(model, probe) if probe is not None else None
        try:
            apply_op(model, case, op)
            e = None
        except Exception as ex:
            e = ex
        rec = {"code": err_code(e), "exc": None if e is None else type(e).__name__ + ": " + str(e)[:100],
               "snap": snapshot(model), "before": before}
        if probe is not None:
            rec["after"] = observe(model, probe)
        recs.append(rec)
    return recs, model


# ------------------------------------------------------------------ evaluating model tokens with fresh objects
def eval_mtok(case, code):
    """code = [bkind, on k, data id, cols, mt_k] -> matrix computed by a FRESH basis object"""
    bk, onk, did, cols, mtk = code
    k = None if onk == 0 else onk - 1
    basis = impl.make_basis({"kind": BK[bk], "n_basis_modes": k})
    impl.quiet(basis.fit, np.array(case["datasets"][did]))
    full = np.array(basis.basis_matrix_)
    assert full.shape[1] == cols, (full.shape, cols)
    return full[:, :mtk]


def eval_rtok(case, code):
    """code = ocfg ++ [99] ++ mtok ++ [99, on seed] -> (leading/complete ranking by a FRESH optimizer, m, seed)"""
    i = code.index(99)
    oc, rest = code[:i], code[i + 1:]
    j = len(rest) - 2
    mt, seedc = rest[:j], rest[j + 1]
    M = eval_mtok(case, mt)
    if oc[0] == 0:
        ocfg = {"kind": "QR"}
    elif oc[0] == 1:
        ocfg = {"kind": "CCQR", "sensor_costs": None}
    elif oc[0] == 2:
        ocfg = case["opt"]
    else:
        ocfg = {"kind": "GQR"}
    kws = {}
    if ocfg["kind"] == "GQR":
        kws = {k_: (np.array(v_, dtype=int) if k_ == "idx_constrained" else v_) for k_, v_ in case["opt"].get("fit_kws", {}).items()}
    r = np.array(impl.quiet(impl.make_optimizer(ocfg).fit, M.copy(), **kws).get_sensors())
    m = M.shape[1]
    seed = None if seedc == 0 else seedc - 1
    if seed is not None:
        r = r.copy()
        r[m:] = np.random.default_rng(seed).permutation(r[m:])
    return r, m, seed


def on(v):
    return 0 if v is None else int(v) + 1


def compare_step(case, model_entry, rec):
    """compare one (err_code, state_code) of the model with the record of the real run; returns list of strings"""
    diffs = []
    mcode, st = model_entry
    if mcode != rec["code"]:
        diffs.append(f"outcome: model {mcode} vs real {rec['code']} ({rec['exc']})")
    if rec["snap"] is None or not st:
        return diffs
    snap = rec["snap"]
    mt, rt, ns, nbm, bmo = st
    try:
        if (snap["bm"] is None) != (mt == []):
            diffs.append(f"basis_matrix_ presence: model {mt != []} real {snap['bm'] is not None}")
        elif mt:
            M = eval_mtok(case, mt)
            if M.shape != snap["bm"].shape or not np.array_equal(M, snap["bm"]):
                diffs.append(f"basis_matrix_ differs from token {mt}")
        if (snap["ranked"] is None) != (rt == []):
            diffs.append(f"ranked_sensors_ presence: model {rt != []} real {snap['ranked'] is not None}")
        elif rt:
            r, m, seed = eval_rtok(case, rt)
            real = snap["ranked"]
            if len(r) != len(real):
                diffs.append(f"ranking length {len(real)} vs token {len(r)}")
            elif seed is not None:
                if not np.array_equal(r, real):
                    diffs.append(f"ranking {real.tolist()} differs from fresh {r.tolist()} (token {rt})")
            else:
                k = min(m, len(r))
                if not np.array_equal(r[:k], real[:k]) or sorted(r[k:].tolist()) != sorted(real[k:].tolist()):
                    diffs.append(f"leading ranking {real[:k].tolist()} differs from fresh {r[:k].tolist()}")
    except Exception as e:  # token could not be evaluated by a fresh object
        diffs.append(f"token evaluation failed: {type(e).__name__}: {str(e)[:80]}")
    if ns[0] != on(snap["n_sensors"]):
        diffs.append(f"n_sensors: model {ns[0] - 1 if ns[0] else None} real {snap['n_sensors']}")
    if nbm[0] != on(snap["n_basis_modes"]):
        diffs.append(f"n_basis_modes: model {nbm[0] - 1 if nbm[0] else None} real {snap['n_basis_modes']}")
    if bmo[0] != on(snap["b_modes"]):
        diffs.append(f"basis.n_basis_modes: model {bmo[0] - 1 if bmo[0] else None} real {snap['b_modes']}")
    return diffs


def eval_cases(prop, cases, shard=60):
    files = []
    for i in range(0, len(cases), shard):
        body = ("From Coq Require Import List Arith ZArith. Import ListNotations.\n"
                "From PS Require Import Recon.SSPOR Exec.Run_SSPOR.\n")
        body += "Eval vm_compute in [\n  " + ";\n  ".join(coq_case(c) for c in cases[i:i + shard]) + "\n].\n"
        files.append((f"cases_{i // shard}", body))
    out = []
    for r in C.coq_eval(prop, files):
        if not r["ok"]:
            return None, r["log"]
        out += r["values"][0]
    return out, ""


def jsonable(case):
    c = copy.deepcopy(case)
    c["datasets"] = {str(k): (v.tolist() if hasattr(v, "tolist") else v) for k, v in case["datasets"].items()}
    return c
