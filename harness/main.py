"""CLI: ./check Cxx --tier quick|thorough   |   ./check Cxx --replay <file>"""
import argparse
import importlib
import json
import os
import sys
import traceback

from . import common


def main():
    ap = argparse.ArgumentParser()
    ap.add_argument("prop")
    ap.add_argument("--tier", default=os.environ.get("VERIF_TIER", "quick"), choices=["quick", "thorough"])
    ap.add_argument("--replay", default=None)
    ap.add_argument("--skip-proofs", action="store_true", help="development aid: skip stage P")
    a = ap.parse_args()
    seed = int(os.environ.get("VERIF_SEED", "0") or 0)
    common.setup_import_path()
    mod = importlib.import_module(f"harness.props.{a.prop.lower()}")
    if a.replay:
        data = json.load(open(a.replay))
        return mod.replay(data)
    chk = common.Check(a.prop, a.tier, seed)
    if not a.skip_proofs:
        chk.proof = common.coq_properties(a.prop)
        if not chk.proof["ok"]:
            chk.violation("proof", "proof-broken", f"stage P: {chk.proof['broken']}",
                          {"theorem_or_build": chk.proof["broken"], "log_tail": chk.proof["log"][-1500:]})
    try:
        return mod.run(chk)
    except Exception:
        tb = traceback.format_exc()
        print(tb)
        chk.violation("correspondence", "harness-crash", "the harness itself crashed: " + tb.splitlines()[-1],
                      {"traceback": tb})
        return chk.finish(["harness crashed"], "./check")


if __name__ == "__main__":
    sys.exit(main())
