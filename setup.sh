#!/bin/bash
# Offline build of the Coq development (full .vo, never -vos). Run once after a fresh restore.
set -e
cd "$(dirname "$0")"
mkdir -p build evidence
cd coq
rm -f Makefile Makefile.conf
FILES=$(find theories -name '*.v' ! -name '.*' | sort)
coq_makefile -f _CoqProject -o Makefile $FILES
echo "$FILES" | tr ' ' '\n' > ../build/.coqfiles.tmp
/usr/bin/env python3 - <<'PY'
import os
fs=sorted(l.strip() for l in open('../build/.coqfiles.tmp') if l.strip())
open('../build/.coqfiles','w').write("\n".join(fs))
os.remove('../build/.coqfiles.tmp')
PY
timeout 3000 make -j16
echo "setup ok"
