From Coq Require Import List ZArith Bool Lia.
Import ListNotations.
From PS Require Import Guard.Guards.
Open Scope Z_scope.

(* the invalid classes named by the property, for "counts": zero, negatives, floats, strings, lists
   ('auto' is a string) - and None where a count is required *)
Definition bad_count (v : pv) : Prop :=
  match v with PInt z | PNpInt z => z <= 0 | PNone => False | _ => True end.
Definition too_large (v : pv) (limit : Z) : Prop := exists z, as_INT v = Some z /\ limit < z.

Ltac zb := repeat match goal with
  | |- context [?a <? ?b] => destruct (Z.ltb_spec a b)
  | |- context [?a <=? ?b] => destruct (Z.leb_spec a b)
  | |- context [?a =? ?b] => destruct (Z.eqb_spec a b)
  end; try lia; try reflexivity; try congruence.
Ltac crunch := cbv -[Z.ltb Z.leb Z.eqb Z.le Z.lt] in *; try tauto; zb.

Lemma sspor_ctor_rejects v : bad_count v -> g_sspor_ctor v = Err ValueError.
Proof. destruct v; intros; crunch. Qed.

Lemma sspor_set_n_rejects nf v : bad_count v \/ v = PNone \/ too_large v nf ->
  g_sspor_set_n true nf v = Err ValueError.
Proof.
  unfold too_large; intros [H|[->|[z [E L]]]]; [destruct v; crunch|reflexivity|].
  unfold g_sspor_set_n. simpl. rewrite E. zb.
Qed.
Lemma sspor_set_n_unfitted nf v : g_sspor_set_n false nf v = Err NotFittedError.
Proof. reflexivity. Qed.
Lemma sspor_set_n_accepts nf z : 0 < z <= nf -> g_sspor_set_n true nf (PInt z) = Ok /\ g_sspor_set_n true nf (PNpInt z) = Ok.
Proof. intros. unfold g_sspor_set_n; simpl. split; zb. Qed.

Lemma sspor_update_modes_rejects have xr v :
  bad_count v \/ v = PNone \/ (exists k, as_INT v = Some k /\ have < k /\ (xr = None \/ exists r, xr = Some r /\ r < k)) ->
  g_sspor_update_modes have xr v = Err ValueError.
Proof.
  intros [H|[->|[k [E [L X]]]]]; [destruct v; crunch|reflexivity|].
  unfold g_sspor_update_modes. rewrite E. destruct X as [->|[r [-> R]]]; zb.
Qed.

Lemma validate_input_rejects x e : (x = NotArray \/ exists w, x = Arr w /\ w <> e) ->
  g_validate_input x (Some e) = Err ValueError.
Proof. intros [->|[w [-> N]]]; simpl; zb. Qed.
Lemma bad_rank_rejected n nf : g_sspor_predict true n BadRank = Err ValueError /\ g_sspor_score true nf BadRank = Err ValueError /\
  g_sspor_recon_error true nf BadRank = Err ValueError.
Proof. repeat split. Qed.

Lemma sspor_consumers_reject nsens x : 
  (x = NotArray \/ exists w, x = Arr w /\ w <> nsens) -> g_sspor_predict true nsens x = Err ValueError.
Proof. intro H. unfold g_sspor_predict; simpl. now apply validate_input_rejects. Qed.
Lemma sspor_score_rejects nf x :
  (x = NotArray \/ exists w, x = Arr w /\ w <> nf) ->
  g_sspor_score true nf x = Err ValueError /\ g_sspor_recon_error true nf x = Err ValueError.
Proof. intro H. unfold g_sspor_score, g_sspor_recon_error; simpl. split; now apply validate_input_rejects. Qed.
Lemma sspor_unfitted n x : g_sspor_predict false n x = Err NotFittedError /\ g_sspor_score false n x = Err NotFittedError /\
  g_sspor_recon_error false n x = Err NotFittedError /\ g_sspor_getter false = Err NotFittedError.
Proof. repeat split. Qed.
Lemma sspor_fit_count_rejects n nf : nf < n -> g_sspor_fit_count n nf = Err ValueError.
Proof. intro. unfold g_sspor_fit_count. zb. Qed.

(* SSPOC: zero sensors is a documented valid request; negatives, non-integers and too many are not *)
Definition bad_count0 (v : pv) : Prop :=
  match v with PInt z | PNpInt z => z < 0 | PNone => False | _ => True end.
Lemma sspoc_update_sensors_rejects nf v t :
  bad_count0 v \/ too_large v nf \/ (v = PNone /\ t = false) ->
  g_sspoc_update_sensors true nf v t = Err ValueError.
Proof.
  unfold too_large; intros [H|[[z [E L]]|[-> ->]]]; [destruct v; crunch| |reflexivity].
  unfold g_sspoc_update_sensors. simpl. destruct v; simpl in *; try discriminate; injection E as ->; zb.
Qed.
Lemma sspoc_unfitted nf v t : g_sspoc_update_sensors false nf v t = Err NotFittedError /\ g_sspoc_getter false = Err NotFittedError.
Proof. split; reflexivity. Qed.
Lemma sspoc_update_modes_rejects have rows v :
  bad_count v \/ v = PNone \/ (exists k, as_INT v = Some k /\ have < k /\ rows < k) ->
  g_sspoc_update_modes have rows v = Err ValueError.
Proof.
  intros [H|[->|[k [E [L R]]]]]; [destruct v; crunch|reflexivity|].
  unfold g_sspoc_update_modes. rewrite E. zb.
Qed.

(* bases *)
Lemma basis_ctors_reject v : bad_count v ->
  g_identity_ctor v = Err ValueError /\ g_svd_ctor v = Err ValueError /\ (v <> PAuto -> g_rp_ctor v = Err ValueError).
Proof. destruct v; intros; repeat split; intros; crunch. Qed.
Lemma svd_ctor_rejects_none : g_svd_ctor PNone = Err ValueError /\ g_rp_ctor PNone = Err ValueError.
Proof. split; reflexivity. Qed.
Lemma identity_fit_rejects k rows : rows < k -> g_identity_fit k rows = Err ValueError.
Proof. intro. unfold g_identity_fit. zb. Qed.
Lemma svd_fit_rejects k rows width : rows < k \/ width < k -> g_svd_fit k rows width = Err ValueError.
Proof.
  intro H. unfold g_svd_fit. destruct (Z.ltb_spec rows k); [reflexivity|]. destruct (Z.ltb_spec width k); [reflexivity|]. lia.
Qed.
Lemma basis_modes_rejects avail v : bad_count v \/ too_large v avail -> g_basis_modes true avail v = Err ValueError.
Proof.
  unfold too_large; intros [H|[z [E L]]]; [destruct v; crunch|].
  unfold g_basis_modes. simpl. destruct v; simpl in *; try discriminate; injection E as ->; zb.
Qed.
Lemma basis_unfitted avail v : g_basis_modes false avail v = Err NotFittedError.
Proof. reflexivity. Qed.

(* optimizers and helpers *)
Lemma ccqr_rejects d l n : d <> 1 -> l <> n ->
  g_ccqr_ctor (Some d) = Err ValueError /\ g_ccqr_fit (Some l) n = Err ValueError.
Proof. intros. unfold g_ccqr_ctor, g_ccqr_fit. split; zb. Qed.
Lemma gqr_option_rejects : g_gqr_option OptOther = Err NotImplementedError.
Proof. reflexivity. Qed.
Lemma box_rejects n dt xmin xmax ymin ymax nxi nyi :
  (n = 0 \/ dt = false \/ xmax <= xmin \/ ymax <= ymin \/ nxi = false \/ nyi = false) ->
  g_box n dt xmin xmax ymin ymax nxi nyi = Err ValueError.
Proof.
  unfold g_box. intros H.
  destruct (Z.eqb_spec n 0); auto. destruct dt; simpl; auto.
  destruct (Z.leb_spec xmax xmin); auto. destruct (Z.leb_spec ymax ymin); auto.
  destruct nxi, nyi; simpl; auto. lia.
Qed.
