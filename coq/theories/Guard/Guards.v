(* Argument guards of the public entry points, as decision functions over classes of Python values (model,
   executable).  Each function follows the order of the tests in the source.
   Sources: _sspor.py 91-96, 188-189, 289-301, 342-360, 399-407, 448-449, 488-505; _sspoc.py 302, 363-380,
   471-488, 503; basis/_base.py 49-62; _identity.py 34-40, 61-66; _svd.py 47-52; _random_projection.py 53-62;
   _ccqr.py 44-48, 74-78; _norm_calc.py 137-151; utils/_base.py 8-31; _constraints.py 38-47. *)
From Coq Require Import List ZArith Bool Lia.
Import ListNotations.
Open Scope Z_scope.

Inductive pv := PInt (z : Z) | PNpInt (z : Z) | PFloat | PStr | PNone | PList | PAuto.
Inductive errcls := ValueError | NotFittedError | NotImplementedError | TypeError.
Inductive outcome := Ok | Err (e : errcls).

(* isinstance(v, INT_DTYPES)  and  isinstance(v, int) *)
Definition as_INT (v : pv) : option Z := match v with PInt z | PNpInt z => Some z | _ => None end.
Definition as_pyint (v : pv) : option Z := match v with PInt z => Some z | _ => None end.

(* ---- SSPOR ---- *)
Definition g_sspor_ctor (v : pv) : outcome :=
  match v with
  | PNone => Ok
  | _ => match as_INT v with Some z => if 0 <? z then Ok else Err ValueError | None => Err ValueError end
  end.

Definition g_sspor_set_n (fitted : bool) (n_features : Z) (v : pv) : outcome :=
  if negb fitted then Err NotFittedError else
  match as_INT v with
  | None => Err ValueError
  | Some z => if z <=? 0 then Err ValueError else if n_features <? z then Err ValueError else Ok
  end.

(* update_n_basis_modes(v, x): [have] = modes available in the fitted basis (0 when not fitted);
   x_rows = None when x is None.  Only the guards of the method itself. *)
Definition g_sspor_update_modes (have : Z) (x_rows : option Z) (v : pv) : outcome :=
  match as_INT v with
  | None => Err ValueError
  | Some k => if k <=? 0 then Err ValueError
              else if k <=? have then Ok
              else match x_rows with
                   | None => Err ValueError
                   | Some r => if r <? k then Err ValueError else Ok
                   end
  end.

(* measurement arrays: not an ndarray, or an ndarray with a given number of features *)
Inductive arr := NotArray | Arr (width : Z) | BadRank.      (* BadRank: an ndarray that is neither 1-D nor 2-D (0-d, 3-D, ...) *)
Definition g_validate_input (x : arr) (expected : option Z) : outcome :=
  match x with
  | NotArray | BadRank => Err ValueError
  | Arr w => match expected with Some e => if w =? e then Ok else Err ValueError | None => Ok end
  end.
Definition g_sspor_predict (fitted : bool) (n_sensors : Z) (x : arr) : outcome :=
  if negb fitted then Err NotFittedError else g_validate_input x (Some n_sensors).
Definition g_sspor_score (fitted : bool) (n_features : Z) (x : arr) : outcome :=
  if negb fitted then Err NotFittedError else
  g_validate_input x (Some n_features).
Definition g_sspor_recon_error (fitted : bool) (n_features : Z) (x : arr) : outcome :=
  if negb fitted then Err NotFittedError else g_validate_input x (Some n_features).
Definition g_sspor_getter (fitted : bool) : outcome := if fitted then Ok else Err NotFittedError.
(* _validate_n_sensors at fit time for a user-chosen count *)
Definition g_sspor_fit_count (n_sensors n_features : Z) : outcome :=
  if n_features <? n_sensors then Err ValueError else Ok.

(* ---- SSPOC ---- *)
Definition g_sspoc_getter (fitted : bool) : outcome := if fitted then Ok else Err NotFittedError.
(* update_sensors(n_sensors=v, threshold=t) *)
Definition g_sspoc_update_sensors (fitted : bool) (n_features : Z) (v : pv) (thr_given : bool) : outcome :=
  if negb fitted then Err NotFittedError else
  match v with
  | PNone => if thr_given then Ok else Err ValueError
  | _ => match as_INT v with
         | None => Err ValueError
         | Some z => if z <? 0 then Err ValueError else if n_features <? z then Err ValueError else Ok
         end
  end.
Definition g_sspoc_update_modes (have : Z) (x_rows : Z) (v : pv) : outcome :=
  match as_INT v with
  | None => Err ValueError
  | Some k => if k <=? 0 then Err ValueError
              else if k <=? have then Ok
              else if x_rows <? k then Err ValueError else Ok
  end.

(* ---- bases ---- *)
Definition g_identity_ctor (v : pv) : outcome :=
  match v with
  | PNone => Ok
  | _ => match as_pyint v with Some z => if 0 <? z then Ok else Err ValueError | None => Err ValueError end
  end.
Definition g_svd_ctor (v : pv) : outcome :=
  match as_pyint v with Some z => if 0 <? z then Ok else Err ValueError | None => Err ValueError end.
Definition g_rp_ctor (v : pv) : outcome :=
  match v with
  | PAuto => Ok
  | _ => match as_pyint v with Some z => if 0 <? z then Ok else Err ValueError | None => Err ValueError end
  end.
Definition g_identity_fit (k rows : Z) : outcome := if rows <? k then Err ValueError else Ok.
(* SVD(k).fit(x): the data must support k modes (k <= examples and k <= features) *)
Definition g_svd_fit (k rows width : Z) : outcome := if (rows <? k) || (width <? k) then Err ValueError else Ok.
(* matrix_representation / matrix_inverse (n_basis_modes = v) on a basis with [avail] modes *)
Definition g_basis_modes (fitted : bool) (avail : Z) (v : pv) : outcome :=
  if negb fitted then Err NotFittedError else
  match v with
  | PNone => Ok
  | _ => match as_INT v with
         | None => Err ValueError
         | Some k => if k <=? 0 then Err ValueError else if avail <? k then Err ValueError else Ok
         end
  end.

(* ---- optimizers ---- *)
Definition g_ccqr_ctor (costs_ndim : option Z) : outcome :=
  match costs_ndim with None => Ok | Some d => if d =? 1 then Ok else Err ValueError end.
Definition g_ccqr_fit (costs_len : option Z) (n : Z) : outcome :=
  match costs_len with None => Ok | Some l => if l =? n then Ok else Err ValueError end.
Inductive optname := OptNone | OptExact | OptMax | OptPredetermined | OptOther.
Definition g_gqr_option (o : optname) : outcome :=
  match o with OptOther => Err NotImplementedError | _ => Ok end.

(* ---- box helper: get_constrained_sensors_indices ---- *)
Definition g_box (n_sensors : Z) (int_dtype : bool) (xmin xmax ymin ymax : Z) (nx_int ny_int : bool) : outcome :=
  if n_sensors =? 0 then Err ValueError
  else if negb int_dtype then Err ValueError
  else if xmax <=? xmin then Err ValueError
  else if ymax <=? ymin then Err ValueError
  else if negb (nx_int && ny_int) then Err ValueError
  else Ok.

(* ---- encodings for the correspondence table ---- *)
Definition out_code (o : outcome) : nat :=
  match o with Ok => 0 | Err ValueError => 1 | Err NotFittedError => 2 | Err NotImplementedError => 4 | Err TypeError => 5 end%nat.
