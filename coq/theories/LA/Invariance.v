(* C18: the ranking depends only on the geometry of the sensor rows. *)
From Coq Require Import List Arith Lia QArith Qcanon Bool Ring Field.
Import ListNotations.
From PS Require Import Sel.ArgmaxGen Sel.Greedy LA.Sums LA.Gram LA.GramProofs LA.SqrtCmp LA.Ccqr.
Open Scope Qc_scope.

(* ---------------- right multiplication by an orthogonal matrix ---------------- *)
Definition rmul (m : nat) (B Q : fmat) : fmat := fun a t => sum m (fun u => B a u * Q u t).
(* Q Q^T = I on 0..m-1 *)
Definition orthogonal (m : nat) (Q : fmat) : Prop :=
  forall u v, (u < m)%nat -> (v < m)%nat -> dot m (Q u) (Q v) = if Nat.eqb u v then 1 else 0.

Lemma sum_mul_sum n f g : sum n f * sum n g = sum n (fun u => sum n (fun v => f u * g v)).
Proof. rewrite <- sum_scale_r. apply sum_ext. intros u _. now rewrite sum_scale. Qed.

Theorem gram_right_orth m B Q : orthogonal m Q -> forall a b, gram m (rmul m B Q) a b = gram m B a b.
Proof.
  intros HQ a b. unfold gram, dot, rmul.
  (* sum_t (sum_u B a u Q u t)(sum_v B b v Q v t) = sum_u sum_v B a u B b v (sum_t Q u t Q v t) *)
  rewrite (sum_ext m _ (fun t => sum m (fun u => sum m (fun v => (B a u * B b v) * (Q u t * Q v t))))).
  2:{ intros t _. rewrite sum_mul_sum. apply sum_ext. intros u _. apply sum_ext. intros v _. ring. }
  rewrite sum_swap. apply sum_ext. intros u Hu.
  rewrite sum_swap.
  rewrite (sum_ext m _ (fun v => (B a u * B b v) * dot m (Q u) (Q v))).
  2:{ intros v _. unfold dot. rewrite <- sum_scale. reflexivity. }
  rewrite (sum_single m u); auto.
  - rewrite HQ by auto. rewrite Nat.eqb_refl. ring.
  - intros v Hv Hne. rewrite HQ by auto. destruct (Nat.eqb_spec u v) as [E|E]; [congruence|ring].
Qed.

(* the loops only read the Gram matrix on 0..n-1 *)
Lemma ginit_ext n G1 G2 : (forall a b, (a < n)%nat -> (b < n)%nat -> G1 a b = G2 a b) -> ginit n G1 = ginit n G2.
Proof. intro H. unfold ginit. now rewrite (memo_ext n G1 G2 H). Qed.

Theorem rank_right_orth m n k B Q : orthogonal m Q ->
  gram_greedy n k (gram m (rmul m B Q)) = gram_greedy n k (gram m B) /\
  forall cost, ccqr_gram n k cost (gram m (rmul m B Q)) = ccqr_gram n k cost (gram m B).
Proof.
  intro HQ. assert (E : ginit n (gram m (rmul m B Q)) = ginit n (gram m B)).
  { apply ginit_ext. intros a b _ _. now apply gram_right_orth. }
  split; [unfold gram_greedy|intro cost; unfold ccqr_gram]; now rewrite E.
Qed.

(* ---------------- positive rescaling ---------------- *)
Lemma gram_scale m B c a b : gram m (fun x t => c * B x t) a b = c * c * gram m B a b.
Proof. unfold gram, dot. rewrite <- sum_scale. apply sum_ext. intros; ring. Qed.

(* two Gram matrices proportional on 0..n-1 stay proportional under the same elimination step *)
Lemma schur_scale n s G1 G2 p : s <> 0 -> (p < n)%nat ->
  (forall a b, (a < n)%nat -> (b < n)%nat -> G2 a b = s * G1 a b) ->
  forall a b, (a < n)%nat -> (b < n)%nat -> schur_f G2 p a b = s * schur_f G1 p a b.
Proof.
  intros Hs Hp H a b Ha Hb. unfold schur_f. rewrite !H by auto.
  destruct (Qc_eq_dec (G1 p p) 0) as [Z|NZ].
  - rewrite Z. replace (s * 0) with 0 by ring. destruct (Qc_eq_dec 0 0); [reflexivity|congruence].
  - destruct (Qc_eq_dec (s * G1 p p) 0) as [Z'|_].
    + destruct (Qcmult_integral _ _ Z'); contradiction.
    + field. split; auto.
Qed.

Lemma Qcleb_scale s a b : 0 < s -> Qcleb (s * a) (s * b) = Qcleb a b.
Proof.
  intro Hs. destruct (Qcleb a b) eqn:E.
  - apply Qcleb_iff. apply Qcleb_iff in E. rewrite !(Qcmult_comm s). apply Qcmult_le_compat_r; auto. now apply Qclt_le_weak.
  - destruct (Qcleb (s * a) (s * b)) eqn:F; auto. apply Qcleb_iff in F.
    rewrite !(Qcmult_comm s) in F. apply Qcmult_lt_0_le_reg_r in F; auto. apply Qcleb_iff in F. congruence.
Qed.

(* lockstep of two runs whose Gram matrices stay related and whose keys compare alike *)
Section Lockstep.
Variable K : Type.
Variable leb : K -> K -> bool.
Hypothesis leb_refl : forall x, leb x x = true.
Hypothesis leb_trans : forall x y z, leb x y = true -> leb y z = true -> leb x z = true.
Hypothesis leb_total : forall x y, leb x y = true \/ leb y x = true.
Variables key1 key2 : fmat -> nat -> K.
Variable dk : K.
Variable n : nat.
Variable Rel : fmat -> fmat -> Prop.
Hypothesis Rel_step : forall G1 G2 p, Rel G1 G2 -> (p < n)%nat -> Rel (memo n (schur_f G1 p)) (memo n (schur_f G2 p)).
Hypothesis Rel_keys : forall G1 G2 c c', Rel G1 G2 -> (c < n)%nat -> (c' < n)%nat ->
  leb (key1 G1 c) (key1 G1 c') = leb (key2 G2 c) (key2 G2 c').

Lemma grun_lockstep k G1 G2 : Rel (memo n G1) (memo n G2) ->
  snd (grun K leb key1 n k (ginit n G1)) = snd (grun K leb key2 n k (ginit n G2)) /\
  Rel (fst (grun K leb key1 n k (ginit n G1))) (fst (grun K leb key2 n k (ginit n G2))) /\
  (forall c, In c (fst (snd (grun K leb key1 n k (ginit n G1))) ++ snd (snd (grun K leb key1 n k (ginit n G1)))) -> (c < n)%nat).
Proof.
  intro H0. induction k as [|k IH]; cbn [grun].
  - unfold ginit. simpl. split; auto. split; auto. intros c Hc; apply in_seq in Hc; lia.
  - destruct IH as (E & HR & HB).
    destruct (grun K leb key1 n k (ginit n G1)) as [Ga [rk cs]].
    destruct (grun K leb key2 n k (ginit n G2)) as [Gb [rk' cs']].
    simpl in E. injection E as <- <-. simpl in HB, HR. unfold gstep.
    destruct cs as [|c0 rest]; [simpl; auto|].
    assert (Ea : argmax_by K leb (map (key1 Ga) (c0 :: rest)) = argmax_by K leb (map (key2 Gb) (c0 :: rest))).
    { apply (argmax_by_congr K leb K leb (key1 Ga 0%nat) (key2 Gb 0%nat)); auto.
      - now rewrite !map_length.
      - intros i j Hi Hj. rewrite map_length in Hi, Hj. rewrite !map_nth.
        apply Rel_keys; auto; apply HB; apply in_or_app; right; now apply nth_In. }
    rewrite <- Ea. set (i := argmax_by K leb (map (key1 Ga) (c0 :: rest))).
    assert (Hi : (i < length (c0 :: rest))%nat).
    { destruct (argmax_by_spec K leb leb_refl leb_trans leb_total dk (map (key1 Ga) (c0 :: rest))) as (A & _); [discriminate|].
      now rewrite map_length in A. }
    assert (Hp : (nth i (c0 :: rest) 0 < n)%nat) by (apply HB; apply in_or_app; right; now apply nth_In).
    cbn [fst snd]. split; [reflexivity|]. split; [now apply Rel_step|].
    intros c Hc. rewrite <- app_assoc in Hc. apply in_app_or in Hc. destruct Hc as [Hc|Hc]; [apply HB; apply in_or_app; now left|].
    simpl in Hc. destruct Hc as [<-|Hc]; auto.
    apply HB. apply in_or_app. right. destruct i as [|i']; [now right|].
    apply replace_In in Hc. destruct Hc as [->|Hc]; [now left|now right].
Qed.
End Lockstep.

Definition proportional (n : nat) (s : Qc) (G1 G2 : fmat) : Prop :=
  forall a b, (a < n)%nat -> (b < n)%nat -> G2 a b = s * G1 a b.

Lemma proportional_step n s G1 G2 p : s <> 0 -> proportional n s G1 G2 -> (p < n)%nat ->
  proportional n s (memo n (schur_f G1 p)) (memo n (schur_f G2 p)).
Proof. intros Hs H Hp a b Ha Hb. rewrite !memo_ok by auto. now apply (schur_scale n). Qed.

(* rescaling the basis matrix by c > 0 does not change the QR ranking *)
Theorem rank_scale_qr m n k B c : 0 < c ->
  gram_greedy n k (gram m (fun x t => c * B x t)) = gram_greedy n k (gram m B).
Proof.
  intro Hc. assert (Hs : 0 < c * c).
  { replace 0 with (0 * c) by ring. apply Qcmult_lt_compat_r; auto. }
  assert (Hs' : c * c <> 0) by (intro Z; rewrite Z in Hs; apply Qclt_not_eq in Hs; congruence).
  unfold gram_greedy, gpivots.
  destruct (grun_lockstep Qc Qcleb Qcleb_refl Qcleb_trans Qcleb_total qr_key qr_key 0 n (proportional n (c * c))
              (fun G1 G2 p H Hp => proportional_step n (c * c) G1 G2 p Hs' H Hp)) with (k := k) (G1 := gram m B)
              (G2 := gram m (fun x t => c * B x t)) as (E & _).
  - intros G1 G2 x y H Hx Hy. unfold qr_key. rewrite !H by auto. symmetry. now apply Qcleb_scale.
  - intros a b Ha Hb. rewrite !memo_ok by auto. apply gram_scale.
  - now rewrite E.
Qed.

(* ---------------- CCQR: rescaling the basis AND the costs by c > 0 ---------------- *)
From Coq Require Import Reals Lra.
From PS Require Import LA.SqrtCmpProofs.

Lemma clamp_scale s a : (0 < s)%Qc -> clamp (s * a) = (s * clamp a)%Qc.
Proof.
  intro Hs. unfold clamp.
  destruct (Qclt_le_dec a 0) as [L|L]; destruct (Qclt_le_dec (s * a) 0) as [L'|L']; auto; try ring.
  - exfalso. apply Qclt_not_le in L. apply L.
    replace 0%Qc with (0 * s)%Qc in L' by ring. rewrite (Qcmult_comm s a) in L'. apply Qcmult_lt_0_le_reg_r in L'; auto.
  - exfalso. apply Qclt_not_le in L'. apply L'. replace 0%Qc with (0 * s)%Qc by ring. rewrite (Qcmult_comm s a).
    apply Qcmult_le_compat_r; auto. now apply Qclt_le_weak.
Qed.

Lemma sqrt_leb_scale c a c1 b c2 : (0 < c)%Qc ->
  sqrt_leb ((c * c * a)%Qc, (c * c1)%Qc) ((c * c * b)%Qc, (c * c2)%Qc) = sqrt_leb (a, c1) (b, c2).
Proof.
  intro Hc.
  assert (Hs : (0 < c * c)%Qc) by (replace 0%Qc with (0 * c)%Qc by ring; apply Qcmult_lt_compat_r; auto).
  assert (Rc : (0 < r c)%R).
  { rewrite <- r_0. apply Rnot_le_lt. intro X. apply r_le in X. apply Qclt_not_le in Hc. contradiction. }
  assert (V : forall x y, val ((c * c * x)%Qc, (c * y)%Qc) = (r c * val (x, y))%R).
  { intros x y. unfold val. simpl. rewrite clamp_scale by auto. rewrite !r_mul.
    pose proof (r_clamp x) as Hx.
    rewrite sqrt_mult by nra. rewrite sqrt_square by lra. ring. }
  apply Bool.eq_true_iff_eq. rewrite !sqrt_leb_spec, !V. split; intro H; nra.
Qed.

Theorem rank_scale_ccqr m n k B cost c : (0 < c)%Qc ->
  ccqr_gram n k (fun x => (c * cost x)%Qc) (gram m (fun x t => (c * B x t)%Qc)) = ccqr_gram n k cost (gram m B).
Proof.
  intro Hc. assert (Hs : (0 < c * c)%Qc) by (replace 0%Qc with (0 * c)%Qc by ring; apply Qcmult_lt_compat_r; auto).
  assert (Hs' : (c * c)%Qc <> 0%Qc) by (intro Z; rewrite Z in Hs; apply Qclt_not_eq in Hs; congruence).
  unfold ccqr_gram, gpivots.
  destruct (grun_lockstep (Qc * Qc)%type sqrt_leb sqrt_leb_refl sqrt_leb_trans sqrt_leb_total
              (ccqr_key cost) (ccqr_key (fun x => (c * cost x)%Qc)) (0%Qc, 0%Qc) n (proportional n (c * c))
              (fun G1 G2 p H Hp => proportional_step n (c * c)%Qc G1 G2 p Hs' H Hp)) with (k := k) (G1 := gram m B)
              (G2 := gram m (fun x t => (c * B x t)%Qc)) as (E & _).
  - intros G1 G2 x y H Hx Hy. unfold ccqr_key. rewrite !H by auto. symmetry. now apply sqrt_leb_scale.
  - intros a b Ha Hb. rewrite !memo_ok by auto. apply gram_scale.
  - now rewrite E.
Qed.
