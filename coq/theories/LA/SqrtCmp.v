(* Exact decision of  sqrt(a) - c1 <= sqrt(b) - c2  over the rationals (model, executable), used by the CCQR model to
   compare "residual norm - cost" without computing square roots; its specification is stated in the reals. *)
From Coq Require Import QArith Qcanon Bool.
Open Scope Qc_scope.

Definition Qcleb' (x y : Qc) : bool := Qle_bool x y.
Definition clamp (a : Qc) : Qc := if Qclt_le_dec a 0 then 0 else a.

(* keys are pairs (squared residual norm, cost) *)
Definition sqrt_leb (k1 k2 : Qc * Qc) : bool :=
  let a := clamp (fst k1) in
  let b := clamp (fst k2) in
  let e := snd k1 - snd k2 in
  if Qcleb' 0 e
  then Qcleb' (a - b - e * e) 0 || Qcleb' ((a - b - e * e) * (a - b - e * e)) (Q2Qc 4 * e * e * b)
  else Qcleb' 0 (b - a - e * e) && Qcleb' (Q2Qc 4 * e * e * a) ((b - a - e * e) * (b - a - e * e)).
