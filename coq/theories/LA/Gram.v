(* Pivoted QR as pivoted Cholesky on the Gram matrix (model, executable over Qc).
   In exact arithmetic the squared column norms of the Householder trailing block of B^T are the diagonal of the
   Schur complement of G = B B^T with respect to the rows ranked so far; only + - * / are needed, so the model is
   exact.  A zero-residual pivot leaves the Gram matrix unchanged ("removes no direction").
   Sources: _qr.py:44 (LAPACK geqp3), _ccqr.py 85-96 + 128-143, _gqr.py 93-132. *)
From Coq Require Import List Arith QArith Qcanon Bool.
Import ListNotations.
From PS Require Import Sel.ArgmaxGen Sel.Greedy LA.Sums LA.SqrtCmp.
Open Scope Qc_scope.

Definition fmat := nat -> nat -> Qc.
Definition q (a : Z) (b : positive) : Qc := Q2Qc (a # b).
Definition Qcleb (x y : Qc) : bool := Qle_bool x y.

(* a list of rows as an index function, and back (tabulation keeps evaluation polynomial) *)
Definition of_rows (rows : list (list Qc)) : fmat := fun a t => nth t (nth a rows []) 0.
Definition tab (n : nat) (G : fmat) : list (list Qc) := map (fun a => map (G a) (seq 0 n)) (seq 0 n).
Definition memo (n : nat) (G : fmat) : fmat := of_rows (tab n G).

Definition gram (m : nat) (B : fmat) : fmat := fun a b => dot m (B a) (B b).

(* one elimination step on pivot p *)
Definition schur_f (G : fmat) (p : nat) : fmat :=
  fun a b => if Qc_eq_dec (G p p) 0 then G a b else G a b - G a p * G p b / G p p.

Definition gstate := (fmat * (list nat * list nat))%type.

Section Loop.
Variable K : Type.
Variable leb : K -> K -> bool.
Variable keyf : fmat -> nat -> K.       (* key of candidate c given the current Schur complement *)
Variable n : nat.

Definition gstep (st : gstate) : gstate :=
  let '(G, (rk, cs)) := st in
  match cs with
  | [] => st
  | c0 :: rest =>
      let i := argmax_by K leb (map (keyf G) cs) in
      let p := nth i cs 0%nat in
      (memo n (schur_f G p), (rk ++ [p], match i with O => rest | S i' => replace i' c0 rest end))
  end.
Fixpoint grun (k : nat) (st : gstate) : gstate := match k with O => st | S k' => gstep (grun k' st) end.
Definition ginit (G : fmat) : gstate := (memo n G, ([], seq 0 n)).
Definition gpivots (st : gstate) : list nat := fst (snd st) ++ snd (snd st).
End Loop.

(* QR / unconstrained CCQR / unconstrained GQR: largest squared residual norm first *)
Definition qr_key (G : fmat) (c : nat) : Qc := G c c.
Definition gram_greedy (n k : nat) (G : fmat) : list nat := gpivots (grun Qc Qcleb qr_key n k (ginit n G)).

(* the squared residual norms the loop sees at each step, for the follow-mode check of an observed ranking *)
Fixpoint follow (n : nat) (G : fmat) (picks : list nat) : list (list Qc) :=
  match picks with
  | [] => []
  | p :: rest => map (fun c => G c c) (seq 0 n) :: follow n (memo n (schur_f G p)) rest
  end.
(* observed pick p at a step with diagonal d and still-unranked candidates: "maximal within rounding tolerance" means
   sqrt(d_p) >= (1 - rho) sqrt(d_c) - tau for every unranked c  (rho relative, tau absolute, both on the NORM scale),
   decided exactly: sqrt((1-rho)^2 d_c) - tau <= sqrt(d_p) - 0 *)
Fixpoint check_follow (rho tau : Qc) (diags : list (list Qc)) (picks : list nat) (ranked : list nat) : bool :=
  match diags, picks with
  | d :: ds, p :: ps =>
      forallb (fun c => existsb (Nat.eqb c) ranked ||
                        sqrt_leb ((1 - rho) * (1 - rho) * nth c d 0, tau) (nth p d 0, 0)) (seq 0 (length d)) &&
      negb (existsb (Nat.eqb p) ranked) && check_follow rho tau ds ps (p :: ranked)
  | _, _ => true
  end.
Definition check_greedy (rho tau : Qc) (n : nat) (G : fmat) (picks : list nat) : bool :=
  check_follow rho tau (follow n (memo n G) picks) picks [].
(* exact margin between the best and the second best candidate at every step (for the margin-guarded equality) *)
