From Coq Require Import QArith Qcanon Bool Reals Qreals Lra Psatz.
From PS Require Import LA.SqrtCmp.

Definition r (x : Qc) : R := Q2R (this x).

Lemma r_Q2Qc q : r (Q2Qc q) = Q2R q.
Proof. unfold r. simpl. apply Qeq_eqR. apply Qred_correct. Qed.
Lemma r_add x y : r (x + y)%Qc = (r x + r y)%R.
Proof. unfold Qcplus. rewrite r_Q2Qc. apply Q2R_plus. Qed.
Lemma r_mul x y : r (x * y)%Qc = (r x * r y)%R.
Proof. unfold Qcmult. rewrite r_Q2Qc. apply Q2R_mult. Qed.
Lemma r_opp x : r (- x)%Qc = (- r x)%R.
Proof. unfold Qcopp. rewrite r_Q2Qc. apply Q2R_opp. Qed.
Lemma r_sub x y : r (x - y)%Qc = (r x - r y)%R.
Proof. unfold Qcminus. rewrite r_add, r_opp. lra. Qed.
Lemma r_0 : r 0%Qc = 0%R.
Proof. change 0%Qc with (Q2Qc 0). rewrite r_Q2Qc. unfold Q2R. simpl. lra. Qed.
Lemma r_4 : r (Q2Qc 4) = 4%R.
Proof. rewrite r_Q2Qc. unfold Q2R. simpl. lra. Qed.
Lemma r_le x y : (x <= y)%Qc <-> (r x <= r y)%R.
Proof. unfold Qcle, r. split; [apply Qle_Rle|apply Rle_Qle]. Qed.
Lemma leb'_iff x y : Qcleb' x y = true <-> (r x <= r y)%R.
Proof. unfold Qcleb'. rewrite Qle_bool_iff. apply r_le. Qed.
Lemma leb'_false x y : Qcleb' x y = false <-> (r y < r x)%R.
Proof.
  split; intro H.
  - destruct (Rle_or_lt (r x) (r y)) as [L|L]; auto. apply leb'_iff in L. congruence.
  - destruct (Qcleb' x y) eqn:E; auto. apply leb'_iff in E. lra.
Qed.
Lemma r_clamp a : (0 <= r (clamp a))%R.
Proof.
  unfold clamp. destruct (Qclt_le_dec a 0) as [L|L].
  - rewrite r_0. lra.
  - apply r_le in L. rewrite r_0 in L. exact L.
Qed.

(* value of a key in the reals *)
Definition val (k : Qc * Qc) : R := (sqrt (r (clamp (fst k))) - r (snd k))%R.

Lemma core_pos x y e : (0 <= x -> 0 <= y -> 0 <= e ->
  (x <= y + e <-> (x*x - y*y - e*e <= 0 \/ (x*x - y*y - e*e) * (x*x - y*y - e*e) <= 4*e*e*(y*y))))%R.
Proof.
  intros Hx Hy He. split.
  - intro H. destruct (Rle_dec (x*x - y*y - e*e) 0); [left; auto|right].
    assert (x*x - y*y - e*e <= 2*e*y)%R by nra.
    assert (0 <= 2*e*y)%R by nra. nra.
  - intros [H|H].
    + assert (x*x <= (y+e)*(y+e))%R by nra. nra.
    + destruct (Rle_dec (x*x - y*y - e*e) 0). { assert (x*x <= (y+e)*(y+e))%R by nra. nra. }
      assert (x*x - y*y - e*e <= 2*e*y)%R.
      { destruct (Rle_dec (x*x - y*y - e*e) (2*e*y)); auto. exfalso.
        assert (0 <= 2*e*y)%R by nra. nra. }
      assert (x*x <= (y+e)*(y+e))%R by nra. nra.
Qed.

Lemma core_neg x y f : (0 <= x -> 0 <= y -> 0 < f ->
  (x + f <= y <-> (0 <= y*y - x*x - f*f /\ 4*f*f*(x*x) <= (y*y - x*x - f*f) * (y*y - x*x - f*f))))%R.
Proof.
  intros Hx Hy Hf. split.
  - intro H. assert (2*f*x <= y*y - x*x - f*f)%R by nra. assert (0 <= 2*f*x)%R by nra. split; nra.
  - intros [H1 H2].
    assert (2*f*x <= y*y - x*x - f*f)%R.
    { destruct (Rle_dec (2*f*x) (y*y - x*x - f*f)); auto. exfalso. assert (0 <= 2*f*x)%R by nra. nra. }
    assert ((x+f)*(x+f) <= y*y)%R by nra. nra.
Qed.

Theorem sqrt_leb_spec k1 k2 : sqrt_leb k1 k2 = true <-> (val k1 <= val k2)%R.
Proof.
  unfold sqrt_leb, val.
  set (a := clamp (fst k1)). set (b := clamp (fst k2)). set (e := (snd k1 - snd k2)%Qc).
  pose proof (r_clamp (fst k1)) as Ha. pose proof (r_clamp (fst k2)) as Hb. fold a in Ha. fold b in Hb.
  set (x := sqrt (r a)). set (y := sqrt (r b)).
  assert (Hx : (0 <= x)%R) by apply sqrt_pos. assert (Hy : (0 <= y)%R) by apply sqrt_pos.
  assert (Xx : (x * x = r a)%R) by (apply sqrt_sqrt; exact Ha).
  assert (Yy : (y * y = r b)%R) by (apply sqrt_sqrt; exact Hb).
  assert (Ee : r e = (r (snd k1) - r (snd k2))%R) by (unfold e; apply r_sub).
  destruct (Qcleb' 0 e) eqn:E0.
  - apply leb'_iff in E0. rewrite r_0 in E0.
    rewrite orb_true_iff, !leb'_iff. rewrite !r_mul, !r_sub, !r_mul, r_0, r_4.
    rewrite <- Xx, <- Yy.
    pose proof (core_pos x y (r e) Hx Hy E0) as C.
    split; intro H.
    + assert (x <= y + r e)%R by (apply C; destruct H; [left|right]; lra). lra.
    + assert (x <= y + r e)%R by lra. apply C in H0. destruct H0; [left|right]; lra.
  - apply leb'_false in E0. rewrite r_0 in E0.
    rewrite andb_true_iff, !leb'_iff. rewrite !r_mul, !r_sub, !r_mul, r_0, r_4.
    rewrite <- Xx, <- Yy.
    pose proof (core_neg x y (- r e) Hx Hy ltac:(lra)) as C.
    split; intro H.
    + assert (x + - r e <= y)%R by (apply C; destruct H; split; nra). lra.
    + assert (x + - r e <= y)%R by lra. apply C in H0. destruct H0; split; nra.
Qed.

(* hence a total preorder: what the generic first-maximum argmax needs *)
Lemma sqrt_leb_refl k : sqrt_leb k k = true.
Proof. apply sqrt_leb_spec. lra. Qed.
Lemma sqrt_leb_trans k1 k2 k3 : sqrt_leb k1 k2 = true -> sqrt_leb k2 k3 = true -> sqrt_leb k1 k3 = true.
Proof. rewrite !sqrt_leb_spec. lra. Qed.
Lemma sqrt_leb_total k1 k2 : sqrt_leb k1 k2 = true \/ sqrt_leb k2 k1 = true.
Proof. rewrite !sqrt_leb_spec. lra. Qed.

(* only the difference of the costs matters *)
Lemma sqrt_leb_shift a c1 b c2 d : sqrt_leb (a, (c1 + d)%Qc) (b, (c2 + d)%Qc) = sqrt_leb (a, c1) (b, c2).
Proof. unfold sqrt_leb. simpl. replace (c1 + d - (c2 + d))%Qc with (c1 - c2)%Qc by ring. reflexivity. Qed.
