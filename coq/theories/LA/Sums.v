(* Linear algebra over the exact rationals Qc in index-function form: a vector of length n is a function nat -> Qc
   read on 0..n-1, a matrix is nat -> nat -> Qc, every contraction is the finite sum [sum n f].  Linearity, sum
   exchange and the adjoint identity then need no length side conditions.  Every finite double is a rational, so
   "for all Qc matrices" covers every input the implementation can be given, in exact-arithmetic semantics. *)
From Coq Require Import List Arith Lia QArith Qcanon Ring Field.
Import ListNotations.
Open Scope Qc_scope.

Fixpoint sum (n : nat) (f : nat -> Qc) : Qc := match n with O => 0 | S k => sum k f + f k end.

Lemma sum_ext n f g : (forall i, (i < n)%nat -> f i = g i) -> sum n f = sum n g.
Proof. induction n; simpl; intros H; auto. rewrite IHn, H; auto. Qed.
Lemma sum_add n f g : sum n (fun i => f i + g i) = sum n f + sum n g.
Proof. induction n; simpl. ring. rewrite IHn. ring. Qed.
Lemma sum_sub n f g : sum n (fun i => f i - g i) = sum n f - sum n g.
Proof. induction n; simpl. ring. rewrite IHn. ring. Qed.
Lemma sum_scale n c f : sum n (fun i => c * f i) = c * sum n f.
Proof. induction n; simpl. ring. rewrite IHn. ring. Qed.
Lemma sum_scale_r n c f : sum n (fun i => f i * c) = sum n f * c.
Proof. induction n; simpl. ring. rewrite IHn. ring. Qed.
Lemma sum_zero n f : (forall i, (i < n)%nat -> f i = 0) -> sum n f = 0.
Proof. induction n; simpl; intros H; auto. rewrite IHn by auto. rewrite H by auto. ring. Qed.
Lemma sum_swap n m (f : nat -> nat -> Qc) :
  sum n (fun i => sum m (fun j => f i j)) = sum m (fun j => sum n (fun i => f i j)).
Proof.
  induction n; simpl.
  - induction m; simpl; auto. rewrite <- IHm. ring.
  - rewrite IHn. rewrite <- sum_add. reflexivity.
Qed.
(* the sum picks out a single index *)
Lemma sum_single n k f : (k < n)%nat -> (forall i, (i < n)%nat -> i <> k -> f i = 0) -> sum n f = f k.
Proof.
  induction n; intros Hk H; [lia|]. simpl. destruct (Nat.eq_dec k n) as [->|Hne].
  - rewrite sum_zero; [ring|]. intros i Hi. apply H; lia.
  - rewrite IHn; [|lia|intros; apply H; lia]. rewrite (H n); [ring|lia|lia].
Qed.

Definition dot n (u v : nat -> Qc) := sum n (fun i => u i * v i).
Definition matvec (m : nat) (B : nat -> nat -> Qc) (a : nat -> Qc) : nat -> Qc := fun i => dot m (B i) a.
Definition tmatvec (p : nat) (B : nat -> nat -> Qc) (r : nat -> Qc) : nat -> Qc := fun j => sum p (fun i => B i j * r i).
Definition vsub (u v : nat -> Qc) := fun i => u i - v i.
Definition vadd (u v : nat -> Qc) := fun i => u i + v i.
Definition vscale (c : Qc) (u : nat -> Qc) := fun i => c * u i.
Definition nrm2 n u := dot n u u.

Lemma dot_comm n u v : dot n u v = dot n v u.
Proof. unfold dot. apply sum_ext. intros; ring. Qed.
Lemma dot_add_l n u v w : dot n (vadd u v) w = dot n u w + dot n v w.
Proof. unfold dot, vadd. rewrite <- sum_add. apply sum_ext. intros; ring. Qed.
Lemma dot_sub_l n u v w : dot n (vsub u v) w = dot n u w - dot n v w.
Proof. unfold dot, vsub. rewrite <- sum_sub. apply sum_ext. intros; ring. Qed.
Lemma dot_scale_l n c u w : dot n (vscale c u) w = c * dot n u w.
Proof. unfold dot, vscale. rewrite <- sum_scale. apply sum_ext. intros; ring. Qed.
Lemma dot_ext n u u' v v' : (forall i, (i < n)%nat -> u i = u' i) -> (forall i, (i < n)%nat -> v i = v' i) ->
  dot n u v = dot n u' v'.
Proof. intros H1 H2. unfold dot. apply sum_ext. intros i Hi. now rewrite H1, H2. Qed.

Lemma adjoint p m B a r : dot p (matvec m B a) r = dot m a (tmatvec p B r).
Proof.
  unfold dot, matvec, tmatvec, dot.
  rewrite (sum_ext p _ (fun i => sum m (fun j => B i j * a j * r i))).
  2:{ intros i _. now rewrite sum_scale_r. }
  rewrite sum_swap. apply sum_ext. intros j _. rewrite <- sum_scale. apply sum_ext. intros; ring.
Qed.

(* ---- order ---- *)
Lemma Qc_sq_nonneg x : 0 <= x * x.
Proof.
  destruct (Qclt_le_dec x 0) as [H|H].
  - assert (0 <= - x). { apply Qclt_le_weak in H. apply Qcopp_le_compat in H. now replace (- 0) with 0 in H by ring. }
    replace (x * x) with ((- x) * (- x)) by ring.
    replace 0 with (0 * - x) by ring. now apply Qcmult_le_compat_r.
  - replace 0 with (0 * x) by ring. now apply Qcmult_le_compat_r.
Qed.
Lemma Qc_add_nonneg x y : 0 <= x -> 0 <= y -> 0 <= x + y.
Proof. intros. replace 0 with (0 + 0) by ring. now apply Qcplus_le_compat. Qed.
Lemma Qcle_add_nonneg x y : 0 <= y -> x <= x + y.
Proof. intro H. replace x with (x + 0) at 1 by ring. apply Qcplus_le_compat; [apply Qcle_refl|exact H]. Qed.
Lemma nrm2_nonneg n u : 0 <= nrm2 n u.
Proof. unfold nrm2, dot. induction n; simpl. apply Qcle_refl. apply Qc_add_nonneg; auto. apply Qc_sq_nonneg. Qed.
Lemma Qc_sum_zero_l x y : 0 <= x -> 0 <= y -> x + y = 0 -> x = 0 /\ y = 0.
Proof.
  intros Hx Hy H. assert (Ex : x = - y) by (transitivity (x + y - y); [ring|rewrite H; ring]).
  assert (Ly : y <= 0).
  { rewrite Ex in Hx. apply Qcopp_le_compat in Hx. rewrite Qcopp_involutive in Hx. now replace (- 0) with 0 in Hx by ring. }
  assert (Ey : y = 0) by (apply Qcle_antisym; auto).
  split; [rewrite Ex, Ey; ring|exact Ey].
Qed.
Lemma Qc_sq_zero x : x * x = 0 -> x = 0.
Proof. intro H. destruct (Qcmult_integral _ _ H); auto. Qed.
(* a vanishing sum of squares: every entry vanishes *)
Lemma nrm2_zero n u : nrm2 n u = 0 -> forall i, (i < n)%nat -> u i = 0.
Proof.
  unfold nrm2, dot. induction n; intros H i Hi; [lia|]. simpl in H.
  destruct (Qc_sum_zero_l _ _ (nrm2_nonneg n u) (Qc_sq_nonneg (u n)) H) as [H1 H2].
  destruct (Nat.eq_dec i n) as [->|]; [now apply Qc_sq_zero|]. apply IHn; auto. lia.
Qed.

(* ---- least squares: the normal equations imply optimality (any dimensions) ---- *)
Definition residual (p m : nat) (B : nat -> nat -> Qc) (a y : nat -> Qc) := vsub (matvec m B a) y.
Definition normal_eqs (p m : nat) (B : nat -> nat -> Qc) (a y : nat -> Qc) := forall j, (j < m)%nat -> tmatvec p B (residual p m B a y) j = 0.

Lemma matvec_sub m B a a' i : matvec m B (vsub a' a) i = matvec m B a' i - matvec m B a i.
Proof. unfold matvec, dot, vsub. rewrite <- sum_sub. apply sum_ext. intros; ring. Qed.

Theorem lsq_optimal p m B y a a' : normal_eqs p m B a y ->
  nrm2 p (residual p m B a y) <= nrm2 p (residual p m B a' y).
Proof.
  intro NE. set (r := residual p m B a y). set (d := vsub a' a).
  assert (X : dot p (matvec m B d) r = 0).
  { rewrite adjoint. unfold dot. apply sum_zero. intros j Hj. unfold r. rewrite NE by auto. ring. }
  assert (E : nrm2 p (residual p m B a' y) = nrm2 p r + nrm2 p (matvec m B d)).
  { unfold nrm2.
    assert (R' : forall i, residual p m B a' y i = vadd r (matvec m B d) i).
    { intro i. unfold residual, vadd, r, residual, vsub, d. rewrite matvec_sub. unfold vsub. ring. }
    rewrite (dot_ext p _ (vadd r (matvec m B d)) _ (vadd r (matvec m B d))) by (intros; apply R').
    rewrite dot_add_l. rewrite (dot_comm p r (vadd _ _)), (dot_comm p (matvec m B d) (vadd _ _)).
    rewrite !dot_add_l. rewrite (dot_comm p r (matvec m B d)), X. ring. }
  rewrite E. apply Qcle_add_nonneg. apply nrm2_nonneg.
Qed.

(* two solutions of the normal equations have the same image: B a = B a' on the p measured rows *)
Theorem lsq_image_unique p m B y a a' : normal_eqs p m B a y -> normal_eqs p m B a' y ->
  forall i, (i < p)%nat -> matvec m B a i = matvec m B a' i.
Proof.
  intros N1 N2. set (d := vsub a' a).
  assert (Z : nrm2 p (matvec m B d) = 0).
  { unfold nrm2. rewrite adjoint. unfold dot. apply sum_zero. intros j Hj.
    assert (E : tmatvec p B (matvec m B d) j = tmatvec p B (residual p m B a' y) j - tmatvec p B (residual p m B a y) j).
    { unfold tmatvec. rewrite <- sum_sub. apply sum_ext. intros i _. unfold residual, vsub, d. rewrite matvec_sub. ring. }
    rewrite E, N1, N2 by auto. ring. }
  intros i Hi. pose proof (nrm2_zero p _ Z i Hi) as H. unfold d in H. rewrite matvec_sub in H.
  transitivity (matvec m B a i + 0); [ring|]. rewrite <- H. ring.
Qed.

(* exact recovery: if the measured rows have trivial kernel and the measurements come from a0, every solution of the
   normal equations IS a0 (on the m coefficients), hence B a = B a0 everywhere *)
Definition kernel_trivial p m (B : nat -> nat -> Qc) :=
  forall d, (forall i, (i < p)%nat -> matvec m B d i = 0) -> forall j, (j < m)%nat -> d j = 0.

Theorem span_exact p m B a0 a : kernel_trivial p m B ->
  normal_eqs p m B a (matvec m B a0) -> forall j, (j < m)%nat -> a j = a0 j.
Proof.
  intros K NE.
  assert (N0 : normal_eqs p m B a0 (matvec m B a0)).
  { intros j Hj. unfold tmatvec. apply sum_zero. intros i _. unfold residual, vsub. ring. }
  pose proof (lsq_image_unique p m B _ a a0 NE N0) as Im.
  intros j Hj. assert (Z : vsub a a0 j = 0).
  { apply (K (vsub a a0)); auto. intros i Hi. rewrite matvec_sub. rewrite Im by auto. ring. }
  unfold vsub in Z. transitivity (a j - a0 j + a0 j); [ring|]. rewrite Z. ring.
Qed.

Theorem full_matvec_ext m (Bfull : nat -> nat -> Qc) a a0 : (forall j, (j < m)%nat -> a j = a0 j) ->
  forall i, matvec m Bfull a i = matvec m Bfull a0 i.
Proof. intros H i. unfold matvec, dot. apply sum_ext. intros j Hj. now rewrite H. Qed.
