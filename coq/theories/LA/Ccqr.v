(* CCQR over the Gram model (executable): the pivot maximises  residual norm - cost, costs addressed by sensor id;
   norms are never computed: keys are pairs (squared residual norm, cost) compared exactly by SqrtCmp.sqrt_leb.
   Source: _ccqr.py 85-96 and qr_reflector 101-143. *)
From Coq Require Import List Arith QArith Qcanon Bool.
Import ListNotations.
From PS Require Import Sel.ArgmaxGen Sel.Greedy LA.Sums LA.Gram LA.SqrtCmp.
Open Scope Qc_scope.

Definition ccqr_key (cost : nat -> Qc) (G : fmat) (c : nat) : Qc * Qc := (G c c, cost c).
Definition ccqr_gram (n k : nat) (cost : nat -> Qc) (G : fmat) : list nat :=
  gpivots (grun (Qc * Qc) sqrt_leb (ccqr_key cost) n k (ginit n G)).
Definition cost_of_list (l : list Qc) (c : nat) : Qc := nth c l 0.
