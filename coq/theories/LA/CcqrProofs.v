From Coq Require Import List Arith Lia QArith Qcanon Bool Reals Qreals Lra.
Import ListNotations.
From PS Require Import Sel.ArgmaxGen Sel.Greedy LA.Sums LA.Gram LA.GramProofs LA.SqrtCmp LA.SqrtCmpProofs LA.Ccqr.
Close Scope Qc_scope.
Close Scope R_scope.
Open Scope nat_scope.

(* runs whose keys compare alike at every visited state coincide *)
Lemma grun_congr K1 leb1 (key1 : fmat -> nat -> K1) K2 leb2 (key2 : fmat -> nat -> K2) (d1 : K1) (d2 : K2) n
  (Inv : gstate -> Prop) :
  (forall x, leb1 x x = true) -> (forall x y z, leb1 x y = true -> leb1 y z = true -> leb1 x z = true) ->
  (forall x y, leb1 x y = true \/ leb1 y x = true) ->
  (forall x, leb2 x x = true) -> (forall x y z, leb2 x y = true -> leb2 y z = true -> leb2 x z = true) ->
  (forall x y, leb2 x y = true \/ leb2 y x = true) ->
  (forall st, Inv st -> Inv (gstep K1 leb1 key1 n st)) ->
  (forall G rk cs, Inv (G, (rk, cs)) -> forall c c', In c cs -> In c' cs ->
      leb1 (key1 G c) (key1 G c') = leb2 (key2 G c) (key2 G c')) ->
  forall k st, Inv st -> grun K1 leb1 key1 n k st = grun K2 leb2 key2 n k st.
Proof.
  intros R1 T1 O1 R2 T2 O2 Hstep Hcmp. induction k as [|k IH]; intros st Hst; auto. simpl.
  rewrite <- (IH st Hst).
  assert (Hk : Inv (grun K1 leb1 key1 n k st)).
  { clear IH. induction k; simpl; auto. }
  destruct (grun K1 leb1 key1 n k st) as [G [rk cs]]. unfold gstep.
  destruct cs as [|c0 rest]; auto.
  assert (E : argmax_by K1 leb1 (map (key1 G) (c0 :: rest)) = argmax_by K2 leb2 (map (key2 G) (c0 :: rest))).
  { apply (argmax_by_congr K1 leb1 K2 leb2 (key1 G 0) (key2 G 0)); auto.
    - now rewrite !map_length.
    - intros i j Hi Hj. rewrite map_length in Hi, Hj. rewrite !map_nth. apply (Hcmp G rk (c0 :: rest) Hk); now apply nth_In. }
  now rewrite E.
Qed.

Section CCQR.
Variables m n : nat.
Variable B : nat -> nat -> Qc.
Variable cost : nat -> Qc.
Notation run j := (grun (Qc * Qc)%type sqrt_leb (ccqr_key cost) n j (ginit n (gram m B))).

(* C04 core: every pick maximises  sqrt(squared residual) - cost  among the sensors not yet ranked (statement in R),
   the squared residual being |R c|^2 for the residual rows R of GramProofs (distance to the span of the ranked rows) *)
Theorem ccqr_step_max j :
  let '(G, (rk, cs)) := run j in
  let R := rows_after m n B rk in
  cs <> [] ->
  let p := nth (argmax_by (Qc * Qc)%type sqrt_leb (map (ccqr_key cost G) cs)) cs 0%nat in
  In p cs /\ resid_ok m n B R rk /\
  forall c, In c cs ->
    (sqrt (r (nrm2 m (R c))) - r (cost c) <= sqrt (r (nrm2 m (R p))) - r (cost p))%R.
Proof.
  pose proof (st_ok_run (Qc * Qc)%type sqrt_leb sqrt_leb_refl sqrt_leb_trans sqrt_leb_total (ccqr_key cost) (0%Qc, 0%Qc) m n B j) as H.
  pose proof (step_key_max (Qc * Qc)%type sqrt_leb sqrt_leb_refl sqrt_leb_trans sqrt_leb_total (ccqr_key cost) (0%Qc, 0%Qc) m n B j) as S.
  destruct (run j) as [G [rk cs]]. destruct H as (HG & HR & HB & _).
  cbv zeta. intros Hne. destruct (S Hne) as [Hin Hmax]. split; auto. split; auto.
  intros c Hc. specialize (Hmax c Hc). apply sqrt_leb_spec in Hmax. unfold val, ccqr_key in Hmax. simpl in Hmax.
  assert (Hcn : (c < n)%nat) by (apply HB; apply in_or_app; now right).
  set (p := nth (argmax_by (Qc * Qc)%type sqrt_leb (map (ccqr_key cost G) cs)) cs 0%nat) in *.
  assert (Hpn : (p < n)%nat) by (apply HB; apply in_or_app; now right).
  assert (Cl : forall a, (a < n)%nat -> clamp (G a a) = nrm2 m (rows_after m n B rk a)).
  { intros a Ha. unfold clamp. rewrite HG by auto. fold (nrm2 m (rows_after m n B rk a)).
    destruct (Qclt_le_dec (nrm2 m (rows_after m n B rk a)) 0) as [L|L]; auto.
    exfalso. apply Qclt_not_le in L. apply L. apply nrm2_nonneg. }
  rewrite !Cl in Hmax by auto. exact Hmax.
Qed.
(* a sensor whose cost exceeds its own norm is never ranked before a zero-cost sensor that still has non-zero residual *)
Theorem ccqr_prohibitive j i z :
  let '(G, (rk, cs)) := run j in
  let R := rows_after m n B rk in
  In i cs -> In z cs -> cost z = 0%Qc -> (0 < nrm2 m (R z))%Qc ->
  (sqrt (r (nrm2 m (B i))) < r (cost i))%R ->
  nth (argmax_by (Qc * Qc)%type sqrt_leb (map (ccqr_key cost G) cs)) cs 0%nat <> i.
Proof.
  pose proof (st_ok_run (Qc * Qc)%type sqrt_leb sqrt_leb_refl sqrt_leb_trans sqrt_leb_total (ccqr_key cost) (0%Qc, 0%Qc) m n B j) as H.
  pose proof (ccqr_step_max j) as S.
  destruct (run j) as [G [rk cs]]. destruct H as (HG & HR & HB & HD).
  cbv zeta in *. intros Hi Hz Cz Pz Ci E.
  assert (Hne : cs <> []) by (intro X; subst; contradiction).
  destruct (S Hne) as (_ & _ & Hmax). rewrite E in Hmax.
  specialize (Hmax z Hz). rewrite Cz, r_0 in Hmax.
  assert (Hin : (i < n)%nat) by (apply HB; apply in_or_app; now right).
  assert (Dle : (nrm2 m (rows_after m n B rk i) <= nrm2 m (B i))%Qc).
  { specialize (HD i Hin). rewrite HG in HD by auto. exact HD. }
  apply r_le in Dle.
  assert (N0 : (0 <= r (nrm2 m (rows_after m n B rk i)))%R).
  { rewrite <- r_0. apply r_le. apply nrm2_nonneg. }
  assert (sqrt (r (nrm2 m (rows_after m n B rk i))) <= sqrt (r (nrm2 m (B i))))%R by (apply sqrt_le_1; lra).
  assert (Pz' : (0 < r (nrm2 m (rows_after m n B rk z)))%R).
  { rewrite <- r_0. destruct (Qcle_lt_or_eq _ _ (Qclt_le_weak _ _ Pz)) as [L|L].
    - apply Rnot_le_lt. intro X. apply r_le in X. apply Qclt_not_le in L. contradiction.
    - exfalso. rewrite <- L in Pz. apply Qclt_not_eq in Pz. congruence. }
  assert (0 < sqrt (r (nrm2 m (rows_after m n B rk z))))%R by (apply sqrt_lt_R0; exact Pz').
  lra.
Qed.
End CCQR.


(* adding the same constant to every cost never changes the ranking *)
Theorem ccqr_shift n k cost d G :
  ccqr_gram n k (fun c => (cost c + d)%Qc) G = ccqr_gram n k cost G.
Proof.
  unfold ccqr_gram. f_equal.
  apply (grun_congr _ sqrt_leb _ _ sqrt_leb _ (0%Qc, 0%Qc) (0%Qc, 0%Qc) n (fun _ => True)
           sqrt_leb_refl sqrt_leb_trans sqrt_leb_total sqrt_leb_refl sqrt_leb_trans sqrt_leb_total); auto.
  intros G' rk cs _ c c' _ _. unfold ccqr_key. apply sqrt_leb_shift.
Qed.

(* zero costs reproduce the unconstrained (QR) ranking, ties included *)
Lemma sqrt_leb_zero_cost a b : (0 <= a)%Qc -> (0 <= b)%Qc -> sqrt_leb (a, 0%Qc) (b, 0%Qc) = Qcleb a b.
Proof.
  intros Ha Hb.
  assert (Ca : clamp a = a). { unfold clamp. destruct (Qclt_le_dec a 0) as [L|L]; auto. exfalso. apply Qclt_not_le in L. auto. }
  assert (Cb : clamp b = b). { unfold clamp. destruct (Qclt_le_dec b 0) as [L|L]; auto. exfalso. apply Qclt_not_le in L. auto. }
  apply r_le in Ha. apply r_le in Hb. rewrite r_0 in Ha, Hb.
  destruct (Qcleb a b) eqn:E.
  - apply sqrt_leb_spec. unfold val. simpl. rewrite Ca, Cb. apply GramProofs.Qcleb_iff, r_le in E.
    assert (sqrt (r a) <= sqrt (r b))%R by (apply sqrt_le_1; auto). lra.
  - destruct (sqrt_leb (a, 0%Qc) (b, 0%Qc)) eqn:F; auto.
    apply sqrt_leb_spec in F. unfold val in F. simpl in F. rewrite Ca, Cb in F.
    assert (sqrt (r a) <= sqrt (r b))%R by lra. apply sqrt_le_0 in H; auto.
    apply r_le, GramProofs.Qcleb_iff in H. congruence.
Qed.

Theorem ccqr_zero_eq_qr m n k B :
  ccqr_gram n k (fun _ => 0%Qc) (gram m B) = gram_greedy n k (gram m B).
Proof.
  unfold ccqr_gram, gram_greedy. f_equal.
  apply (grun_congr _ sqrt_leb _ _ Qcleb _ (0%Qc, 0%Qc) 0%Qc n
           (st_ok m n B)
           sqrt_leb_refl sqrt_leb_trans sqrt_leb_total GramProofs.Qcleb_refl GramProofs.Qcleb_trans GramProofs.Qcleb_total).
  - intros st H. apply (st_ok_step (Qc * Qc)%type sqrt_leb sqrt_leb_refl sqrt_leb_trans sqrt_leb_total _ (0%Qc, 0%Qc)); auto.
  - intros G rk cs (HG & _ & HB & _) c c' Hc Hc'. unfold ccqr_key, qr_key.
    assert ((c < n)%nat /\ (c' < n)%nat) as [A1 A2] by (split; apply HB; apply in_or_app; now right).
    apply sqrt_leb_zero_cost; rewrite HG by auto; apply nrm2_nonneg.
  - apply st_ok_init.
Qed.
