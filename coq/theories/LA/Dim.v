(* The one piece of dimension theory the properties need (C02 default-QR clause, C03 rank clause):
   more vectors than dimensions => a non-trivial linear relation; hence r "sequentially independent" vectors cannot all
   lie in the span of fewer than r vectors.  Consequences for the greedy (pivoted QR) model of LA/Gram.v:
   - if B has r sequentially independent rows, each of the first r pivots has positive residual, so the first r
     ranked rows are sequentially independent (rank_pivots_positive, first_r_independent);
   - if B (n x m) has trivial kernel, the first m ranked rows already have trivial kernel (greedy_kernel_trivial). *)
From Coq Require Import List Arith Lia QArith Qcanon Ring Field Permutation.
Import ListNotations.
From PS Require Import Sel.ArgmaxGen Sel.Greedy Sel.GreedyProofs LA.Sums LA.Gram LA.GramProofs.
Open Scope Qc_scope.

(* ------------------------------------------------------------------ dim_lemma *)
Definition skip (p i : nat) : nat := if (i <? p)%nat then i else S i.

Lemma sum_skip n p f : (p <= n)%nat -> sum (S n) f = f p + sum n (fun i => f (skip p i)).
Proof.
  revert p; induction n as [|n IH]; intros p Hp.
  - assert (p = 0)%nat by lia; subst. simpl. ring.
  - destruct (Nat.eq_dec p (S n)) as [->|Hne].
    + change (sum (S (S n)) f) with (sum (S n) f + f (S n)).
      rewrite (sum_ext (S n) (fun i => f (skip (S n) i)) f).
      2:{ intros i Hi. unfold skip. destruct (Nat.ltb_spec i (S n)); [auto|lia]. }
      ring.
    + change (sum (S (S n)) f) with (sum (S n) f + f (S n)). rewrite (IH p) by lia.
      change (sum (S n) (fun i => f (skip p i))) with (sum n (fun i => f (skip p i)) + f (skip p n)).
      unfold skip at 3. destruct (Nat.ltb_spec n p); [lia|]. ring.
Qed.

Lemma find_nonzero N (g : nat -> Qc) : (forall i, (i < N)%nat -> g i = 0) \/ (exists p, (p < N)%nat /\ g p <> 0).
Proof.
  induction N as [|N IH]; [left; intros; lia|].
  destruct IH as [H|[p [Hp Hn]]]; [|right; exists p; split; [lia|auto]].
  destruct (Qc_eq_dec (g N) 0) as [E|E].
  - left. intros i Hi. destruct (Nat.eq_dec i N); [subst; auto|apply H; lia].
  - right. exists N. split; [lia|auto].
Qed.

Lemma sum_opp n f : sum n (fun i => - f i) = - sum n f.
Proof. induction n; simpl; [ring|rewrite IHn; ring]. Qed.

(* more vectors (N) than dimensions (m) => a non-trivial linear relation *)
Theorem dim_lemma : forall m N (v : nat -> nat -> Qc), (m < N)%nat ->
  exists c : nat -> Qc, (exists i, (i < N)%nat /\ c i <> 0) /\ forall j, (j < m)%nat -> sum N (fun i => c i * v i j) = 0.
Proof.
  induction m as [|m IH]; intros N v HN.
  - exists (fun _ => 1). split; [exists 0%nat; split; [lia|discriminate]|intros; lia].
  - destruct (find_nonzero N (fun i => v i m)) as [Hz|[p [Hp Hnz]]].
    + destruct (IH N v ltac:(lia)) as [c [Hc Hrel]]. exists c. split; auto.
      intros j Hj. destruct (Nat.eq_dec j m) as [->|]; [|apply Hrel; lia].
      apply sum_zero. intros i Hi. rewrite Hz by auto. ring.
    + destruct N as [|N]; [lia|].
      set (w := fun i j => v (skip p i) j - (v (skip p i) m / v p m) * v p j).
      destruct (IH N w ltac:(lia)) as [d [[i0 [Hi0 Hd0]] Hrel]].
      set (cp := - (sum N (fun i => d i * (v (skip p i) m / v p m)))).
      set (c := fun i => if Nat.eq_dec i p then cp else if (i <? p)%nat then d i else d (pred i)).
      assert (Hc : forall i, c (skip p i) = d i).
      { intros i. unfold c, skip. destruct (Nat.ltb_spec i p).
        - destruct (Nat.eq_dec i p); [lia|]. destruct (Nat.ltb_spec i p); [auto|lia].
        - destruct (Nat.eq_dec (S i) p); [lia|]. destruct (Nat.ltb_spec (S i) p); [lia|auto]. }
      assert (Hcp : c p = cp). { unfold c. destruct (Nat.eq_dec p p); [auto|lia]. }
      exists c. split.
      * exists (skip p i0). split; [unfold skip; destruct (Nat.ltb_spec i0 p); lia|now rewrite Hc].
      * intros j Hj. rewrite (sum_skip N p) by lia. rewrite Hcp.
        rewrite (sum_ext N _ (fun i => d i * v (skip p i) j)) by (intros; now rewrite Hc).
        destruct (Nat.eq_dec j m) as [->|Hjm].
        -- unfold cp.
           rewrite (sum_ext N (fun i => d i * (v (skip p i) m / v p m)) (fun i => (d i * v (skip p i) m) * (1 / v p m))).
           2:{ intros; field; auto. }
           rewrite sum_scale_r. field. auto.
        -- assert (Hr := Hrel j ltac:(lia)). unfold w in Hr.
           rewrite (sum_ext N _ (fun i => d i * v (skip p i) j + (- (d i * (v (skip p i) m / v p m))) * v p j)) in Hr.
           2:{ intros; field; auto. }
           rewrite sum_add, sum_scale_r, sum_opp in Hr. fold cp in Hr. rewrite <- Hr. ring.
Qed.

(* ------------------------------------------------------------------ spans as finite sums *)
Lemma map_seq_snoc {A} (g : nat -> A) k : map g (seq 0 (S k)) = map g (seq 0 k) ++ [g k].
Proof. rewrite seq_S, map_app. reflexivity. Qed.

Lemma lincomb_of_sum m (g : nat -> nat -> Qc) k c v :
  (forall t, (t < m)%nat -> v t = sum k (fun i => c i * g i t)) -> lincomb m (map g (seq 0 k)) v.
Proof.
  revert v. induction k as [|k IH]; intros v H.
  - apply lc_zero. intros t Ht. rewrite H by auto. reflexivity.
  - rewrite map_seq_snoc. apply (lc_add m _ (g k) (c k) (fun t => sum k (fun i => c i * g i t))).
    + apply in_or_app. right. now left.
    + eapply lincomb_mono; [|apply IH; reflexivity]. intros x Hx. apply in_or_app. now left.
    + intros t Ht. rewrite H by auto. reflexivity.
Qed.

Lemma lincomb_coeffs m (g : nat -> nat -> Qc) k v : lincomb m (map g (seq 0 k)) v ->
  exists c : nat -> Qc, forall t, (t < m)%nat -> v t = sum k (fun i => c i * g i t).
Proof.
  intro H. induction H as [v Z|g0 c0 w v Hg Hw [c IH] Hv].
  - exists (fun _ => 0). intros t Ht. rewrite Z by auto. symmetry. apply sum_zero. intros; ring.
  - apply in_map_iff in Hg. destruct Hg as [i0 [<- Hi0]]. apply in_seq in Hi0.
    exists (fun i => if Nat.eq_dec i i0 then c i + c0 else c i). intros t Ht. rewrite Hv, IH by auto.
    rewrite (sum_ext k (fun i => (if Nat.eq_dec i i0 then c i + c0 else c i) * g i t)
                       (fun i => c i * g i t + (if Nat.eq_dec i i0 then c0 * g i0 t else 0))).
    2:{ intros i Hi. destruct (Nat.eq_dec i i0); [subst; ring|ring]. }
    rewrite sum_add. f_equal. symmetry.
    rewrite (sum_single k i0); [|lia|intros i Hi Hne; destruct (Nat.eq_dec i i0); [contradiction|reflexivity]].
    destruct (Nat.eq_dec i0 i0); [reflexivity|contradiction].
Qed.

Lemma finite_choice {A} (P : nat -> A -> Prop) (d : A) r : (forall k, (k < r)%nat -> exists c, P k c) ->
  exists a : nat -> A, forall k, (k < r)%nat -> P k (a k).
Proof.
  induction r as [|r IH]; intro H; [exists (fun _ => d); intros; lia|].
  destruct IH as [a Ha]; [intros; apply H; lia|]. destruct (H r ltac:(lia)) as [c Hc].
  exists (fun k => if Nat.eq_dec k r then c else a k). intros k Hk.
  destruct (Nat.eq_dec k r); [subst; auto|apply Ha; lia].
Qed.

(* ------------------------------------------------------------------ sequential independence *)
(* no vector is a combination of the ones before it *)
Definition seq_indep (m : nat) (u : nat -> nat -> Qc) (r : nat) : Prop :=
  forall k, (k < r)%nat -> ~ lincomb m (map u (seq 0 k)) (u k).

Lemma indep_no_relation m u r lam : seq_indep m u r ->
  (forall t, (t < m)%nat -> sum r (fun k => lam k * u k t) = 0) -> forall k, (k < r)%nat -> lam k = 0.
Proof.
  induction r as [|r IH]; intros Hind Hrel k Hk; [lia|].
  assert (Hlast : lam r = 0).
  { destruct (Qc_eq_dec (lam r) 0) as [E|E]; [exact E|]. exfalso. apply (Hind r ltac:(lia)).
    apply (lincomb_of_sum m u r (fun i => - (lam i / lam r))). intros t Ht.
    specialize (Hrel t Ht). simpl in Hrel.
    rewrite (sum_ext r (fun i => - (lam i / lam r) * u i t) (fun i => (lam i * u i t) * (- (1 / lam r)))) by (intros; field; auto).
    rewrite sum_scale_r.
    assert (X : sum r (fun k0 => lam k0 * u k0 t) = - (lam r * u r t)) by (rewrite <- (Qcplus_0_l (- _)), <- Hrel; ring).
    rewrite X. field. auto. }
  destruct (Nat.eq_dec k r) as [->|Hne]; [exact Hlast|].
  apply IH; [intros k' Hk'; apply Hind; lia| |lia].
  intros t Ht. specialize (Hrel t Ht). simpl in Hrel. rewrite Hlast in Hrel. rewrite <- Hrel. ring.
Qed.

(* r sequentially independent vectors cannot all lie in the span of j < r vectors *)
Theorem span_dim m (u g : nat -> nat -> Qc) r j : seq_indep m u r ->
  (forall k, (k < r)%nat -> lincomb m (map g (seq 0 j)) (u k)) -> (r <= j)%nat.
Proof.
  intros Hind Hspan. destruct (le_lt_dec r j) as [|Hlt]; [assumption|exfalso].
  destruct (finite_choice (fun k (c : nat -> Qc) => forall t, (t < m)%nat -> u k t = sum j (fun i => c i * g i t)) (fun _ => 0) r)
    as [a Ha]; [intros k Hk; apply lincomb_coeffs; auto|].
  destruct (dim_lemma j r a Hlt) as [lam [[i0 [Hi0 Hnz]] Hrel]].
  apply Hnz. apply (indep_no_relation m u r lam Hind); [|exact Hi0].
  intros t Ht.
  rewrite (sum_ext r (fun k => lam k * u k t) (fun k => sum j (fun i => (lam k * a k i) * g i t))).
  2:{ intros k Hk. rewrite (Ha k Hk t Ht). rewrite <- sum_scale. apply sum_ext. intros; ring. }
  rewrite sum_swap. apply sum_zero. intros i Hi.
  rewrite sum_scale_r, (Hrel i Hi). ring.
Qed.

Lemma In_firstn_incl {A} k (l : list A) x : In x (firstn k l) -> In x l.
Proof. intro H. rewrite <- (firstn_skipn k l). apply in_or_app. now left. Qed.

(* ------------------------------------------------------------------ the greedy loop ranks every sensor once *)
Section Cover.
Variable K : Type.
Variable leb : K -> K -> bool.
Hypothesis leb_refl : forall x, leb x x = true.
Hypothesis leb_trans : forall x y z, leb x y = true -> leb y z = true -> leb x z = true.
Hypothesis leb_total : forall x y, leb x y = true \/ leb y x = true.
Variable keyf : fmat -> nat -> K.
Variable dk : K.
Variable n : nat.
Variable G0 : fmat.
Notation run j := (grun K leb keyf n j (ginit n G0)).

Lemma run_cover j : (j <= n)%nat ->
  let '(_, (rk, cs)) := run j in Permutation (rk ++ cs) (seq 0 n) /\ length rk = j.
Proof.
  induction j as [|j IH]; intro Hj.
  - simpl. split; [apply Permutation_refl|reflexivity].
  - specialize (IH ltac:(lia)). simpl. destruct (run j) as [G [rk cs]]. destruct IH as [HP HL].
    unfold gstep. destruct cs as [|c0 rest].
    + exfalso. apply Permutation_length in HP. rewrite app_nil_r, seq_length in HP. lia.
    + set (i := argmax_by K leb (map (keyf G) (c0 :: rest))).
      assert (Hi : (i < length (c0 :: rest))%nat).
      { destruct (argmax_by_spec K leb leb_refl leb_trans leb_total dk (map (keyf G) (c0 :: rest))) as (A & _); [discriminate|].
        now rewrite map_length in A. }
      split; [|rewrite app_length; simpl; lia].
      eapply Permutation_trans; [|exact HP]. rewrite <- app_assoc. apply Permutation_app_head. simpl.
      destruct i as [|i']; [apply Permutation_refl|].
      simpl. apply Permutation_sym. apply (replace_perm i' c0 rest 0%nat). simpl in Hi. lia.
Qed.
End Cover.

(* ------------------------------------------------------------------ consequences for the pivoted-QR model *)
Section Rank.
Variables m n : nat.
Variable B : nat -> nat -> Qc.
Notation run j := (grun Qc Qcleb qr_key n j (ginit n (gram m B))).

Lemma map_nth_seq (rk : list nat) : map B rk = map (fun i => B (nth i rk 0%nat)) (seq 0 (length rk)).
Proof.
  induction rk as [|x rk IH] using rev_ind; [reflexivity|].
  rewrite app_length. simpl. rewrite Nat.add_1_r, seq_S, !map_app. simpl. f_equal.
  - rewrite IH. apply map_ext_in. intros i Hi. apply in_seq in Hi. now rewrite app_nth1 by lia.
  - now rewrite app_nth2, Nat.sub_diag by lia.
Qed.

(* if the largest residual is zero, every row of B lies in the span of the ranked rows *)
Lemma exhausted_span j : (j <= n)%nat ->
  let '(G, (rk, cs)) := run j in
  let R := rows_after m n B rk in
  (forall c, In c cs -> nrm2 m (R c) = 0) -> forall a, (a < n)%nat -> lincomb m (map B rk) (B a).
Proof.
  intro Hj.
  pose proof (st_ok_run Qc Qcleb Qcleb_refl Qcleb_trans Qcleb_total qr_key 0 m n B j) as H.
  pose proof (run_cover Qc Qcleb Qcleb_refl Qcleb_trans Qcleb_total qr_key 0 n (gram m B) j Hj) as C.
  destruct (run j) as [G [rk cs]]. destruct H as (_ & HR & _ & _). destruct C as [HP _]. cbv zeta.
  intros Hz a Ha.
  assert (Hin : In a (rk ++ cs)) by (eapply Permutation_in; [apply Permutation_sym; exact HP|apply in_seq; lia]).
  apply in_app_or in Hin. destruct Hin as [Hin|Hin].
  - apply lincomb_gen. now apply in_map.
  - apply (zero_residual_dependent m n B _ rk a HR Ha). now apply Hz.
Qed.

(* C03, rank clause: if B has r sequentially independent rows, then at every step j < r of the greedy loop the pick has
   positive residual *)
Theorem rank_pivots_positive (idx : nat -> nat) r j :
  (forall k, (k < r)%nat -> (idx k < n)%nat) -> seq_indep m (fun k => B (idx k)) r -> (j < r)%nat -> (j <= n)%nat ->
  let '(G, (rk, cs)) := run j in
  let R := rows_after m n B rk in
  cs <> [] ->
  let p := nth (argmax_by Qc Qcleb (map (qr_key G) cs)) cs 0%nat in
  0 < nrm2 m (R p).
Proof.
  intros Hidx Hind Hjr Hjn.
  pose proof (greedy_step_spec m n B j) as S. pose proof (exhausted_span j Hjn) as E.
  pose proof (run_cover Qc Qcleb Qcleb_refl Qcleb_trans Qcleb_total qr_key 0 n (gram m B) j Hjn) as C.
  destruct (run j) as [G [rk cs]]. cbv zeta in *. intros Hne. destruct (S Hne) as (Hin & Hmax & _). destruct C as [_ HL].
  set (p := nth (argmax_by Qc Qcleb (map (qr_key G) cs)) cs 0%nat) in *.
  destruct (Qclt_le_dec 0 (nrm2 m (rows_after m n B rk p))) as [Hpos|Hle]; [exact Hpos|exfalso].
  assert (Hz : forall c, In c cs -> nrm2 m (rows_after m n B rk c) = 0).
  { intros c Hc. apply Qcle_antisym; [eapply Qcle_trans; [apply Hmax; exact Hc|exact Hle]|apply nrm2_nonneg]. }
  assert (X : (r <= j)%nat).
  { apply (span_dim m (fun k => B (idx k)) (fun i => B (nth i rk 0%nat)) r j Hind).
    intros k Hk. rewrite <- HL, <- map_nth_seq. apply E; auto. }
  lia.
Qed.

(* ---- bookkeeping: the ranked list grows by the pick of each step *)
Definition rk_of (j : nat) : list nat := fst (snd (run j)).
Definition cs_of (j : nat) : list nat := snd (snd (run j)).
Definition G_of (j : nat) : fmat := fst (run j).
Definition pick_of (j : nat) : nat := nth (argmax_by Qc Qcleb (map (qr_key (G_of j)) (cs_of j))) (cs_of j) 0%nat.

Lemma cs_nonempty j : (j < n)%nat -> cs_of j <> [].
Proof.
  intro Hj. pose proof (run_cover Qc Qcleb Qcleb_refl Qcleb_trans Qcleb_total qr_key 0 n (gram m B) j ltac:(lia)) as C.
  unfold cs_of. destruct (run j) as [G [rk cs]]. simpl. destruct C as [HP HL]. intro E. subst cs.
  apply Permutation_length in HP. rewrite app_nil_r, seq_length in HP. lia.
Qed.

Lemma rk_succ j : (j < n)%nat -> rk_of (S j) = rk_of j ++ [pick_of j].
Proof.
  intro Hj. pose proof (cs_nonempty j Hj) as Hne. unfold pick_of in *. unfold rk_of, G_of, cs_of in *. simpl.
  destruct (run j) as [G [rk cs]]. simpl in *. destruct cs as [|c0 rest]; [congruence|]. reflexivity.
Qed.

Lemma rk_length j : (j <= n)%nat -> length (rk_of j) = j.
Proof.
  intro Hj. pose proof (run_cover Qc Qcleb Qcleb_refl Qcleb_trans Qcleb_total qr_key 0 n (gram m B) j Hj) as C.
  unfold rk_of. destruct (run j) as [G [rk cs]]. simpl. now destruct C.
Qed.

Lemma rk_prefix j k : (j <= k)%nat -> (k <= n)%nat -> firstn j (rk_of k) = rk_of j.
Proof.
  intros Hjk Hk. induction k as [|k IH].
  - assert (j = 0)%nat by lia. subst. reflexivity.
  - destruct (Nat.eq_dec j (S k)) as [->|Hne].
    + rewrite <- (rk_length (S k) Hk) at 1. apply firstn_all.
    + rewrite rk_succ by lia. rewrite firstn_app, rk_length by lia.
      replace (j - k)%nat with 0%nat by lia. simpl. rewrite app_nil_r. apply IH; lia.
Qed.

Lemma rk_nth j k : (j < k)%nat -> (k <= n)%nat -> nth j (rk_of k) 0%nat = pick_of j.
Proof.
  intros Hjk Hk. rewrite <- (firstn_skipn (S j) (rk_of k)). rewrite app_nth1 by (rewrite firstn_length, rk_length by lia; lia).
  rewrite rk_prefix by lia. rewrite rk_succ by lia. rewrite app_nth2, rk_length, Nat.sub_diag by (rewrite ?rk_length; lia). reflexivity.
Qed.

(* facts of one step, in the rk_of / pick_of vocabulary *)
Lemma step_facts j : (j < n)%nat ->
  let R := rows_after m n B (rk_of j) in
  (pick_of j < n)%nat /\ resid_ok m n B R (rk_of j) /\ (forall c, In c (cs_of j) -> nrm2 m (R c) <= nrm2 m (R (pick_of j))).
Proof.
  intro Hj. pose proof (greedy_step_spec m n B j) as S. pose proof (cs_nonempty j Hj) as Hne.
  pose proof (st_ok_run Qc Qcleb Qcleb_refl Qcleb_trans Qcleb_total qr_key 0 m n B j) as H.
  unfold pick_of in *. unfold rk_of, cs_of, G_of in *. destruct (run j) as [G [rk cs]]. simpl in *.
  destruct (S Hne) as (Hin & Hmax & HR). destruct H as (_ & _ & HB & _). split; [|split; [exact HR|exact Hmax]].
  apply HB. apply in_or_app. right. exact Hin.
Qed.

Lemma all_positive_or_zero k : (k <= n)%nat ->
  (forall j, (j < k)%nat -> 0 < nrm2 m (rows_after m n B (rk_of j) (pick_of j))) \/
  (exists j, (j < k)%nat /\ nrm2 m (rows_after m n B (rk_of j) (pick_of j)) = 0).
Proof.
  induction k as [|k IH]; intro Hk; [left; intros; lia|].
  destruct (IH ltac:(lia)) as [H|[j [Hj Z]]]; [|right; exists j; split; [lia|auto]].
  destruct (Qclt_le_dec 0 (nrm2 m (rows_after m n B (rk_of k) (pick_of k)))) as [P|Z].
  - left. intros j Hj. destruct (Nat.eq_dec j k); [subst; auto|apply H; lia].
  - right. exists k. split; [lia|]. apply Qcle_antisym; [exact Z|apply nrm2_nonneg].
Qed.

(* C02, default-QR clause: if the basis matrix (n sensors x m modes) has trivial kernel, the first m ranked sensor rows
   already have trivial kernel - no further assumption on the selection is needed *)
Theorem greedy_kernel_trivial : (m <= n)%nat ->
  (forall d, (forall a, (a < n)%nat -> dot m (B a) d = 0) -> forall t, (t < m)%nat -> d t = 0) ->
  forall d, (forall p, In p (rk_of m) -> dot m (B p) d = 0) -> forall t, (t < m)%nat -> d t = 0.
Proof.
  intros Hmn Hker d Hd.
  destruct (all_positive_or_zero m Hmn) as [Hpos|[j [Hj Z]]].
  - (* all m pivots positive: the m ranked rows are independent vectors of Q^m *)
    set (g := fun i => B (nth i (rk_of m) 0%nat)).
    assert (Hind : seq_indep m g m).
    { intros i Hi. unfold g. rewrite (rk_nth i m Hi Hmn).
      replace (map (fun i0 => B (nth i0 (rk_of m) 0%nat)) (seq 0 i)) with (map B (rk_of i)).
      2:{ rewrite <- (rk_prefix i m) by lia. rewrite (map_nth_seq (firstn i (rk_of m))).
          rewrite firstn_length, rk_length, Nat.min_l by lia. apply map_ext_in. intros x Hx. apply in_seq in Hx.
          f_equal. rewrite <- (firstn_skipn i (rk_of m)) at 2. rewrite app_nth1; [reflexivity|].
          rewrite firstn_length, rk_length by lia. lia. }
      destruct (step_facts i ltac:(lia)) as (Hp & HR & _).
      apply (positive_pivot_independent m n B _ (rk_of i) (pick_of i) HR Hp). apply Hpos. exact Hi. }
    assert (Hgd : forall i, (i < m)%nat -> dot m (g i) d = 0).
    { intros i Hi. apply Hd. unfold g. apply nth_In. rewrite rk_length by lia. exact Hi. }
    destruct (find_nonzero m d) as [Hz|[t0 [Ht0 Hnz]]]; [exact Hz|exfalso].
    set (v := fun i => if Nat.eq_dec i m then d else g i).
    destruct (dim_lemma m (S m) v ltac:(lia)) as [c [[i0 [Hi0 Hc0]] Hrel]].
    (* the coefficient of d vanishes *)
    assert (Hdd : 0 < dot m d d).
    { destruct (Qclt_le_dec 0 (dot m d d)) as [P|L]; [exact P|exfalso]. apply Hnz.
      apply (nrm2_zero m d); [apply Qcle_antisym; [exact L|apply nrm2_nonneg]|exact Ht0]. }
    assert (Hcm : c m = 0).
    { assert (E : sum m (fun t => d t * sum (S m) (fun i => c i * v i t)) = 0).
      { apply sum_zero. intros t Ht. rewrite (Hrel t Ht). ring. }
      rewrite (sum_ext m _ (fun t => sum (S m) (fun i => (c i * v i t) * d t))) in E.
      2:{ intros t Ht. rewrite <- sum_scale. apply sum_ext. intros; ring. }
      rewrite sum_swap in E.
      rewrite (sum_ext (S m) _ (fun i => c i * dot m (v i) d)) in E.
      2:{ intros i Hi. unfold dot. rewrite <- sum_scale. apply sum_ext. intros; ring. }
      simpl in E. rewrite (sum_zero m) in E.
      2:{ intros i Hi. unfold v. destruct (Nat.eq_dec i m); [lia|]. rewrite Hgd by auto. ring. }
      unfold v in E at 1. destruct (Nat.eq_dec m m); [|contradiction].
      rewrite Qcplus_0_l in E. destruct (Qcmult_integral _ _ E) as [X|X]; [exact X|].
      rewrite X in Hdd. exfalso. apply (Qclt_not_le _ _ Hdd). apply Qcle_refl. }
    (* so the relation is among the independent rows *)
    assert (Hall : forall k, (k < m)%nat -> c k = 0).
    { apply (indep_no_relation m g m c Hind). intros t Ht. specialize (Hrel t Ht). simpl in Hrel.
      rewrite Hcm in Hrel. rewrite <- Hrel.
      rewrite (sum_ext m (fun i => c i * v i t) (fun k => c k * g k t)).
      2:{ intros i Hi. unfold v. destruct (Nat.eq_dec i m); [lia|reflexivity]. }
      ring. }
    apply Hc0. destruct (Nat.eq_dec i0 m); [subst; exact Hcm|apply Hall; lia].
  - (* some pivot j < m has zero residual: every row of B already lies in the span of the rows ranked before it *)
    destruct (step_facts j ltac:(lia)) as (Hp & HR & Hmax).
    pose proof (exhausted_span j ltac:(lia)) as E. unfold rk_of, cs_of in *.
    destruct (run j) as [G [rk cs]] eqn:Erun. simpl in *.
    assert (Hz : forall c, In c cs -> nrm2 m (rows_after m n B rk c) = 0).
    { intros c Hc. apply Qcle_antisym; [rewrite <- Z; apply Hmax; exact Hc|apply nrm2_nonneg]. }
    apply Hker. intros a Ha. rewrite dot_comm. apply (lincomb_orth m (map B rk)); [|apply E; auto].
    intros g0 Hg0. apply in_map_iff in Hg0. destruct Hg0 as [p0 [<- Hp0]]. rewrite dot_comm. apply Hd.
    assert (X : firstn j (fst (snd (run m))) = rk) by (pose proof (rk_prefix j m ltac:(lia) Hmn) as Y; unfold rk_of in Y; rewrite Erun in Y; exact Y).
    rewrite <- X in Hp0. eapply (In_firstn_incl _ _ _ Hp0).
Qed.

(* the ranking returned after k >= m steps starts with the m greedy picks *)
Lemma greedy_firstn k : (m <= k)%nat -> (k <= n)%nat -> firstn m (gram_greedy n k (gram m B)) = rk_of m.
Proof.
  intros Hmk Hkn. unfold gram_greedy, gpivots. change (fst (snd (run k))) with (rk_of k).
  rewrite firstn_app, rk_length by lia. replace (m - k)%nat with 0%nat by lia. simpl. rewrite app_nil_r.
  apply rk_prefix; lia.
Qed.

(* C02 in the form used with the reconstruction theorems: ANY selection that starts with the m greedy picks (the default
   optimizer's ranking cut at any n_sensors >= n_basis_modes, whatever the order of the tail) has trivial kernel *)
Theorem default_qr_selection_kernel_trivial sel : (m <= n)%nat ->
  kernel_trivial n m B -> firstn m sel = rk_of m ->
  kernel_trivial (length sel) m (fun i => B (nth i sel 0%nat)).
Proof.
  intros Hmn HK Hsel d Hd. apply (greedy_kernel_trivial Hmn).
  - intros d' Hd'. apply HK. intros a Ha. unfold matvec. apply Hd'. exact Ha.
  - intros p0 Hp0. rewrite <- Hsel in Hp0.
    assert (Hlen : (m <= length sel)%nat).
    { pose proof (f_equal (@length nat) Hsel) as L. rewrite firstn_length, rk_length in L by lia. lia. }
    destruct (In_nth _ _ 0%nat Hp0) as [i [Hi E]]. rewrite firstn_length, Nat.min_l in Hi by lia.
    specialize (Hd i ltac:(lia)). unfold matvec in Hd.
    rewrite <- E. rewrite <- (firstn_skipn m sel) in Hd. rewrite app_nth1 in Hd by (rewrite firstn_length; lia). exact Hd.
Qed.
End Rank.
