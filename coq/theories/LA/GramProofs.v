From Coq Require Import List Arith Lia QArith Qcanon Bool Ring Field.
Import ListNotations.
From PS Require Import Sel.ArgmaxGen Sel.Greedy LA.Sums LA.Gram.
Open Scope Qc_scope.

(* ---- Qc order as a boolean total preorder ---- *)
Lemma Qcleb_iff x y : Qcleb x y = true <-> x <= y.
Proof. unfold Qcleb, Qcle. apply Qle_bool_iff. Qed.
Lemma Qcleb_refl x : Qcleb x x = true.
Proof. apply Qcleb_iff, Qcle_refl. Qed.
Lemma Qcleb_trans x y z : Qcleb x y = true -> Qcleb y z = true -> Qcleb x z = true.
Proof. rewrite !Qcleb_iff. apply Qcle_trans. Qed.
Lemma Qcleb_total x y : Qcleb x y = true \/ Qcleb y x = true.
Proof. rewrite !Qcleb_iff. destruct (Qclt_le_dec x y); [left; now apply Qclt_le_weak|right; auto]. Qed.

Lemma Qcinv_pos x : 0 < x -> 0 < / x.
Proof.
  unfold Qclt. intro H. simpl. rewrite Qred_correct. apply Qinv_lt_0_compat. exact H.
Qed.

(* ---- tabulation round trip ---- *)
Lemma nth_map_seq {A} (f : nat -> A) n k d : (k < n)%nat -> nth k (map f (seq 0 n)) d = f k.
Proof. intro H. rewrite (nth_indep _ d (f 0%nat)) by now rewrite map_length, seq_length. rewrite map_nth. now rewrite seq_nth. Qed.

Lemma memo_ok n G a b : (a < n)%nat -> (b < n)%nat -> memo n G a b = G a b.
Proof. intros Ha Hb. unfold memo, of_rows, tab. rewrite (nth_map_seq _ n a) by auto. now rewrite nth_map_seq. Qed.

Lemma memo_ext n G1 G2 : (forall a b, (a < n)%nat -> (b < n)%nat -> G1 a b = G2 a b) -> memo n G1 = memo n G2.
Proof.
  intro H. unfold memo, tab. f_equal. apply map_ext_in. intros a Ha. apply in_seq in Ha.
  apply map_ext_in. intros b Hb. apply in_seq in Hb. apply H; lia.
Qed.

(* ---- meaning of one elimination step: the Schur complement of a Gram matrix is the Gram matrix of the rows with
        their component along the pivot row removed ---- *)
Definition deflate (m : nat) (G : fmat) (R : nat -> nat -> Qc) (p : nat) : nat -> nat -> Qc :=
  fun a => if Qc_eq_dec (G p p) 0 then R a else vsub (R a) (vscale (G a p / G p p) (R p)).

Theorem schur_is_gram_of_deflated m n G R p :
  (forall a b, (a < n)%nat -> (b < n)%nat -> G a b = dot m (R a) (R b)) -> (p < n)%nat ->
  forall a b, (a < n)%nat -> (b < n)%nat -> schur_f G p a b = dot m (deflate m G R p a) (deflate m G R p b).
Proof.
  intros HG Hp a b Ha Hb. unfold schur_f, deflate. destruct (Qc_eq_dec (G p p) 0) as [Z|NZ]; [now apply HG|].
  rewrite dot_sub_l, dot_scale_l.
  rewrite (dot_comm m (R a) (vsub _ _)), (dot_comm m (R p) (vsub _ _)).
  rewrite !dot_sub_l, !dot_scale_l.
  rewrite <- (HG b a), <- (HG p a), <- (HG b p), <- (HG p p) by auto.
  assert (S1 : G b a = G a b) by (rewrite !HG by auto; apply dot_comm).
  assert (S2 : G p a = G a p) by (rewrite !HG by auto; apply dot_comm).
  assert (S3 : G b p = G p b) by (rewrite !HG by auto; apply dot_comm).
  rewrite S1, S2, S3. field. exact NZ.
Qed.

(* the deflated rows are orthogonal to the pivot row *)
Theorem deflated_orthogonal m n G R p :
  (forall a b, (a < n)%nat -> (b < n)%nat -> G a b = dot m (R a) (R b)) -> (p < n)%nat -> G p p <> 0 ->
  forall a, (a < n)%nat -> dot m (deflate m G R p a) (R p) = 0.
Proof.
  intros HG Hp NZ a Ha. unfold deflate. destruct (Qc_eq_dec (G p p) 0) as [Z|_]; [contradiction|].
  rewrite dot_sub_l, dot_scale_l. rewrite <- (HG a p), <- (HG p p) by auto. field. exact NZ.
Qed.

(* a zero-residual pivot removes no direction *)
Theorem zero_pivot_identity G p : G p p = 0 -> forall a b, schur_f G p a b = G a b.
Proof. intros Z a b. unfold schur_f. destruct (Qc_eq_dec (G p p) 0); [reflexivity|contradiction]. Qed.

(* squared residuals never increase and stay non-negative along the elimination *)
Theorem schur_diag_bounds m n G R p :
  (forall a b, (a < n)%nat -> (b < n)%nat -> G a b = dot m (R a) (R b)) -> (p < n)%nat ->
  forall a, (a < n)%nat -> 0 <= schur_f G p a a /\ schur_f G p a a <= G a a.
Proof.
  intros HG Hp a Ha. split.
  - rewrite (schur_is_gram_of_deflated m n G R p HG Hp a a Ha Ha). apply nrm2_nonneg.
  - unfold schur_f. destruct (Qc_eq_dec (G p p) 0) as [Z|NZ]; [apply Qcle_refl|].
    assert (S : G p a = G a p) by (rewrite !HG by auto; apply dot_comm). rewrite S.
    assert (Pp : 0 < G p p).
    { destruct (Qcle_lt_or_eq 0 (G p p)); auto. rewrite HG by auto. apply nrm2_nonneg. congruence. }
    assert (0 <= G a p * G a p / G p p).
    { unfold Qcdiv. replace 0 with (0 * / G p p) by ring. apply Qcmult_le_compat_r. apply Qc_sq_nonneg.
      apply Qclt_le_weak. apply Qcinv_pos. exact Pp. }
    replace (G a a) with (G a a - G a p * G a p / G p p + G a p * G a p / G p p) at 2 by ring.
    now apply Qcle_add_nonneg.
Qed.

(* ------------------------------------------------------------------ spans and distances *)
(* v is (pointwise on 0..m-1) a linear combination of the generators *)
Inductive lincomb (m : nat) (gens : list (nat -> Qc)) : (nat -> Qc) -> Prop :=
  | lc_zero v : (forall t, (t < m)%nat -> v t = 0) -> lincomb m gens v
  | lc_add g c w v : In g gens -> lincomb m gens w -> (forall t, (t < m)%nat -> v t = w t + c * g t) -> lincomb m gens v.

Lemma lincomb_ext m gens v v' : lincomb m gens v -> (forall t, (t < m)%nat -> v' t = v t) -> lincomb m gens v'.
Proof.
  intros H E. destruct H as [v Z|g c w v Hg Hw Hv].
  - apply lc_zero. intros t Ht. rewrite E, Z; auto.
  - eapply lc_add; eauto. intros t Ht. rewrite E, Hv; auto.
Qed.
Lemma lincomb_mono m gens gens' v : incl gens gens' -> lincomb m gens v -> lincomb m gens' v.
Proof. intros I H. induction H; [now apply lc_zero|eapply lc_add; eauto]. Qed.
Lemma lincomb_gen m gens g : In g gens -> lincomb m gens g.
Proof. intro H. apply (lc_add m gens g 1 (fun _ => 0) g H); [apply lc_zero; auto|intros; ring]. Qed.
Lemma lincomb_add m gens u v : lincomb m gens u -> lincomb m gens v -> lincomb m gens (vadd u v).
Proof.
  intros Hu Hv. induction Hv as [v Z|g c w v Hg Hw IH Hv].
  - eapply lincomb_ext; [exact Hu|]. intros t Ht. unfold vadd. rewrite Z by auto. ring.
  - eapply (lc_add m gens g c (vadd u w)); eauto. intros t Ht. unfold vadd. rewrite Hv by auto. ring.
Qed.
Lemma lincomb_scale m gens c v : lincomb m gens v -> lincomb m gens (vscale c v).
Proof.
  intro H. induction H as [v Z|g c' w v Hg Hw IH Hv].
  - apply lc_zero. intros t Ht. unfold vscale. rewrite Z by auto. ring.
  - eapply (lc_add m gens g (c * c') (vscale c w)); eauto. intros t Ht. unfold vscale. rewrite Hv by auto. ring.
Qed.
Lemma lincomb_sub m gens u v : lincomb m gens u -> lincomb m gens v -> lincomb m gens (vsub u v).
Proof.
  intros Hu Hv. eapply lincomb_ext; [apply (lincomb_add m gens u (vscale (-(1)) v)); auto; now apply lincomb_scale|].
  intros t Ht. unfold vsub, vadd, vscale. ring.
Qed.
Lemma lincomb_orth m gens u v : (forall g, In g gens -> dot m u g = 0) -> lincomb m gens v -> dot m u v = 0.
Proof.
  intros Hg H. induction H as [v Z|g c w v Hin Hw IH Hv].
  - unfold dot. apply sum_zero. intros t Ht. rewrite Z by auto. ring.
  - rewrite (dot_ext m u u v (vadd w (vscale c g))); auto.
    rewrite dot_comm, dot_add_l, dot_scale_l, (dot_comm m w u), (dot_comm m g u), IH, Hg by auto. ring.
Qed.

(* Pythagoras: if r is orthogonal to w then |r + w|^2 = |r|^2 + |w|^2 >= |r|^2 *)
Lemma pythagoras_le m r w : dot m r w = 0 -> nrm2 m r <= nrm2 m (vadd r w).
Proof.
  intro H. unfold nrm2. rewrite dot_add_l, (dot_comm m r (vadd r w)), (dot_comm m w (vadd r w)), !dot_add_l.
  rewrite (dot_comm m w r), H.
  replace (dot m r r + 0 + (0 + dot m w w)) with (dot m r r + dot m w w) by ring.
  apply Qcle_add_nonneg. apply nrm2_nonneg.
Qed.

(* the rows after eliminating a list of pivots, together with the Gram matrix the loop holds at that point *)
Fixpoint rows_after (m n : nat) (B : nat -> nat -> Qc) (picks : list nat) : nat -> nat -> Qc :=
  match picks with
  | [] => B
  | p :: rest => rows_after m n (deflate m (gram m B) B p) rest
  end.

(* invariant of the residual rows with respect to the ORIGINAL rows of the pivots *)
Definition resid_ok (m n : nat) (B R : nat -> nat -> Qc) (ranked : list nat) : Prop :=
  forall a, (a < n)%nat ->
    lincomb m (map B ranked) (vsub (B a) (R a)) /\ (forall p, In p ranked -> dot m (R a) (B p) = 0).

Lemma resid_ok_step m n B R ranked p : (p < n)%nat -> resid_ok m n B R ranked ->
  resid_ok m n B (deflate m (gram m R) R p) (ranked ++ [p]).
Proof.
  intros Hp H a Ha. destruct (H a Ha) as [La Oa]. destruct (H p Hp) as [Lp Op].
  assert (Inc : incl (map B ranked) (map B (ranked ++ [p]))) by (rewrite map_app; apply incl_appl, incl_refl).
  assert (Bp : lincomb m (map B (ranked ++ [p])) (B p)) by (apply lincomb_gen; rewrite map_app; apply in_or_app; right; now left).
  unfold deflate. destruct (Qc_eq_dec (gram m R p p) 0) as [Z|NZ].
  - (* zero residual: R p = 0 on 0..m-1, so B p is a combination of the ranked rows *)
    assert (Rp0 : forall t, (t < m)%nat -> R p t = 0) by (apply nrm2_zero; exact Z).
    assert (BpL : lincomb m (map B ranked) (B p)).
    { eapply lincomb_ext; [exact Lp|]. intros t Ht. unfold vsub. rewrite Rp0 by auto. ring. }
    split; [eapply lincomb_mono; eauto|].
    intros p' Hin. apply in_app_or in Hin. destruct Hin as [Hin|[<-|[]]]; auto.
    apply lincomb_orth with (gens := map B ranked); auto.
    intros g Hg. apply in_map_iff in Hg. destruct Hg as [p' [<- Hp']]. auto.
  - set (c := gram m R a p / gram m R p p).
    split.
    + (* B a - (R a - c R p) = (B a - R a) + c (B p - (B p - R p)) *)
      eapply lincomb_ext.
      * apply (lincomb_add m _ (vsub (B a) (R a)) (vscale c (vsub (B p) (vsub (B p) (R p))))).
        -- eapply lincomb_mono; eauto.
        -- apply lincomb_scale. apply lincomb_sub; auto. eapply lincomb_mono; eauto.
      * intros t Ht. unfold vsub, vadd, vscale. ring.
    + intros p' Hin. apply in_app_or in Hin. destruct Hin as [Hin|[<-|[]]].
      * rewrite dot_sub_l, dot_scale_l, Oa, Op by auto. ring.
      * (* orthogonal to B p = R p + (B p - R p) *)
        assert (O1 : dot m (vsub (R a) (vscale c (R p))) (R p) = 0).
        { pose proof (deflated_orthogonal m n (gram m R) R p (fun _ _ _ _ => eq_refl) Hp NZ a Ha) as X.
          unfold deflate in X. destruct (Qc_eq_dec (gram m R p p) 0); [contradiction|exact X]. }
        assert (O2 : dot m (vsub (R a) (vscale c (R p))) (vsub (B p) (R p)) = 0).
        { apply lincomb_orth with (gens := map B ranked); auto.
          intros g Hg. apply in_map_iff in Hg. destruct Hg as [p' [<- Hp']].
          rewrite dot_sub_l, dot_scale_l, Oa, Op by auto. ring. }
        rewrite (dot_ext m _ (vsub (R a) (vscale c (R p))) (B p) (vadd (R p) (vsub (B p) (R p)))); auto.
        -- rewrite dot_comm, dot_add_l, (dot_comm m (R p)), (dot_comm m (vsub (B p) (R p))), O1, O2. ring.
        -- intros t Ht. unfold vadd, vsub. ring.
Qed.

Lemma resid_ok_init m n B : resid_ok m n B B [].
Proof. intros a Ha. split; [apply lc_zero; intros; unfold vsub; ring|intros p []]. Qed.

(* squared residual = squared distance to the span of the rows ranked before: a lower bound for every combination,
   attained by the combination B a - R a *)
Theorem residual_is_distance m n B R ranked a : resid_ok m n B R ranked -> (a < n)%nat ->
  (forall v, lincomb m (map B ranked) v -> nrm2 m (R a) <= nrm2 m (vsub (B a) v)) /\
  (exists v, lincomb m (map B ranked) v /\ nrm2 m (vsub (B a) v) = nrm2 m (R a)).
Proof.
  intros H Ha. destruct (H a Ha) as [La Oa]. split.
  - intros v Hv. set (w := vsub (vsub (B a) (R a)) v).
    assert (Lw : lincomb m (map B ranked) w) by (apply lincomb_sub; auto).
    assert (Ow : dot m (R a) w = 0).
    { apply lincomb_orth with (gens := map B ranked); auto.
      intros g Hg. apply in_map_iff in Hg. destruct Hg as [p [<- Hp]]. auto. }
    unfold nrm2. rewrite (dot_ext m (vsub (B a) v) (vadd (R a) w) (vsub (B a) v) (vadd (R a) w)).
    + now apply pythagoras_le.
    + intros t Ht. unfold vadd, vsub, w, vsub. ring.
    + intros t Ht. unfold vadd, vsub, w, vsub. ring.
  - exists (vsub (B a) (R a)). split; auto. unfold nrm2. apply dot_ext; intros t Ht; unfold vsub; ring.
Qed.

(* ------------------------------------------------------------------ the loop holds the Gram matrix of the residual rows *)
Lemma rows_after_app m n B l p : rows_after m n B (l ++ [p]) = deflate m (gram m (rows_after m n B l)) (rows_after m n B l) p.
Proof. revert B; induction l as [|x l IH]; intro B; simpl; auto. Qed.

Lemma deflate_ext m n G G' R p a : (forall x y, (x < n)%nat -> (y < n)%nat -> G x y = G' x y) -> (p < n)%nat -> (a < n)%nat ->
  deflate m G R p a = deflate m G' R p a.
Proof. intros H Hp Ha. unfold deflate. rewrite (H p p), (H a p) by auto. reflexivity. Qed.

Section AnyLoop.
(* any key function and any total preorder on keys: the invariant does not depend on HOW the pivot is chosen *)
Variable K : Type.
Variable leb : K -> K -> bool.
Hypothesis leb_refl : forall x, leb x x = true.
Hypothesis leb_trans : forall x y z, leb x y = true -> leb y z = true -> leb x z = true.
Hypothesis leb_total : forall x y, leb x y = true \/ leb y x = true.
Variable keyf : fmat -> nat -> K.
Variable dk : K.
Variables m n : nat.
Variable B : nat -> nat -> Qc.
Notation run j := (grun K leb keyf n j (ginit n (gram m B))).

Definition st_ok (st : gstate) : Prop :=
  let '(G, (rk, cs)) := st in
  let R := rows_after m n B rk in
  (forall a b, (a < n)%nat -> (b < n)%nat -> G a b = dot m (R a) (R b)) /\
  resid_ok m n B R rk /\ (forall c, In c (rk ++ cs) -> (c < n)%nat) /\
  (forall a, (a < n)%nat -> G a a <= gram m B a a).

Lemma replace_In i x l y : In y (replace i x l) -> y = x \/ In y l.
Proof.
  revert i; induction l as [|z l IH]; intros i H; [destruct i; simpl in H; contradiction|].
  destruct i as [|i]; simpl in H.
  - destruct H as [H|H]; [left; auto|right; right; auto].
  - destruct H as [H|H]; [right; left; auto|]. destruct (IH _ H) as [E|E]; [left; auto|right; right; auto].
Qed.

Lemma st_ok_init : st_ok (ginit n (gram m B)).
Proof.
  unfold st_ok, ginit. simpl. split; [|split; [|split]].
  - intros a b Ha Hb. now rewrite memo_ok.
  - apply resid_ok_init.
  - intros c Hc. apply in_seq in Hc. lia.
  - intros a Ha. rewrite memo_ok by auto. apply Qcle_refl.
Qed.

Lemma argmax_in_range (G : fmat) cs : cs <> [] -> (argmax_by K leb (map (keyf G) cs) < length cs)%nat.
Proof.
  intro H. destruct (argmax_by_spec K leb leb_refl leb_trans leb_total dk (map (keyf G) cs)) as (A & _).
  - destruct cs; [congruence|discriminate].
  - now rewrite map_length in A.
Qed.

Lemma st_ok_step st : st_ok st -> st_ok (gstep K leb keyf n st).
Proof.
  destruct st as [G [rk cs]]. intros (HG & HR & HB & HD). unfold gstep.
  destruct cs as [|c0 rest]; [unfold st_ok; split; [exact HG|split; [exact HR|split; [exact HB|exact HD]]]|].
  set (i := argmax_by K leb (map (keyf G) (c0 :: rest))).
  assert (Hi : (i < length (c0 :: rest))%nat) by (apply argmax_in_range; discriminate).
  set (p := nth i (c0 :: rest) 0%nat).
  assert (Hp : (p < n)%nat) by (apply HB; apply in_or_app; right; apply nth_In; exact Hi).
  unfold st_ok. rewrite rows_after_app. split; [|split; [|split]].
  - intros a b Ha Hb. rewrite memo_ok by auto.
    rewrite (schur_is_gram_of_deflated m n G (rows_after m n B rk) p HG Hp a b Ha Hb).
    rewrite (deflate_ext m n G (gram m (rows_after m n B rk)) _ p a), (deflate_ext m n G (gram m (rows_after m n B rk)) _ p b); auto.
  - apply resid_ok_step; auto.
  - intros c Hc. rewrite <- app_assoc in Hc. apply in_app_or in Hc. destruct Hc as [Hc|Hc]; [apply HB; apply in_or_app; now left|].
    simpl in Hc. destruct Hc as [<-|Hc]; auto.
    apply HB. apply in_or_app. right. destruct i as [|i']; [now right|].
    apply replace_In in Hc. destruct Hc as [->|Hc]; [now left|now right].
  - intros a Ha. rewrite memo_ok by auto.
    destruct (schur_diag_bounds m n G (rows_after m n B rk) p HG Hp a Ha) as [_ U].
    eapply Qcle_trans; [exact U|apply HD; exact Ha].
Qed.

Lemma st_ok_run j : st_ok (run j).
Proof. induction j; simpl; [apply st_ok_init|now apply st_ok_step]. Qed.

(* whatever the keys are: the pick's key is maximal among the candidates (numpy's first maximum) *)
Theorem step_key_max j :
  let '(G, (rk, cs)) := run j in
  cs <> [] ->
  let p := nth (argmax_by K leb (map (keyf G) cs)) cs 0%nat in
  In p cs /\ (forall c, In c cs -> leb (keyf G c) (keyf G p) = true).
Proof.
  destruct (run j) as [G [rk cs]]. cbv zeta. intros Hne.
  destruct (argmax_by_spec K leb leb_refl leb_trans leb_total dk (map (keyf G) cs)) as (A & F & _).
  { destruct cs; [congruence|discriminate]. }
  rewrite map_length in A. set (i := argmax_by K leb (map (keyf G) cs)) in *.
  split; [now apply nth_In|].
  intros c Hc. rewrite Forall_forall in F. specialize (F (keyf G c) (in_map _ _ _ Hc)).
  rewrite (nth_indep _ dk (keyf G 0%nat)) in F by now rewrite map_length. now rewrite map_nth in F.
Qed.
End AnyLoop.

Section QRLoop.
Variables m n : nat.
Variable B : nat -> nat -> Qc.
Notation run j := (grun Qc Qcleb qr_key n j (ginit n (gram m B))).

(* C03 core: at every step the pick has the largest squared residual among the sensors not yet ranked, where the
   squared residual of c is |R c|^2 for the rows R obtained by removing from every row its components along the
   rows ranked so far - i.e. (residual_is_distance) the squared distance of row c to their span *)
Theorem greedy_step_spec j :
  let '(G, (rk, cs)) := run j in
  let R := rows_after m n B rk in
  cs <> [] ->
  let p := nth (argmax_by Qc Qcleb (map (qr_key G) cs)) cs 0%nat in
  In p cs /\ (forall c, In c cs -> nrm2 m (R c) <= nrm2 m (R p)) /\ resid_ok m n B R rk.
Proof.
  pose proof (st_ok_run Qc Qcleb Qcleb_refl Qcleb_trans Qcleb_total qr_key 0 m n B j) as H.
  pose proof (step_key_max Qc Qcleb Qcleb_refl Qcleb_trans Qcleb_total qr_key 0 m n B j) as S.
  destruct (run j) as [G [rk cs]]. destruct H as (HG & HR & HB & _).
  cbv zeta. intros Hne. destruct (S Hne) as [Hin Hmax]. split; auto. split; auto.
  intros c Hc. specialize (Hmax c Hc). apply Qcleb_iff in Hmax. unfold qr_key in Hmax.
  assert (Hcn : (c < n)%nat) by (apply HB; apply in_or_app; now right).
  assert (Hpn : (nth (argmax_by Qc Qcleb (map (qr_key G) cs)) cs 0%nat < n)%nat) by (apply HB; apply in_or_app; now right).
  rewrite !HG in Hmax by auto. exact Hmax.
Qed.
End QRLoop.

(* a pivot with positive residual is not a combination of the rows ranked before it: the ranked rows with positive
   residual are linearly independent *)
Theorem positive_pivot_independent m n B R ranked p : resid_ok m n B R ranked -> (p < n)%nat ->
  0 < nrm2 m (R p) -> ~ lincomb m (map B ranked) (B p).
Proof.
  intros H Hp Hpos Hl. destruct (residual_is_distance m n B R ranked p H Hp) as [Hmin _].
  specialize (Hmin (B p) Hl).
  assert (Z : nrm2 m (vsub (B p) (B p)) = 0).
  { unfold nrm2, dot. apply sum_zero. intros t Ht. unfold vsub. ring. }
  rewrite Z in Hmin. apply Qclt_not_le in Hpos. contradiction.
Qed.

(* conversely a zero residual means the row IS a combination of the rows ranked before *)
Theorem zero_residual_dependent m n B R ranked p : resid_ok m n B R ranked -> (p < n)%nat ->
  nrm2 m (R p) = 0 -> lincomb m (map B ranked) (B p).
Proof.
  intros H Hp Z. destruct (H p Hp) as [L _].
  eapply lincomb_ext; [exact L|]. intros t Ht. unfold vsub. rewrite (nrm2_zero m (R p) Z t Ht). ring.
Qed.
