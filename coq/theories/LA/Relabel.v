(* C18, relabelling clause: relabelling the sensors (rows of the basis matrix, costs alike) relabels the ranking in the
   same way, whenever the greedy choices are unique.  Proved for the Gram-matrix loop of LA/Gram.v with ANY key function
   that is carried along by the relabelling (QR: squared residual; CCQR: squared residual and cost). *)
From Coq Require Import List Arith Lia QArith Qcanon Permutation.
Import ListNotations.
From PS Require Import Sel.ArgmaxGen Sel.Greedy Sel.GreedyProofs LA.Sums LA.Gram LA.GramProofs LA.SqrtCmp LA.SqrtCmpProofs LA.Ccqr LA.CcqrProofs.
Open Scope Qc_scope.

Section Relabel.
Variable K : Type.
Variable leb : K -> K -> bool.
Hypothesis leb_refl : forall x, leb x x = true.
Hypothesis leb_trans : forall x y z, leb x y = true -> leb y z = true -> leb x z = true.
Hypothesis leb_total : forall x y, leb x y = true \/ leb y x = true.
Variables key1 key2 : fmat -> nat -> K.
Variable dk : K.
Variable n : nat.
(* the relabelling: sensor a of the first problem is sensor (sg a) of the second *)
Variables sg tu : nat -> nat.
Hypothesis sg_ok : forall a, (a < n)%nat -> (sg a < n)%nat /\ tu (sg a) = a.
Hypothesis tu_ok : forall a, (a < n)%nat -> (tu a < n)%nat /\ sg (tu a) = a.

Definition Rel (G1 G2 : fmat) : Prop := forall a b, (a < n)%nat -> (b < n)%nat -> G2 (sg a) (sg b) = G1 a b.
Hypothesis Rel_keys : forall G1 G2 c, Rel G1 G2 -> (c < n)%nat -> key2 G2 (sg c) = key1 G1 c.

Lemma Rel_step G1 G2 p : Rel G1 G2 -> (p < n)%nat -> Rel (memo n (schur_f G1 p)) (memo n (schur_f G2 (sg p))).
Proof.
  intros H Hp a b Ha Hb. destruct (sg_ok a Ha) as [Sa _]. destruct (sg_ok b Hb) as [Sb _].
  rewrite !memo_ok by auto. unfold schur_f. rewrite !H by auto. reflexivity.
Qed.

(* a strict unique maximum is found wherever it stands in the candidate list *)
Lemma unique_max_pick (k1 k2 : nat -> K) (l1 l2 : list nat) p :
  Permutation l2 (map sg l1) -> (forall c, In c l1 -> k2 (sg c) = k1 c) ->
  In p l1 -> (forall c, In c l1 -> c <> p -> ltb K leb (k1 c) (k1 p) = true) ->
  (forall c c', In c l1 -> In c' l1 -> sg c = sg c' -> c = c') ->
  nth (argmax_by K leb (map k2 l2)) l2 0%nat = sg p.
Proof.
  intros HP Hk Hp Huniq Hinj.
  assert (Hne : map k2 l2 <> []).
  { intro E. apply map_eq_nil in E. subst l2. apply Permutation_nil in HP. destruct l1; [contradiction|discriminate]. }
  destruct (argmax_by_spec K leb leb_refl leb_trans leb_total dk (map k2 l2) Hne) as (A & F & _).
  rewrite map_length in A. set (i := argmax_by K leb (map k2 l2)) in *.
  assert (Hx : In (nth i l2 0%nat) (map sg l1)) by (eapply Permutation_in; [exact HP|now apply nth_In]).
  apply in_map_iff in Hx. destruct Hx as [c [Ec Hc]].
  destruct (Nat.eq_dec c p) as [->|Hne']; [now rewrite Ec|exfalso].
  specialize (Huniq c Hc Hne').
  assert (Hsp : In (sg p) l2) by (eapply Permutation_in; [apply Permutation_sym; exact HP|now apply in_map]).
  rewrite Forall_forall in F. specialize (F (k2 (sg p)) (in_map _ _ _ Hsp)).
  rewrite (nth_indep _ dk (k2 0%nat)) in F by now rewrite map_length. rewrite map_nth in F.
  fold i in F. rewrite <- Ec in F. rewrite !Hk in F by auto.
  unfold ltb in Huniq. rewrite F in Huniq. discriminate.
Qed.

Notation run1 G j := (grun K leb key1 n j (ginit n G)).
Notation run2 G j := (grun K leb key2 n j (ginit n G)).

(* "the greedy choice is unique at step j" in the first problem *)
Definition unique_at (G : fmat) (j : nat) : Prop :=
  let '(Gj, (rk, cs)) := run1 G j in
  let p := nth (argmax_by K leb (map (key1 Gj) cs)) cs 0%nat in
  forall c, In c cs -> c <> p -> ltb K leb (key1 Gj c) (key1 Gj p) = true.

Lemma head_replace_perm i (c0 : nat) rest : (i < length (c0 :: rest))%nat ->
  Permutation (c0 :: rest) (nth i (c0 :: rest) 0%nat :: match i with O => rest | S i' => replace i' c0 rest end).
Proof.
  intro Hi. destruct i as [|i']; [apply Permutation_refl|]. simpl. apply (replace_perm i' c0 rest 0%nat). simpl in Hi. lia.
Qed.

Theorem relabel_lockstep G1 G2 k : Rel (memo n G1) (memo n G2) -> (k <= n)%nat ->
  (forall j, (j < k)%nat -> unique_at G1 j) ->
  let '(Ga, (rk1, cs1)) := run1 G1 k in
  let '(Gb, (rk2, cs2)) := run2 G2 k in
  rk2 = map sg rk1 /\ Permutation cs2 (map sg cs1) /\ Rel Ga Gb /\ NoDup (rk1 ++ cs1) /\ (forall c, In c (rk1 ++ cs1) -> (c < n)%nat) /\
  length rk1 = k /\ length (rk1 ++ cs1) = n.
Proof.
  intros H0 Hk Hu. induction k as [|k IH].
  - simpl. split; [reflexivity|]. split.
    + (* seq 0 n is a permutation of its own relabelling *)
      apply NoDup_Permutation_bis.
      * apply seq_NoDup.
      * rewrite map_length. lia.
      * intros x Hx. apply in_seq in Hx. destruct (tu_ok x ltac:(lia)) as [T S]. apply in_map_iff. exists (tu x). split; auto. apply in_seq. lia.
    + split; [exact H0|]. split; [apply seq_NoDup|]. split; [intros c Hc; apply in_seq in Hc; lia|]. split; [reflexivity|apply seq_length].
  - specialize (IH ltac:(lia) (fun j Hj => Hu j ltac:(lia))). pose proof (Hu k ltac:(lia)) as U. unfold unique_at in U.
    cbn [grun]. destruct (run1 G1 k) as [Ga [rk1 cs1]]. destruct (run2 G2 k) as [Gb [rk2 cs2]].
    destruct IH as (Erk & HP & HR & ND & HB & HL & HN). cbv zeta in U. unfold gstep.
    destruct cs1 as [|c0 rest].
    { exfalso. rewrite app_nil_r in HN. lia. }
    destruct cs2 as [|d0 rest2]; [apply Permutation_nil in HP; discriminate|].
    set (i1 := argmax_by K leb (map (key1 Ga) (c0 :: rest))) in *.
    set (p := nth i1 (c0 :: rest) 0%nat) in *.
    assert (Hi1 : (i1 < length (c0 :: rest))%nat).
    { destruct (argmax_by_spec K leb leb_refl leb_trans leb_total dk (map (key1 Ga) (c0 :: rest))) as (A & _); [discriminate|].
      now rewrite map_length in A. }
    assert (Hpin : In p (c0 :: rest)) by now apply nth_In.
    assert (Hpn : (p < n)%nat) by (apply HB; apply in_or_app; now right).
    set (i2 := argmax_by K leb (map (key2 Gb) (d0 :: rest2))).
    assert (Hi2 : (i2 < length (d0 :: rest2))%nat).
    { destruct (argmax_by_spec K leb leb_refl leb_trans leb_total dk (map (key2 Gb) (d0 :: rest2))) as (A & _); [discriminate|].
      now rewrite map_length in A. }
    assert (Hpick : nth i2 (d0 :: rest2) 0%nat = sg p).
    { apply (unique_max_pick (key1 Ga) (key2 Gb) (c0 :: rest) (d0 :: rest2) p HP); auto.
      - intros c Hc. apply Rel_keys; auto. apply HB. apply in_or_app. now right.
      - intros c c' Hc Hc' E. destruct (sg_ok c) as [_ T1]; [apply HB; apply in_or_app; now right|].
        destruct (sg_ok c') as [_ T2]; [apply HB; apply in_or_app; now right|]. congruence. }
    pose proof (head_replace_perm i1 c0 rest Hi1) as P1. fold p in P1.
    pose proof (head_replace_perm i2 d0 rest2 Hi2) as P2. rewrite Hpick in P2.
    set (cs1' := match i1 with O => rest | S i' => replace i' c0 rest end) in *.
    set (cs2' := match i2 with O => rest2 | S i' => replace i' d0 rest2 end) in *.
    cbn [fst snd]. rewrite Hpick. split; [rewrite Erk, map_app; reflexivity|]. split.
    + apply (Permutation_cons_inv (a := sg p)). eapply Permutation_trans; [apply Permutation_sym; exact P2|].
      eapply Permutation_trans; [exact HP|]. change (sg p :: map sg cs1') with (map sg (p :: cs1')). now apply Permutation_map.
    + split; [apply Rel_step; auto|]. split.
      * rewrite <- app_assoc. simpl. eapply Permutation_NoDup; [|exact ND]. apply Permutation_app_head. exact P1.
      * split; [|split; [rewrite app_length; simpl; lia|]].
        2:{ rewrite <- HN. rewrite <- app_assoc. simpl. rewrite !app_length. simpl. f_equal.
            apply Permutation_length in P1. simpl in P1. lia. }
        intros c Hc. apply HB. rewrite <- app_assoc in Hc. simpl in Hc. apply in_app_or in Hc. apply in_or_app.
        destruct Hc as [Hc|Hc]; [now left|right]. eapply Permutation_in; [apply Permutation_sym; exact P1|exact Hc].
Qed.

(* the first k ranked sensors of the relabelled problem are the relabelled first k ranked sensors *)
Corollary relabel_ranking G1 G2 k : Rel (memo n G1) (memo n G2) -> (k <= n)%nat -> (forall j, (j < k)%nat -> unique_at G1 j) ->
  firstn k (gpivots (run2 G2 k)) = map sg (firstn k (gpivots (run1 G1 k))).
Proof.
  intros H0 Hk Hu. pose proof (relabel_lockstep G1 G2 k H0 Hk Hu) as L. unfold gpivots.
  destruct (run1 G1 k) as [Ga [rk1 cs1]]. destruct (run2 G2 k) as [Gb [rk2 cs2]]. simpl.
  destruct L as (E & _ & _ & _ & _ & HL & _).
  rewrite !firstn_app. rewrite E, map_length, HL, Nat.sub_diag. simpl. rewrite !app_nil_r.
  rewrite <- (map_length sg rk1) in HL. rewrite <- HL at 1. rewrite firstn_all.
  rewrite map_length in HL. rewrite <- HL. now rewrite firstn_all.
Qed.
End Relabel.

(* ------------------------------------------------------------------ instances *)
Section Instances.
Variables m n : nat.
Variables sg tu : nat -> nat.
Hypothesis sg_ok : forall a, (a < n)%nat -> (sg a < n)%nat /\ tu (sg a) = a.
Hypothesis tu_ok : forall a, (a < n)%nat -> (tu a < n)%nat /\ sg (tu a) = a.
Variable B : nat -> nat -> Qc.
(* the relabelled basis matrix: row (sg a) of B' is row a of B *)
Definition relabelled : nat -> nat -> Qc := fun x => B (tu x).

Lemma gram_relabelled : Rel n sg (memo n (gram m B)) (memo n (gram m relabelled)).
Proof.
  intros a b Ha Hb. destruct (sg_ok a Ha) as [Sa Ta]. destruct (sg_ok b Hb) as [Sb Tb].
  rewrite !memo_ok by auto. unfold gram, relabelled. now rewrite Ta, Tb.
Qed.

(* QR: relabelling the sensors relabels the ranking *)
Theorem relabel_qr k : (k <= n)%nat ->
  (forall j, (j < k)%nat -> unique_at Qc Qcleb qr_key n (gram m B) j) ->
  firstn k (gram_greedy n k (gram m relabelled)) = map sg (firstn k (gram_greedy n k (gram m B))).
Proof.
  intros Hk Hu. unfold gram_greedy.
  apply (relabel_ranking Qc Qcleb Qcleb_refl Qcleb_trans Qcleb_total qr_key qr_key 0 n sg tu sg_ok tu_ok); auto.
  - intros G1 G2 c H Hc. unfold qr_key. now apply H.
  - apply gram_relabelled.
Qed.

(* CCQR: relabelling the sensors AND their costs relabels the ranking *)
Theorem relabel_ccqr cost k : (k <= n)%nat ->
  (forall j, (j < k)%nat -> unique_at (Qc * Qc) sqrt_leb (ccqr_key cost) n (gram m B) j) ->
  firstn k (ccqr_gram n k (fun x => cost (tu x)) (gram m relabelled)) = map sg (firstn k (ccqr_gram n k cost (gram m B))).
Proof.
  intros Hk Hu. unfold ccqr_gram.
  apply (relabel_ranking (Qc * Qc) sqrt_leb sqrt_leb_refl sqrt_leb_trans sqrt_leb_total (ccqr_key cost) (ccqr_key (fun x => cost (tu x)))
           (0, 0) n sg tu sg_ok tu_ok); auto.
  - intros G1 G2 c H Hc. unfold ccqr_key. destruct (sg_ok c Hc) as [_ T]. rewrite T. f_equal. now apply H.
  - apply gram_relabelled.
Qed.
End Instances.
