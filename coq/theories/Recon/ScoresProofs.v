From Coq Require Import List Arith Lia QArith Qcanon Bool Ring Field.
Import ListNotations.
From PS Require Import LA.Sums LA.Gram LA.GramProofs Recon.Scores.
Open Scope Qc_scope.

Lemma qsum_nonneg l : (forall v, In v l -> 0 <= v) -> 0 <= qsum l.
Proof. induction l as [|a l IH]; simpl; intro H; [apply Qcle_refl|]. apply Qc_add_nonneg; auto. Qed.

Lemma qsum_zero l : (forall v, In v l -> 0 <= v) -> qsum l = 0 -> forall v, In v l -> v = 0.
Proof.
  induction l as [|a l IH]; simpl; intros H Z v Hv; [contradiction|].
  destruct (Qc_sum_zero_l a (qsum l) (H a (or_introl eq_refl)) (qsum_nonneg l (fun w Hw => H w (or_intror Hw))) Z) as [A B].
  destruct Hv as [<-|Hv]; auto.
Qed.

Lemma sqdiff_nonneg a b v : In v (sqdiff a b) -> 0 <= v.
Proof.
  unfold sqdiff. rewrite in_flat_map. intros [p [_ H]]. apply in_map_iff in H. destruct H as [q [<- _]]. apply Qc_sq_nonneg.
Qed.

Lemma qnat_pos n : (0 < n)%nat -> 0 < qnat n.
Proof.
  intro H. unfold qnat, Qclt. change (this (Q2Qc (inject_Z (Z.of_nat n)))) with (Qred (inject_Z (Z.of_nat n))).
  rewrite Qred_correct. unfold Qlt. simpl. lia.
Qed.

(* the mean squared error is non-negative: the default score (minus its square root) is never positive *)
Theorem mse_nonneg x pred : (0 < count x)%nat -> 0 <= mse x pred.
Proof.
  intro H. unfold mse, Qcdiv. replace 0 with (0 * / qnat (count x)) by ring.
  apply Qcmult_le_compat_r.
  - apply qsum_nonneg. apply sqdiff_nonneg.
  - apply Qclt_le_weak. apply Qcinv_pos. now apply qnat_pos.
Qed.

(* ... and it is zero exactly when every reconstructed entry equals the data *)
Theorem mse_zero_iff x pred : (0 < count x)%nat -> (mse x pred = 0 <-> forall v, In v (sqdiff x pred) -> v = 0).
Proof.
  intro H. pose proof (qnat_pos _ H) as P. assert (N : qnat (count x) <> 0) by (intro Z; rewrite Z in P; apply Qclt_not_eq in P; congruence).
  unfold mse. split.
  - intro Z. apply qsum_zero; [apply sqdiff_nonneg|].
    transitivity (qsum (sqdiff x pred) / qnat (count x) * qnat (count x)); [field; exact N|]. rewrite Z. ring.
  - intro Z. assert (E : qsum (sqdiff x pred) = 0).
    { induction (sqdiff x pred) as [|a l IH]; simpl; auto. rewrite (Z a) by now left. rewrite IH; [ring|]. intros; apply Z; now right. }
    rewrite E. field. exact N.
Qed.

(* relative error: rescaling data and prediction alike changes nothing *)
Lemma qsum_map_scale c l : qsum (map (fun v => c * v) l) = c * qsum l.
Proof. induction l as [|a l IH]; simpl; [ring|]. rewrite IH. ring. Qed.

Definition mscale (c : Qc) (a : list (list Qc)) := map (map (fun v => c * v)) a.

Lemma sqdiff_scale c a b : sqdiff (mscale c a) (mscale c b) = map (fun v => c * c * v) (sqdiff a b).
Proof.
  unfold sqdiff, mscale. revert b. induction a as [|ra a IH]; intros [|rb b]; simpl; auto.
  rewrite map_app. f_equal; [|apply IH].
  clear. revert rb. induction ra as [|x ra IH]; intros [|y rb]; simpl; auto. f_equal; [ring|apply IH].
Qed.

Lemma sqnorm_scale c a : sqnorm (mscale c a) = c * c * sqnorm a.
Proof.
  unfold sqnorm, mscale. rewrite <- qsum_map_scale. f_equal.
  induction a as [|r a IH]; simpl; auto. rewrite map_app, IH. f_equal.
  induction r as [|x r IHr]; simpl; auto. f_equal; [ring|apply IHr].
Qed.

Theorem rel_err_scale_invariant c d p : c <> 0 -> sqnorm d <> 0 -> rel_err2 (mscale c d) (mscale c p) = rel_err2 d p.
Proof.
  intros Hc Hd. unfold rel_err2. rewrite sqdiff_scale, qsum_map_scale, sqnorm_scale. field. repeat split; auto.
Qed.
