From Coq Require Import List Arith Lia QArith Qcanon Bool Ring Field.
Import ListNotations.
From PS Require Import LA.Sums LA.Gram LA.GramProofs Recon.Scores.
Open Scope Qc_scope.

Lemma qsum_nonneg l : (forall v, In v l -> 0 <= v) -> 0 <= qsum l.
Proof. induction l as [|a l IH]; simpl; intro H; [apply Qcle_refl|]. apply Qc_add_nonneg; auto. Qed.

Lemma qsum_zero l : (forall v, In v l -> 0 <= v) -> qsum l = 0 -> forall v, In v l -> v = 0.
Proof.
  induction l as [|a l IH]; simpl; intros H Z v Hv; [contradiction|].
  destruct (Qc_sum_zero_l a (qsum l) (H a (or_introl eq_refl)) (qsum_nonneg l (fun w Hw => H w (or_intror Hw))) Z) as [A B].
  destruct Hv as [<-|Hv]; auto.
Qed.

Lemma sqdiff_nonneg a b v : In v (sqdiff a b) -> 0 <= v.
Proof.
  unfold sqdiff. rewrite in_flat_map. intros [p [_ H]]. apply in_map_iff in H. destruct H as [q [<- _]]. apply Qc_sq_nonneg.
Qed.

Lemma qnat_pos n : (0 < n)%nat -> 0 < qnat n.
Proof.
  intro H. unfold qnat, Qclt. change (this (Q2Qc (inject_Z (Z.of_nat n)))) with (Qred (inject_Z (Z.of_nat n))).
  rewrite Qred_correct. unfold Qlt. simpl. lia.
Qed.

(* the mean squared error is non-negative: the default score (minus its square root) is never positive *)
Theorem mse_nonneg x pred : (0 < count x)%nat -> 0 <= mse x pred.
Proof.
  intro H. unfold mse, Qcdiv. replace 0 with (0 * / qnat (count x)) by ring.
  apply Qcmult_le_compat_r.
  - apply qsum_nonneg. apply sqdiff_nonneg.
  - apply Qclt_le_weak. apply Qcinv_pos. now apply qnat_pos.
Qed.

(* ... and it is zero exactly when every reconstructed entry equals the data *)
Theorem mse_zero_iff x pred : (0 < count x)%nat -> (mse x pred = 0 <-> forall v, In v (sqdiff x pred) -> v = 0).
Proof.
  intro H. pose proof (qnat_pos _ H) as P. assert (N : qnat (count x) <> 0) by (intro Z; rewrite Z in P; apply Qclt_not_eq in P; congruence).
  unfold mse. split.
  - intro Z. apply qsum_zero; [apply sqdiff_nonneg|].
    transitivity (qsum (sqdiff x pred) / qnat (count x) * qnat (count x)); [field; exact N|]. rewrite Z. ring.
  - intro Z. assert (E : qsum (sqdiff x pred) = 0).
    { induction (sqdiff x pred) as [|a l IH]; simpl; auto. rewrite (Z a) by now left. rewrite IH; [ring|]. intros; apply Z; now right. }
    rewrite E. field. exact N.
Qed.

(* relative error: rescaling data and prediction alike changes nothing *)
Lemma qsum_map_scale c l : qsum (map (fun v => c * v) l) = c * qsum l.
Proof. induction l as [|a l IH]; simpl; [ring|]. rewrite IH. ring. Qed.

Definition mscale (c : Qc) (a : list (list Qc)) := map (map (fun v => c * v)) a.

Lemma sqdiff_scale c a b : sqdiff (mscale c a) (mscale c b) = map (fun v => c * c * v) (sqdiff a b).
Proof.
  unfold sqdiff, mscale. revert b. induction a as [|ra a IH]; intros [|rb b]; simpl; auto.
  rewrite map_app. f_equal; [|apply IH].
  clear. revert rb. induction ra as [|x ra IH]; intros [|y rb]; simpl; auto. f_equal; [ring|apply IH].
Qed.

Lemma sqnorm_scale c a : sqnorm (mscale c a) = c * c * sqnorm a.
Proof.
  unfold sqnorm, mscale. rewrite <- qsum_map_scale. f_equal.
  induction a as [|r a IH]; simpl; auto. rewrite map_app, IH. f_equal.
  induction r as [|x r IHr]; simpl; auto. f_equal; [ring|apply IHr].
Qed.

Theorem rel_err_scale_invariant c d p : c <> 0 -> sqnorm d <> 0 -> rel_err2 (mscale c d) (mscale c p) = rel_err2 d p.
Proof.
  intros Hc Hd. unfold rel_err2. rewrite sqdiff_scale, qsum_map_scale, sqnorm_scale. field. repeat split; auto.
Qed.

(* ---- determinant / optimality criterion ---- *)
Close Scope Qc_scope.
Open Scope nat_scope.

(* square selections: the criterion is |det B_S| - never negative, and its square is det^2 *)
Theorem optimality_square_nonneg BS : length BS = length (hd [] BS) -> (0 <= optimality BS)%Qc.
Proof.
  intro H. unfold optimality. rewrite H, Nat.eqb_refl. cbv zeta.
  destruct (Qle_bool _ (det BS)) eqn:E.
  - apply Qle_bool_iff in E. exact E.
  - assert (L : (det BS < 0)%Qc).
    { apply Qcnot_le_lt. intro C. assert (E' : Qle_bool 0%Q (det BS) = true) by (apply Qle_bool_iff; exact C). rewrite E' in E. discriminate. }
    apply Qclt_le_weak in L. apply Qcopp_le_compat in L. replace (- 0)%Qc with 0%Qc in L by ring. exact L.
Qed.

Theorem optimality_square_sq BS : length BS = length (hd [] BS) -> (optimality BS * optimality BS = det BS * det BS)%Qc.
Proof. intro H. unfold optimality. rewrite H, Nat.eqb_refl. cbv zeta. destruct (Qle_bool _ _); ring. Qed.

Lemma det1 (s : Qc) : det [[s]] = s.
Proof. unfold det. cbn [length det_fuel map combine seq remove_col Nat.even qsum fold_right]. ring. Qed.

(* the Laplace expansion is the familiar 2x2 formula *)
Theorem det2 (a b c d : Qc) : (det [[a; b]; [c; d]] = a * d - b * c)%Qc.
Proof. unfold det. cbn [length det_fuel map combine seq remove_col Nat.even qsum fold_right]. ring. Qed.

Lemma nth_map_seq {A} (f : nat -> A) m i d : i < m -> nth i (map f (seq 0 m)) d = f i.
Proof.
  intro H. rewrite (nth_indep _ d (f 0)) by (rewrite map_length, seq_length; exact H).
  rewrite (map_nth f (seq 0 m) 0 i), seq_nth by exact H. reflexivity.
Qed.

(* entry (i, j) of B_S^T B_S is the inner product of COLUMNS i and j of B_S (a transposed product would pair rows) *)
Theorem transpose_mul_entry A i j : i < length (hd [] A) -> j < length (hd [] A) ->
  nth j (nth i (transpose_mul A) []) 0%Qc = qsum (map (fun r => nth i r 0 * nth j r 0)%Qc A).
Proof. intros Hi Hj. unfold transpose_mul. cbv zeta. rewrite (nth_map_seq _ _ i [] Hi). now rewrite nth_map_seq. Qed.

Lemma qsum_map_ext {X} (f g : X -> Qc) l : (forall x, f x = g x) -> qsum (map f l) = qsum (map g l).
Proof. intro H. induction l as [|a l IH]; simpl; [reflexivity|]. now rewrite H, IH. Qed.

Lemma qsum_cons a l : qsum (a :: l) = (a + qsum l)%Qc.
Proof. reflexivity. Qed.

Theorem transpose_mul_sym A i j : i < length (hd [] A) -> j < length (hd [] A) ->
  nth j (nth i (transpose_mul A) []) 0%Qc = nth i (nth j (transpose_mul A) []) 0%Qc.
Proof. intros Hi Hj. rewrite !transpose_mul_entry by assumption. apply qsum_map_ext. intro r. ring. Qed.

(* one mode, p >= 2 sensors: det(B_S^T B_S) is the squared norm of the sensor entries of that mode *)
Theorem optimality_one_mode col : 2 <= length col -> optimality (map (fun v => [v]) col) = qsum (map (fun v => v * v)%Qc col).
Proof.
  intro H. destruct col as [|a col]; [simpl in H; lia|].
  unfold optimality. cbn [map hd length]. rewrite map_length.
  destruct (Nat.eqb_spec (S (length col)) 1) as [E|_]; [simpl in H; lia|].
  unfold transpose_mul. cbn [map hd length seq]. rewrite det1.
  change (qsum (map (fun r : list Qc => (nth 0 r 0 * nth 0 r 0)%Qc) (map (fun v => [v]) (a :: col)))
          = qsum (map (fun v : Qc => (v * v)%Qc) (a :: col))).
  rewrite map_map. apply qsum_map_ext. reflexivity.
Qed.

(* two modes, p >= 3 sensors: det(B_S^T B_S) = |a|^2 |b|^2 - <a,b>^2 (Lagrange's identity form) *)
Theorem optimality_two_modes (l : list (Qc * Qc)) : 3 <= length l ->
  optimality (map (fun p => [fst p; snd p]) l) =
  (qsum (map (fun p => fst p * fst p) l) * qsum (map (fun p => snd p * snd p) l)
   - qsum (map (fun p => fst p * snd p) l) * qsum (map (fun p => fst p * snd p) l))%Qc.
Proof.
  intro H. destruct l as [|p0 l]; [simpl in H; lia|].
  unfold optimality. rewrite map_length. cbn [map hd length].
  destruct (Nat.eqb_spec (S (length l)) 2) as [E|_]; [simpl in H; lia|].
  unfold transpose_mul. cbn [map hd length seq]. rewrite det2.
  set (L := p0 :: l).
  change ([fst p0; snd p0] :: map (fun p : Qc * Qc => [fst p; snd p]) l) with (map (fun p : Qc * Qc => [fst p; snd p]) L).
  rewrite !map_map. cbn [nth].
  rewrite !qsum_cons.
  rewrite (qsum_map_ext (fun x : Qc * Qc => (snd x * fst x)%Qc) (fun x => (fst x * snd x)%Qc)) by (intro; ring).
  ring.
Qed.

(* ... hence non-negative (Cauchy-Schwarz), as a Gram determinant must be *)
Lemma lagrange_nonneg (l : list (Qc * Qc)) :
  (0 <= qsum (map (fun p => fst p * fst p) l) * qsum (map (fun p => snd p * snd p) l)
        - qsum (map (fun p => fst p * snd p) l) * qsum (map (fun p => fst p * snd p) l))%Qc.
Proof.
  induction l as [|[a b] l IH]; cbn [map qsum fold_right fst snd]; [replace (0 * 0 - 0 * 0)%Qc with 0%Qc by ring; apply Qcle_refl|].
  fold (qsum (map (fun p : Qc * Qc => (fst p * fst p)%Qc) l)) (qsum (map (fun p : Qc * Qc => (snd p * snd p)%Qc) l))
       (qsum (map (fun p : Qc * Qc => (fst p * snd p)%Qc) l)).
  set (A := qsum (map (fun p : Qc * Qc => (fst p * fst p)%Qc) l)) in *.
  set (B := qsum (map (fun p : Qc * Qc => (snd p * snd p)%Qc) l)) in *.
  set (C := qsum (map (fun p : Qc * Qc => (fst p * snd p)%Qc) l)) in *.
  (* (a^2+A)(b^2+B) - (ab+C)^2 = (AB - C^2) + (a^2 B + b^2 A - 2abC), and the last term is sum_i (a y_i - b x_i)^2 *)
  assert (K : (0 <= a * a * B + b * b * A - (a * b * C + a * b * C))%Qc).
  { subst A B C. clear IH. induction l as [|[x y] l IH]; cbn [map qsum fold_right fst snd].
    - replace (a * a * 0 + b * b * 0 - (a * b * 0 + a * b * 0))%Qc with 0%Qc by ring. apply Qcle_refl.
    - fold (qsum (map (fun p : Qc * Qc => (fst p * fst p)%Qc) l)) (qsum (map (fun p : Qc * Qc => (snd p * snd p)%Qc) l))
           (qsum (map (fun p : Qc * Qc => (fst p * snd p)%Qc) l)).
      match goal with |- (0 <= ?g)%Qc =>
        replace g with ((a * y - b * x) * (a * y - b * x)
          + (a * a * qsum (map (fun p : Qc * Qc => (snd p * snd p)%Qc) l) + b * b * qsum (map (fun p : Qc * Qc => (fst p * fst p)%Qc) l)
             - (a * b * qsum (map (fun p : Qc * Qc => (fst p * snd p)%Qc) l) + a * b * qsum (map (fun p : Qc * Qc => (fst p * snd p)%Qc) l))))%Qc by ring end.
      apply Qc_add_nonneg; [apply Qc_sq_nonneg | exact IH]. }
  match goal with |- (0 <= ?g)%Qc =>
    replace g with ((A * B - C * C) + (a * a * B + b * b * A - (a * b * C + a * b * C)))%Qc by ring end.
  apply Qc_add_nonneg; assumption.
Qed.

Theorem optimality_two_modes_nonneg (l : list (Qc * Qc)) : 3 <= length l -> (0 <= optimality (map (fun p => [fst p; snd p]) l))%Qc.
Proof. intro H. rewrite optimality_two_modes by exact H. apply lagrange_nonneg. Qed.

(* ---- the selection matrix of determinant(): c[i, top_sensors[i]] = 1, theta = c @ phi ----
   (function form of LA/Sums.v; n = number of sensor locations)  theta is phi restricted to the chosen rows, in the
   order of top_sensors, repeated sensors included: what the correspondence hands to [optimality]. *)
Definition selmat (S : list nat) : nat -> nat -> Qc := fun i j => if Nat.eqb j (nth i S 0) then 1%Qc else 0%Qc.
Definition sel_product (n : nat) (S : list nat) (phi : nat -> nat -> Qc) : nat -> nat -> Qc :=
  fun i c => sum n (fun j => selmat S i j * phi j c)%Qc.

Theorem selection_product_picks_rows n S phi i c : nth i S 0 < n -> sel_product n S phi i c = phi (nth i S 0) c.
Proof.
  intro H. unfold sel_product. rewrite (sum_single n (nth i S 0)); auto.
  - unfold selmat. rewrite Nat.eqb_refl. ring.
  - intros j _ Hj. unfold selmat. destruct (Nat.eqb_spec j (nth i S 0)); [contradiction|ring].
Qed.

(* the two branches of determinant() agree where they meet (p = m), shown here for m = 1 and m = 2:
   det(B_S^T B_S) = (det B_S)^2 = optimality^2.  (General m needs multiplicativity of the Laplace determinant: not proved.) *)
Theorem det_branches_agree_1 (a : Qc) : (det (transpose_mul [[a]]) = det [[a]] * det [[a]])%Qc.
Proof. unfold transpose_mul. cbn [map hd length seq nth qsum fold_right]. rewrite !det1. ring. Qed.

Theorem det_branches_agree_2 (a b c d : Qc) :
  (det (transpose_mul [[a; b]; [c; d]]) = det [[a; b]; [c; d]] * det [[a; b]; [c; d]])%Qc.
Proof. unfold transpose_mul. cbn [map hd length seq nth qsum fold_right]. rewrite !det2. ring. Qed.
