(* Proofs about the SSPOR token machine (C14, C15, C19). *)
From Coq Require Import List Arith ZArith Bool Lia.
Import ListNotations.
From PS Require Import Recon.SSPOR.

(* ------------------------------------------------------------------ C14: setters *)
Lemma setter_frames s v s' e : set_number_of_sensors s v = (s', e) ->
  basis s' = basis s /\ opt s' = opt s /\ n_basis_modes s' = n_basis_modes s /\
  basis_matrix s' = basis_matrix s /\ ranked s' = ranked s /\ (e <> None -> s' = s).
Proof.
  unfold set_number_of_sensors. destruct (ranked s) as [r|] eqn:Er.
  - destruct (pos_int v) as [n|].
    + destruct (_ <? n); intros H; injection H as <- <-; simpl; repeat split; auto; congruence.
    + intros H; injection H as <- <-; repeat split; auto.
  - intros H; injection H as <- <-; repeat split; auto.
Qed.

Lemma setter_value s v s' : set_number_of_sensors s v = (s', None) ->
  exists n r, pos_int v = Some n /\ ranked s = Some r /\ n <= d_width (bt_data (mt_basis (rt_mat r))) /\
              n_sensors s' = Some n /\ ns_auto s' = false.
Proof.
  unfold set_number_of_sensors. destruct (ranked s) as [r|]; [|discriminate].
  destruct (pos_int v) as [n|]; [|discriminate].
  destruct (Nat.ltb_spec (d_width (bt_data (mt_basis (rt_mat r)))) n) as [L|L]; [discriminate|].
  intros H; injection H as <-. exists n, r. simpl. repeat split; auto.
Qed.

Lemma observe_noop s s' e : step s Observe = (s', e) -> s' = s.
Proof. simpl. destruct (ranked s); intros H; injection H; auto. Qed.

(* histories made of setter calls and observers only *)
Definition setter_op (o : op) : bool := match o with SetN _ | Observe => true | _ => false end.

(* the value in force after such a history: the last accepted setter value, else the initial one *)
Fixpoint final_n (width : nat) (cur : option nat) (h : list op) : option nat :=
  match h with
  | [] => cur
  | SetN v :: t =>
      match pos_int v with
      | Some n => if width <? n then final_n width cur t else final_n width (Some n) t
      | None => final_n width cur t
      end
  | _ :: t => final_n width cur t
  end.

Lemma run_setters_frames h : forall s s' es, forallb setter_op h = true -> run s h = (s', es) ->
  basis s' = basis s /\ opt s' = opt s /\ n_basis_modes s' = n_basis_modes s /\
  basis_matrix s' = basis_matrix s /\ ranked s' = ranked s.
Proof.
  induction h as [|o t IH]; intros s s' es Hh Hr; simpl in *.
  - injection Hr as <- <-. repeat split.
  - apply andb_true_iff in Hh. destruct Hh as [Ho Ht].
    destruct (step s o) as [s1 e] eqn:Es. destruct (run s1 t) as [s2 es2] eqn:Er. injection Hr as <- <-.
    specialize (IH _ _ _ Ht Er). destruct IH as (A & B & C & D & E).
    destruct o; try discriminate.
    + simpl in Es. destruct (setter_frames _ _ _ _ Es) as (A' & B' & C' & D' & E' & _).
      repeat split; congruence.
    + apply observe_noop in Es. subst. repeat split; auto.
Qed.

Lemma run_setters_value h : forall s s' es r, forallb setter_op h = true -> run s h = (s', es) ->
  ranked s = Some r ->
  n_sensors s' = final_n (d_width (bt_data (mt_basis (rt_mat r)))) (n_sensors s) h.
Proof.
  induction h as [|o t IH]; intros s s' es r Hh Hr Hk; simpl in *.
  - injection Hr as <- <-. reflexivity.
  - apply andb_true_iff in Hh. destruct Hh as [Ho Ht].
    destruct (step s o) as [s1 e] eqn:Es. destruct (run s1 t) as [s2 es2] eqn:Er. injection Hr as <- <-.
    destruct o; try discriminate.
    + simpl in Es. unfold set_number_of_sensors in Es. rewrite Hk in Es.
      destruct (pos_int v) as [n|].
      * destruct (_ <? n) eqn:El; injection Es as <- <-.
        -- eapply IH; eauto.
        -- rewrite (IH _ _ _ r Ht Er); [reflexivity|exact Hk].
      * injection Es as <- <-. eapply IH; eauto.
    + apply observe_noop in Es. subst. eapply IH; eauto.
Qed.

(* fit's matrix and ranking tokens do not mention n_sensors *)
Lemma fit_tail_ignores_n s seed ns auto s1 s2 :
  fit_tail s seed = (s1, None) -> fit_tail (set_ns s ns auto) seed = (s2, None) ->
  basis_matrix s1 = basis_matrix s2 /\ ranked s1 = ranked s2 /\ basis s1 = basis s2.
Proof.
  unfold fit_tail. simpl.
  destruct (matrix_representation (basis s) (n_basis_modes s)) as [m|e]; [|discriminate].
  unfold fit_after_matrix. simpl.
  set (w := d_width (bt_data (mt_basis m))).
  intros H1 H2.
  destruct (n_sensors s) as [n|]; [destruct (ns_auto s); [|destruct (w <? n)]|]; simpl in H1;
  try discriminate;
  (destruct ns as [n'|]; [destruct auto; [|destruct (w <? n')]|]; simpl in H2; try discriminate);
  destruct (optimizer_fit (opt s) w); try discriminate;
  injection H1 as <-; injection H2 as <-; simpl; auto.
Qed.

(* a user-chosen count survives fit unchanged; fit succeeds iff the count fits *)
Lemma fit_tail_user_n s seed n s1 : n_sensors s = Some n -> ns_auto s = false ->
  fit_tail s seed = (s1, None) -> n_sensors s1 = Some n /\ ns_auto s1 = false.
Proof.
  unfold fit_tail. intros Hn Ha.
  destruct (matrix_representation (basis s) (n_basis_modes s)) as [m|e]; [|discriminate].
  unfold fit_after_matrix. simpl. rewrite Hn, Ha.
  destruct (_ <? n); [discriminate|]. simpl.
  destruct (optimizer_fit (opt s) _); [|discriminate]. intros H; injection H as <-. simpl. auto.
Qed.

(* C14 main statement: after constructing with any value, fitting, and ANY sequence of setter calls (valid or
   rejected) interleaved with observers, the observable state is that of a fresh model constructed with the
   final value and fitted on the same data with the same seed. *)
Theorem setters_equiv_ctor b bm o v0 d seed h s0 s1 s2 es n r :
  ctor b bm o v0 = inl s0 -> fit s0 d seed = (s1, None) ->
  forallb setter_op h = true -> run s1 h = (s2, es) ->
  ranked s1 = Some r ->
  final_n (d_width (bt_data (mt_basis (rt_mat r)))) (n_sensors s1) h = Some n ->
  (exists j, In (SetN (VInt (Z.of_nat n))) (firstn j h)) \/ ns_auto s1 = false ->
  forall s0' s1', ctor b bm o (VInt (Z.of_nat n)) = inl s0' -> fit s0' d seed = (s1', None) ->
  obs s2 = obs s1'.
Proof.
  intros Hc Hf Hh Hr Hk Hfin _ s0' s1' Hc' Hf'.
  destruct (run_setters_frames _ _ _ _ Hh Hr) as (A & B & C & D & E).
  pose proof (run_setters_value _ _ _ _ r Hh Hr Hk) as Hn. rewrite Hfin in Hn.
  (* s0' = set_ns s0 (Some n) false *)
  assert (Es0 : s0' = set_ns s0 (n_sensors s0') false /\ n_sensors s0' = Some n).
  { unfold ctor in Hc, Hc'. simpl in Hc'.
    destruct (0 <? Z.of_nat n)%Z eqn:Ez; [|discriminate]. injection Hc' as <-. rewrite Nat2Z.id.
    destruct v0; simpl in Hc; try (destruct (0 <? z)%Z); try discriminate; injection Hc as <-; simpl; auto. }
  destruct Es0 as [Es0 Ens0].
  unfold fit in Hf, Hf'.
  assert (Eb : basis s0' = basis s0) by (rewrite Es0; reflexivity).
  rewrite Eb in Hf'.
  destruct (basis_fit (basis s0) d) as [bb|e]; [|discriminate].
  assert (Eset : set_basis s0' bb = set_ns (set_basis s0 bb) (Some n) false).
  { rewrite Es0, Ens0. reflexivity. }
  rewrite Eset in Hf'.
  destruct (fit_tail_ignores_n _ _ _ _ _ _ Hf Hf') as (M & R & _).
  destruct (fit_tail_user_n (set_ns (set_basis s0 bb) (Some n) false) seed n s1' eq_refl eq_refl Hf') as [N _].
  unfold obs. rewrite D, E, Hn, M, R, N. reflexivity.
Qed.

(* ------------------------------------------------------------------ C19 (SSPOR part) *)
Theorem setter_rejected_noop s v s' e : set_number_of_sensors s v = (s', Some e) -> s' = s.
Proof. intro H. destruct (setter_frames _ _ _ _ H) as (_ & _ & _ & _ & _ & X). apply X. discriminate. Qed.

Theorem setter_rejects_invalid s v r : ranked s = Some r ->
  (pos_int v = None \/ exists n, pos_int v = Some n /\ d_width (bt_data (mt_basis (rt_mat r))) < n) ->
  set_number_of_sensors s v = (s, Some ValueError).
Proof.
  intros Hr [H|[n [H L]]]; unfold set_number_of_sensors; rewrite Hr, H; auto.
  destruct (Nat.ltb_spec (d_width (bt_data (mt_basis (rt_mat r)))) n) as [L'|L']; auto. lia.
Qed.

Theorem setter_unfitted s v : ranked s = None -> set_number_of_sensors s v = (s, Some NotFittedError).
Proof. intro H. unfold set_number_of_sensors. now rewrite H. Qed.

Theorem ctor_rejects_invalid b bm o v : v <> VNone -> pos_int v = None -> ctor b bm o v = inr ValueError.
Proof. intros Hv Hp. unfold ctor. destruct v; try congruence; rewrite Hp; auto. Qed.

Lemma pos_int_invalid v : (match v with VInt z => (z <= 0)%Z | VNone => False | _ => True end) -> pos_int v = None.
Proof. destruct v; simpl; auto; try tauto. intro H. destruct (Z.ltb_spec 0 z) as [L|L]; auto. lia. Qed.

(* rejections decided by update_n_basis_modes' own guards leave the model untouched *)
Theorem update_rejected_early_noop s v x :
  pos_int v = None \/
  (exists k, pos_int v = Some k /\
     (match b_fit (basis s), b_modes (basis s) with Some _, Some avail => k <=? avail | _, _ => false end) = false /\
     (x = None \/ exists d, x = Some d /\ d_rows d < k)) ->
  update_n_basis_modes s v x = (s, Some ValueError).
Proof.
  unfold update_n_basis_modes. intros [H|[k [H [Hh Hx]]]]; rewrite H; auto. rewrite Hh.
  destruct Hx as [->|[d [-> L]]]; auto. destruct (Nat.ltb_spec (d_rows d) k) as [L'|L']; auto. lia.
Qed.

(* ------------------------------------------------------------------ C15: refit leaves no trace *)
(* the model configured as the user configured it, never fitted *)
Definition reset (s : sspor) : sspor :=
  {| basis := {| bk := bk (basis s); b_modes := b_user (basis s); b_user := b_user (basis s); b_fit := None |};
     opt := opt s; n_sensors := if ns_auto s then None else n_sensors s; ns_auto := false;
     n_basis_modes := n_basis_modes s; basis_matrix := None; ranked := None |}.

(* "no stale component" invariant *)
Definition frozen_ok (b : basis_st) (rows : nat) : Prop :=
  b_modes b = b_user b \/ (bk b = Identity /\ b_user b = None /\ b_modes b = Some rows).

Definition Inv (s : sspor) : Prop :=
  match ranked s with
  | None => True
  | Some r =>
      let d := bt_data (mt_basis (rt_mat r)) in
      frozen_ok (basis s) (d_rows d) /\
      exists s', fit (reset s) d (rt_seed r) = (s', None) /\ obs s' = obs s /\ b_fit (basis s') = b_fit (basis s)
  end.

Definition norm_ns (s : sspor) : option nat := if ns_auto s then None else n_sensors s.

Definition InvF (s : sspor) : Prop :=
  match ranked s with
  | None => b_modes (basis s) = b_user (basis s) /\ ns_auto s = false /\ b_fit (basis s) = None
  | Some r =>
      let d := bt_data (mt_basis (rt_mat r)) in
      frozen_ok (basis s) (d_rows d) /\
      b_fit (basis s) = Some (mt_basis (rt_mat r)) /\
      exists s', fit (reset s) d (rt_seed r) = (s', None) /\ obs s' = obs s /\
                 b_fit (basis s') = b_fit (basis s) /\ b_modes (basis s') = b_modes (basis s)
  end.

Lemma basis_fit_data b d b' : basis_fit b d = inl b' ->
  exists t, b_fit b' = Some t /\ bt_data t = d /\ bk b' = bk b /\ b_user b' = b_user b.
Proof.
  unfold basis_fit. destruct (bk b) eqn:Ek.
  - destruct (b_user b) as [k|] eqn:Eu.
    + destruct (d_rows d <? k); [discriminate|]. intros H; injection H as <-. simpl. eauto.
    + intros H; injection H as <-. simpl. eauto.
  - destruct (b_modes b) as [k|]; [|discriminate].
    destruct ((d_width d <? k) || (d_rows d <? k)); [discriminate|]. intros H; injection H as <-. simpl. eauto.
  - destruct (b_modes b) as [k|]; [|discriminate]. intros H; injection H as <-. simpl. eauto.
Qed.

(* what a fit needs of the basis state: for SVD / RandomProjection the attribute must be what the user configured; an
   Identity basis looks at the user's setting only (its default is recomputed from the data of every fit) *)
Definition fit_ok_cond (b : basis_st) (d : data) : Prop := bk b = Identity \/ b_modes b = b_user b.

Lemma basis_fit_reset b d b' : basis_fit b d = inl b' -> fit_ok_cond b d ->
  exists b'', basis_fit {| bk := bk b; b_modes := b_user b; b_user := b_user b; b_fit := None |} d = inl b'' /\
              b_fit b'' = b_fit b' /\ b_modes b'' = b_modes b' /\ frozen_ok b' (d_rows d).
Proof.
  unfold basis_fit, fit_ok_cond, frozen_ok. simpl. intros H C. destruct (bk b) eqn:Ek.
  - destruct (b_user b) as [k|] eqn:Eu.
    + destruct (d_rows d <? k); [discriminate|]. injection H as <-. simpl. eexists; repeat split; eauto.
    + injection H as <-. simpl. eexists; repeat split; eauto.
  - destruct C as [C|C]; [discriminate|]. rewrite <- C. destruct (b_modes b) as [k|] eqn:Em; [|discriminate].
    destruct ((d_width d <? k) || (d_rows d <? k)); [discriminate|]. injection H as <-. simpl. eexists; repeat split; eauto.
  - destruct C as [C|C]; [discriminate|]. rewrite <- C. destruct (b_modes b) as [k|] eqn:Em; [|discriminate].
    injection H as <-. simpl. eexists; repeat split; eauto.
Qed.

(* fit_after_matrix reads only these components *)
Lemma fit_after_matrix_congr s t m seed : opt s = opt t -> norm_ns s = norm_ns t ->
  snd (fit_after_matrix s m seed) = snd (fit_after_matrix t m seed) /\
  (snd (fit_after_matrix s m seed) = None ->
     obs (fst (fit_after_matrix s m seed)) = obs (fst (fit_after_matrix t m seed)) /\
     norm_ns (fst (fit_after_matrix s m seed)) = norm_ns s).
Proof.
  intros Ho Hs. unfold fit_after_matrix. simpl. unfold norm_ns in Hs.
  set (w := d_width (bt_data (mt_basis m))).
  destruct (n_sensors s) as [n|] eqn:Ens; destruct (ns_auto s) eqn:Eas;
  destruct (n_sensors t) as [n'|] eqn:Ent; destruct (ns_auto t) eqn:Eat; try discriminate; simpl.
  all: try (injection Hs as ->).
  all: try (destruct (w <? n') eqn:Ew; simpl; [split; [reflexivity|discriminate]|]).
  all: rewrite <- ?Ho.
  all: destruct (optimizer_fit (opt s) w) eqn:Eo; simpl; (split; [reflexivity|]); try discriminate.
  all: intros _; unfold obs, norm_ns; simpl; rewrite ?Ens, ?Eas, ?Ent, ?Eat; split; reflexivity.
Qed.

Lemma fit_tail_congr s t seed :
  b_fit (basis s) = b_fit (basis t) -> b_modes (basis s) = b_modes (basis t) ->
  n_basis_modes s = n_basis_modes t -> opt s = opt t -> norm_ns s = norm_ns t ->
  snd (fit_tail s seed) = snd (fit_tail t seed) /\
  (snd (fit_tail s seed) = None ->
     obs (fst (fit_tail s seed)) = obs (fst (fit_tail t seed)) /\
     norm_ns (fst (fit_tail s seed)) = norm_ns s).
Proof.
  intros Hf Hm Hn Ho Hs. unfold fit_tail, matrix_representation. rewrite <- Hf, <- Hm, <- Hn.
  destruct (b_fit (basis s)) as [tk|]; [|simpl; split; [auto|discriminate]].
  destruct (b_modes (basis s)) as [avail|]; [|simpl; split; [auto|discriminate]].
  destruct (n_basis_modes s) as [k|].
  - destruct (avail <? k); [simpl; split; [auto|discriminate]|]. now apply fit_after_matrix_congr.
  - now apply fit_after_matrix_congr.
Qed.

Lemma matrix_representation_basis b k m : matrix_representation b k = inl m -> b_fit b = Some (mt_basis m).
Proof.
  unfold matrix_representation. destruct (b_fit b) as [t|]; [|discriminate].
  destruct (b_modes b) as [a|]; [|discriminate].
  destruct k as [k|]; [destruct (a <? k); [discriminate|]|]; intros H; injection H as <-; reflexivity.
Qed.

Lemma fit_after_matrix_ok s m seed s' : fit_after_matrix s m seed = (s', None) ->
  ranked s' = Some {| rt_opt := opt s; rt_mat := m; rt_seed := seed |} /\ basis_matrix s' = Some m /\
  basis s' = basis s /\ opt s' = opt s /\ n_basis_modes s' = n_basis_modes s.
Proof.
  unfold fit_after_matrix. simpl. set (w := d_width (bt_data (mt_basis m))).
  destruct (n_sensors s) as [n|]; [destruct (ns_auto s); [|destruct (w <? n); [discriminate|]]|]; simpl;
  destruct (optimizer_fit (opt s) w); try discriminate; intros H; injection H as <-; simpl; repeat split.
Qed.

Lemma fit_tail_ok s seed s' : fit_tail s seed = (s', None) ->
  exists m, matrix_representation (basis s) (n_basis_modes s) = inl m /\
    ranked s' = Some {| rt_opt := opt s; rt_mat := m; rt_seed := seed |} /\ basis_matrix s' = Some m /\
    basis s' = basis s /\ opt s' = opt s /\ n_basis_modes s' = n_basis_modes s.
Proof.
  unfold fit_tail. destruct (matrix_representation (basis s) (n_basis_modes s)) as [m|e]; [|discriminate].
  intro H. exists m. split; auto. now apply fit_after_matrix_ok.
Qed.

Lemma reset_norm s : norm_ns (reset s) = norm_ns s.
Proof. unfold norm_ns, reset. simpl. reflexivity. Qed.

Lemma fit_establishes s d seed s' : fit s d seed = (s', None) -> fit_ok_cond (basis s) d -> InvF s'.
Proof.
  unfold fit. destruct (basis_fit (basis s) d) as [b'|e] eqn:Eb; [|discriminate]. intros Hf Hc.
  destruct (basis_fit_reset _ _ _ Eb Hc) as (b'' & Eb'' & Ef & Em & Hfz).
  destruct (basis_fit_data _ _ _ Eb) as (tk & Etk & Ed & Ek & Eu).
  destruct (fit_tail_ok _ _ _ Hf) as (m & Hm & Hr & Hbm & Hbs & Ho & Hn). simpl in *.
  pose proof (matrix_representation_basis _ _ _ Hm) as Hmb. rewrite Etk in Hmb. injection Hmb as Hmb.
  unfold InvF. rewrite Hr. simpl. rewrite <- Hmb, Ed. rewrite Hbs.
  split; [exact Hfz|]. split; [now rewrite Etk, Hmb|].
  (* the fresh run *)
  unfold fit. unfold reset at 1. simpl. rewrite Hbs, Ek, Eu, Eb''.
  set (X := set_basis (reset s') b'').
  destruct (fit_tail_congr (set_basis s b') X seed) as [Hsnd Hobs]; subst X; simpl; auto; try congruence.
  { pose proof (fit_tail_congr (set_basis s b') (set_basis s b') seed eq_refl eq_refl eq_refl eq_refl eq_refl) as [_ Hx].
    rewrite Hf in Hx. simpl in Hx. destruct (Hx eq_refl) as [_ Hnn].
    unfold norm_ns at 2. simpl. unfold norm_ns at 1 in Hnn. unfold norm_ns. simpl. 
    unfold norm_ns in Hnn. simpl in Hnn. rewrite <- Hnn. reflexivity. }
  rewrite Hf in Hsnd, Hobs. simpl in Hsnd, Hobs. destruct (Hobs eq_refl) as [Ho1 _].
  destruct (fit_tail (set_basis (reset s') b'') seed) as [s2 e2] eqn:E2. simpl in *. subst e2.
  exists s2. split; [reflexivity|]. split; [now rewrite Ho1|].
  destruct (fit_tail_ok _ _ _ E2) as (m2 & _ & _ & _ & Hb2 & _). simpl in Hb2. rewrite Hb2. split; congruence.
Qed.

Lemma fit_after_matrix_user_n s m seed s1 n : fit_after_matrix s m seed = (s1, None) ->
  n <= d_width (bt_data (mt_basis m)) ->
  exists s2, fit_after_matrix (set_ns s (Some n) false) m seed = (s2, None) /\
    basis_matrix s2 = basis_matrix s1 /\ ranked s2 = ranked s1 /\ n_sensors s2 = Some n /\ basis s2 = basis s1.
Proof.
  unfold fit_after_matrix. simpl. set (w := d_width (bt_data (mt_basis m))). intros H L.
  destruct (Nat.ltb_spec w n) as [L'|L']; [lia|]. simpl.
  destruct (n_sensors s) as [n0|]; [destruct (ns_auto s); [|destruct (w <? n0); [discriminate|]]|]; simpl in H;
  destruct (optimizer_fit (opt s) w); try discriminate; injection H as <-; eexists; simpl; repeat split.
Qed.

Lemma fit_tail_user_n' s seed s1 n : fit_tail s seed = (s1, None) ->
  (forall m, basis_matrix s1 = Some m -> n <= d_width (bt_data (mt_basis m))) ->
  exists s2, fit_tail (set_ns s (Some n) false) seed = (s2, None) /\
    basis_matrix s2 = basis_matrix s1 /\ ranked s2 = ranked s1 /\ n_sensors s2 = Some n /\ basis s2 = basis s1.
Proof.
  unfold fit_tail. simpl.
  destruct (matrix_representation (basis s) (n_basis_modes s)) as [m|e]; [|discriminate].
  intros H L. apply fit_after_matrix_user_n; auto. apply L.
  now destruct (fit_after_matrix_ok _ _ _ _ H) as (_ & X & _).
Qed.

Definition op_ok (s : sspor) (o : op) : Prop :=
  match o with Fit d _ => fit_ok_cond (basis s) d | _ => True end.

Lemma step_preserves s o s' : InvF s -> step s o = (s', None) -> op_ok s o -> InvF s'.
Proof.
  intros HI Hs Hok. destruct o as [d seed|v|v x|]; simpl in Hs, Hok.
  - (* Fit *) eapply fit_establishes; eauto.
  - (* SetN *)
    destruct (setter_value _ _ _ Hs) as (n & r & Hp & Hr & Hle & Hn & Ha).
    destruct (setter_frames _ _ _ _ Hs) as (Eb & Eo & Enb & Em & Er & _).
    unfold InvF in *. rewrite Er, Hr in *. simpl in *.
    destruct HI as (Hfz & Hbf & s1 & Hf1 & Ho1 & Hbf1 & Hbm1).
    rewrite Eb. split; [auto|]. split; [auto|].
    assert (Ereset : reset s' = set_ns (reset s) (Some n) false).
    { unfold reset, set_ns. simpl. rewrite Ha, Hn, Eb, Eo, Enb. reflexivity. }
    rewrite Ereset. unfold fit in *. simpl in *.
    destruct (basis_fit _ _) as [b''|e]; [|discriminate].
    change (set_basis (set_ns (reset s) (Some n) false) b'') with (set_ns (set_basis (reset s) b'') (Some n) false).
    destruct (fit_tail_user_n' _ _ _ n Hf1) as (s2 & H2 & M2 & R2 & N2 & B2).
    { intros m Hm. unfold obs in Ho1. injection Ho1 as A B C. rewrite Hm in A.
      destruct (fit_tail_ok _ _ _ Hf1) as (m1 & _ & Hr1 & Hm1 & _). rewrite Hm1 in Hm. injection Hm as <-.
      rewrite Hr1, Hr in B. injection B as B. rewrite <- B in Hle. simpl in Hle. exact Hle. }
    exists s2. split; [exact H2|]. unfold obs in *. injection Ho1 as A B C.
    rewrite M2, R2, N2, A, B, Em, Er, Hr, Hn. split; [reflexivity|]. rewrite B2. auto.
  - (* UpdModes *)
    unfold update_n_basis_modes in Hs. destruct (pos_int v) as [k|]; [|discriminate].
    destruct (match b_fit (basis s) with Some _ => match b_modes (basis s) with Some avail => k <=? avail | None => false end | None => false end) eqn:Eh.
    + (* basis already has enough modes: re-rank only *)
      destruct (b_fit (basis s)) as [tk|] eqn:Etk; [|discriminate].
      unfold fit_prefit in Hs. simpl in Hs. rewrite Etk in Hs.
      unfold InvF in HI. destruct (ranked s) as [r|] eqn:Hr; [|destruct HI as (_ & _ & X); congruence].
      simpl in HI. destruct HI as (Hfz & Hbf & s1 & Hf1 & Ho1 & Hbf1 & Hbm1).
      destruct (fit_tail_ok _ _ _ Hs) as (m' & Hm' & Hr' & Hbm' & Hbs' & Hop' & Hn'). simpl in *.
      pose proof (matrix_representation_basis _ _ _ Hm') as Hmb. rewrite Etk in Hmb. rewrite Etk in Hbf.
      injection Hmb as Hmb. injection Hbf as Hbf.
      unfold InvF. rewrite Hr'. simpl. rewrite <- Hmb, Hbf, Hbs'.
      split; [exact Hfz|]. split; [now rewrite Etk, <- Hbf|].
      unfold fit in *. unfold reset at 1. simpl. rewrite Hbs'. unfold reset at 1 in Hf1. simpl in Hf1.
      destruct (basis_fit _ _) as [b''|e] eqn:Eb''; [|discriminate].
      destruct (fit_tail_ok _ _ _ Hf1) as (_ & _ & _ & _ & Hb1 & _). simpl in Hb1.
      set (X := set_basis (reset s') b'').
      destruct (fit_tail_congr (set_nbm s (Some k)) X None) as [Hsnd Hobs]; subst X; simpl; auto; try congruence.
      { pose proof (fit_tail_congr (set_nbm s (Some k)) (set_nbm s (Some k)) None eq_refl eq_refl eq_refl eq_refl eq_refl) as [_ Hx].
        rewrite Hs in Hx. simpl in Hx. destruct (Hx eq_refl) as [_ Hnn].
        unfold norm_ns in *. simpl in *. rewrite <- Hnn. reflexivity. }
      rewrite Hs in Hsnd, Hobs. simpl in Hsnd, Hobs. destruct (Hobs eq_refl) as [Ho2 _].
      destruct (fit_tail (set_basis (reset s') b'') None) as [s2 e2] eqn:E2. simpl in *. subst e2.
      exists s2. split; [reflexivity|]. split; [now rewrite Ho2|].
      destruct (fit_tail_ok _ _ _ E2) as (m2 & _ & _ & _ & Hb2 & _). simpl in Hb2. rewrite Hb2. split; congruence.
    + destruct x as [d|]; [|discriminate]. destruct (d_rows d <? k); [discriminate|].
      eapply fit_establishes; eauto. right. reflexivity.
  - (* Observe *)
    destruct (ranked s); injection Hs as <-; auto.
Qed.

Fixpoint ops_ok (s : sspor) (h : list op) : Prop :=
  match h with [] => True | o :: t => op_ok s o /\ ops_ok (fst (step s o)) t end.

Lemma run_preserves h : forall s s' es, InvF s -> run s h = (s', es) -> Forall (eq None) es -> ops_ok s h -> InvF s'.
Proof.
  induction h as [|o t IH]; intros s s' es HI Hr Hes Hok; simpl in *.
  - injection Hr as <- <-. auto.
  - destruct (step s o) as [s1 e] eqn:Es. destruct (run s1 t) as [s2 es2] eqn:Er. injection Hr as <- <-.
    inversion Hes as [|? ? He Hes']; subst. destruct Hok as [Ho Hok]. simpl in Hok.
    apply (IH s1 s2 es2); auto. eapply step_preserves; eauto.
Qed.

Lemma ctor_InvF b bm o v s0 : ctor b bm o v = inl s0 -> InvF s0.
Proof.
  unfold ctor. destruct v; simpl; try (destruct (0 <? z)%Z); intros H; try discriminate; injection H as <-;
  unfold InvF; simpl; auto.
Qed.

(* whatever the history, the basis state is always fit for the next fit: nothing is ever frozen *)
Lemma invF_op_ok s o : InvF s -> op_ok s o.
Proof.
  intro HI. destruct o; simpl; auto. unfold fit_ok_cond. unfold InvF in HI. destruct (ranked s).
  - destruct HI as ([E|(E & _)] & _); auto.
  - destruct HI as (E & _). auto.
Qed.

Lemma run_ops_ok h : forall s s' es, InvF s -> run s h = (s', es) -> Forall (eq None) es -> ops_ok s h.
Proof.
  induction h as [|o t IH]; intros s s' es HI Hr Hes; simpl in *; [exact I|].
  destruct (step s o) as [s1 e] eqn:Es. destruct (run s1 t) as [s2 es2] eqn:Er. injection Hr as <- <-.
  inversion Hes as [|? ? He Hes']; subst. split; [now apply invF_op_ok|]. simpl.
  apply (IH s1 s2 es2); auto. eapply step_preserves; eauto. now apply invF_op_ok.
Qed.

(* C15 main statement: after ANY history of successful operations, on any basis (the Identity default included), the
   model is what a fresh model configured as the user configured this one becomes when fitted on the data of the last fit *)
Theorem refit_fresh b bm o v s0 h s es r :
  ctor b bm o v = inl s0 -> run s0 h = (s, es) -> Forall (eq None) es ->
  ranked s = Some r ->
  exists s', fit (reset s) (bt_data (mt_basis (rt_mat r))) (rt_seed r) = (s', None) /\ obs s' = obs s.
Proof.
  intros Hc Hr Hes Hk. pose proof (ctor_InvF _ _ _ _ _ Hc) as H0.
  pose proof (run_preserves _ _ _ _ H0 Hr Hes (run_ops_ok _ _ _ _ H0 Hr Hes)) as HI.
  unfold InvF in HI. rewrite Hk in HI. destruct HI as (_ & _ & s' & A & B & _). eauto.
Qed.

(* update_n_basis_modes(k) with k no larger than the fitted basis: the basis object is untouched and the new
   matrix is the first k columns of the SAME fitted basis *)
Theorem update_modes_keeps_basis s k tk avail s' :
  b_fit (basis s) = Some tk -> b_modes (basis s) = Some avail -> k <= avail -> 0 < k ->
  update_n_basis_modes s (VInt (Z.of_nat k)) None = (s', None) ->
  basis s' = basis s /\ basis_matrix s' = Some {| mt_basis := tk; mt_k := k |} /\
  exists r, ranked s' = Some r /\ rt_mat r = {| mt_basis := tk; mt_k := k |} /\ rt_opt r = opt s.
Proof.
  intros Hf Hm Hle Hk. unfold update_n_basis_modes. simpl.
  destruct (Z.ltb_spec 0 (Z.of_nat k)) as [L|L]; [|lia]. rewrite Nat2Z.id, Hf, Hm.
  destruct (Nat.leb_spec k avail) as [L'|L']; [|lia].
  unfold fit_prefit. simpl. rewrite Hf. intro H.
  destruct (fit_tail_ok _ _ _ H) as (m & Hmr & Hr & Hbm & Hb & Ho & _). simpl in *.
  unfold matrix_representation in Hmr. rewrite Hf, Hm in Hmr.
  destruct (Nat.ltb_spec avail k) as [L2|L2]; [lia|]. injection Hmr as <-.
  repeat split; auto. eexists. split; [exact Hr|]. simpl. auto.
Qed.

(* the Identity default is recomputed: the history that used to be the counter-example (3 examples, then 5) now ends in
   the state of a fresh model fitted on the 5 examples *)
Definition dA := {| d_id := 1; d_rows := 3; d_width := 6 |}.
Definition dB := {| d_id := 2; d_rows := 5; d_width := 6 |}.
Example identity_default_recomputed :
  exists s0 s es s', ctor Identity None OQR VNone = inl s0 /\ run s0 [Fit dA None; Fit dB None] = (s, es) /\
    Forall (eq None) es /\ fit s0 dB None = (s', None) /\ obs s' = obs s.
Proof.
  eexists. eexists. eexists. eexists. split; [reflexivity|]. split; [vm_compute; reflexivity|].
  split; [repeat constructor|]. split; vm_compute; reflexivity.
Qed.

(* late rejections inside update_n_basis_modes -> fit DO change the model: refutes "a rejected update call leaves
   the model unchanged" for the faithful model *)
Definition dC := {| d_id := 3; d_rows := 6; d_width := 4 |}.
Example late_rejection_refuted :
  exists s0 s1 s2, ctor Identity (Some 2) OQR (VInt 5) = inl s0 /\ fit s0 dB None = (s1, None) /\
    update_n_basis_modes s1 (VInt 4) (Some dC) = (s2, Some ValueError) /\ obs s2 <> obs s1.
Proof.
  eexists. eexists. eexists. split; [reflexivity|]. split; [vm_compute; reflexivity|].
  split; [vm_compute; reflexivity|]. vm_compute. discriminate.
Qed.

(* ------------------------------------------------------------------ C17: error curves and scores are observers.
   reconstruction_error / score / predict are the Observe operation: wherever they are interleaved in a history - and
   whether they succeed or raise - the model ends in the state it would have reached without them. *)
Definition is_observe (o : op) : bool := match o with Observe => true | _ => false end.

Lemma run_cons s o t : run s (o :: t) = (fst (run (fst (step s o)) t), snd (step s o) :: snd (run (fst (step s o)) t)).
Proof. simpl. destruct (step s o) as [s1 e]. simpl. destruct (run s1 t) as [s2 es]. reflexivity. Qed.

Theorem observers_leave_no_trace h : forall s, fst (run s h) = fst (run s (filter (fun o => negb (is_observe o)) h)).
Proof.
  induction h as [|o t IH]; intro s; [reflexivity|].
  rewrite run_cons. cbn [fst filter].
  destruct o; cbn [is_observe negb]; try (rewrite run_cons; cbn [fst]; apply IH).
  destruct (step s Observe) as [s1 e] eqn:E. apply observe_noop in E. subst s1. cbn [fst]. apply IH.
Qed.

(* in particular the sensor count in force, the ranking and the basis matrix are those of the observer-free history *)
Corollary observers_keep_obs h s : obs (fst (run s h)) = obs (fst (run s (filter (fun o => negb (is_observe o)) h))).
Proof. now rewrite observers_leave_no_trace. Qed.
