(* Token machine for pysensors.reconstruction.SSPOR together with its basis and optimizer sub-objects
   (model, executable).  Attributes are mirrored one-to-one; numerical results are not computed but named
   by tokens, so that a theorem can say WHICH fresh computation every observable equals after a history.
   Source: _sspor.py (ctor 85-98, fit 99-166, setters 279-315, update_n_basis_modes 317-364,
   _validate_n_sensors 488-513), basis/_identity.py 42-69, basis/_svd.py, basis/_random_projection.py,
   basis/_base.py 22-62, optimizers/_ccqr.py 44-78. *)
From Coq Require Import List Arith ZArith Bool Lia.
Import ListNotations.

(* ---------- python values handed to guards ---------- *)
Inductive pyval := VInt (z : Z) | VFloat | VStr | VNone | VList.
Inductive err := ValueError | NotFittedError | OtherError.

Definition pos_int (v : pyval) : option nat :=
  match v with VInt z => if (0 <? z)%Z then Some (Z.to_nat z) else None | _ => None end.

(* ---------- data sets: identified by an id, with their shape ---------- *)
Record data := { d_id : nat; d_rows : nat; d_width : nat }.
Definition data_eqb (a b : data) : bool :=
  Nat.eqb (d_id a) (d_id b) && Nat.eqb (d_rows a) (d_rows b) && Nat.eqb (d_width a) (d_width b).

(* ---------- bases ---------- *)
Inductive bkind := Identity | SVD | RandProj.
(* token: a basis of kind [bk] fitted on d while its attribute n_basis_modes was k (for Identity: the number of
   examples kept, so that the token is canonical);
   its matrix has [cols] columns *)
Record btok := { bt_kind : bkind; bt_k : option nat; bt_data : data; bt_cols : nat }.
(* b_modes: the attribute n_basis_modes; b_user: what the USER configured (constructor argument or update_n_basis_modes;
   in the code: the value together with the flag _n_basis_modes_is_default); they differ exactly when an Identity basis
   with the default setting has been fitted (b_modes then holds the number of examples of the LAST fit) *)
Record basis_st := { bk : bkind; b_modes : option nat; b_user : option nat; b_fit : option btok }.

(* basis.fit(X).  SVD asked for more modes than the data has features or examples is rejected with ValueError. *)
Definition basis_fit (b : basis_st) (d : data) : basis_st + err :=
  match bk b with
  | Identity =>
      match b_user b with       (* no count configured by the user: the default (all examples) is recomputed at every fit *)
      | None => let t := {| bt_kind := Identity; bt_k := Some (d_rows d); bt_data := d; bt_cols := d_rows d |} in
                inl {| bk := Identity; b_modes := Some (d_rows d); b_user := b_user b; b_fit := Some t |}
      | Some k => if d_rows d <? k then inr ValueError
                  else inl {| bk := Identity; b_modes := Some k; b_user := b_user b;
                              b_fit := Some {| bt_kind := Identity; bt_k := Some k; bt_data := d; bt_cols := k |} |}
      end
  | SVD =>
      match b_modes b with
      | None => inr OtherError
      | Some k => if (d_width d <? k) || (d_rows d <? k) then inr ValueError      (* the data must support k modes *)
                  else inl {| bk := SVD; b_modes := Some k; b_user := b_user b;
                              b_fit := Some {| bt_kind := SVD; bt_k := Some k; bt_data := d; bt_cols := k |} |}
      end
  | RandProj =>
      match b_modes b with
      | None => inr OtherError
      | Some k => inl {| bk := RandProj; b_modes := Some k; b_user := b_user b;
                         b_fit := Some {| bt_kind := RandProj; bt_k := Some k; bt_data := d; bt_cols := k |} |}
      end
  end.

(* matrix token: first k columns of a fitted basis *)
Record mtok := { mt_basis : btok; mt_k : nat }.

(* matrix_representation(n_basis_modes) with its bound check (basis/_base.py:22-62) *)
Definition matrix_representation (b : basis_st) (k : option nat) : mtok + err :=
  match b_fit b, b_modes b with
  | Some t, Some avail =>
      match k with
      | None => inl {| mt_basis := t; mt_k := avail |}
      | Some k' => if avail <? k' then inr ValueError else inl {| mt_basis := t; mt_k := k' |}
      end
  | _, _ => inr NotFittedError
  end.

(* ---------- optimizers ---------- *)
Inductive ocfg := OQR | OCCQR (costs : option (nat * nat)) (* id, length *) | OGQR.
(* ranking token: optimizer configuration applied to a matrix, tail shuffled with a seed *)
Record rtok := { rt_opt : ocfg; rt_mat : mtok; rt_seed : option nat }.

Definition optimizer_fit (o : ocfg) (width : nat) : unit + err :=
  match o with
  | OCCQR (Some (_, len)) => if Nat.eqb len width then inl tt else inr ValueError
  | _ => inl tt
  end.

(* ---------- SSPOR ---------- *)
Record sspor := {
  basis : basis_st;
  opt : ocfg;
  n_sensors : option nat;
  ns_auto : bool;                 (* n_sensors was filled in by fit, not chosen by the user *)
  n_basis_modes : option nat;
  basis_matrix : option mtok;     (* basis_matrix_ *)
  ranked : option rtok            (* ranked_sensors_ *)
}.

Definition ctor (b : bkind) (bmodes : option nat) (o : ocfg) (v : pyval) : sspor + err :=
  let mk ns := {| basis := {| bk := b; b_modes := bmodes; b_user := bmodes; b_fit := None |}; opt := o; n_sensors := ns;
                  ns_auto := false; n_basis_modes := None; basis_matrix := None; ranked := None |} in
  match v with
  | VNone => inl (mk None)
  | _ => match pos_int v with Some n => inl (mk (Some n)) | None => inr ValueError end
  end.

Definition set_basis (s : sspor) (b : basis_st) :=
  {| basis := b; opt := opt s; n_sensors := n_sensors s; ns_auto := ns_auto s; n_basis_modes := n_basis_modes s;
     basis_matrix := basis_matrix s; ranked := ranked s |}.
Definition set_matrix (s : sspor) (m : mtok) :=
  {| basis := basis s; opt := opt s; n_sensors := n_sensors s; ns_auto := ns_auto s; n_basis_modes := n_basis_modes s;
     basis_matrix := Some m; ranked := ranked s |}.
Definition set_ns (s : sspor) (ns : option nat) (auto : bool) :=
  {| basis := basis s; opt := opt s; n_sensors := ns; ns_auto := auto; n_basis_modes := n_basis_modes s;
     basis_matrix := basis_matrix s; ranked := ranked s |}.
Definition set_ranked (s : sspor) (r : rtok) :=
  {| basis := basis s; opt := opt s; n_sensors := n_sensors s; ns_auto := ns_auto s; n_basis_modes := n_basis_modes s;
     basis_matrix := basis_matrix s; ranked := Some r |}.
Definition set_nbm (s : sspor) (k : option nat) :=
  {| basis := basis s; opt := opt s; n_sensors := n_sensors s; ns_auto := ns_auto s; n_basis_modes := k;
     basis_matrix := basis_matrix s; ranked := ranked s |}.
Definition set_bmodes (s : sspor) (k : nat) :=
  set_basis s {| bk := bk (basis s); b_modes := Some k; b_user := Some k; b_fit := b_fit (basis s) |}.

(* the part of fit after basis_matrix_ is known: _validate_n_sensors, optimizer.fit, ranking *)
Definition fit_after_matrix (s : sspor) (m : mtok) (seed : option nat) : sspor * option err :=
  let s1 := set_matrix s m in
  let width := d_width (bt_data (mt_basis m)) in
  (* _validate_n_sensors: a count that fit itself filled in is recomputed, a user's count is checked *)
  let chk := match n_sensors s1 with
             | None => inl (set_ns s1 (Some width) true)
             | Some n => if ns_auto s1 then inl (set_ns s1 (Some width) true)
                         else if width <? n then inr ValueError else inl s1
             end in
  match chk with
  | inr e => (s1, Some e)
  | inl s2 =>
      match optimizer_fit (opt s2) width with
      | inr e => (s2, Some e)
      | inl _ => (set_ranked s2 {| rt_opt := opt s2; rt_mat := m; rt_seed := seed |}, None)
      end
  end.

(* the part of fit after the basis is available *)
Definition fit_tail (s : sspor) (seed : option nat) : sspor * option err :=
  match matrix_representation (basis s) (n_basis_modes s) with
  | inr e => (s, Some e)
  | inl m => fit_after_matrix s m seed
  end.

Definition fit (s : sspor) (d : data) (seed : option nat) : sspor * option err :=
  match basis_fit (basis s) d with
  | inr e => (s, Some e)
  | inl b => fit_tail (set_basis s b) seed
  end.

Definition fit_prefit (s : sspor) (seed : option nat) : sspor * option err :=
  match b_fit (basis s) with
  | None => (s, Some NotFittedError)
  | Some _ => fit_tail s seed
  end.

Definition set_number_of_sensors (s : sspor) (v : pyval) : sspor * option err :=
  match ranked s with
  | None => (s, Some NotFittedError)
  | Some r =>
      match pos_int v with
      | None => (s, Some ValueError)
      | Some n => if d_width (bt_data (mt_basis (rt_mat r))) <? n then (s, Some ValueError)
                  else (set_ns s (Some n) false, None)
      end
  end.

Definition update_n_basis_modes (s : sspor) (v : pyval) (x : option data) : sspor * option err :=
  match pos_int v with
  | None => (s, Some ValueError)
  | Some k =>
      let have := match b_fit (basis s), b_modes (basis s) with
                  | Some _, Some avail => k <=? avail | _, _ => false end in
      if have then fit_prefit (set_nbm s (Some k)) None
      else match x with
           | None => (s, Some ValueError)
           | Some d => if d_rows d <? k then (s, Some ValueError)
                       else fit (set_bmodes (set_nbm s (Some k)) k) d None
           end
  end.

(* ---------- operations and histories ---------- *)
Inductive op :=
  | Fit (d : data) (seed : option nat)
  | SetN (v : pyval)
  | UpdModes (v : pyval) (x : option data)
  | Observe.                                  (* selected_sensors / all_sensors / predict / score *)

Definition step (s : sspor) (o : op) : sspor * option err :=
  match o with
  | Fit d seed => fit s d seed
  | SetN v => set_number_of_sensors s v
  | UpdModes v x => update_n_basis_modes s v x
  | Observe => match ranked s with None => (s, Some NotFittedError) | Some _ => (s, None) end
  end.

Fixpoint run (s : sspor) (h : list op) : sspor * list (option err) :=
  match h with
  | [] => (s, [])
  | o :: t => let (s1, e) := step s o in let (s2, es) := run s1 t in (s2, e :: es)
  end.

(* observable state: which matrix, which ranking, how many sensors are in use.
   selected sensors = firstn n_sensors (ranking named by the token); predictions and scores are functions of
   (basis matrix token, ranking token, n_sensors). *)
Definition obs (s : sspor) : option mtok * option rtok * option nat := (basis_matrix s, ranked s, n_sensors s).

(* ---------- encodings used by the correspondence runner ---------- *)
Definition err_code (e : option err) : nat :=
  match e with None => 0 | Some ValueError => 1 | Some NotFittedError => 2 | Some OtherError => 3 end.
Definition bkind_code (b : bkind) : nat := match b with Identity => 0 | SVD => 1 | RandProj => 2 end.
Definition on (o : option nat) : nat := match o with None => 0 | Some n => S n end.
Definition btok_code (t : btok) : list nat := [bkind_code (bt_kind t); on (bt_k t); d_id (bt_data t); bt_cols t].
Definition mtok_code (m : option mtok) : list nat :=
  match m with None => [] | Some m => btok_code (mt_basis m) ++ [mt_k m] end.
Definition ocfg_code (o : ocfg) : list nat :=
  match o with OQR => [0] | OCCQR None => [1] | OCCQR (Some (i, l)) => [2; i; l] | OGQR => [3] end.
Definition rtok_code (r : option rtok) : list nat :=
  match r with None => [] | Some r => ocfg_code (rt_opt r) ++ [99] ++ mtok_code (Some (rt_mat r)) ++ [99; on (rt_seed r)] end.
Definition state_code (s : sspor) : list (list nat) :=
  [mtok_code (basis_matrix s); rtok_code (ranked s); [on (n_sensors s)]; [on (n_basis_modes s)];
   [on (b_modes (basis s))]].
