(* Scores and error metrics (model, executable over Qc, in squared form where the code takes a square root).
   Sources: _sspor.py score 366-419, reconstruction_error 421-486; utils/_validation.py determinant 9-44,
   relative_reconstruction_error 47-62. *)
From Coq Require Import List Arith QArith Qcanon Bool.
Import ListNotations.
Open Scope Qc_scope.

Definition q (a : Z) (b : positive) : Qc := Q2Qc (a # b).
Definition qsum (l : list Qc) : Qc := fold_right Qcplus 0 l.
Definition sqdiff (a b : list (list Qc)) : list Qc :=
  flat_map (fun p => map (fun q => (fst q - snd q) * (fst q - snd q)) (combine (fst p) (snd p))) (combine a b).
Definition count (a : list (list Qc)) : nat := length (flat_map (fun r => r) a).
Definition qnat (n : nat) : Qc := Q2Qc (inject_Z (Z.of_nat n)).
(* mean squared difference: score = - sqrt(mse x prediction) *)
Definition mse (x pred : list (list Qc)) : Qc := qsum (sqdiff x pred) / qnat (count x).
(* relative error squared: (100 |d - p| / |d|)^2 *)
Definition sqnorm (a : list (list Qc)) : Qc := qsum (flat_map (fun r => map (fun v => v * v) r) a).
Definition rel_err2 (d p : list (list Qc)) : Qc := Q2Qc 10000 * qsum (sqdiff d p) / sqnorm d.

(* determinant by Laplace expansion along the first row *)
Fixpoint remove_col (j : nat) (r : list Qc) : list Qc :=
  match r, j with [], _ => [] | _ :: t, O => t | x :: t, S j' => x :: remove_col j' t end.
Fixpoint det_fuel (fuel : nat) (M : list (list Qc)) : Qc :=
  match fuel with
  | O => 1
  | S f =>
      match M with
      | [] => 1
      | row :: rest =>
          qsum (map (fun p => let '(j, v) := p in
                       (if Nat.even j then v else - v) * det_fuel f (map (remove_col j) rest))
                    (combine (seq 0 (length row)) row))
      end
  end.
Definition det (M : list (list Qc)) : Qc := det_fuel (length M) M.
Definition transpose_mul (A : list (list Qc)) : list (list Qc) :=   (* A^T A *)
  let m := length (hd [] A) in
  map (fun i => map (fun j => qsum (map (fun r => nth i r 0 * nth j r 0) A)) (seq 0 m)) (seq 0 m).
(* determinant(top_sensors, n_features, basis_matrix): |det B_S| if p = m, det(B_S^T B_S) if p > m *)
Definition optimality (BS : list (list Qc)) : Qc :=
  let p := length BS in let m := length (hd [] BS) in
  if Nat.eqb p m then (let d := det BS in if Qle_bool 0 d then d else - d) else det (transpose_mul BS).
