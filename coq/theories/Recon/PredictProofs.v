From Coq Require Import List Arith Lia QArith Qcanon Bool Ring Field.
Import ListNotations.
From PS Require Import LA.Sums LA.Gram LA.GramProofs Recon.Predict.
Open Scope Qc_scope.

Lemma Qceqb_iff x y : Qceqb x y = true <-> x = y.
Proof. unfold Qceqb. split; [apply Qc_eq_bool_correct|intros ->]. unfold Qc_eq_bool. destruct (Qc_eq_dec y y); congruence. Qed.

Lemma forallb_seq (f : nat -> bool) m : forallb f (seq 0 m) = true <-> forall j, (j < m)%nat -> f j = true.
Proof. rewrite forallb_forall. split; intros H j Hj; apply H; [apply in_seq; lia|apply in_seq in Hj; lia]. Qed.

(* the executable certificate checker is sound and complete *)
Theorem check_cert_iff p m BS y a z : check_cert p m BS y a z = true <-> cert_ok p m BS y a z.
Proof.
  unfold check_cert, cert_ok, normal_eqs. rewrite andb_true_iff, !forallb_seq.
  split; intros [A B]; split; intros j Hj; apply Qceqb_iff; auto.
Qed.

(* C07: the certified coefficients are a least-squares best fit of the measurements at the sensors *)
Theorem cert_least_squares p m BS y a z a' : cert_ok p m BS y a z ->
  nrm2 p (residual p m BS a y) <= nrm2 p (residual p m BS a' y).
Proof. intros [NE _]. now apply lsq_optimal. Qed.

(* minimum-norm least-squares solutions are unique: the reconstruction is a FUNCTION of the measurements *)
Theorem cert_unique p m BS y a1 z1 a2 z2 : cert_ok p m BS y a1 z1 -> cert_ok p m BS y a2 z2 ->
  forall j, (j < m)%nat -> a1 j = a2 j.
Proof.
  intros [N1 R1] [N2 R2].
  pose proof (lsq_image_unique p m BS y a1 a2 N1 N2) as Im.
  set (d := vsub a1 a2). set (w := vsub z1 z2).
  assert (Dw : forall j, (j < m)%nat -> d j = tmatvec p BS w j).
  { intros j Hj. unfold d, vsub. rewrite R1, R2 by auto. unfold tmatvec, w, vsub. rewrite <- sum_sub. apply sum_ext. intros; ring. }
  assert (Z : nrm2 m d = 0).
  { unfold nrm2. rewrite (dot_ext m d d d (tmatvec p BS w)) by auto. rewrite <- adjoint.
    unfold dot. apply sum_zero. intros i Hi. unfold d. rewrite matvec_sub. rewrite Im by auto. ring. }
  intros j Hj. pose proof (nrm2_zero m d Z j Hj) as H. unfold d, vsub in H.
  transitivity (a1 j - a2 j + a2 j); [ring|]. rewrite H. ring.
Qed.

(* exact interpolation whenever the measurements can be matched at all (e.g. independent sensor rows, p <= m) *)
Theorem cert_interpolates p m BS y a z a' : cert_ok p m BS y a z ->
  (forall i, (i < p)%nat -> matvec m BS a' i = y i) -> forall i, (i < p)%nat -> matvec m BS a i = y i.
Proof.
  intros [NE _] Hy i Hi.
  assert (N' : normal_eqs p m BS a' y).
  { intros j Hj. unfold tmatvec. apply sum_zero. intros i' Hi'. unfold residual, vsub. rewrite Hy by auto. ring. }
  rewrite (lsq_image_unique p m BS y a a' NE N' i Hi). now apply Hy.
Qed.

(* the map measurements -> reconstruction is linear *)
Theorem cert_linear p m BS y1 a1 z1 y2 a2 z2 c1 c2 : cert_ok p m BS y1 a1 z1 -> cert_ok p m BS y2 a2 z2 ->
  cert_ok p m BS (vadd (vscale c1 y1) (vscale c2 y2)) (vadd (vscale c1 a1) (vscale c2 a2)) (vadd (vscale c1 z1) (vscale c2 z2)).
Proof.
  intros [N1 R1] [N2 R2]. split.
  - intros j Hj. specialize (N1 j Hj). specialize (N2 j Hj). unfold tmatvec in *.
    transitivity (c1 * sum p (fun i => BS i j * residual p m BS a1 y1 i) + c2 * sum p (fun i => BS i j * residual p m BS a2 y2 i)).
    + rewrite <- !sum_scale, <- sum_add. apply sum_ext. intros i Hi.
      unfold residual, vsub, vadd, vscale, matvec, dot.
      assert (E : sum m (fun t => BS i t * (c1 * a1 t + c2 * a2 t)) = c1 * sum m (fun t => BS i t * a1 t) + c2 * sum m (fun t => BS i t * a2 t)).
      { rewrite <- !sum_scale, <- sum_add. apply sum_ext. intros; ring. }
      rewrite E. ring.
    + rewrite N1, N2. ring.
  - intros j Hj. unfold vadd, vscale. rewrite R1, R2 by auto. unfold tmatvec. rewrite <- !sum_scale, <- sum_add.
    apply sum_ext. intros; ring.
Qed.

(* C02: exact recovery of signals in the span of the basis when the sensor rows have trivial kernel *)
Theorem cert_exact_recovery p m BS a0 a z : kernel_trivial p m BS ->
  cert_ok p m BS (matvec m BS a0) a z -> forall j, (j < m)%nat -> a j = a0 j.
Proof. intros K [NE _]. now apply (span_exact p m BS a0 a K NE). Qed.

(* ---- shapes ---- *)
Theorem predict_vec_eq_batch1 nf nm ns len :
  match predict_shape nf nm ns (Vec len), predict_shape nf nm ns (Batch 1 len) with
  | POk b1 (Vec o1), POk b2 (Batch 1 o2) => b1 = b2 /\ o1 = o2
  | PValueError, PValueError => True
  | _, _ => False
  end.
Proof. unfold predict_shape. destruct (Nat.eqb len ns); auto. Qed.

Theorem predict_batch_shape nf nm ns k cols br out : predict_shape nf nm ns (Batch k cols) = POk br out ->
  out = Batch k nf /\ cols = ns /\ (br = Square <-> ns = nm).
Proof.
  unfold predict_shape. destruct (Nat.eqb_spec cols ns); [|discriminate]. intro H. injection H as <- <-.
  repeat split; auto; destruct (Nat.eqb_spec ns nm); auto; try discriminate; try contradiction.
Qed.

Theorem predict_wrong_width nf nm ns k cols : cols <> ns ->
  predict_shape nf nm ns (Batch k cols) = PValueError /\ predict_shape nf nm ns (Vec cols) = PValueError.
Proof. intro H. unfold predict_shape. destruct (Nat.eqb_spec cols ns); [contradiction|auto]. Qed.
