(* SSPOR.predict (model): the reconstruction is B a where a is the minimum-norm least-squares solution of
   B_S a = y  (scipy.linalg.lstsq; scipy.linalg.solve when the system is square and non-singular), B_S = rows S of B.
   The model is relational with an executable certificate checker: (a, z) certifies  a = B_S^T z  (a lies in the row
   space: minimum norm) and  B_S^T (B_S a - y) = 0  (normal equations: least squares).
   Also the shape/dispatch glue of _sspor.py 188-223 and utils/_base.py 8-31.
   Sources: _sspor.py predict 168-223. *)
From Coq Require Import List Arith QArith Qcanon Bool.
Import ListNotations.
From PS Require Import LA.Sums LA.Gram.
Open Scope Qc_scope.

(* index-function views of list data *)
Definition vec_of (l : list Qc) : nat -> Qc := fun i => nth i l 0.
Definition rows_sel (B : fmat) (S : list nat) : fmat := fun i t => B (nth i S 0%nat) t.

(* least-squares + minimum-norm certificate for the p x m system (p = |S|) *)
Definition cert_ok (p m : nat) (BS : fmat) (y a z : nat -> Qc) : Prop :=
  normal_eqs p m BS a y /\ (forall j, (j < m)%nat -> a j = tmatvec p BS z j).

Definition Qceqb (x y : Qc) : bool := Qc_eq_bool x y.
Definition check_cert (p m : nat) (BS : fmat) (y a z : nat -> Qc) : bool :=
  forallb (fun j => Qceqb (tmatvec p BS (residual p m BS a y) j) 0) (seq 0 m) &&
  forallb (fun j => Qceqb (a j) (tmatvec p BS z j)) (seq 0 m).

(* full check of one prediction: certificate for the sensor rows, and yhat = B a on all n rows *)
Definition check_predict (n m : nat) (B : fmat) (S : list nat) (y a z yhat : list Qc) : bool :=
  let p := length S in
  check_cert p m (rows_sel B S) (vec_of y) (vec_of a) (vec_of z) &&
  forallb (fun i => Qceqb (nth i yhat 0) (matvec m B (vec_of a) i)) (seq 0 n) &&
  Nat.eqb (length y) p && Nat.eqb (length a) m && Nat.eqb (length z) p && Nat.eqb (length yhat) n.

(* ---- shapes and dispatch ---- *)
Inductive shape := Vec (len : nat) | Batch (rows cols : nat) | NotAnArray.
Inductive branch := Square | Rectangular.
Inductive presult := POk (br : branch) (out : shape) | PValueError.
(* validate_input(x, selected sensors).T ; square iff n_sensors = number of modes ; result transposed back *)
Definition predict_shape (n_features n_modes n_sensors : nat) (x : shape) : presult :=
  let br := if Nat.eqb n_sensors n_modes then Square else Rectangular in
  match x with
  | NotAnArray => PValueError
  | Vec len => if Nat.eqb len n_sensors then POk br (Vec n_features) else PValueError
  | Batch k cols => if Nat.eqb cols n_sensors then POk br (Batch k n_features) else PValueError
  end.
