(* Transcription of pysensors/utils/_norm_calc.py (model, executable): which candidates are zeroed at step j.
   permit = true  <->  the entry of the candidate is left untouched. *)
From Coq Require Import List Arith Bool.
Import ListNotations.

Definition mem (x : nat) (l : list nat) : bool := existsb (Nat.eqb x) l.
Definition count_in (L l : list nat) : nat := length (filter (fun x => mem x L) l).

Record settings := {
  lin_idx : list nat;           (* idx_constrained *)
  all_sensors : list nat;       (* unconstrained ranking handed in by the user *)
  n_sensors : option nat;       (* None or 0 => len(all_sensors) *)
  n_const : nat                 (* n_const_sensors *)
}.
Definition eff_n (g : settings) : nat :=
  match n_sensors g with None | Some 0 => length (all_sensors g) | Some n => n end.

(* unconstrained: lines 9-10 *)
Definition permit_free (g : settings) (j c : nat) : bool := true.

(* max_n: lines 53-97.  counter exceeds n_const_sensors while scanning all_sensors[:n_sensors]  <->  the unconstrained
   top-N holds more than s region sensors; then every region sensor beyond the s best-ranked ones is zeroed *)
Definition const_idx (g : settings) : list nat := filter (fun x => mem x (lin_idx g)) (all_sensors g).
Definition permit_max_n (g : settings) (j c : nat) : bool :=
  if n_const g <? count_in (lin_idx g) (firstn (eff_n g) (all_sensors g))
  then negb (mem c (skipn (n_const g) (const_idx g)))
  else true.

(* exact_n: lines 13-50 *)
Definition permit_exact_n (g : settings) (j c : nat) : bool :=
  let N := eff_n g in
  let count := count_in (lin_idx g) (firstn j (all_sensors g)) in
  if count_in (lin_idx g) (firstn N (all_sensors g)) <? n_const g
  then if (j <? N) && (N - (n_const g - count) <=? j) then mem c (lin_idx g) else true
  else permit_max_n g j c.

(* predetermined: lines 100-127 (n_sensors must be given) *)
Definition permit_predetermined (g : settings) (j c : nat) : bool :=
  let N := match n_sensors g with Some n => n | None => 0 end in
  if (N - n_const g <=? j) && (j <=? N) then mem c (lin_idx g) else negb (mem c (lin_idx g)).

Inductive option_name := OFree | OExact | OMax | OPre.
Definition permit_of (o : option_name) : settings -> nat -> nat -> bool :=
  match o with OFree => permit_free | OExact => permit_exact_n | OMax => permit_max_n | OPre => permit_predetermined end.
