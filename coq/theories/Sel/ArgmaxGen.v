(* numpy's first-maximum argmax over any totally pre-ordered key type (model + characterisation).
   Used with K = Qc (squared residual norms) and with K = Qc * Qc (squared norm, cost) ordered by sqrt(a) - c. *)
From Coq Require Import List Arith Lia Bool.
Import ListNotations.

Section ArgmaxBy.
Variable K : Type.
Variable leb : K -> K -> bool.
Hypothesis leb_refl : forall x, leb x x = true.
Hypothesis leb_trans : forall x y z, leb x y = true -> leb y z = true -> leb x z = true.
Hypothesis leb_total : forall x y, leb x y = true \/ leb y x = true.
Variable d : K.

Definition ltb (x y : K) : bool := negb (leb y x).

Fixpoint argmax_aux (bi : nat) (bv : K) (i : nat) (l : list K) : nat :=
  match l with
  | [] => bi
  | v :: t => if ltb bv v then argmax_aux i v (S i) t else argmax_aux bi bv (S i) t
  end.
Definition argmax_by (l : list K) : nat := match l with [] => 0 | v :: t => argmax_aux 0 v 1 t end.

Lemma ltb_leb x y : ltb x y = true -> leb x y = true.
Proof. unfold ltb. rewrite negb_true_iff. intro H. destruct (leb_total x y); congruence. Qed.
Lemma ltb_false x y : ltb x y = false -> leb y x = true.
Proof. unfold ltb. rewrite negb_false_iff. auto. Qed.
Lemma le_lt_trans x y z : leb x y = true -> ltb y z = true -> ltb x z = true.
Proof.
  unfold ltb. rewrite !negb_true_iff. intros A B. destruct (leb z x) eqn:E; auto.
  rewrite (leb_trans z x y E A) in B. discriminate.
Qed.
Lemma lt_le_trans x y z : ltb x y = true -> leb y z = true -> ltb x z = true.
Proof.
  unfold ltb. rewrite !negb_true_iff. intros A B. destruct (leb z x) eqn:E; auto.
  rewrite (leb_trans y z x B E) in A. discriminate.
Qed.

Lemma argmax_aux_spec l : forall bi bv i, bi < i ->
  (argmax_aux bi bv i l = bi /\ Forall (fun v => leb v bv = true) l) \/
  (exists k, argmax_aux bi bv i l = i + k /\ k < length l /\ ltb bv (nth k l d) = true /\
      Forall (fun v => leb v (nth k l d) = true) l /\ forall k', k' < k -> ltb (nth k' l d) (nth k l d) = true).
Proof.
  induction l as [|v t IH]; intros bi bv i Hlt; simpl.
  - left; auto.
  - destruct (ltb bv v) eqn:H.
    + destruct (IH i v (S i) ltac:(lia)) as [[E F]|[k [E [L [B [F P]]]]]].
      * right. exists 0. simpl. split; [lia|]. split; [lia|]. split; [auto|]. split.
        -- constructor; auto.
        -- intros; lia.
      * right. exists (S k). simpl. split; [lia|]. split; [lia|]. split; [eapply lt_le_trans; eauto using ltb_leb|]. split.
        -- constructor; [now apply ltb_leb|auto].
        -- intros [|k'] Hk; simpl; [auto|apply P; lia].
    + destruct (IH bi bv (S i) ltac:(lia)) as [[E F]|[k [E [L [B [F P]]]]]].
      * left. split; auto. constructor; auto. now apply ltb_false.
      * right. exists (S k). simpl. split; [lia|]. split; [lia|]. split; [auto|]. split.
        -- constructor; auto. apply ltb_leb. eapply le_lt_trans; [apply ltb_false; eauto|auto].
        -- intros [|k'] Hk; simpl; [eapply le_lt_trans; [apply ltb_false; eauto|auto]|apply P; lia].
Qed.

Lemma argmax_by_spec l : l <> [] ->
  argmax_by l < length l /\ Forall (fun v => leb v (nth (argmax_by l) l d) = true) l /\
  forall k, k < argmax_by l -> ltb (nth k l d) (nth (argmax_by l) l d) = true.
Proof.
  destruct l as [|v t]; [congruence|intros _]. unfold argmax_by.
  destruct (argmax_aux_spec t 0 v 1 ltac:(lia)) as [[E F]|[k [E [L [B [F P]]]]]]; rewrite E; simpl.
  - split; [lia|]. split. constructor; auto. intros; lia.
  - split; [lia|]. split. constructor; [now apply ltb_leb|auto].
    intros [|k'] Hk; simpl; [auto|apply P; lia].
Qed.

Lemma Forall_nth_leb (l : list K) b : Forall (fun v => leb v b = true) l -> forall k, k < length l -> leb (nth k l d) b = true.
Proof. intros H k Hk. rewrite Forall_forall in H. apply H. now apply nth_In. Qed.

Lemma argmax_by_unique l i : i < length l ->
  (forall k, k < length l -> leb (nth k l d) (nth i l d) = true) ->
  (forall k, k < i -> ltb (nth k l d) (nth i l d) = true) -> argmax_by l = i.
Proof.
  intros Hi Hmax Hfirst.
  assert (Hne : l <> []) by (destruct l; simpl in *; [lia|discriminate]).
  destruct (argmax_by_spec l Hne) as (A & B & Cc).
  pose proof (Forall_nth_leb _ _ B) as B'.
  destruct (Nat.lt_trichotomy (argmax_by l) i) as [L|[E|L]]; auto.
  - specialize (Hfirst _ L). specialize (B' i Hi). unfold ltb in Hfirst. rewrite B' in Hfirst. discriminate.
  - specialize (Cc _ L). specialize (Hmax _ A). unfold ltb in Cc. rewrite Hmax in Cc. discriminate.
Qed.
End ArgmaxBy.

(* two lists whose pairwise comparisons agree have the same first maximum (even over different key types) *)
Lemma argmax_by_congr K1 (leb1 : K1 -> K1 -> bool) K2 (leb2 : K2 -> K2 -> bool) d1 d2 l1 l2 :
  (forall x, leb1 x x = true) -> (forall x y z, leb1 x y = true -> leb1 y z = true -> leb1 x z = true) ->
  (forall x y, leb1 x y = true \/ leb1 y x = true) ->
  (forall x, leb2 x x = true) -> (forall x y z, leb2 x y = true -> leb2 y z = true -> leb2 x z = true) ->
  (forall x y, leb2 x y = true \/ leb2 y x = true) ->
  length l1 = length l2 ->
  (forall i j, i < length l1 -> j < length l1 -> leb1 (nth i l1 d1) (nth j l1 d1) = leb2 (nth i l2 d2) (nth j l2 d2)) ->
  argmax_by K1 leb1 l1 = argmax_by K2 leb2 l2.
Proof.
  intros R1 T1 O1 R2 T2 O2 HL HC.
  destruct l2 as [|v2 t2] eqn:E2.
  - destruct l1; [reflexivity|discriminate].
  - rewrite <- E2 in *. assert (Hne : l2 <> []) by (rewrite E2; discriminate).
    destruct (argmax_by_spec K2 leb2 R2 T2 O2 d2 l2 Hne) as (A & F & P).
    pose proof (Forall_nth_leb K2 leb2 d2 l2 _ F) as F'.
    apply (argmax_by_unique K1 leb1 R1 T1 O1 d1).
    + lia.
    + intros k Hk. rewrite HC by lia. apply F'. lia.
    + intros k Hk. specialize (P k Hk). unfold ltb in *. rewrite HC by lia. exact P.
Qed.

