(* The pivoting loop of GQR / CCQR over an abstract key oracle (model, executable).
   State (rk, cs): rk = p[:j] (sensors ranked so far), cs = p[j:] in array order.  One step: compute the value of
   every remaining candidate, take numpy's first-maximum argmax i, swap p[j] <-> p[j+i].
   Source: _gqr.py 93-133, _ccqr.py 85-96 + qr_reflector 128-131. *)
From Coq Require Import List Arith ZArith Lia Bool.
Import ListNotations.
From PS Require Import Sel.Argmax.
Open Scope Z_scope.

Definition state := (list nat * list nat)%type.

Fixpoint replace (i : nat) (x : nat) (l : list nat) : list nat :=
  match l, i with [], _ => [] | _ :: t, O => x :: t | y :: t, S i' => y :: replace i' x t end.

Section Loop.
(* value of every remaining candidate given the history: norms with forbidden entries zeroed (GQR) or norm - cost (CCQR) *)
Variable dv : list nat -> list nat -> list Z.

Definition picked (st : state) : nat := let (rk, cs) := st in nth (argmax (dv rk cs)) cs 0%nat.

Definition step (st : state) : state :=
  let (rk, cs) := st in
  match cs with
  | [] => st
  | c0 :: rest =>
      match argmax (dv rk cs) with
      | O => (rk ++ [c0], rest)
      | S i' => (rk ++ [nth i' rest 0%nat], replace i' c0 rest)
      end
  end.

Fixpoint run (k : nat) (st : state) : state := match k with O => st | S k' => step (run k' st) end.
End Loop.

(* the value functions of the three optimizers *)
Section Values.
Variable key : list nat -> nat -> Z.             (* residual norm of candidate c after ranking rk *)
(* GQR: permit j c = false means norm_calc zeroes the entry of candidate c at step j *)
Definition dv_gqr (permit : nat -> nat -> bool) (rk cs : list nat) : list Z :=
  map (fun c => if permit (length rk) c then key rk c else 0) cs.
Definition dv_free (rk cs : list nat) : list Z := map (key rk) cs.
(* CCQR: norm - cost, costs addressed by sensor id *)
Definition dv_ccqr (cost : nat -> Z) (rk cs : list nat) : list Z := map (fun c => key rk c - cost c) cs.
End Values.

Definition init (n : nat) : state := ([], seq 0 n).
(* the array p after k steps *)
Definition pivots (st : state) : list nat := fst st ++ snd st.
