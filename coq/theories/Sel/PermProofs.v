(* Proofs about Sel/Perm.v (kept apart from the model so the model still runs when a proof breaks). *)
From Coq Require Import List Arith Lia Permutation Bool.
Import ListNotations.
From PS Require Import Sel.Perm.

Lemma swap_length l i j : length (swap l i j) = length l.
Proof. unfold swap. destruct (nth_error l i), (nth_error l j); auto. now rewrite map_length, seq_length. Qed.

Lemma nth_map_seq (f : nat -> nat) n k d : k < n -> nth k (map f (seq 0 n)) d = f k.
Proof. intros H. rewrite (nth_indep _ d (f 0)) by now rewrite map_length, seq_length.
  rewrite map_nth. now rewrite seq_nth. Qed.

Lemma nth_swap l i j k a b : nth_error l i = Some a -> nth_error l j = Some b -> k < length l ->
  nth k (swap l i j) 0 = if Nat.eqb k i then b else if Nat.eqb k j then a else nth k l 0.
Proof. intros Hi Hj Hk. unfold swap. rewrite Hi, Hj. now rewrite nth_map_seq. Qed.

Lemma swap_perm l i j : Permutation l (swap l i j).
Proof.
  destruct (nth_error l i) as [a|] eqn:Hi; [|unfold swap; rewrite Hi; auto].
  destruct (nth_error l j) as [b|] eqn:Hj; [|unfold swap; rewrite Hi, Hj; auto].
  assert (Li : i < length l) by (apply nth_error_Some; congruence).
  assert (Lj : j < length l) by (apply nth_error_Some; congruence).
  apply (Permutation_nth l (swap l i j) 0). split; [now rewrite swap_length|].
  exists (fun k => if Nat.eqb k i then j else if Nat.eqb k j then i else k).
  split; [|split].
  - intros k Hk. destruct (Nat.eqb_spec k i); [lia|]. destruct (Nat.eqb_spec k j); lia.
  - intros x y Hx Hy. unfold FinFun.bInjective in *.
    destruct (Nat.eqb_spec x i), (Nat.eqb_spec x j), (Nat.eqb_spec y i), (Nat.eqb_spec y j); intros; subst; try lia.
  - intros k Hk. rewrite (nth_swap l i j k a b Hi Hj Hk).
    apply nth_error_nth with (d:=0) in Hi. apply nth_error_nth with (d:=0) in Hj.
    destruct (Nat.eqb_spec k i); [subst; auto|]. destruct (Nat.eqb_spec k j); subst; auto.
Qed.

Lemma swap_track_from_perm offs : forall p j, Permutation p (swap_track_from p j offs).
Proof. induction offs as [|o os IH]; intros p j; simpl; auto. eapply perm_trans; [apply swap_perm|apply IH]. Qed.

Theorem swap_track_perm n offs : Permutation (seq 0 n) (swap_track n offs).
Proof. apply swap_track_from_perm. Qed.

Lemma replay_from_perm lead : forall p j q, replay_from p j lead = Some q -> Permutation p q.
Proof.
  induction lead as [|s rest IH]; intros p j q H; simpl in H.
  - injection H as <-. apply Permutation_refl.
  - destruct (index_of s (skipn j p)) as [o|]; [|discriminate].
    eapply perm_trans; [apply swap_perm|]. eapply IH; eauto.
Qed.

Theorem replay_perm n lead q : replay n lead = Some q -> Permutation (seq 0 n) q.
Proof. apply replay_from_perm. Qed.

(* the replay really is a run of the pivoting loop for some offsets *)
Lemma replay_from_is_swap_track lead : forall p j q, replay_from p j lead = Some q ->
  exists offs, length offs = length lead /\ q = swap_track_from p j offs.
Proof.
  induction lead as [|s rest IH]; intros p j q H; simpl in H.
  - injection H as <-. exists []. auto.
  - destruct (index_of s (skipn j p)) as [o|]; [|discriminate].
    destruct (IH _ _ _ H) as [offs [L E]]. exists (o :: offs). simpl. split; [lia|auto].
Qed.

(* ---- tail shuffle ---- *)
Theorem shuffle_tail_perm m r tail' :
  Permutation (skipn m r) tail' -> Permutation r (shuffle_tail m r tail').
Proof.
  intro H. unfold shuffle_tail. rewrite <- (firstn_skipn m r) at 1.
  now apply Permutation_app_head.
Qed.

Theorem shuffle_tail_lead m r tail' : m <= length r -> firstn m (shuffle_tail m r tail') = firstn m r.
Proof.
  intro H. unfold shuffle_tail.
  rewrite firstn_app, firstn_firstn, Nat.min_id, firstn_length, Nat.min_l by lia.
  rewrite Nat.sub_diag. simpl. now rewrite app_nil_r.
Qed.

Theorem shuffle_tail_tail m r tail' : m <= length r -> skipn m (shuffle_tail m r tail') = tail'.
Proof.
  intro H. unfold shuffle_tail.
  rewrite skipn_app, firstn_length, Nat.min_l by lia.
  rewrite Nat.sub_diag. simpl.
  rewrite skipn_all2; [reflexivity|]. rewrite firstn_length. lia.
Qed.

(* ---- selection ---- *)
Lemma perm_seq_bound n r : Permutation (seq 0 n) r -> forall i, In i r -> i < n.
Proof. intros H i Hi. apply Permutation_sym in H. apply (Permutation_in _ H) in Hi. apply in_seq in Hi. lia. Qed.

Lemma In_firstn {A} k (l : list A) x : In x (firstn k l) -> In x l.
Proof. revert k; induction l as [|a l IH]; intros [|k]; simpl; auto; try tauto. intros [H|H]; eauto. Qed.

Lemma NoDup_firstn {A} k (l : list A) : NoDup l -> NoDup (firstn k l).
Proof.
  revert k; induction l as [|a l IH]; intros [|k] H; simpl; try constructor.
  - inversion H; subst. intro Hin. apply H2. eapply In_firstn; eauto.
  - inversion H; subst. auto.
Qed.

Theorem selected_ok n k r : Permutation (seq 0 n) r -> k <= n ->
  NoDup (selected k r) /\ (forall i, In i (selected k r) -> i < n) /\ length (selected k r) = k.
Proof.
  intros H Hk. unfold selected. split; [|split].
  - apply NoDup_firstn. eapply Permutation_NoDup; [exact H|apply seq_NoDup].
  - intros i Hi. eapply perm_seq_bound; eauto. eapply In_firstn; eauto.
  - rewrite firstn_length. apply Permutation_length in H. rewrite seq_length in H. lia.
Qed.

Theorem selected_prefix k1 k2 r : k1 <= k2 -> selected k1 r = firstn k1 (selected k2 r).
Proof. intro H. unfold selected. rewrite firstn_firstn. now rewrite Nat.min_l. Qed.

(* ---- executable checkers are sound ---- *)
Lemma count_occ_pos_In x l : 0 < count_occ_nat x l -> In x l.
Proof.
  unfold count_occ_nat. induction l as [|y t IH]; simpl; [lia|].
  destruct (Nat.eqb_spec x y); simpl; intros; [left; auto|right; auto].
Qed.

Theorem is_perm_of_range_sound n l : is_perm_of_range n l = true -> Permutation (seq 0 n) l.
Proof.
  unfold is_perm_of_range. rewrite andb_true_iff, forallb_forall. intros [HL HF].
  apply Nat.eqb_eq in HL.
  apply NoDup_Permutation_bis.
  - apply seq_NoDup.
  - rewrite seq_length. lia.
  - intros x Hx. apply count_occ_pos_In. specialize (HF x Hx). apply Nat.eqb_eq in HF. lia.
Qed.

Theorem nodupb_sound l : nodupb l = true -> NoDup l.
Proof.
  induction l as [|x t IH]; simpl; [constructor|].
  rewrite andb_true_iff, negb_true_iff. intros [H1 H2]. constructor; auto.
  intro Hin. assert (existsb (Nat.eqb x) t = true).
  { apply existsb_exists. exists x. split; auto. apply Nat.eqb_refl. }
  congruence.
Qed.

Theorem list_eqb_sound a b : list_eqb a b = true -> a = b.
Proof.
  unfold list_eqb. rewrite andb_true_iff. intros [HL HF]. apply Nat.eqb_eq in HL.
  revert b HL HF. induction a as [|x a IH]; destruct b as [|y b]; simpl; intros HL HF; try discriminate; auto.
  rewrite andb_true_iff in HF. destruct HF as [E HF]. apply Nat.eqb_eq in E. f_equal; auto.
Qed.

(* ---- C16: the seed only orders the unranked tail ---- *)
Section Seed.
Variable perm_of : nat -> list nat -> list nat.      (* oracle: Generator(seed).permutation(slice) *)
Definition fit_ranking (m : nat) (r : list nat) (seed : nat) : list nat :=
  shuffle_tail m r (perm_of seed (skipn m r)).

Theorem seed_leading m r s1 s2 : m <= length r ->
  firstn m (fit_ranking m r s1) = firstn m (fit_ranking m r s2).
Proof. intro H. unfold fit_ranking. now rewrite !shuffle_tail_lead. Qed.

Theorem seed_leading_is_optimizer m r s : m <= length r -> firstn m (fit_ranking m r s) = firstn m r.
Proof. intro H. unfold fit_ranking. now rewrite shuffle_tail_lead. Qed.

Theorem seed_tail_set m r s1 s2 : m <= length r ->
  (forall s t, Permutation t (perm_of s t)) ->
  Permutation (skipn m (fit_ranking m r s1)) (skipn m (fit_ranking m r s2)).
Proof.
  intros H HP. unfold fit_ranking. rewrite !shuffle_tail_tail by auto.
  eapply perm_trans; [apply Permutation_sym, HP|apply HP].
Qed.

Theorem seed_short m r s : length r <= m -> perm_of s [] = [] -> fit_ranking m r s = r.
Proof.
  intros H HP. unfold fit_ranking, shuffle_tail. rewrite skipn_all2 by auto. rewrite HP.
  rewrite firstn_all2 by auto. apply app_nil_r.
Qed.

Theorem same_seed_same_ranking m r s1 s2 : s1 = s2 -> fit_ranking m r s1 = fit_ranking m r s2.
Proof. intros ->. reflexivity. Qed.
End Seed.
