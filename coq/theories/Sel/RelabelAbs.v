(* C18, relabelling clause for the abstract pivoting loop (GQR with every constraint option, CCQR, QR over any residual
   oracle): if the residual oracle, the costs and the region settings are relabelled alike, the ranking is relabelled
   in the same way - whenever the greedy choice is unique at every step. *)
From Coq Require Import List Arith ZArith Lia Bool Permutation.
Import ListNotations.
From PS Require Import Sel.Argmax Sel.Greedy Sel.GreedyProofs Sel.NormCalc.
Open Scope Z_scope.

Section Relabel.
Variable sg : nat -> nat.
Hypothesis sg_inj : forall x y, sg x = sg y -> x = y.

(* ---- the constraint maps of _norm_calc.py are carried along by the relabelling *)
Lemma mem_map x l : mem (sg x) (map sg l) = mem x l.
Proof.
  unfold mem. induction l as [|y l IH]; [reflexivity|]. simpl. rewrite IH. f_equal.
  destruct (Nat.eqb_spec x y) as [->|N]; [apply Nat.eqb_refl|]. apply Nat.eqb_neq. intro E. apply N. now apply sg_inj.
Qed.

Lemma filter_mem_map L l : filter (fun y => mem y (map sg L)) (map sg l) = map sg (filter (fun x => mem x L) l).
Proof. induction l as [|x l IH]; [reflexivity|]. simpl. rewrite mem_map. destruct (mem x L); simpl; now rewrite IH. Qed.

Lemma count_in_map L l : count_in (map sg L) (map sg l) = count_in L l.
Proof. unfold count_in. now rewrite filter_mem_map, map_length. Qed.

Definition relabel_settings (g : settings) : settings :=
  {| lin_idx := map sg (lin_idx g); all_sensors := map sg (all_sensors g); n_sensors := n_sensors g; n_const := n_const g |}.

Lemma eff_n_relabel g : eff_n (relabel_settings g) = eff_n g.
Proof. unfold eff_n, relabel_settings. simpl. now rewrite map_length. Qed.

Lemma permit_relabel o g j c : permit_of o (relabel_settings g) j (sg c) = permit_of o g j c.
Proof.
  assert (Hmax : permit_max_n (relabel_settings g) j (sg c) = permit_max_n g j c).
  { unfold permit_max_n, const_idx. rewrite eff_n_relabel. cbn [relabel_settings lin_idx all_sensors n_const].
    rewrite firstn_map, count_in_map, filter_mem_map, skipn_map, mem_map. reflexivity. }
  destruct o; cbn [permit_of].
  - reflexivity.
  - unfold permit_exact_n. rewrite eff_n_relabel, Hmax. cbn [relabel_settings lin_idx all_sensors n_const].
    rewrite !firstn_map, !count_in_map, mem_map. reflexivity.
  - exact Hmax.
  - unfold permit_predetermined. cbn [relabel_settings lin_idx n_sensors n_const]. now rewrite mem_map.
Qed.

(* ---- a strict unique maximum is found wherever it stands in the candidate list *)
Lemma unique_max_pick (w1 w2 : nat -> Z) (l1 l2 : list nat) p :
  Permutation l2 (map sg l1) -> (forall c, In c l1 -> w2 (sg c) = w1 c) ->
  In p l1 -> (forall c, In c l1 -> c <> p -> w1 c < w1 p) ->
  nth (argmax (map w2 l2)) l2 0%nat = sg p.
Proof.
  intros HP Hw Hp Huniq.
  assert (Hne : map w2 l2 <> []).
  { intro E. apply map_eq_nil in E. subst l2. apply Permutation_nil in HP. destruct l1; [contradiction|discriminate]. }
  destruct (argmax_spec (map w2 l2) Hne) as (A & F & _). rewrite map_length in A. set (i := argmax (map w2 l2)) in *.
  assert (Hx : In (nth i l2 0%nat) (map sg l1)) by (eapply Permutation_in; [exact HP|now apply nth_In]).
  apply in_map_iff in Hx. destruct Hx as [c [Ec Hc]].
  destruct (Nat.eq_dec c p) as [->|Hne']; [now rewrite Ec|exfalso].
  specialize (Huniq c Hc Hne').
  assert (Hsp : In (sg p) l2) by (eapply Permutation_in; [apply Permutation_sym; exact HP|now apply in_map]).
  rewrite Forall_forall in F. specialize (F (w2 (sg p)) (in_map _ _ _ Hsp)).
  rewrite (nth_map' w2 l2 i 0 0%nat A) in F. fold i in F. rewrite <- Ec in F. rewrite !Hw in F by auto. lia.
Qed.

(* ---- the loop, for value functions that look at one candidate at a time (all three optimizers) *)
Variables v1 v2 : list nat -> nat -> Z.
Hypothesis v_relabel : forall rk c, v2 (map sg rk) (sg c) = v1 rk c.
Definition dvp (v : list nat -> nat -> Z) (rk cs : list nat) : list Z := map (v rk) cs.
Lemma dvp_len v rk cs : length (dvp v rk cs) = length cs.
Proof. apply map_length. Qed.

Definition unique_at (n j : nat) : Prop :=
  let st := run (dvp v1) j (init n) in
  forall c, In c (snd st) -> c <> picked (dvp v1) st -> v1 (fst st) c < v1 (fst st) (picked (dvp v1) st).

Theorem relabel_lockstep n k : (k <= n)%nat -> (forall j, (j < k)%nat -> unique_at n j) ->
  forall cs0, Permutation cs0 (map sg (seq 0 n)) ->
  fst (run (dvp v2) k ([], cs0)) = map sg (fst (run (dvp v1) k (init n))) /\
  Permutation (snd (run (dvp v2) k ([], cs0))) (map sg (snd (run (dvp v1) k (init n)))).
Proof.
  intros Hk Hu cs0 H0. induction k as [|k IH].
  - simpl. split; [reflexivity|exact H0].
  - destruct (IH ltac:(lia) (fun j Hj => Hu j ltac:(lia))) as [E P]. pose proof (Hu k ltac:(lia)) as U. unfold unique_at in U.
    destruct (run_invariant (dvp v1) (dvp_len v1) n k ltac:(lia)) as (_ & _ & HL).
    cbn [run]. destruct (run (dvp v1) k (init n)) as [rk1 cs1]. destruct (run (dvp v2) k ([], cs0)) as [rk2 cs2].
    cbn [fst snd] in *. subst rk2.
    assert (Hne1 : cs1 <> []) by (destruct cs1; simpl in HL; [lia|discriminate]).
    assert (Hne2 : cs2 <> []) by (intro Z; subst cs2; apply Permutation_nil in P; destruct cs1; [congruence|discriminate]).
    destruct (step_shape (dvp v1) (dvp_len v1) rk1 cs1 Hne1) as (cs1' & S1 & P1 & In1).
    destruct (step_shape (dvp v2) (dvp_len v2) (map sg rk1) cs2 Hne2) as (cs2' & S2 & P2 & In2).
    set (p := picked (dvp v1) (rk1, cs1)) in *.
    assert (Hpick : picked (dvp v2) (map sg rk1, cs2) = sg p).
    { unfold picked, dvp. apply (unique_max_pick (v1 rk1) (v2 (map sg rk1)) cs1 cs2 p P); auto. }
    rewrite S1, S2, Hpick. cbn [fst snd]. split; [rewrite map_app; reflexivity|].
    rewrite Hpick in P2. apply (Permutation_cons_inv (a := sg p)).
    eapply Permutation_trans; [apply Permutation_sym; exact P2|]. eapply Permutation_trans; [exact P|].
    change (sg p :: map sg cs1') with (map sg (p :: cs1')). now apply Permutation_map.
Qed.
End Relabel.

(* ---- GQR (every option) and CCQR over a relabelled residual oracle *)
Section Optimizers.
Variable sg : nat -> nat.
Hypothesis sg_inj : forall x y, sg x = sg y -> x = y.
Variables key1 key2 : list nat -> nat -> Z.
Hypothesis key_relabel : forall rk c, key2 (map sg rk) (sg c) = key1 rk c.

Definition v_gqr (key : list nat -> nat -> Z) (permit : nat -> nat -> bool) (rk : list nat) (c : nat) : Z :=
  if permit (length rk) c then key rk c else 0.
Definition v_ccqr (key : list nat -> nat -> Z) (cost : nat -> Z) (rk : list nat) (c : nat) : Z := key rk c - cost c.

Lemma dv_gqr_pointwise key permit : dv_gqr key permit = dvp (v_gqr key permit).
Proof. reflexivity. Qed.
Lemma dv_ccqr_pointwise key cost : dv_ccqr key cost = dvp (v_ccqr key cost).
Proof. reflexivity. Qed.

(* when the sensors are relabelled by a permutation of 0..n-1 that happens to start from the identity arrangement
   (the implementation always starts from p = arange(n)), the first k ranked sensors are the relabelled ones *)
Theorem relabel_gqr o g n k : (k <= n)%nat -> Permutation (seq 0 n) (map sg (seq 0 n)) ->
  (forall j, (j < k)%nat -> unique_at (v_gqr key1 (permit_of o g)) n j) ->
  fst (run (dv_gqr key2 (permit_of o (relabel_settings sg g))) k (init n)) = map sg (fst (run (dv_gqr key1 (permit_of o g)) k (init n))).
Proof.
  intros Hk HP Hu. rewrite !dv_gqr_pointwise.
  apply (relabel_lockstep sg (v_gqr key1 (permit_of o g)) (v_gqr key2 (permit_of o (relabel_settings sg g)))); auto.
  intros rk c. unfold v_gqr. rewrite map_length, permit_relabel, key_relabel by auto. reflexivity.
Qed.

Theorem relabel_ccqr cost1 cost2 n k : (k <= n)%nat -> Permutation (seq 0 n) (map sg (seq 0 n)) ->
  (forall c, cost2 (sg c) = cost1 c) ->
  (forall j, (j < k)%nat -> unique_at (v_ccqr key1 cost1) n j) ->
  fst (run (dv_ccqr key2 cost2) k (init n)) = map sg (fst (run (dv_ccqr key1 cost1) k (init n))).
Proof.
  intros Hk HP Hc Hu. rewrite !dv_ccqr_pointwise.
  apply (relabel_lockstep sg (v_ccqr key1 cost1) (v_ccqr key2 cost2)); auto.
  intros rk c. unfold v_ccqr. now rewrite key_relabel, Hc.
Qed.
End Optimizers.
