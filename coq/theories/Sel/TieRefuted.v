(* C05, the recorded finding stated for the model: the counting theorems need all_sensors to be THE unconstrained run of the
   same loop (first-maximum tie-breaking); with "A greedy ranking" - ties broken in any other way - they are false. *)
From Coq Require Import List Arith ZArith Lia Permutation.
Import ListNotations.
From PS Require Import Sel.Argmax Sel.Greedy Sel.GreedyProofs Sel.NormCalc Sel.RegionProofs.

Definition gqr_run (key : list nat -> nat -> Z) (o : option_name) (g : settings) (n t : nat) : state :=
  run (dv_gqr key (permit_of o g)) t (init n).

(* [A] is AN unconstrained greedy ranking for the oracle: every A[j], j < kk, attains the maximum among the sensors not yet
   ranked - ties may be broken in any way (scipy's QR, which usually supplies all_sensors, breaks them in its own way) *)
Definition greedy_ranking (key : list nat -> nat -> Z) (n kk : nat) (A : list nat) : Prop :=
  Permutation A (seq 0 n) /\
  forall j, j < kk -> forall c, In c (skipn j A) -> (key (firstn j A) c <= key (firstn j A) (nth j A 0%nat))%Z.

(* squared residual norms (x 38) of the 6 x 3 matrix [[-1,2,0],[-1,-1,3],[1,3,0],[-3,-3,-1],[1,-2,2],[-1,0,2]] along the picks
   3, 1: at the third step sensors 0 and 4 tie exactly (171) *)
Definition tie_tbl : list (list Z) :=
  [[190; 418; 380; 722; 342; 190]; [172; 400; 92; 1; 340; 188]; [171; 1; 76; 1; 171; 19]]%Z.
Definition tie_key (rk : list nat) (c : nat) : Z := nth c (nth (length rk) tie_tbl []) 1%Z.
Definition tie_A := [3; 1; 4; 0; 2; 5].          (* breaks the tie in favour of sensor 4; the loop's first-maximum takes 0 *)
Definition tie_g (L : list nat) (s : nat) := {| lin_idx := L; all_sensors := tie_A; n_sensors := Some 3; n_const := s |}.

Lemma nth_pos c l : Forall (fun x => 0 < x)%Z l -> (0 < nth c l 1)%Z.
Proof. intro H. revert c. induction H as [|x l Hx _ IH]; intros [|c]; simpl; try lia; auto. Qed.

Lemma tie_key_pos rk c : (0 < tie_key rk c)%Z.
Proof.
  unfold tie_key. destruct (length rk) as [|[|[|k]]]; simpl nth at 2.
  1-3: apply nth_pos; repeat constructor; lia.
  destruct k; simpl; destruct c; simpl; lia.
Qed.

Lemma tie_A_greedy : greedy_ranking tie_key 6 3 tie_A.
Proof.
  split.
  - unfold tie_A. apply NoDup_Permutation_bis; [repeat constructor; simpl; intuition lia| simpl; lia |].
    intros x Hx. simpl in Hx. simpl. intuition lia.
  - intros j Hj c Hc. destruct j as [|[|[|j]]]; [| | |lia]; simpl in Hc;
    repeat (destruct Hc as [<-|Hc]; [vm_compute; discriminate|]); contradiction.
Qed.

(* the statement of C05_max_n_count / C05_exact_n_count with "all_sensors is THE unconstrained run of the same loop" weakened to
   "all_sensors is A greedy ranking" is false: with the allowance 0 on region {0} max_n ranks sensor 0 third, and exact_n
   with region {4} and s = 1 ends with no region sensor *)
Theorem ties_in_all_sensors_refuted :
  exists key n kk N, (forall rk c, 0 < key rk c)%Z /\ kk <= n /\ N <= kk /\
   (exists g, greedy_ranking key n kk (all_sensors g) /\ NoDup (lin_idx g) /\ (forall x, In x (lin_idx g) -> x < n) /\ eff_n g = N /\
       n_const g <= length (lin_idx g) /\ N + length (lin_idx g) <= n + n_const g /\ n_const g <= N /\
       n_const g < count_in (lin_idx g) (fst (gqr_run key OMax g n N))) /\
   (exists g, greedy_ranking key n kk (all_sensors g) /\ NoDup (lin_idx g) /\ (forall x, In x (lin_idx g) -> x < n) /\ eff_n g = N /\
       n_const g <= length (lin_idx g) /\ N + length (lin_idx g) <= n + n_const g /\ n_const g <= N /\
       count_in (lin_idx g) (fst (gqr_run key OExact g n N)) <> n_const g).
Proof.
  exists tie_key, 6, 3, 3. split; [exact tie_key_pos|]. split; [lia|]. split; [lia|]. split.
  - exists (tie_g [0] 0). split; [exact tie_A_greedy|]. split; [repeat constructor; simpl; tauto|].
    split; [simpl; intros x [<-|[]]; lia|]. split; [reflexivity|]. repeat split; simpl; try lia.
    vm_compute. lia.
  - exists (tie_g [4] 1). split; [exact tie_A_greedy|]. split; [repeat constructor; simpl; tauto|].
    split; [simpl; intros x [<-|[]]; lia|]. split; [reflexivity|]. repeat split; simpl; try lia.
    vm_compute. discriminate.
Qed.
