(* Generic facts about the pivoting loop: shape of a step, permutation invariant, runs that agree, picks that
   respect a permit set, and domination of the pick. *)
From Coq Require Import List Arith ZArith Lia Bool Permutation.
Import ListNotations.
From PS Require Import Sel.Argmax Sel.Greedy.
Open Scope Z_scope.

Lemma nth_map' {A B} (f : A -> B) l j d d' : (j < length l)%nat -> nth j (map f l) d = f (nth j l d').
Proof. revert j; induction l as [|a l IH]; simpl; intros [|j] H; try lia; auto. apply IH; lia. Qed.

Lemma replace_perm i x l d : (i < length l)%nat -> Permutation (x :: l) (nth i l d :: replace i x l).
Proof.
  revert i; induction l as [|y t IH]; intros [|i] H; simpl in *; try lia.
  - apply perm_swap.
  - eapply perm_trans; [apply perm_swap|]. eapply perm_trans; [apply perm_skip, (IH i); lia|]. apply perm_swap.
Qed.

Section Loop.
Variable dv : list nat -> list nat -> list Z.
Hypothesis dv_len : forall rk cs, length (dv rk cs) = length cs.

Lemma step_shape rk cs : cs <> [] ->
  exists cs', step dv (rk, cs) = (rk ++ [picked dv (rk, cs)], cs') /\ Permutation cs (picked dv (rk, cs) :: cs') /\
              In (picked dv (rk, cs)) cs.
Proof.
  intros Hne. destruct cs as [|c0 rest]; [congruence|].
  assert (Hlt : (argmax (dv rk (c0 :: rest)) < length (c0 :: rest))%nat).
  { destruct (argmax_spec (dv rk (c0 :: rest))) as [H _].
    - intro E. pose proof (dv_len rk (c0 :: rest)) as L. rewrite E in L. discriminate.
    - now rewrite dv_len in H. }
  unfold step, picked. destruct (argmax _) as [|i'] eqn:E.
  - exists rest. simpl. split; auto.
  - exists (replace i' c0 rest). simpl. split; auto. split.
    + apply replace_perm. simpl in Hlt; lia.
    + right. apply nth_In. simpl in Hlt. lia.
Qed.

Lemma step_length_rk rk cs : cs <> [] -> length (fst (step dv (rk, cs))) = S (length rk).
Proof. intro H. destruct (step_shape rk cs H) as (cs' & E & _). rewrite E. simpl. rewrite app_length. simpl. lia. Qed.

(* the run keeps p a permutation of what it was and ranks one sensor per step while candidates remain *)
Lemma run_invariant n k : (k <= n)%nat ->
  length (fst (run dv k (init n))) = k /\ Permutation (fst (run dv k (init n)) ++ snd (run dv k (init n))) (seq 0 n) /\
  length (snd (run dv k (init n))) = (n - k)%nat.
Proof.
  induction k as [|k IH]; intro Hk.
  - simpl. rewrite seq_length. repeat split; auto. lia.
  - destruct (IH ltac:(lia)) as (L & P & R). cbn [run].
    destruct (run dv k (init n)) as [rk cs] eqn:E. cbn [fst snd] in *.
    assert (Hne : cs <> []) by (destruct cs; simpl in R; [lia|discriminate]).
    destruct (step_shape rk cs Hne) as (cs' & Es & Pc & _). rewrite Es. cbn [fst snd].
    rewrite app_length. simpl. split; [lia|]. split.
    + rewrite <- app_assoc. simpl. eapply perm_trans; [|exact P]. apply Permutation_app_head. now apply Permutation_sym.
    + apply Permutation_length in Pc. simpl in Pc. lia.
Qed.

(* ranked entries are never touched again: the run is incremental *)
Lemma run_S_fst k st : snd (run dv k st) <> [] ->
  fst (run dv (S k) st) = fst (run dv k st) ++ [picked dv (run dv k st)].
Proof.
  intro H. cbn [run]. destruct (run dv k st) as [rk cs]. cbn [snd] in H.
  destruct (step_shape rk cs H) as (cs' & E & _). now rewrite E.
Qed.

Lemma run_prefix n j k : (j <= k)%nat -> (k <= n)%nat ->
  firstn j (fst (run dv k (init n))) = fst (run dv j (init n)).
Proof.
  intros Hjk Hkn. induction k as [|k IH].
  - assert (j = 0)%nat by lia. subst. reflexivity.
  - destruct (Nat.eq_dec j (S k)) as [->|Hne].
    + destruct (run_invariant n (S k) Hkn) as (L & _). rewrite <- L at 1. apply firstn_all.
    + destruct (run_invariant n k ltac:(lia)) as (L & _ & R).
      rewrite run_S_fst by (destruct (snd (run dv k (init n))); simpl in R; [lia|discriminate]).
      rewrite firstn_app. rewrite L. replace (j - k)%nat with 0%nat by lia. simpl. rewrite app_nil_r. apply IH; lia.
Qed.
End Loop.

(* two value functions that agree on the states actually visited give the same run *)
Lemma run_ext dv1 dv2 k st :
  (forall j, (j < k)%nat -> let s := run dv1 j st in dv1 (fst s) (snd s) = dv2 (fst s) (snd s)) ->
  run dv1 k st = run dv2 k st.
Proof.
  induction k as [|k IH]; intro H; simpl; auto.
  rewrite <- IH by (intros j Hj; apply H; lia).
  specialize (H k ltac:(lia)). simpl in H. destruct (run dv1 k st) as [rk cs]. simpl in H.
  unfold step. destruct cs as [|c0 rest]; auto. now rewrite H.
Qed.

(* ---- value functions built from a key oracle and a permit predicate ---- *)
Section Keys.
Variable key : list nat -> nat -> Z.
Hypothesis key_pos : forall rk c, 0 < key rk c.

Lemma dv_gqr_len permit rk cs : length (dv_gqr key permit rk cs) = length cs.
Proof. unfold dv_gqr. apply map_length. Qed.
Lemma dv_free_len rk cs : length (dv_free key rk cs) = length cs.
Proof. unfold dv_free. apply map_length. Qed.

(* if some remaining candidate is permitted, the pick is permitted and dominates every permitted candidate *)
Lemma pick_permitted permit rk cs :
  (exists c, In c cs /\ permit (length rk) c = true) ->
  let p := picked (dv_gqr key permit) (rk, cs) in
  In p cs /\ permit (length rk) p = true /\
  (forall c, In c cs -> permit (length rk) c = true -> key rk c <= key rk p).
Proof.
  intros [c [Hin Hp]]. unfold picked.
  assert (Hne : dv_gqr key permit rk cs <> []) by (destruct cs; [destruct Hin|discriminate]).
  destruct (argmax_spec _ Hne) as [Hlt [Hmax _]].
  rewrite dv_gqr_len in Hlt.
  set (i := argmax (dv_gqr key permit rk cs)) in *.
  assert (Hd : forall j, (j < length cs)%nat -> nth j (dv_gqr key permit rk cs) 0 =
                 if permit (length rk) (nth j cs 0%nat) then key rk (nth j cs 0%nat) else 0).
  { intros j Hj. unfold dv_gqr. now rewrite (nth_map' _ cs j 0 0%nat). }
  rewrite Forall_forall in Hmax.
  assert (Hc : key rk c <= nth i (dv_gqr key permit rk cs) 0).
  { apply Hmax. unfold dv_gqr. apply in_map_iff. exists c. rewrite Hp. auto. }
  rewrite Hd in Hc by auto. split; [apply nth_In; auto|].
  destruct (permit (length rk) (nth i cs 0%nat)) eqn:E; [|pose proof (key_pos rk c); lia]. split; auto.
  intros c' Hin' Hp'.
  assert (X : key rk c' <= nth i (dv_gqr key permit rk cs) 0).
  { apply Hmax. unfold dv_gqr. apply in_map_iff. exists c'. rewrite Hp'. auto. }
  rewrite Hd in X by auto. now rewrite E in X.
Qed.

(* zeroing entries other than the unconstrained pick does not move the first maximum *)
Lemma pick_coincides permit rk cs : cs <> [] ->
  permit (length rk) (picked (dv_free key) (rk, cs)) = true ->
  argmax (dv_gqr key permit rk cs) = argmax (dv_free key rk cs).
Proof.
  intros Hne Hp. unfold picked in Hp.
  assert (Hne' : dv_free key rk cs <> []) by (destruct cs; [congruence|discriminate]).
  destruct (argmax_spec _ Hne') as (Hlt & Hmax & Hfirst). rewrite dv_free_len in Hlt.
  set (i := argmax (dv_free key rk cs)) in *.
  pose proof (Forall_nth_le _ _ Hmax) as Hmax'. rewrite dv_free_len in Hmax'.
  assert (Hf : forall j, (j < length cs)%nat -> nth j (dv_free key rk cs) 0 = key rk (nth j cs 0%nat)).
  { intros j Hj. unfold dv_free. now rewrite (nth_map' _ cs j 0 0%nat). }
  assert (Hg : forall j, (j < length cs)%nat -> nth j (dv_gqr key permit rk cs) 0 =
                 if permit (length rk) (nth j cs 0%nat) then key rk (nth j cs 0%nat) else 0).
  { intros j Hj. unfold dv_gqr. now rewrite (nth_map' _ cs j 0 0%nat). }
  apply argmax_unique.
  - now rewrite dv_gqr_len.
  - rewrite dv_gqr_len. intros k Hk. rewrite (Hg k Hk), (Hg i Hlt), Hp.
    specialize (Hmax' k Hk). rewrite (Hf k Hk), (Hf i Hlt) in Hmax'.
    pose proof (key_pos rk (nth i cs 0%nat)). destruct (permit (length rk) (nth k cs 0%nat)); lia.
  - intros k Hk. assert (Hk' : (k < length cs)%nat) by lia.
    rewrite (Hg k Hk'), (Hg i Hlt), Hp. specialize (Hfirst k Hk). rewrite (Hf k Hk'), (Hf i Hlt) in Hfirst.
    pose proof (key_pos rk (nth i cs 0%nat)). destruct (permit (length rk) (nth k cs 0%nat)); lia.
Qed.

(* hence: as long as the unconstrained pick is permitted at every step, the constrained run IS the unconstrained run *)
Lemma run_coincides permit n t : (t <= n)%nat ->
  (forall j, (j < t)%nat -> permit j (picked (dv_free key) (run (dv_free key) j (init n))) = true) ->
  run (dv_gqr key permit) t (init n) = run (dv_free key) t (init n).
Proof.
  intros Htn H. induction t as [|t IH]; auto. simpl.
  rewrite IH by (try lia; intros; apply H; lia).
  destruct (run_invariant (dv_free key) dv_free_len n t ltac:(lia)) as (L & _ & R).
  specialize (H t ltac:(lia)). destruct (run (dv_free key) t (init n)) as [rk cs]. simpl in *.
  assert (Hne : cs <> []) by (destruct cs; simpl in R; [lia|discriminate]).
  unfold step. destruct cs as [|c0 rest]; [congruence|].
  rewrite <- L in H. now rewrite (pick_coincides permit rk (c0 :: rest) Hne H).
Qed.
End Keys.
