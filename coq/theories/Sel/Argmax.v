(* numpy's first-maximum argmax over integer keys (model, executable) and its characterisation.
   Keys are integers: any finite family of doubles scales to integers by a power of two, order preserved. *)
From Coq Require Import List Arith ZArith Lia Bool.
Import ListNotations.
Open Scope Z_scope.

Fixpoint argmax_aux (bi : nat) (bv : Z) (i : nat) (l : list Z) : nat :=
  match l with
  | [] => bi
  | v :: t => if Z.ltb bv v then argmax_aux i v (S i) t else argmax_aux bi bv (S i) t
  end.
Definition argmax (l : list Z) : nat := match l with [] => 0%nat | v :: t => argmax_aux 0 v 1 t end.

Lemma argmax_aux_spec l : forall bi bv i, (bi < i)%nat ->
  (argmax_aux bi bv i l = bi /\ Forall (fun v => v <= bv) l) \/
  (exists k, argmax_aux bi bv i l = (i + k)%nat /\ (k < length l)%nat /\ bv < nth k l 0 /\
      Forall (fun v => v <= nth k l 0) l /\ forall k', (k' < k)%nat -> nth k' l 0 < nth k l 0).
Proof.
  induction l as [|v t IH]; intros bi bv i Hlt; simpl.
  - left; auto.
  - destruct (Z.ltb_spec bv v) as [H|H].
    + destruct (IH i v (S i) ltac:(lia)) as [[E F]|[k [E [L [B [F P]]]]]].
      * right. exists 0%nat. simpl. split; [lia|]. split; [lia|]. split; [lia|]. split.
        -- constructor; [lia|auto].
        -- intros; lia.
      * right. exists (S k). simpl. split; [lia|]. split; [lia|]. split; [lia|]. split.
        -- constructor; [lia|auto].
        -- intros [|k'] Hk; simpl; [lia|apply P; lia].
    + destruct (IH bi bv (S i) ltac:(lia)) as [[E F]|[k [E [L [B [F P]]]]]].
      * left. split; auto.
      * right. exists (S k). simpl. split; [lia|]. split; [lia|]. split; [lia|]. split.
        -- constructor; [lia|auto].
        -- intros [|k'] Hk; simpl; [lia|apply P; lia].
Qed.

Lemma argmax_spec l : l <> [] ->
  (argmax l < length l)%nat /\ Forall (fun v => v <= nth (argmax l) l 0) l /\
  forall k, (k < argmax l)%nat -> nth k l 0 < nth (argmax l) l 0.
Proof.
  destruct l as [|v t]; [congruence|intros _]. unfold argmax.
  destruct (argmax_aux_spec t 0%nat v 1%nat ltac:(lia)) as [[E F]|[k [E [L [B [F P]]]]]]; rewrite E; simpl.
  - split; [lia|]. split. constructor; [lia|auto]. intros; lia.
  - split; [lia|]. split. constructor; [lia|auto].
    intros [|k'] Hk; simpl; [lia|apply P; lia].
Qed.

Lemma Forall_nth_le (l : list Z) b : Forall (fun v => v <= b) l -> forall k, (k < length l)%nat -> nth k l 0 <= b.
Proof. intros H k Hk. rewrite Forall_forall in H. apply H. now apply nth_In. Qed.

(* the first maximum is characterised by its two properties *)
Lemma argmax_unique l i : (i < length l)%nat ->
  (forall k, (k < length l)%nat -> nth k l 0 <= nth i l 0) ->
  (forall k, (k < i)%nat -> nth k l 0 < nth i l 0) -> argmax l = i.
Proof.
  intros Hi Hmax Hfirst.
  assert (Hne : l <> []) by (destruct l; simpl in *; [lia|discriminate]).
  destruct (argmax_spec l Hne) as (A & B & Cc).
  pose proof (Forall_nth_le _ _ B) as B'.
  destruct (Nat.lt_trichotomy (argmax l) i) as [L|[E|L]]; auto.
  - specialize (Hfirst _ L). specialize (B' i Hi). lia.
  - specialize (Cc _ L). specialize (Hmax _ A). lia.
Qed.
