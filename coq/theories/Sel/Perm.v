(* Permutation bookkeeping of the pivoting loops (model, executable).
   Mirrors  p = arange(n); for j in range(k): i = j + off_j; p[[j, i]] = p[[i, j]]
   of pysensors/optimizers/_ccqr.py:82-96 and _gqr.py:90-133, the tail shuffle of
   pysensors/reconstruction/_sspor.py:160-164 and the selection slice [:n_sensors]. *)
From Coq Require Import List Arith Lia Permutation Bool.
Import ListNotations.

(* swap positions i and j of a list (no-op when an index is out of range) *)
Definition swap (l : list nat) (i j : nat) : list nat :=
  match nth_error l i, nth_error l j with
  | Some a, Some b =>
      map (fun k => if Nat.eqb k i then b else if Nat.eqb k j then a else nth k l 0) (seq 0 (length l))
  | _, _ => l
  end.

(* faithful loop: for j = 0..k-1: i := j + off_j ; swap p j i *)
Fixpoint swap_track_from (p : list nat) (j : nat) (offs : list nat) : list nat :=
  match offs with
  | [] => p
  | o :: os => swap_track_from (swap p j (j + o)) (S j) os
  end.
Definition swap_track (n : nat) (offs : list nat) := swap_track_from (seq 0 n) 0 offs.

(* offsets implied by the leading entries of an observed ranking: replaying them must
   reproduce the whole ranking (tail order included) *)
Fixpoint index_of (x : nat) (l : list nat) : option nat :=
  match l with
  | [] => None
  | y :: t => if Nat.eqb x y then Some 0 else option_map S (index_of x t)
  end.

Fixpoint replay_from (p : list nat) (j : nat) (lead : list nat) : option (list nat) :=
  match lead with
  | [] => Some p
  | s :: rest =>
      match index_of s (skipn j p) with
      | None => None
      | Some o => replay_from (swap p j (j + o)) (S j) rest
      end
  end.
Definition replay (n : nat) (lead : list nat) : option (list nat) := replay_from (seq 0 n) 0 lead.

(* the tail shuffle of SSPOR.fit: positions >= m are overwritten by [tail'] , which the
   random generator returns for the old tail *)
Definition shuffle_tail (m : nat) (r tail' : list nat) : list nat := firstn m r ++ tail'.

(* selection *)
Definition selected (n_sensors : nat) (ranking : list nat) : list nat := firstn n_sensors ranking.

(* executable permutation check: every index < n occurs exactly once and the length is n *)
Definition count_occ_nat (x : nat) (l : list nat) : nat := length (filter (Nat.eqb x) l).
Definition is_perm_of_range (n : nat) (l : list nat) : bool :=
  Nat.eqb (length l) n && forallb (fun x => Nat.eqb (count_occ_nat x l) 1) (seq 0 n).

(* executable multiset equality on nat lists *)
Definition same_multiset (a b : list nat) : bool :=
  Nat.eqb (length a) (length b) &&
  forallb (fun x => Nat.eqb (count_occ_nat x a) (count_occ_nat x b)) (a ++ b).

Fixpoint nodupb (l : list nat) : bool :=
  match l with [] => true | x :: t => negb (existsb (Nat.eqb x) t) && nodupb t end.

Definition list_eqb (a b : list nat) : bool :=
  Nat.eqb (length a) (length b) && forallb (fun p => Nat.eqb (fst p) (snd p)) (combine a b).
