(* C05 / C06: what the region constraints of GQR guarantee, for an ARBITRARY positive key oracle. *)
From Coq Require Import List Arith ZArith Lia Bool Permutation.
Import ListNotations.
From PS Require Import Sel.Argmax Sel.Greedy Sel.GreedyProofs Sel.NormCalc.
Open Scope nat_scope.

(* ------------------------------------------------------------------ list counting toolbox *)
Lemma mem_In x l : mem x l = true <-> In x l.
Proof.
  unfold mem. rewrite existsb_exists. split.
  - intros [y [Hy E]]. apply Nat.eqb_eq in E. now subst.
  - intro H. exists x. split; auto. apply Nat.eqb_refl.
Qed.
Lemma mem_false x l : mem x l = false <-> ~ In x l.
Proof. rewrite <- mem_In. destruct (mem x l); split; intros; try discriminate; auto. exfalso; auto. Qed.

Lemma NoDup_app_l {A} (a b : list A) : NoDup (a ++ b) -> NoDup a.
Proof. induction a as [|x a IH]; simpl; intro H; [constructor|]. inversion H; subst. constructor; auto. intro Hin. apply H2. apply in_or_app. now left. Qed.
Lemma NoDup_app_r {A} (a b : list A) : NoDup (a ++ b) -> NoDup b.
Proof. induction a as [|x a IH]; simpl; intro H; auto. inversion H; subst. auto. Qed.

Lemma NoDup_app_disj {A} (a b : list A) : NoDup (a ++ b) -> forall x, In x a -> In x b -> False.
Proof.
  induction a as [|y a IH]; simpl; intros H x Ha Hb; [contradiction|]. inversion H; subst.
  destruct Ha as [->|Ha]; [apply H2; apply in_or_app; now right|eapply IH; eauto].
Qed.

Lemma In_firstn_l {A} k (l : list A) x : In x (firstn k l) -> In x l.
Proof. revert k; induction l as [|a l IH]; intros [|k]; simpl; auto; try tauto. intros [H|H]; eauto. Qed.

Lemma filter_perm_length {A} (P : A -> bool) l l' : Permutation l l' -> length (filter P l) = length (filter P l').
Proof. induction 1; simpl; auto; repeat destruct (P _); simpl; auto; lia. Qed.

Lemma filter_len_le {A} (f : A -> bool) l : length (filter f l) <= length l.
Proof. induction l as [|a l IH]; simpl; auto. destruct (f a); simpl; lia. Qed.

Lemma filter_neg_length {A} (P : A -> bool) l : length (filter P l) + length (filter (fun x => negb (P x)) l) = length l.
Proof. induction l as [|a l IH]; simpl; auto. destruct (P a); simpl; lia. Qed.

Lemma filter_all_true {A} (P : A -> bool) l : (forall x, In x l -> P x = true) -> filter P l = l.
Proof. induction l as [|a l IH]; simpl; intros H; auto. rewrite H by auto. f_equal. apply IH. auto. Qed.

Lemma filter_length_all {A} (P : A -> bool) l : (forall x, In x l -> P x = true) -> length (filter P l) = length l.
Proof. intro H. now rewrite filter_all_true. Qed.

Lemma filter_none {A} (P : A -> bool) l : (forall x, In x l -> P x = false) -> filter P l = [].
Proof. induction l as [|a l IH]; simpl; intros H; auto. rewrite H by auto. apply IH. auto. Qed.

(* a duplicate-free list L of indices below n: exactly |L| of 0..n-1 are members *)
Lemma count_members n L : NoDup L -> (forall x, In x L -> x < n) ->
  length (filter (fun x => mem x L) (seq 0 n)) = length L.
Proof.
  intros ND B.
  assert (P : Permutation (filter (fun x => mem x L) (seq 0 n)) L).
  { apply NoDup_Permutation; auto.
    - apply NoDup_filter, seq_NoDup.
    - intro x. rewrite filter_In, in_seq, mem_In. split; [tauto|]. intro H. split; auto. specialize (B x H). lia. }
  now apply Permutation_length.
Qed.

Lemma count_in_app L a b : count_in L (a ++ b) = count_in L a + count_in L b.
Proof. unfold count_in. now rewrite filter_app, app_length. Qed.

Lemma count_in_all L l : (forall x, In x l -> In x L) -> count_in L l = length l.
Proof. intro H. unfold count_in. apply filter_length_all. intros x Hx. apply mem_In. auto. Qed.

Lemma count_in_none L l : (forall x, In x l -> ~ In x L) -> count_in L l = 0.
Proof. intro H. unfold count_in. rewrite filter_none; auto. intros x Hx. apply mem_false. auto. Qed.

Lemma firstn_S_split {A} j (l : list A) : firstn (S j) l = firstn j l ++ firstn 1 (skipn j l).
Proof. revert l; induction j as [|j IH]; intros [|a l]; try reflexivity. cbn [firstn skipn app]. f_equal. apply IH. Qed.

Lemma count_in_firstn_S L l j : count_in L (firstn (S j) l) <= S (count_in L (firstn j l)) /\
  count_in L (firstn j l) <= count_in L (firstn (S j) l).
Proof.
  rewrite firstn_S_split, count_in_app.
  assert (count_in L (firstn 1 (skipn j l)) <= 1).
  { destruct (skipn j l) as [|a r]; unfold count_in; simpl; [lia|]. destruct (mem a L); simpl; lia. }
  lia.
Qed.

Lemma count_in_firstn_mono L l i j : i <= j -> count_in L (firstn i l) <= count_in L (firstn j l).
Proof. induction 1; auto. pose proof (count_in_firstn_S L l m). lia. Qed.

Lemma count_in_firstn_lip L l i j : i <= j -> count_in L (firstn j l) <= count_in L (firstn i l) + (j - i).
Proof. induction 1; [lia|]. pose proof (count_in_firstn_S L l m). lia. Qed.

(* discrete intermediate value: a count that starts at 0 and grows by at most one reaches every value below its end *)
Lemma count_hits L l N s : s <= count_in L (firstn N l) -> exists t, t <= N /\ count_in L (firstn t l) = s.
Proof.
  induction N as [|N IH]; intro H.
  - exists 0. unfold count_in in *. simpl in *. lia.
  - destruct (Nat.eq_dec (count_in L (firstn (S N) l)) s) as [E|E]; [exists (S N); auto|].
    pose proof (count_in_firstn_S L l N). destruct IH as [t [Ht E']]; [lia|]. exists t. split; auto.
Qed.

(* the members of a prefix are a prefix of the members *)
Lemma filter_firstn_prefix {A} (P : A -> bool) l t :
  filter P (firstn t l) = firstn (length (filter P (firstn t l))) (filter P l).
Proof.
  revert t; induction l as [|a l IH]; intros [|t]; simpl; auto.
  destruct (P a); simpl; [f_equal|]; apply IH.
Qed.

Lemma perm_remaining_count (P : nat -> bool) rk cs n : Permutation (rk ++ cs) (seq 0 n) ->
  length (filter P cs) + length (filter P rk) = length (filter P (seq 0 n)).
Proof. intro H. rewrite <- (filter_perm_length P _ _ H), filter_app, app_length. lia. Qed.

(* ------------------------------------------------------------------ a stretch of steps with a fixed permit set *)
Section Segment.
Variable key : list nat -> nat -> Z.
Hypothesis key_pos : forall rk c, (0 < key rk c)%Z.
Variable permit : nat -> nat -> bool.
Variable n : nat.
Notation dv := (dv_gqr key permit).
Notation R j := (run dv j (init n)).

Lemma segment_permitted (P : nat -> bool) j0 t :
  (forall j c, j0 <= j < j0 + t -> permit j c = P c) ->
  j0 + t <= n ->
  t <= length (filter P (snd (R j0))) ->
  exists picks, fst (R (j0 + t)) = fst (R j0) ++ picks /\ length picks = t /\ (forall c, In c picks -> P c = true) /\
     (forall i, i < t -> let st := R (j0 + i) in
         nth i picks 0 = picked dv st /\
         forall c, In c (snd st) -> P c = true -> (key (fst st) c <= key (fst st) (nth i picks 0%nat))%Z).
Proof.
  induction t as [|t IH]; intros HP Hn Hc.
  - exists []. rewrite Nat.add_0_r, app_nil_r. repeat split; auto; intros; try contradiction; lia.
  - destruct IH as (picks & E & Lp & Fp & Dp); [intros; apply HP; lia|lia|lia|].
    destruct (run_invariant dv (dv_gqr_len key permit) n (j0 + t) ltac:(lia)) as (L & Pm & Rm).
    destruct (run_invariant dv (dv_gqr_len key permit) n j0 ltac:(lia)) as (L0 & Pm0 & Rm0).
    replace (j0 + S t) with (S (j0 + t)) by lia.
    assert (Hne : snd (R (j0 + t)) <> []) by (destruct (snd (R (j0 + t))); simpl in Rm; [lia|discriminate]).
    (* some permitted candidate is left *)
    assert (Hcnt : t < length (filter P (snd (R (j0 + t)))) + t) .
    { pose proof (perm_remaining_count P _ _ _ Pm) as C1. pose proof (perm_remaining_count P _ _ _ Pm0) as C0.
      rewrite E, filter_app, app_length in C1. rewrite (filter_length_all P picks Fp), Lp in C1. lia. }
    assert (Hex : exists c, In c (snd (R (j0 + t))) /\ permit (length (fst (R (j0 + t)))) c = true).
    { destruct (filter P (snd (R (j0 + t)))) as [|c r] eqn:Ef; [simpl in Hcnt; lia|].
      assert (Hin : In c (filter P (snd (R (j0 + t))))) by (rewrite Ef; now left).
      apply filter_In in Hin. exists c. split; [tauto|]. rewrite L. rewrite HP by lia. tauto. }
    rewrite run_S_fst by (apply dv_gqr_len || exact Hne).
    destruct (R (j0 + t)) as [rk cs] eqn:Er. cbn [fst snd] in *.
    destruct (pick_permitted key key_pos permit rk cs Hex) as (Hin & Hperm & Hdom).
    exists (picks ++ [picked dv (rk, cs)]). split; [rewrite E at 1; now rewrite <- app_assoc|].
    split; [rewrite app_length; simpl; lia|]. split.
    + intros c Hc'. apply in_app_or in Hc'. destruct Hc' as [Hc'|[<-|[]]]; auto.
      rewrite <- (HP (j0 + t)) by lia. now rewrite <- L.
    + intros i Hi. destruct (Nat.eq_dec i t) as [->|Hne'].
      * rewrite Er. cbn [fst snd]. rewrite app_nth2 by lia. rewrite Lp, Nat.sub_diag. simpl. split; auto.
        intros c Hc' HPc. apply Hdom; auto. rewrite L. rewrite HP by lia. auto.
      * rewrite app_nth1 by lia. apply Dp. lia.
Qed.
End Segment.

(* ------------------------------------------------------------------ the region theorems *)
Section Region.
Variable key : list nat -> nat -> Z.
Hypothesis key_pos : forall rk c, (0 < key rk c)%Z.
Variables n kk : nat.                 (* n sensors; the unconstrained run made kk = min(n, m) steps *)
Variable g : settings.
Notation L := (lin_idx g).
Notation A := (all_sensors g).
Notation s := (n_const g).
Notation Rf j := (run (dv_free key) j (init n)).
Notation Rg o j := (run (dv_gqr key (permit_of o g)) j (init n)).

(* all_sensors is the complete output of the unconstrained run of the SAME loop with the SAME key oracle *)
Hypothesis HA : A = pivots (Rf kk).
Hypothesis Hkk : kk <= n.
Hypothesis HLnd : NoDup L.
Hypothesis HLr : forall x, In x L -> x < n.

Lemma A_perm : Permutation A (seq 0 n).
Proof. rewrite HA. unfold pivots. apply (run_invariant _ (dv_free_len key) n kk Hkk). Qed.
Lemma A_len : length A = n.
Proof. rewrite (Permutation_length A_perm). apply seq_length. Qed.
Lemma A_nodup : NoDup A.
Proof. eapply Permutation_NoDup; [apply Permutation_sym, A_perm|apply seq_NoDup]. Qed.

Lemma A_prefix j : j <= kk -> firstn j A = fst (Rf j).
Proof.
  intro H. rewrite HA. unfold pivots.
  destruct (run_invariant _ (dv_free_len key) n kk Hkk) as (Lk & _).
  rewrite firstn_app, Lk. replace (j - kk) with 0 by lia. simpl. rewrite app_nil_r.
  apply (run_prefix _ (dv_free_len key)); auto.
Qed.

Lemma A_step j : j < kk -> firstn (S j) A = firstn j A ++ [picked (dv_free key) (Rf j)].
Proof.
  intro H. rewrite !A_prefix by lia. apply run_S_fst. apply dv_free_len.
  destruct (run_invariant _ (dv_free_len key) n j ltac:(lia)) as (_ & _ & R).
  destruct (snd (Rf j)); simpl in R; [lia|discriminate].
Qed.

Lemma In_A x : x < n -> In x A.
Proof. intro H. apply (Permutation_in _ (Permutation_sym A_perm)). apply in_seq. lia. Qed.

Lemma const_idx_len : length (const_idx g) = length L.
Proof. unfold const_idx. rewrite (filter_perm_length _ _ _ A_perm). now apply count_members. Qed.
Lemma const_idx_nodup : NoDup (const_idx g).
Proof. unfold const_idx. apply NoDup_filter, A_nodup. Qed.
Lemma const_idx_In x : In x (const_idx g) <-> In x L.
Proof. unfold const_idx. rewrite filter_In, mem_In. split; [tauto|]. intro H. split; auto. apply In_A. auto. Qed.

(* the region sensors of a prefix of the unconstrained ranking are the best-ranked region sensors *)
Lemma prefix_region t : filter (fun x => mem x L) (firstn t A) = firstn (count_in L (firstn t A)) (const_idx g).
Proof. unfold const_idx, count_in. apply filter_firstn_prefix. Qed.

Lemma gqr_invariant o j : j <= n ->
  length (fst (Rg o j)) = j /\ Permutation (fst (Rg o j) ++ snd (Rg o j)) (seq 0 n) /\ length (snd (Rg o j)) = n - j.
Proof. apply run_invariant. apply dv_gqr_len. Qed.

Lemma gqr_nodup o j : j <= n -> NoDup (fst (Rg o j)).
Proof.
  intro H. destruct (gqr_invariant o j H) as (_ & P & _).
  assert (ND : NoDup (fst (Rg o j) ++ snd (Rg o j))) by (eapply Permutation_NoDup; [apply Permutation_sym, P|apply seq_NoDup]).
  now apply NoDup_app_l in ND.
Qed.

(* a constrained run whose permit function lets every unconstrained pick through is the unconstrained run *)
Lemma gqr_coincides o t : t <= kk ->
  (forall j, j < t -> permit_of o g j (picked (dv_free key) (Rf j)) = true) ->
  fst (Rg o t) = firstn t A.
Proof.
  intros Ht H. rewrite (run_coincides key key_pos (permit_of o g) n t) by (auto; lia). symmetry. now apply A_prefix.
Qed.

(* ---------------- max_n: at most s region sensors among the first N ---------------- *)
Variable N : nat.
Hypothesis HN : eff_n g = N.
Hypothesis HNk : N <= kk.
Hypothesis Hfeas1 : s <= length L.               (* the region holds at least s sensors *)
Hypothesis Hfeas2 : N + length L <= n + s.       (* at least N - s sensors lie outside it *)

Definition P_max (c : nat) : bool := negb (mem c (skipn s (const_idx g))).

Lemma P_max_count : N <= length (filter P_max (seq 0 n)).
Proof.
  pose proof (filter_neg_length (fun c => mem c (skipn s (const_idx g))) (seq 0 n)) as H.
  rewrite seq_length in H. fold P_max in H.
  assert (X : length (filter (fun c => mem c (skipn s (const_idx g))) (seq 0 n)) = length L - s).
  { rewrite count_members.
    - rewrite skipn_length, const_idx_len. reflexivity.
    - pose proof const_idx_nodup as ND. rewrite <- (firstn_skipn s (const_idx g)) in ND. now apply NoDup_app_r in ND.
    - intros x Hx. apply HLr. apply const_idx_In. rewrite <- (firstn_skipn s (const_idx g)). apply in_or_app. now right. }
  lia.
Qed.

Lemma max_n_active_picks : s < count_in L (firstn N A) ->
  exists picks, fst (Rg OMax N) = picks /\ length picks = N /\ (forall c, In c picks -> P_max c = true) /\
    (forall i, i < N -> let st := Rg OMax i in nth i picks 0 = picked (dv_gqr key (permit_of OMax g)) st /\
        forall c, In c (snd st) -> P_max c = true -> (key (fst st) c <= key (fst st) (nth i picks 0%nat))%Z).
Proof.
  intro Hact.
  destruct (segment_permitted key key_pos (permit_of OMax g) n P_max 0 N) as (picks & E & Lp & Fp & Dp).
  - intros j c _. simpl. unfold permit_max_n. rewrite HN.
    destruct (Nat.ltb_spec s (count_in L (firstn N A))); [reflexivity|lia].
  - pose proof A_len. lia.
  - simpl. apply P_max_count.
  - simpl in E. exists picks. split; [exact E|]. split; [exact Lp|]. split; [exact Fp|].
    intros i Hi. exact (Dp i Hi).
Qed.

Theorem max_n_count : count_in L (fst (Rg OMax N)) <= s.
Proof.
  destruct (Nat.le_gt_cases (count_in L (firstn N A)) s) as [Hin|Hact].
  - (* the unconstrained top-N already satisfies the constraint: nothing is zeroed *)
    rewrite (gqr_coincides OMax N HNk); auto.
    intros j _. simpl. unfold permit_max_n. rewrite HN.
    destruct (Nat.ltb_spec s (count_in L (firstn N A))); [lia|reflexivity].
  - destruct (max_n_active_picks Hact) as (picks & E & Lp & Fp & _). rewrite E.
    unfold count_in.
    assert (Hinc : incl (filter (fun x => mem x L) picks) (firstn s (const_idx g))).
    { intros c Hc. apply filter_In in Hc. destruct Hc as [Hc Hm]. apply mem_In in Hm.
      specialize (Fp c Hc). unfold P_max in Fp. apply negb_true_iff, mem_false in Fp.
      apply const_idx_In in Hm. rewrite <- (firstn_skipn s (const_idx g)) in Hm. apply in_app_or in Hm. tauto. }
    assert (ND : NoDup (filter (fun x => mem x L) picks)).
    { apply NoDup_filter. rewrite <- E. apply gqr_nodup. pose proof A_len. lia. }
    pose proof (NoDup_incl_length ND Hinc) as X. rewrite firstn_length in X. lia.
Qed.

(* ---------------- exact_n: exactly s region sensors among the first N ---------------- *)
Hypothesis Hfeas0 : s <= N.

Lemma least_witness (P : nat -> bool) M : P M = true ->
  exists j, j <= M /\ P j = true /\ forall i, i < j -> P i = false.
Proof.
  induction M as [M IH] using lt_wf_ind. intro H.
  destruct (existsb P (seq 0 M)) eqn:E.
  - apply existsb_exists in E. destruct E as [i [Hi Pi]]. apply in_seq in Hi.
    destruct (IH i ltac:(lia) Pi) as (j & A1 & A2 & A3). exists j. repeat split; auto. lia.
  - exists M. repeat split; auto. intros i Hi. destruct (P i) eqn:Pi; auto.
    assert (existsb P (seq 0 M) = true) by (apply existsb_exists; exists i; split; auto; apply in_seq; lia). congruence.
Qed.

Lemma count_in_firstn_le t l : count_in L (firstn t l) <= count_in L l.
Proof.
  destruct (Nat.le_gt_cases (length l) t) as [H|H].
  - now rewrite firstn_all2.
  - rewrite <- (firstn_all l) at 2. apply count_in_firstn_mono. lia.
Qed.

Lemma gqr_prefix o j k : j <= k -> k <= n -> firstn j (fst (Rg o k)) = fst (Rg o j).
Proof. apply run_prefix. apply dv_gqr_len. Qed.

(* the unconstrained picks before position t are let through by max_n when the prefix of length t holds <= s region sensors *)
Lemma max_n_lets_prefix_through t : t <= kk -> count_in L (firstn t A) <= s ->
  forall j, j < t -> permit_max_n g j (picked (dv_free key) (Rf j)) = true.
Proof.
  intros Ht Hc j Hj. unfold permit_max_n. destruct (s <? count_in L (firstn (eff_n g) A)); auto.
  apply negb_true_iff, mem_false. intro Hin.
  set (p := picked (dv_free key) (Rf j)) in *.
  assert (HpA : In p (firstn t A)).
  { assert (In p (firstn (S j) A)) by (rewrite A_step by lia; apply in_or_app; right; now left).
    rewrite <- (firstn_skipn (S j) (firstn t A)). rewrite firstn_firstn. replace (Nat.min (S j) t) with (S j) by lia.
    apply in_or_app. now left. }
  assert (HpL : In p L).
  { apply const_idx_In. rewrite <- (firstn_skipn s (const_idx g)). apply in_or_app. now right. }
  assert (Hpre : In p (firstn (count_in L (firstn t A)) (const_idx g))).
  { rewrite <- prefix_region. apply filter_In. split; auto. now apply mem_In. }
  assert (Hs : In p (firstn s (const_idx g))).
  { rewrite <- (firstn_skipn (count_in L (firstn t A)) (firstn s (const_idx g))). rewrite firstn_firstn.
    replace (Nat.min (count_in L (firstn t A)) s) with (count_in L (firstn t A)) by lia. apply in_or_app. now left. }
  pose proof const_idx_nodup as ND. rewrite <- (firstn_skipn s (const_idx g)) in ND.
  exact (NoDup_app_disj _ _ ND p Hs Hin).
Qed.

Theorem exact_n_count : count_in L (fst (Rg OExact N)) = s.
Proof.
  destruct (Nat.le_gt_cases s (count_in L (firstn N A))) as [Hge|Hlt].
  - (* the unconstrained top-N holds at least s region sensors: exact_n defers to max_n *)
    assert (Eq : Rg OExact N = Rg OMax N).
    { apply run_ext. intros j _. simpl. unfold dv_gqr. apply map_ext. intro c. simpl. unfold permit_exact_n. rewrite HN.
      destruct (Nat.ltb_spec (count_in L (firstn N A)) s); [lia|reflexivity]. }
    rewrite Eq. apply Nat.le_antisymm; [apply max_n_count|].
    destruct (count_hits L A N s Hge) as (t & Ht & Et).
    assert (Ec : fst (Rg OMax t) = firstn t A).
    { apply gqr_coincides; [lia|]. apply max_n_lets_prefix_through; lia. }
    rewrite <- Et, <- Ec, <- (gqr_prefix OMax t N) by (auto; pose proof A_len; lia).
    apply count_in_firstn_le.
  - (* fewer than s: region picks are forced in the last steps *)
    set (c := fun j => count_in L (firstn j A)).
    set (W := fun j => N <=? j + (s - c j)).
    destruct (least_witness W N) as (js & Hjs & Wjs & Wlt).
    { unfold W. apply Nat.leb_le. lia. }
    unfold W in Wjs. apply Nat.leb_le in Wjs.
    assert (cmono : forall j, j <= N -> c j <= c N) by (intros; apply count_in_firstn_mono; auto).
    assert (Hexact : js + (s - c js) = N).
    { destruct js as [|j']; [assert (c0 : c 0 = 0) by reflexivity; lia|].
      specialize (Wlt j' ltac:(lia)). unfold W in Wlt. apply Nat.leb_gt in Wlt.
      pose proof (count_in_firstn_S L A j') as [X1 X2]. fold (c (S j')) in X1, X2. fold (c j') in X1, X2.
      specialize (cmono (S j') Hjs). unfold c in *. lia. }
    (* phase 1: nothing is zeroed before step js *)
    assert (E1 : fst (Rg OExact js) = firstn js A).
    { apply gqr_coincides; [lia|]. intros j Hj. simpl. unfold permit_exact_n. rewrite HN.
      destruct (Nat.ltb_spec (count_in L (firstn N A)) s); [|lia].
      specialize (Wlt j Hj). unfold W, c in Wlt. apply Nat.leb_gt in Wlt.
      destruct (Nat.ltb_spec j N); simpl; auto. destruct (Nat.leb_spec (N - (s - count_in L (firstn j A))) j); auto. lia. }
    (* phase 2: only region sensors are permitted from step js on *)
    destruct (segment_permitted key key_pos (permit_of OExact g) n (fun x => mem x L) js (N - js)) as (picks & E & Lp & Fp & _).
    + intros j x Hj. simpl. unfold permit_exact_n. rewrite HN.
      destruct (Nat.ltb_spec (count_in L (firstn N A)) s); [|lia].
      destruct (Nat.ltb_spec j N); [|lia]. simpl.
      assert (c j <= c js + (j - js)) by (apply count_in_firstn_lip; lia).
      assert (c j <= c N) by (apply cmono; lia). unfold c in *.
      destruct (Nat.leb_spec (N - (s - count_in L (firstn j A))) j); auto. lia.
    + pose proof A_len. lia.
    + destruct (gqr_invariant OExact js ltac:(pose proof A_len; lia)) as (_ & Pm & _).
      pose proof (perm_remaining_count (fun x => mem x L) _ _ _ Pm) as Cnt.
      rewrite (count_members n L HLnd HLr), E1 in Cnt. fold (count_in L (firstn js A)) in Cnt. fold (c js) in Cnt.
      specialize (cmono js Hjs). unfold c in *. lia.
    + replace (js + (N - js)) with N in E by lia. rewrite E, E1, count_in_app.
      rewrite (count_in_all L picks) by (intros x Hx; apply mem_In; auto).
      fold (c js). specialize (cmono js Hjs). unfold c in *. lia.
Qed.

(* ---------------- predetermined: first N-s outside the set, last s inside ---------------- *)
Lemma count_non_members : length (filter (fun x => negb (mem x L)) (seq 0 n)) = n - length L.
Proof.
  pose proof (filter_neg_length (fun x => mem x L) (seq 0 n)) as H. rewrite seq_length, (count_members n L HLnd HLr) in H. lia.
Qed.

Theorem predetermined_split : n_sensors g = Some N ->
  exists out_picks in_picks, fst (Rg OPre N) = out_picks ++ in_picks /\
    length out_picks = N - s /\ length in_picks = s /\
    (forall c, In c out_picks -> ~ In c L) /\ (forall c, In c in_picks -> In c L) /\
    (* each pick is the best of its class among the sensors not yet ranked *)
    (forall i, i < N - s -> let st := Rg OPre i in
        forall c, In c (snd st) -> ~ In c L -> (key (fst st) c <= key (fst st) (nth i out_picks 0%nat))%Z) /\
    (forall i, i < s -> let st := Rg OPre (N - s + i) in
        forall c, In c (snd st) -> In c L -> (key (fst st) c <= key (fst st) (nth i in_picks 0%nat))%Z).
Proof.
  intro HNraw. pose proof A_len as AL. cbn [permit_of].
  assert (Hperm : forall j c, permit_predetermined g j c =
            if (N - s <=? j) && (j <=? N) then mem c L else negb (mem c L)).
  { intros. unfold permit_predetermined. now rewrite HNraw. }
  destruct (segment_permitted key key_pos (permit_predetermined g) n (fun x => negb (mem x L)) 0 (N - s)) as (p1 & E1 & L1 & F1 & D1).
  { intros j c Hj. rewrite Hperm. destruct (Nat.leb_spec (N - s) j); [lia|reflexivity]. }
  { lia. }
  { change (snd (run (dv_gqr key (permit_predetermined g)) 0 (init n))) with (seq 0 n). rewrite count_non_members. lia. }
  rewrite Nat.add_0_l in E1. change (fst (run (dv_gqr key (permit_predetermined g)) 0 (init n))) with (@nil nat) in E1. rewrite app_nil_l in E1.
  destruct (segment_permitted key key_pos (permit_predetermined g) n (fun x => mem x L) (N - s) s) as (p2 & E2 & L2 & F2 & D2).
  { intros j c Hj. rewrite Hperm. destruct (Nat.leb_spec (N - s) j); [|lia]. destruct (Nat.leb_spec j N); [reflexivity|lia]. }
  { lia. }
  { destruct (gqr_invariant OPre (N - s) ltac:(lia)) as (_ & Pm & _). cbn [permit_of] in Pm.
    pose proof (perm_remaining_count (fun x => mem x L) _ _ _ Pm) as Cnt.
    rewrite (count_members n L HLnd HLr), E1 in Cnt.
    rewrite (filter_none _ p1) in Cnt by (intros x Hx; apply negb_true_iff; auto). simpl in Cnt. lia. }
  replace (N - s + s) with N in E2 by lia.
  exists p1, p2. rewrite E2, E1. split; [reflexivity|]. split; [exact L1|]. split; [exact L2|].
  split; [intros c Hc; apply mem_false, negb_true_iff; auto|]. split; [intros c Hc; apply mem_In; auto|]. split.
  - intros i Hi. cbv zeta. intros c Hc Hn. destruct (D1 i Hi) as [_ X]. rewrite Nat.add_0_l in X. apply X; auto. apply negb_true_iff, mem_false. auto.
  - intros i Hi. cbv zeta. intros c Hc Hn. destruct (D2 i Hi) as [_ X]. apply X; auto. apply mem_In. auto.
Qed.

(* ---------------- C06: the constraint is inactive => the first N sensors are the unconstrained ones ---------------- *)
Theorem inactive_max_n : count_in L (firstn N A) <= s -> fst (Rg OMax N) = firstn N A.
Proof.
  intro H. apply gqr_coincides; auto. intros j _. simpl. unfold permit_max_n. rewrite HN.
  destruct (Nat.ltb_spec s (count_in L (firstn N A))); [lia|reflexivity].
Qed.

Theorem inactive_exact_n : count_in L (firstn N A) = s -> fst (Rg OExact N) = firstn N A.
Proof.
  intro H. apply gqr_coincides; auto. intros j _. simpl. unfold permit_exact_n, permit_max_n. rewrite HN, H.
  rewrite Nat.ltb_irrefl. reflexivity.
Qed.

Lemma A_nth j : j < kk -> nth j A 0 = picked (dv_free key) (Rf j).
Proof.
  intro H. pose proof (A_step j H) as E.
  assert (X : nth j (firstn (S j) A) 0 = nth j A 0).
  { rewrite <- (firstn_skipn (S j) A) at 2. rewrite app_nth1; auto. rewrite firstn_length, A_len. lia. }
  rewrite <- X, E. rewrite app_nth2; rewrite firstn_length, A_len; replace (Nat.min j n) with j by lia; [|lia].
  now rewrite Nat.sub_diag.
Qed.

Theorem inactive_predetermined : n_sensors g = Some N ->
  (forall j, j < N - s -> ~ In (nth j A 0) L) -> (forall j, N - s <= j < N -> In (nth j A 0) L) ->
  fst (Rg OPre N) = firstn N A.
Proof.
  intros HNraw H1 H2. apply gqr_coincides; auto. intros j Hj. simpl. unfold permit_predetermined. rewrite HNraw.
  rewrite <- A_nth by lia.
  destruct (Nat.leb_spec (N - s) j) as [Hw|Hw].
  - destruct (Nat.leb_spec j N); [|lia]. simpl. apply mem_In. apply H2. lia.
  - simpl. apply negb_true_iff, mem_false. apply H1. lia.
Qed.

(* ---------------- C06: every pick is the best of its own class ---------------- *)
Lemma dv_free_as_gqr rk cs : dv_free key rk cs = dv_gqr key (fun _ _ => true) rk cs.
Proof. reflexivity. Qed.

Lemma free_dominates rk cs : cs <> [] -> forall c, In c cs -> (key rk c <= key rk (picked (dv_free key) (rk, cs)))%Z.
Proof.
  intros Hne c Hc.
  destruct (pick_permitted key key_pos (fun _ _ => true) rk cs) as (_ & _ & D).
  - destruct cs as [|c0 r]; [congruence|]. exists c0. split; [now left|reflexivity].
  - unfold picked in *. rewrite dv_free_as_gqr. apply D; auto.
Qed.

Lemma ranked_not_remaining o j c : j <= n -> In c (fst (Rg o j)) -> In c (snd (Rg o j)) -> False.
Proof.
  intros Hj H1 H2. destruct (gqr_invariant o j Hj) as (_ & P & _).
  assert (ND : NoDup (fst (Rg o j) ++ snd (Rg o j))) by (eapply Permutation_NoDup; [apply Permutation_sym, P|apply seq_NoDup]).
  exact (NoDup_app_disj _ _ ND c H1 H2).
Qed.

Theorem max_n_within_class i : i < N ->
  let st := Rg OMax i in let p := picked (dv_gqr key (permit_of OMax g)) st in
  forall c, In c (snd st) -> (In c L <-> In p L) -> (key (fst st) c <= key (fst st) p)%Z.
Proof.
  intros Hi st p c Hc Hcls. pose proof A_len as AL.
  destruct (Nat.le_gt_cases (count_in L (firstn N A)) s) as [Hin|Hact].
  - (* inactive: nothing is zeroed, the pick is the overall best *)
    destruct (segment_permitted key key_pos (permit_of OMax g) n (fun _ => true) 0 N) as (picks & _ & _ & _ & D).
    + intros j x _. simpl. unfold permit_max_n. rewrite HN.
      destruct (Nat.ltb_spec s (count_in L (firstn N A))); [lia|reflexivity].
    + lia.
    + simpl. rewrite filter_length_all by auto. rewrite seq_length. lia.
    + destruct (D i Hi) as [E X]. rewrite Nat.add_0_l in E, X. subst st p. rewrite <- E. apply X; auto.
  - destruct (max_n_active_picks Hact) as (picks & Ep & Lp & Fp & D).
    destruct (D i Hi) as [E X]. fold st in E, X. fold p in E.
    destruct (P_max c) eqn:Pc; [rewrite <- E; apply X; auto|].
    (* c is a forbidden region sensor, so the pick is a region sensor too: this only happens while the run still
       coincides with the unconstrained one *)
    assert (HcL : In c L).
    { unfold P_max in Pc. apply negb_false_iff, mem_In in Pc. apply const_idx_In.
      rewrite <- (firstn_skipn s (const_idx g)). apply in_or_app. now right. }
    assert (HpL : In p L) by tauto.
    assert (Hpp : P_max p = true). { apply Fp. rewrite <- E. apply nth_In. lia. }
    assert (Hp_first : In p (firstn s (const_idx g))).
    { unfold P_max in Hpp. apply negb_true_iff, mem_false in Hpp. apply const_idx_In in HpL.
      rewrite <- (firstn_skipn s (const_idx g)) in HpL. apply in_app_or in HpL. tauto. }
    destruct (count_hits L A N s ltac:(lia)) as (t & Ht & Et).
    assert (Ect : fst (Rg OMax t) = firstn t A).
    { apply gqr_coincides; [lia|]. apply max_n_lets_prefix_through; lia. }
    assert (Hit : i < t).
    { destruct (Nat.lt_ge_cases i t) as [|Hge]; auto. exfalso.
      assert (In p (fst (Rg OMax t))).
      { rewrite Ect. assert (Y : In p (filter (fun x => mem x L) (firstn t A))).
        { rewrite prefix_region, Et. exact Hp_first. }
        apply filter_In in Y. tauto. }
      assert (In p (fst (Rg OMax i))).
      { rewrite <- (gqr_prefix OMax t i) in H by lia. eapply In_firstn_l; eauto. }
      assert (In p (snd (Rg OMax i))).
      { destruct (gqr_invariant OMax i ltac:(lia)) as (_ & _ & R).
        destruct (step_shape _ (dv_gqr_len key (permit_of OMax g)) (fst (Rg OMax i)) (snd (Rg OMax i))) as (_ & _ & _ & X').
        - destruct (snd (Rg OMax i)); simpl in R; [lia|discriminate].
        - subst p st. destruct (Rg OMax i). exact X'. }
      eapply (ranked_not_remaining OMax i p); eauto. lia. }
    (* before t the constrained state and pick are the unconstrained ones *)
    assert (Est : st = Rf i).
    { subst st. apply (run_coincides key key_pos (permit_of OMax g) n i); [lia|].
      intros j Hj. apply (max_n_lets_prefix_through t); lia. }
    assert (Epk : p = picked (dv_free key) (Rf i)).
    { subst p. rewrite Est. destruct (Rf i) as [rk cs] eqn:Er.
      destruct (run_invariant _ (dv_free_len key) n i ltac:(lia)) as (Lr & _ & R). rewrite Er in Lr, R. simpl in Lr, R.
      assert (Hne : cs <> []) by (destruct cs; simpl in R; [lia|discriminate]).
      unfold picked. rewrite (pick_coincides key key_pos (permit_of OMax g) rk cs Hne); auto.
      rewrite Lr. pose proof (max_n_lets_prefix_through t ltac:(lia) ltac:(lia) i Hit) as Y. rewrite Er in Y. exact Y. }
    rewrite Epk. rewrite Est in *. destruct (Rf i) as [rk cs] eqn:Er. simpl in *.
    apply free_dominates; auto. intro Z. subst cs. contradiction.
Qed.

Lemma exact_defers_to_max : s <= count_in L (firstn N A) -> forall i, i <= N -> Rg OExact i = Rg OMax i.
Proof.
  intros Hge i Hi. apply run_ext. intros j _. cbv zeta. unfold dv_gqr. apply map_ext. intro c. simpl.
  unfold permit_exact_n. rewrite HN. destruct (Nat.ltb_spec (count_in L (firstn N A)) s); [lia|reflexivity].
Qed.

Theorem exact_n_within_class i : i < N ->
  let st := Rg OExact i in let p := picked (dv_gqr key (permit_of OExact g)) st in
  forall c, In c (snd st) -> (In c L <-> In p L) -> (key (fst st) c <= key (fst st) p)%Z.
Proof.
  intros Hi. pose proof A_len as AL.
  destruct (Nat.le_gt_cases s (count_in L (firstn N A))) as [Hge|Hlt].
  - (* defers to max_n: same states, same value lists *)
    rewrite (exact_defers_to_max Hge i ltac:(lia)). cbv zeta.
    assert (Ep : picked (dv_gqr key (permit_of OExact g)) (Rg OMax i) = picked (dv_gqr key (permit_of OMax g)) (Rg OMax i)).
    { destruct (Rg OMax i) as [rk cs]. unfold picked. f_equal. f_equal. unfold dv_gqr. apply map_ext. intro c. simpl.
      unfold permit_exact_n. rewrite HN. destruct (Nat.ltb_spec (count_in L (firstn N A)) s); [lia|reflexivity]. }
    rewrite Ep. apply max_n_within_class. exact Hi.
  - set (cc := fun j => count_in L (firstn j A)).
    set (W := fun j => N <=? j + (s - cc j)).
    destruct (least_witness W N) as (js & Hjs & Wjs & Wlt).
    { unfold W. apply Nat.leb_le. lia. }
    unfold W in Wjs. apply Nat.leb_le in Wjs.
    assert (cmono : forall j, j <= N -> cc j <= cc N) by (intros; apply count_in_firstn_mono; auto).
    assert (Hexact : js + (s - cc js) = N).
    { destruct js as [|j']; [assert (c0 : cc 0 = 0) by reflexivity; lia|].
      specialize (Wlt j' ltac:(lia)). unfold W in Wlt. apply Nat.leb_gt in Wlt.
      pose proof (count_in_firstn_S L A j') as [X1 X2]. fold (cc (S j')) in X1, X2. fold (cc j') in X1, X2.
      specialize (cmono (S j') Hjs). unfold cc in *. lia. }
    assert (Hfree : forall j x, j < js -> permit_of OExact g j x = true).
    { intros j x Hj. simpl. unfold permit_exact_n. rewrite HN.
      destruct (Nat.ltb_spec (count_in L (firstn N A)) s); [|lia].
      specialize (Wlt j Hj). unfold W, cc in Wlt. apply Nat.leb_gt in Wlt.
      destruct (Nat.ltb_spec j N); simpl; auto. destruct (Nat.leb_spec (N - (s - count_in L (firstn j A))) j); auto. lia. }
    assert (Hforced : forall j x, js <= j < N -> permit_of OExact g j x = mem x L).
    { intros j x Hj. simpl. unfold permit_exact_n. rewrite HN.
      destruct (Nat.ltb_spec (count_in L (firstn N A)) s); [|lia].
      destruct (Nat.ltb_spec j N); [|lia]. simpl.
      assert (cc j <= cc js + (j - js)) by (apply count_in_firstn_lip; lia).
      assert (cc j <= cc N) by (apply cmono; lia). unfold cc in *.
      destruct (Nat.leb_spec (N - (s - count_in L (firstn j A))) j); auto. lia. }
    cbv zeta. intros c Hc Hcls.
    destruct (Nat.lt_ge_cases i js) as [Hph|Hph].
    + (* before the forcing window nothing is zeroed: the pick is the overall best *)
      destruct (segment_permitted key key_pos (permit_of OExact g) n (fun _ => true) 0 js) as (picks & _ & _ & _ & D).
      * intros j x Hj. apply Hfree. lia.
      * lia.
      * change (snd (Rg OExact 0)) with (seq 0 n). rewrite filter_length_all by auto. rewrite seq_length. lia.
      * destruct (D i Hph) as [E X]. rewrite Nat.add_0_l in E, X. rewrite <- E. apply X; auto.
    + (* inside the window only region sensors are candidates, and the pick is the best of them *)
      destruct (segment_permitted key key_pos (permit_of OExact g) n (fun x => mem x L) js (N - js)) as (picks & E0 & Lp & Fp & D).
      * intros j x Hj. apply Hforced. lia.
      * lia.
      * assert (E1 : fst (Rg OExact js) = firstn js A).
        { apply gqr_coincides; [lia|]. intros j Hj. apply Hfree. exact Hj. }
        destruct (gqr_invariant OExact js ltac:(lia)) as (_ & Pm & _).
        pose proof (perm_remaining_count (fun x => mem x L) _ _ _ Pm) as Cnt.
        rewrite (count_members n L HLnd HLr), E1 in Cnt. fold (count_in L (firstn js A)) in Cnt. fold (cc js) in Cnt.
        specialize (cmono js Hjs). unfold cc in *. lia.
      * destruct (D (i - js) ltac:(lia)) as [E X]. replace (js + (i - js)) with i in E, X by lia.
        rewrite <- E. apply X; auto. apply mem_In. apply Hcls. rewrite <- E. apply mem_In. apply Fp. apply nth_In. lia.
Qed.

(* ---------------- C06: allowance zero = CCQR with a prohibitive cost on the region ---------------- *)
Variable Cbig : Z.
Hypothesis Cbig_dominates : forall rk c, (key rk c < Cbig)%Z.
Definition region_cost (c : nat) : Z := if mem c L then Cbig else 0%Z.
Definition P_out (c : nat) : bool := negb (mem c L).
Notation Rout j := (run (dv_gqr key (fun _ c => P_out c)) j (init n)).
Notation Rcc j := (run (dv_ccqr key region_cost) j (init n)).

Lemma ccqr_argmax_eq rk cs : (exists c, In c cs /\ P_out c = true) ->
  argmax (dv_ccqr key region_cost rk cs) = argmax (dv_gqr key (fun _ c => P_out c) rk cs).
Proof.
  intro Hex.
  assert (Hne : dv_gqr key (fun _ c => P_out c) rk cs <> []).
  { destruct Hex as [c [Hc _]]. destruct cs; [destruct Hc|discriminate]. }
  destruct (argmax_spec _ Hne) as (Hlt & Hmax & Hfirst). rewrite dv_gqr_len in Hlt.
  set (i := argmax (dv_gqr key (fun _ c => P_out c) rk cs)) in *.
  pose proof (Forall_nth_le _ _ Hmax) as Hmax'. rewrite dv_gqr_len in Hmax'.
  destruct (pick_permitted key key_pos (fun _ c => P_out c) rk cs Hex) as (_ & Hpi & _).
  unfold picked in Hpi. fold i in Hpi.
  assert (Hg : forall j, j < length cs -> nth j (dv_gqr key (fun _ c => P_out c) rk cs) 0%Z =
                 if P_out (nth j cs 0%nat) then key rk (nth j cs 0%nat) else 0%Z).
  { intros j Hj. unfold dv_gqr. now rewrite (nth_map' _ cs j 0%Z 0). }
  assert (Hc : forall j, j < length cs -> nth j (dv_ccqr key region_cost rk cs) 0%Z =
                 (key rk (nth j cs 0%nat) - region_cost (nth j cs 0%nat))%Z).
  { intros j Hj. unfold dv_ccqr. now rewrite (nth_map' _ cs j 0%Z 0). }
  assert (Hval : forall j, j < length cs ->
            (P_out (nth j cs 0%nat) = true /\ nth j (dv_ccqr key region_cost rk cs) 0%Z = key rk (nth j cs 0%nat)) \/
            (P_out (nth j cs 0%nat) = false /\ (nth j (dv_ccqr key region_cost rk cs) 0 < 0)%Z)).
  { intros j Hj. rewrite (Hc j Hj). unfold region_cost, P_out. destruct (mem (nth j cs 0%nat) L); simpl.
    - right. split; auto. pose proof (Cbig_dominates rk (nth j cs 0%nat)). lia.
    - left. split; auto. lia. }
  apply argmax_unique.
  - unfold dv_ccqr. now rewrite map_length.
  - unfold dv_ccqr at 1. rewrite map_length. intros k Hk.
    destruct (Hval i Hlt) as [[_ Ei]|[Z _]]; [|congruence]. rewrite Ei.
    specialize (Hmax' k Hk). rewrite (Hg k Hk), (Hg i Hlt), Hpi in Hmax'.
    pose proof (key_pos rk (nth i cs 0%nat)).
    destruct (Hval k Hk) as [[Pk Ek]|[Pk Ek]]; [rewrite Ek; rewrite Pk in Hmax'; lia|lia].
  - intros k Hk. assert (Hk' : k < length cs) by lia.
    destruct (Hval i Hlt) as [[_ Ei]|[Z _]]; [|congruence]. rewrite Ei.
    specialize (Hfirst k Hk). rewrite (Hg k Hk'), (Hg i Hlt), Hpi in Hfirst.
    pose proof (key_pos rk (nth i cs 0%nat)).
    destruct (Hval k Hk') as [[Pk Ek]|[Pk Ek]]; [rewrite Ek; rewrite Pk in Hfirst; lia|lia].
Qed.

Lemma out_count : N + length L <= n -> N <= length (filter P_out (seq 0 n)).
Proof. intro H. unfold P_out. rewrite count_non_members. lia. Qed.

Theorem ccqr_prohibitive_is_out_run t : t <= N -> N + length L <= n -> Rcc t = Rout t.
Proof.
  intros Ht Hn. induction t as [|t IH]; auto. cbn [run]. rewrite IH by lia.
  destruct (segment_permitted key key_pos (fun _ c => P_out c) n P_out 0 t) as (picks & E & Lp & Fp & _).
  { auto. } { pose proof A_len. lia. }
  { change (snd (Rout 0)) with (seq 0 n). pose proof (out_count Hn). lia. }
  destruct (run_invariant _ (dv_gqr_len key (fun _ c => P_out c)) n t ltac:(pose proof A_len; lia)) as (Lr & Pm & Rm).
  pose proof (perm_remaining_count P_out _ _ _ Pm) as Cnt.
  rewrite Nat.add_0_l in E. change (fst (Rout 0)) with (@nil nat) in E. rewrite app_nil_l in E.
  rewrite E, (filter_length_all P_out picks Fp), Lp in Cnt. pose proof (out_count Hn).
  destruct (Rout t) as [rk cs]. cbn [fst snd] in *.
  assert (Hex : exists c, In c cs /\ P_out c = true).
  { destruct (filter P_out cs) as [|c r] eqn:Ef; [simpl in Cnt; lia|].
    assert (Hin : In c (filter P_out cs)) by (rewrite Ef; now left). apply filter_In in Hin. eauto. }
  unfold step. destruct cs as [|c0 rest]; auto. now rewrite (ccqr_argmax_eq rk (c0 :: rest) Hex).
Qed.

Theorem s0_max_n_is_out_run : s = 0 -> N + length L <= n -> fst (Rg OMax N) = fst (Rout N).
Proof.
  intros Hs Hn.
  destruct (Nat.le_gt_cases (count_in L (firstn N A)) s) as [Hin|Hact].
  - (* no region sensor among the unconstrained top-N: both runs are the unconstrained run *)
    rewrite (inactive_max_n Hin).
    assert (Eo : Rout N = Rf N).
    { apply (run_coincides key key_pos (fun _ c => P_out c) n N); [pose proof A_len; lia|].
      intros j Hj. rewrite <- A_nth by lia. unfold P_out. apply negb_true_iff, mem_false. intro HL.
      assert (X : count_in L (firstn N A) = 0) by lia.
      assert (Y : In (nth j A 0) (filter (fun x => mem x L) (firstn N A))).
      { apply filter_In. split; [|now apply mem_In].
        rewrite <- (firstn_skipn N A) at 1. rewrite app_nth1 by (rewrite firstn_length, A_len; lia).
        apply nth_In. rewrite firstn_length, A_len. lia. }
      unfold count_in in X. destruct (filter (fun x => mem x L) (firstn N A)); [destruct Y|discriminate]. }
    rewrite Eo. now apply A_prefix.
  - f_equal. apply run_ext. intros j _. cbv zeta. unfold dv_gqr. apply map_ext. intro c. simpl.
    unfold permit_max_n. rewrite HN. destruct (Nat.ltb_spec s (count_in L (firstn N A))); [|lia].
    rewrite Hs. unfold P_out. simpl. f_equal.
    destruct (mem c (const_idx g)) eqn:E1, (mem c L) eqn:E2; auto.
    + apply mem_In, const_idx_In, mem_In in E1. congruence.
    + apply mem_In, const_idx_In, mem_In in E2. congruence.
Qed.

(* allowance zero: the first N GQR sensors (max_n or exact_n) are the first N CCQR sensors with a prohibitive region
   cost - same order, ties included *)
Theorem s0_eq_ccqr : s = 0 -> N + length L <= n ->
  fst (Rg OMax N) = fst (Rcc N) /\ fst (Rg OExact N) = fst (Rcc N).
Proof.
  intros Hs Hn. rewrite (ccqr_prohibitive_is_out_run N (Nat.le_refl N) Hn). split.
  - now apply s0_max_n_is_out_run.
  - rewrite (exact_defers_to_max ltac:(lia) N (Nat.le_refl N)). now apply s0_max_n_is_out_run.
Qed.
End Region.
