(* Bases (model, executable over Qc for pysensors' own data movements; sklearn / numpy kernels are oracles with
   contracts).  Sources: basis/_base.py 22-62, _identity.py 42-95, _svd.py 54-89, _random_projection.py 64-99,
   _custom.py. *)
From Coq Require Import List Arith QArith Qcanon Bool.
Import ListNotations.
From PS Require Import LA.Sums LA.Gram.
Open Scope Qc_scope.

Definition matrix := list (list Qc).      (* list of rows *)
Definition cols (k : nat) (M : matrix) : matrix := map (firstn k) M.
Definition transpose (rows ncols : nat) (M : matrix) : matrix :=
  map (fun j => map (fun i => nth j (nth i M []) 0) (seq 0 rows)) (seq 0 ncols).
Definition identity_matrix (n : nat) : matrix :=
  map (fun i => map (fun j => if Nat.eqb i j then 1 else 0) (seq 0 n)) (seq 0 n).

Inductive request := ReqNone | ReqCount (k : Z).       (* n_basis_modes argument: None or an integer *)
Inductive result := RMatrix (M : matrix) | RValueError | RNotFitted.

(* matrix_representation(n_basis_modes = req) on a basis that holds [avail] modes *)
Definition matrix_representation (fitted : option matrix) (avail : nat) (req : request) : result :=
  match fitted with
  | None => RNotFitted
  | Some M =>
      match req with
      | ReqNone => RMatrix (cols avail M)
      | ReqCount k => if (k <=? 0)%Z then RValueError
                      else if (Z.of_nat avail <? k)%Z then RValueError else RMatrix (cols (Z.to_nat k) M)
      end
  end.

(* Identity.fit: the transposed first k training examples (all of them when n_basis_modes is None) *)
Definition identity_fit (X : matrix) (n_features : nat) (k : option nat) : option (matrix * nat) :=
  let rows := length X in
  match k with
  | None => Some (transpose rows n_features X, rows)
  | Some k' => if rows <? k' then None else Some (transpose k' n_features (firstn k' X), k')
  end.
Definition identity_inverse (n_features : nat) : matrix := identity_matrix n_features.

(* Custom.fit: the first k columns of the supplied matrix U (ncols columns); more modes than columns is rejected *)
Definition custom_fit (U : matrix) (ncols k : nat) : option (matrix * nat) :=
  if ncols <? k then None else Some (cols k U, k).

(* ---- executable checkers for the oracle contracts (entrywise tolerance) ---- *)
Definition Qcabs (x : Qc) : Qc := if Qle_bool 0 x then x else - x.
Definition close (tol a b : Qc) : bool := Qle_bool (Qcabs (a - b)) tol.
Definition mat_entry (M : matrix) (i j : nat) : Qc := nth j (nth i M []) 0.
Definition mat_mul_entry (A B : matrix) (inner i j : nat) : Qc :=
  sum inner (fun t => mat_entry A i t * mat_entry B t j).
(* U (n x k) has orthonormal columns: U^T U = I_k *)
Definition check_orthonormal (tol : Qc) (n k : nat) (U : matrix) : bool :=
  forallb (fun a => forallb (fun b => close tol (sum n (fun i => mat_entry U i a * mat_entry U i b)) (if Nat.eqb a b then 1 else 0)) (seq 0 k)) (seq 0 k).
(* P (k x n) is a left inverse of M (n x k): P M = I_k *)
Definition check_left_inverse (tol : Qc) (n k : nat) (P M : matrix) : bool :=
  forallb (fun a => forallb (fun b => close tol (mat_mul_entry P M n a b) (if Nat.eqb a b then 1 else 0)) (seq 0 k)) (seq 0 k).
(* A = B entrywise within tol *)
Definition check_close (tol : Qc) (r c : nat) (A B : matrix) : bool :=
  forallb (fun i => forallb (fun j => close tol (mat_entry A i j) (mat_entry B i j)) (seq 0 c)) (seq 0 r).
(* X (s x n) is reproduced by k modes U (n x k): X U U^T = X *)
Definition check_reproduces (tol : Qc) (s n k : nat) (X U : matrix) : bool :=
  forallb (fun i => forallb (fun j =>
     close tol (sum k (fun a => sum n (fun t => mat_entry X i t * mat_entry U t a) * mat_entry U j a)) (mat_entry X i j)) (seq 0 n)) (seq 0 s).
