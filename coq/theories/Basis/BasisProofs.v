From Coq Require Import List Arith Lia ZArith QArith Qcanon Bool Ring Field.
Import ListNotations.
From PS Require Import LA.Sums LA.Gram LA.GramProofs Basis.Basis.
Open Scope Qc_scope.

(* asking for k modes returns the first k columns of the full matrix *)
Theorem repr_prefix k mfull M : (k <= mfull)%nat -> cols k (cols mfull M) = cols k M.
Proof.
  intro H. unfold cols. rewrite map_map. apply map_ext. intro r. rewrite firstn_firstn. now rewrite Nat.min_l.
Qed.

Theorem repr_is_prefix M avail k : (0 < k)%Z -> (k <= Z.of_nat avail)%Z ->
  matrix_representation (Some M) avail (ReqCount k) = RMatrix (cols (Z.to_nat k) M) /\
  cols (Z.to_nat k) (cols avail M) = cols (Z.to_nat k) M.
Proof.
  intros H1 H2. split.
  - unfold matrix_representation. destruct (Z.leb_spec k 0); [lia|]. destruct (Z.ltb_spec (Z.of_nat avail) k); [lia|]. reflexivity.
  - apply repr_prefix. lia.
Qed.

Theorem repr_reject M avail k : (k <= 0 \/ Z.of_nat avail < k)%Z ->
  matrix_representation (Some M) avail (ReqCount k) = RValueError.
Proof.
  intros [H|H]; unfold matrix_representation.
  - destruct (Z.leb_spec k 0); [reflexivity|lia].
  - destruct (Z.leb_spec k 0); [reflexivity|]. destruct (Z.ltb_spec (Z.of_nat avail) k); [reflexivity|lia].
Qed.

Theorem repr_unfitted avail req : matrix_representation None avail req = RNotFitted.
Proof. reflexivity. Qed.

(* shape: one row per sensor, k columns *)
Theorem repr_shape k M : length (cols k M) = length M /\ forall r, In r (cols k M) -> (length r <= k)%nat.
Proof.
  unfold cols. split; [apply map_length|]. intros r Hr. apply in_map_iff in Hr. destruct Hr as [r' [<- _]].
  rewrite firstn_length. lia.
Qed.

(* Identity: column i of the basis is training example i, exactly *)
Lemma nth_map_seq' {A} (f : nat -> A) n k d : (k < n)%nat -> nth k (map f (seq 0 n)) d = f k.
Proof. intro H. rewrite (nth_indep _ d (f 0%nat)) by now rewrite map_length, seq_length. rewrite map_nth. now rewrite seq_nth. Qed.

Theorem identity_exact X nf k M avail i j : identity_fit X nf k = Some (M, avail) -> (i < avail)%nat -> (j < nf)%nat ->
  mat_entry M j i = mat_entry X i j.
Proof.
  unfold identity_fit, mat_entry. destruct k as [k'|].
  - destruct (length X <? k') eqn:E; [discriminate|]. intro H. injection H as <- <-. intros Hi Hj.
    unfold transpose. rewrite (nth_map_seq' _ nf j) by auto. rewrite (nth_map_seq' _ k' i) by auto.
    assert (nth i (firstn k' X) [] = nth i X []).
    { rewrite <- (firstn_skipn k' X) at 2. rewrite app_nth1; auto. rewrite firstn_length. apply Nat.ltb_ge in E. lia. }
    now rewrite H.
  - intro H. injection H as <- <-. intros Hi Hj. unfold transpose.
    rewrite (nth_map_seq' _ nf j) by auto. now rewrite (nth_map_seq' _ (length X) i).
Qed.

Theorem identity_inverse_is_identity n i j : (i < n)%nat -> (j < n)%nat ->
  mat_entry (identity_inverse n) i j = if Nat.eqb i j then 1 else 0.
Proof.
  intros Hi Hj. unfold identity_inverse, identity_matrix, mat_entry. rewrite (nth_map_seq' _ n i) by auto.
  now rewrite (nth_map_seq' _ n j).
Qed.

(* ---- consequences of the oracle contracts, in index-function form ---- *)
(* modes u_0..u_{k-1} (vectors of length n) orthonormal; a data row in their span is reproduced exactly by
   projecting on the modes and expanding again:  sum_a (x . u_a) u_a = x *)
Theorem svd_reproduces n k (u : nat -> nat -> Qc) (c : nat -> Qc) :
  (forall a b, (a < k)%nat -> (b < k)%nat -> dot n (u a) (u b) = if Nat.eqb a b then 1 else 0) ->
  let x := fun t => sum k (fun a => c a * u a t) in
  forall t, sum k (fun a => dot n x (u a) * u a t) = x t.
Proof.
  intros Hu x t. apply sum_ext. intros a Ha. f_equal.
  unfold dot, x.
  rewrite (sum_ext n _ (fun i => sum k (fun b => c b * (u b i * u a i)))).
  2:{ intros i _. rewrite <- sum_scale_r. apply sum_ext. intros; ring. }
  rewrite sum_swap.
  rewrite (sum_ext k _ (fun b => c b * dot n (u b) (u a))).
  2:{ intros b _. unfold dot. now rewrite sum_scale. }
  rewrite (sum_single k a); auto.
  - rewrite Hu by auto. rewrite Nat.eqb_refl. ring.
  - intros b Hb Hne. rewrite Hu by auto. destruct (Nat.eqb_spec b a); [congruence|ring].
Qed.

(* pseudo-inverse: from the Penrose equation M P M = M and left-cancellability of M (trivial kernel), P M = I *)
Theorem pinv_left_inverse n k (M P : fmat) :
  (forall i j, (i < n)%nat -> (j < k)%nat ->
      sum k (fun a => M i a * sum n (fun t => P a t * M t j)) = M i j) ->                  (* M (P M) = M *)
  (forall d, (forall i, (i < n)%nat -> sum k (fun a => M i a * d a) = 0) -> forall a, (a < k)%nat -> d a = 0) ->
  forall a j, (a < k)%nat -> (j < k)%nat -> sum n (fun t => P a t * M t j) = if Nat.eqb a j then 1 else 0.
Proof.
  intros Pen Ker a j Ha Hj.
  set (d := fun a' => sum n (fun t => P a' t * M t j) - (if Nat.eqb a' j then 1 else 0)).
  assert (Z : forall a', (a' < k)%nat -> d a' = 0).
  { apply Ker. intros i Hi. unfold d.
    rewrite (sum_ext k _ (fun a' => M i a' * sum n (fun t => P a' t * M t j) - M i a' * (if Nat.eqb a' j then 1 else 0))) by (intros; ring).
    rewrite sum_sub, Pen by auto.
    rewrite (sum_single k j); auto.
    - rewrite Nat.eqb_refl. ring.
    - intros b Hb Hne. destruct (Nat.eqb_spec b j); [congruence|ring]. }
  specialize (Z a Ha). unfold d in Z.
  transitivity (sum n (fun t => P a t * M t j) - (if Nat.eqb a j then 1 else 0) + (if Nat.eqb a j then 1 else 0)); [ring|].
  rewrite Z. ring.
Qed.

(* Custom: a fit that is accepted holds exactly the requested number of modes, which the supplied matrix has *)
Theorem custom_fit_spec U ncols k M avail : custom_fit U ncols k = Some (M, avail) ->
  avail = k /\ (k <= ncols)%nat /\ M = cols k U.
Proof.
  unfold custom_fit. destruct (ncols <? k)%nat eqn:E; [discriminate|].
  intro H. injection H as <- <-. apply Nat.ltb_ge in E. auto.
Qed.
Theorem custom_fit_reject U ncols k : (ncols < k)%nat -> custom_fit U ncols k = None.
Proof. unfold custom_fit. intro H. apply Nat.ltb_lt in H. now rewrite H. Qed.
