(* Box / coordinate / user-defined constraint helpers of pysensors/utils/_constraints.py (model, executable).
   Sources: get_constrained_sensors_indices 16-71, get_constrained_sensors_indices_dataframe 74-117,
   load_functional_constraints 120-136, get_coordinates_from_indices 174-223, get_indices_from_coordinates 226-242,
   UserDefinedConstraints.constraint 1423-1472. *)
From Coq Require Import Ascii.
From Coq Require Import List Arith ZArith QArith Qcanon Bool.
Import ListNotations.
From PS Require Import Geo.Shapes.
Close Scope Qc_scope.
Open Scope nat_scope.

(* ---- box on a pixel grid.  Bounds are rationals num/den with a common positive denominator [den] (box bounds are
   floats in the code, pixel coordinates are integers):  x_min <= a  <->  xmin_num <= den * a. ---- *)
Definition in_box (den xmin xmax ymin ymax : Z) (a0 a1 : nat) : bool :=
  ((xmin <=? den * Z.of_nat a0) && (den * Z.of_nat a0 <=? xmax) &&
   (ymin <=? den * Z.of_nat a1) && (den * Z.of_nat a1 <=? ymax))%Z.

(* np.unravel_index(idx, (nx, ny)) = (idx / ny, idx mod ny); the kept pairs are swapped and raveled on (nx, ny) *)
Definition box_grid (den xmin xmax ymin ymax : Z) (nx ny : nat) (ranking : list nat) : list nat :=
  map (fun idx => (idx mod ny) * ny + idx / ny)
      (filter (fun idx => in_box den xmin xmax ymin ymax (idx / ny) (idx mod ny)) ranking).

(* ---- box on a dataframe: rows with a missing value are dropped first, positions count the remaining rows;
   half-open box ---- *)
Record dfrow := { complete : bool; rx : Qc; ry : Qc }.
Definition box_df (xmin xmax ymin ymax : Qc) (rows : list dfrow) : list nat :=
  let kept := filter complete rows in
  filter (fun i => let r := nth i kept {| complete := true; rx := 0%Qc; ry := 0%Qc |} in
                   Qcleb xmin (rx r) && Qcltb (rx r) xmax && Qcleb ymin (ry r) && Qcltb (ry r) ymax)
         (seq 0 (length kept)).

(* ---- loading a constraint function from "<identifier>.py" ---- *)
Definition eqb_ascii_list (a b : list ascii) : bool :=
  Nat.eqb (length a) (length b) && forallb (fun p => Ascii.eqb (fst p) (snd p)) (combine a b).
(* the module name: the base name without its ".py" extension *)
Definition dot_py : list ascii := ["."; "p"; "y"]%char.
Definition load_name (file : list ascii) : list ascii :=
  let n := length file in
  if (3 <=? n)%nat && eqb_ascii_list (skipn (n - 3) file) dot_py then firstn (n - 3) file else file.
(* what the code did before the repair: Python's str.strip(".py") removes CHARACTERS from both ends *)
Fixpoint lstrip (cs s : list ascii) : list ascii :=
  match s with [] => [] | c :: t => if existsb (Ascii.eqb c) cs then lstrip cs t else s end.
Definition strip_chars (cs s : list ascii) : list ascii := rev (lstrip cs (rev (lstrip cs s))).

(* ---- user-defined constraints over a tiny expression language (what the generated equations/functions use) ---- *)
Inductive expr := X | Y | K (c : Qc) | Add (a b : expr) | Sub (a b : expr) | Mul (a b : expr).
Inductive bexpr := Le (a b : expr) | Lt (a b : expr) | And (a b : bexpr) | Or (a b : bexpr) | Not (a : bexpr).
Fixpoint ev (e : expr) (p : Qc * Qc) : Qc :=
  match e with X => fst p | Y => snd p | K c => c | Add a b => (ev a p + ev b p)%Qc | Sub a b => (ev a p - ev b p)%Qc | Mul a b => (ev a p * ev b p)%Qc end.
Fixpoint bev (b : bexpr) (p : Qc * Qc) : bool :=
  match b with
  | Le a c => Qcleb (ev a p) (ev c p) | Lt a c => Qcltb (ev a p) (ev c p)
  | And a c => bev a p && bev c p | Or a c => bev a p || bev c p | Not a => negb (bev a p)
  end.
(* equation string: G = not eval(eq); constrained = sensors[~G]  => the sensors where the equation is TRUE *)
Definition user_eq (eq : bexpr) (pt : nat -> Qc * Qc) (ranking : list nat) : list nat :=
  filter (fun i => negb (negb (bev eq (pt i)))) ranking.
(* file: G = (g >= 0); constrained = sensors[~G]  => the sensors where the function is NEGATIVE *)
Definition user_file (g : expr) (pt : nat -> Qc * Qc) (ranking : list nat) : list nat :=
  filter (fun i => negb (Qcleb 0%Qc (ev g (pt i)))) ranking.
