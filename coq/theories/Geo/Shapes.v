(* Shape constraints of pysensors/utils/_constraints.py (model, executable), over exact rationals Qc.
   Sources: get_coordinates_from_indices 174-223 (column-major unravel on a square grid, or dataframe lookup),
   get_constraint_indices 377-413 + get_functionalConstraind_sensors_indices 355-375 (keep the sensors that violate
   the constraint, in ranking order), Circle 765-783, Cylinder 872-921, Line 987-1003, Parabola 1065-1083,
   Ellipse 1161-1188, Polygon 1234-1264. *)
From Coq Require Import List Arith ZArith QArith Qcanon Bool.
Import ListNotations.
Open Scope Qc_scope.

Definition q (a : Z) (b : positive) : Qc := Q2Qc (a # b).
Definition qn (n : nat) : Qc := Q2Qc (inject_Z (Z.of_nat n)).
Definition Qcleb (x y : Qc) : bool := Qle_bool x y.
Definition Qcltb (x y : Qc) : bool := negb (Qle_bool y x).
Definition sq (x : Qc) : Qc := x * x.

(* ---- coordinates ---- *)
(* np.unravel_index(idx, (side, side), 'F') = (idx mod side, idx div side) *)
Definition grid_coords (side idx : nat) : nat * nat := (idx mod side, idx / side)%nat.
Definition grid_ravel (side : nat) (p : nat * nat) : nat := (fst p + side * snd p)%nat.
Definition grid_point (side idx : nat) : Qc * Qc := let (x, y) := grid_coords side idx in (qn x, qn y).

Inductive loc := LIn | LOut.

(* ---- the "inside" predicates exactly as written in the source ---- *)
Definition circle_in (cx cy r : Qc) (p : Qc * Qc) : bool :=
  Qcleb (sq (fst p - cx) + sq (snd p - cy)) (sq r).

(* (c, s) = (cos, sin) of the rotation angle as the implementation computed them; hw, hh = width/2, height/2 *)
Definition ellipse_uv (cx cy c s : Qc) (p : Qc * Qc) : Qc * Qc :=
  ((fst p - cx) * c + (snd p - cy) * s, - (fst p - cx) * s + (snd p - cy) * c).
Definition ellipse_in (cx cy hw hh c s : Qc) (p : Qc * Qc) : bool :=
  let (u, v) := ellipse_uv cx cy c s p in
  Qcleb (sq u / sq hw + sq v / sq hh) 1.

Definition parabola_in (h k a : Qc) (p : Qc * Qc) : bool :=
  Qcleb (a * sq (fst p - h)) (snd p - k).

(* Line: constraint_function returns cross >= 0, the sensors kept are those where it is False *)
Definition line_cross (x1 x2 y1 y2 : Qc) (p : Qc * Qc) : Qc :=
  (snd p - y1) * (x2 - x1) - (y2 - y1) * (fst p - x1).
Definition line_right (x1 x2 y1 y2 : Qc) (p : Qc * Qc) : bool := Qcltb (line_cross x1 x2 y1 y2 p) 0.

Inductive axis := AxZ | AxY | AxX.
Definition cylinder_in (cx cy cz r h : Qc) (ax : axis) (p : Qc * Qc * Qc) : bool :=
  let '(x, y, z) := p in
  let two := q 2 1 in
  match ax with
  | AxZ => Qcleb (sq (x - cx) + sq (y - cy)) (sq r) && Qcleb (cz - h / two) z && Qcleb z (cz + h / two)
  | AxY => Qcleb (sq (x - cx) + sq (z - cz)) (sq r) && Qcleb (cy - h / two) y && Qcleb y (cy + h / two)
  | AxX => Qcleb (sq (y - cy) + sq (z - cz)) (sq r) && Qcleb (cx - h / two) x && Qcleb x (cx + h / two)
  end.

(* Polygon: crossing-number parity with the source's strict / non-strict choices *)
Definition edge_crosses (p : Qc * Qc) (e : (Qc * Qc) * (Qc * Qc)) : bool :=
  let '((x1, y1), (x2, y2)) := e in
  let (x, y) := p in
  ((Qcltb y1 y && Qcleb y y2) || (Qcltb y2 y && Qcleb y y1)) &&
  Qcltb (x1 + (y - y1) / (y2 - y1) * (x2 - x1)) x.
Definition rot1 {A} (l : list A) : list A := match l with [] => [] | a :: t => t ++ [a] end.
Definition edges (poly : list (Qc * Qc)) : list ((Qc * Qc) * (Qc * Qc)) := combine poly (rot1 poly).
Definition parity (l : list bool) : bool := fold_right xorb false l.
Definition polygon_in (poly : list (Qc * Qc)) (p : Qc * Qc) : bool := parity (map (edge_crosses p) (edges poly)).

(* orientation of p relative to the directed line a -> b: positive when p is strictly to the left *)
Definition orient (a b p : Qc * Qc) : Qc := (fst b - fst a) * (snd p - snd a) - (snd b - snd a) * (fst p - fst a).
(* strictly inside the triangle a b c (either orientation): on the same side of the three directed edges *)
Definition tri_inb (p : Qc * Qc) (t : (Qc * Qc) * (Qc * Qc) * (Qc * Qc)) : bool :=
  let '(a, b, c) := t in
  (Qcltb 0 (orient a b p) && Qcltb 0 (orient b c p) && Qcltb 0 (orient c a p)) ||
  (Qcltb (orient a b p) 0 && Qcltb (orient b c p) 0 && Qcltb (orient c a p) 0).
(* p lies on none of the three edge lines of a non-degenerate triangle *)
Definition tri_general (p : Qc * Qc) (t : (Qc * Qc) * (Qc * Qc) * (Qc * Qc)) : Prop :=
  let '(a, b, c) := t in orient a b c <> 0 /\ orient a b p <> 0 /\ orient b c p <> 0 /\ orient c a p <> 0.
(* the fan of triangles (a, v_i, v_i+1) of the vertex list a :: l *)
Fixpoint fan (a : Qc * Qc) (l : list (Qc * Qc)) : list ((Qc * Qc) * (Qc * Qc) * (Qc * Qc)) :=
  match l with
  | b :: t => match t with c :: _ => (a, b, c) :: fan a t | [] => [] end
  | [] => []
  end.

(* ---- which sensors a shape returns: those on the constrained side, in ranking order ---- *)
Definition on_side (l : loc) (inside : bool) : bool := match l with LIn => inside | LOut => negb inside end.
Definition constrained {P} (inside : P -> bool) (l : loc) (pt : nat -> P) (ranking : list nat) : list nat :=
  filter (fun i => on_side l (inside (pt i))) ranking.
(* Line has no loc: the sensors strictly right of the directed line *)
Definition constrained_line (x1 x2 y1 y2 : Qc) (pt : nat -> Qc * Qc) (ranking : list nat) : list nat :=
  filter (fun i => line_right x1 x2 y1 y2 (pt i)) ranking.

(* dataframe lookup: a table of coordinates indexed by sensor id *)
Definition table2 (t : list (Qc * Qc)) (i : nat) : Qc * Qc := nth i t (0, 0).
Definition table3 (t : list (Qc * Qc * Qc)) (i : nat) : Qc * Qc * Qc := nth i t (0, 0, 0).
