From Coq Require Import List Arith ZArith QArith Qcanon Bool Permutation Lia.
Import ListNotations.
From PS Require Import Geo.Shapes.
Open Scope Qc_scope.

Lemma Qcleb_iff x y : Qcleb x y = true <-> x <= y.
Proof. unfold Qcleb, Qcle. apply Qle_bool_iff. Qed.
Lemma Qcltb_iff x y : Qcltb x y = true <-> x < y.
Proof.
  unfold Qcltb. rewrite negb_true_iff. split.
  - intro H. apply Qcnot_le_lt. intro L. apply Qcleb_iff in L. unfold Qcleb in L. congruence.
  - intro H. destruct (Qle_bool y x) eqn:E; auto. apply Qle_bool_iff in E. apply Qclt_not_le in H. contradiction.
Qed.

(* ---- the returned sensors are exactly those on the constrained side, in ranking order ---- *)
Theorem constrained_spec {P} (inside : P -> bool) l pt r i :
  In i (constrained inside l pt r) <-> In i r /\ on_side l (inside (pt i)) = true.
Proof. unfold constrained. apply filter_In. Qed.

Theorem constrained_order {P} (inside : P -> bool) l pt r1 r2 :
  constrained inside l pt (r1 ++ r2) = constrained inside l pt r1 ++ constrained inside l pt r2.
Proof. unfold constrained. apply filter_app. Qed.

Theorem constrained_nodup {P} (inside : P -> bool) l pt r : NoDup r -> NoDup (constrained inside l pt r).
Proof. apply NoDup_filter. Qed.

Lemma filter_partition {A} (f : A -> bool) l : Permutation l (filter f l ++ filter (fun x => negb (f x)) l).
Proof.
  induction l as [|a l IH]; simpl; auto. destruct (f a); simpl.
  - now constructor.
  - eapply perm_trans; [apply perm_skip, IH|]. apply Permutation_middle.
Qed.

Theorem in_out_partition {P} (inside : P -> bool) pt r :
  Permutation r (constrained inside LIn pt r ++ constrained inside LOut pt r) /\
  (forall i, ~ (In i (constrained inside LIn pt r) /\ In i (constrained inside LOut pt r))).
Proof.
  split.
  - unfold constrained. simpl. apply filter_partition.
  - intros i [A B]. apply constrained_spec in A. apply constrained_spec in B. simpl in *.
    destruct A as [_ A], B as [_ B]. rewrite A in B. discriminate.
Qed.

Theorem line_spec x1 x2 y1 y2 pt r i :
  In i (constrained_line x1 x2 y1 y2 pt r) <-> In i r /\ line_cross x1 x2 y1 y2 (pt i) < 0.
Proof. unfold constrained_line, line_right. rewrite filter_In, Qcltb_iff. tauto. Qed.

(* ---- meaning of the predicates ---- *)
Theorem circle_in_iff cx cy r p : circle_in cx cy r p = true <-> sq (fst p - cx) + sq (snd p - cy) <= sq r.
Proof. apply Qcleb_iff. Qed.

Theorem parabola_in_iff h k a p : parabola_in h k a p = true <-> a * sq (fst p - h) <= snd p - k.
Proof. apply Qcleb_iff. Qed.

(* with (c, s) a rotation, (u, v) are the coordinates of p - centre in the rotated frame: lengths are preserved *)
Theorem ellipse_uv_rotation cx cy c s p : c * c + s * s = 1 ->
  let (u, v) := ellipse_uv cx cy c s p in sq u + sq v = sq (fst p - cx) + sq (snd p - cy).
Proof.
  intro H. unfold ellipse_uv, sq. simpl.
  transitivity (((fst p - cx) * (fst p - cx) + (snd p - cy) * (snd p - cy)) * (c * c + s * s)); [ring|].
  rewrite H. ring.
Qed.

Theorem ellipse_in_iff cx cy hw hh c s p :
  ellipse_in cx cy hw hh c s p = true <->
  sq (fst (ellipse_uv cx cy c s p)) / sq hw + sq (snd (ellipse_uv cx cy c s p)) / sq hh <= 1.
Proof. unfold ellipse_in. destruct (ellipse_uv cx cy c s p). apply Qcleb_iff. Qed.

Theorem cylinder_in_iff cx cy cz r h x y z :
  cylinder_in cx cy cz r h AxZ (x, y, z) = true <->
  sq (x - cx) + sq (y - cy) <= sq r /\ cz - h / q 2 1 <= z /\ z <= cz + h / q 2 1.
Proof. unfold cylinder_in. rewrite !andb_true_iff, !Qcleb_iff. tauto. Qed.

(* the other two axes: the same closed solid with the coordinates exchanged (closed caps, closed lateral surface) *)
Theorem cylinder_in_iff_Y cx cy cz r h x y z :
  cylinder_in cx cy cz r h AxY (x, y, z) = true <->
  sq (x - cx) + sq (z - cz) <= sq r /\ cy - h / q 2 1 <= y /\ y <= cy + h / q 2 1.
Proof. unfold cylinder_in. rewrite !andb_true_iff, !Qcleb_iff. tauto. Qed.

Theorem cylinder_in_iff_X cx cy cz r h x y z :
  cylinder_in cx cy cz r h AxX (x, y, z) = true <->
  sq (y - cy) + sq (z - cz) <= sq r /\ cx - h / q 2 1 <= x /\ x <= cx + h / q 2 1.
Proof. unfold cylinder_in. rewrite !andb_true_iff, !Qcleb_iff. tauto. Qed.

Theorem cylinder_axes_exchange cx cy cz r h x y z :
  cylinder_in cx cy cz r h AxY (x, y, z) = cylinder_in cx cz cy r h AxZ (x, z, y) /\
  cylinder_in cx cy cz r h AxX (x, y, z) = cylinder_in cz cy cx r h AxZ (z, y, x).
Proof.
  unfold cylinder_in. split; [reflexivity|].
  replace (sq (z - cz) + sq (y - cy)) with (sq (y - cy) + sq (z - cz)) by ring. reflexivity.
Qed.

(* ---- grid coordinates ---- *)
Theorem grid_ravel_coords side idx : (0 < side)%nat -> grid_ravel side (grid_coords side idx) = idx.
Proof.
  intro H. unfold grid_ravel, grid_coords. simpl.
  rewrite Nat.add_comm. symmetry. apply Nat.div_mod. lia.
Qed.

Theorem grid_coords_ravel side x y : (x < side)%nat -> grid_coords side (grid_ravel side (x, y)) = (x, y).
Proof.
  intro H. unfold grid_ravel, grid_coords. simpl. f_equal.
  - rewrite (Nat.mul_comm side y), Nat.mod_add by lia. apply Nat.mod_small. auto.
  - rewrite (Nat.mul_comm side y), Nat.div_add by lia. rewrite Nat.div_small by auto. lia.
Qed.

(* ---- polygon: the crossing test does not depend on the orientation of an edge ---- *)
Theorem edge_crosses_sym p a b : edge_crosses p (a, b) = edge_crosses p (b, a).
Proof.
  destruct p as [x y], a as [x1 y1], b as [x2 y2]. unfold edge_crosses.
  rewrite (orb_comm (Qcltb y1 y && Qcleb y y2)).
  destruct (Qcltb y2 y && Qcleb y y1 || Qcltb y1 y && Qcleb y y2) eqn:E; simpl; auto.
  f_equal.
  assert (N : y2 - y1 <> 0).
  { intro Z. assert (y2 = y1) by (transitivity (y2 - y1 + y1); [ring|rewrite Z; ring]). subst.
    apply orb_true_iff in E. destruct E as [E|E]; apply andb_true_iff in E; destruct E as [A B];
    apply Qcltb_iff in A; apply Qcleb_iff in B; apply Qclt_not_le in A; contradiction. }
  assert (N' : y1 - y2 <> 0).
  { intro Z. apply N. replace (y2 - y1) with (- (y1 - y2)) by ring. rewrite Z. ring. }
  field. split; auto.
Qed.

(* ---- polygon: the answer does not depend on which vertex the list starts with ---- *)
Lemma parity_perm l1 l2 : Permutation l1 l2 -> parity l1 = parity l2.
Proof.
  induction 1; simpl; auto; try congruence.
  now rewrite <- !xorb_assoc, (xorb_comm x y).
Qed.

Lemma combine_snoc {A B} (l1 : list A) (l2 : list B) x y : length l1 = length l2 ->
  combine (l1 ++ [x]) (l2 ++ [y]) = combine l1 l2 ++ [(x, y)].
Proof.
  revert l2; induction l1 as [|a l1 IH]; destruct l2 as [|b l2]; simpl; intros H; try discriminate; auto.
  f_equal. apply IH. lia.
Qed.

Lemma edges_rot1 (poly : list (Qc * Qc)) : edges (rot1 poly) = rot1 (edges poly).
Proof.
  destruct poly as [|a [|b t]]; try reflexivity.
  unfold edges.
  change (rot1 (a :: b :: t)) with ((b :: t) ++ [a]).
  change (rot1 ((b :: t) ++ [a])) with ((t ++ [a]) ++ [b]).
  rewrite (combine_snoc (b :: t) (t ++ [a]) a b) by (simpl; rewrite app_length; simpl; lia).
  reflexivity.
Qed.

Lemma rot1_perm {A} (l : list A) : Permutation (rot1 l) l.
Proof. destruct l as [|a t]; simpl; auto. apply Permutation_sym, Permutation_cons_append. Qed.

Theorem polygon_rot1_invariant poly p : polygon_in (rot1 poly) p = polygon_in poly p.
Proof.
  unfold polygon_in. rewrite edges_rot1. apply parity_perm. apply Permutation_map. apply rot1_perm.
Qed.

Theorem polygon_rotate_invariant k poly p : polygon_in (Nat.iter k rot1 poly) p = polygon_in poly p.
Proof. induction k; simpl; auto. now rewrite polygon_rot1_invariant. Qed.
