From Coq Require Import Ascii String.
From Coq Require Import List Arith ZArith QArith Qcanon Bool Permutation Lia.
Import ListNotations.
From PS Require Import Geo.Shapes Geo.ShapesProofs Geo.Helpers.
Close Scope Qc_scope.
Open Scope nat_scope.

(* the index swap of the box helper is the transposition of a square grid: an involution on 0..s*s-1 *)
Definition transp (s idx : nat) : nat := (idx mod s) * s + idx / s.

Lemma transp_bound s idx : idx < s * s -> transp s idx < s * s.
Proof.
  intro H. unfold transp. assert (0 < s) by (destruct s; simpl in *; lia).
  assert (idx mod s < s) by (apply Nat.mod_upper_bound; lia).
  assert (idx / s < s) by (apply Nat.div_lt_upper_bound; lia). nia.
Qed.

Lemma transp_coords s idx : idx < s * s -> (transp s idx) mod s = idx / s /\ (transp s idx) / s = idx mod s.
Proof.
  intro H. unfold transp. assert (0 < s) by (destruct s; simpl in *; lia).
  assert (idx / s < s) by (apply Nat.div_lt_upper_bound; lia).
  split.
  - rewrite Nat.add_comm, Nat.mod_add by lia. now apply Nat.mod_small.
  - rewrite Nat.add_comm, Nat.div_add by lia. rewrite Nat.div_small by auto. lia.
Qed.

Lemma transp_invol s idx : idx < s * s -> transp s (transp s idx) = idx.
Proof.
  intro H. destruct (transp_coords s idx H) as [A B]. unfold transp at 1. rewrite A, B.
  assert (0 < s) by (destruct s; simpl in *; lia).
  rewrite Nat.mul_comm. symmetry. rewrite Nat.add_comm. rewrite Nat.add_comm. apply Nat.div_mod. lia.
Qed.

(* On a square grid and a FULL ranking the box helper returns exactly the pixels j with
   x_min <= j mod s <= x_max and y_min <= j div s <= y_max (x = index mod side, y = index div side). *)
Theorem box_grid_set den xmin xmax ymin ymax s ranking j :
  Permutation ranking (seq 0 (s * s)) ->
  (In j (box_grid den xmin xmax ymin ymax s s ranking) <->
   j < s * s /\ in_box den xmin xmax ymin ymax (j mod s) (j / s) = true).
Proof.
  intro HP. unfold box_grid. rewrite in_map_iff. split.
  - intros [idx [E Hin]]. apply filter_In in Hin. destruct Hin as [Hin Hb].
    apply (Permutation_in _ HP) in Hin. apply in_seq in Hin.
    assert (L : idx < s * s) by lia.
    change ((idx mod s) * s + idx / s) with (transp s idx) in E. subst j.
    destruct (transp_coords s idx L) as [A B]. rewrite A, B. split; auto. now apply transp_bound.
  - intros [L Hb]. exists (transp s j). split.
    + change ((transp s j mod s) * s + transp s j / s) with (transp s (transp s j)). now apply transp_invol.
    + apply filter_In. split.
      * apply Permutation_sym in HP. apply (Permutation_in _ HP). apply in_seq. pose proof (transp_bound s j L). lia.
      * destruct (transp_coords s j L) as [A B]. now rewrite A, B.
Qed.

Theorem box_grid_nodup den xmin xmax ymin ymax s ranking :
  Permutation ranking (seq 0 (s * s)) -> NoDup (box_grid den xmin xmax ymin ymax s s ranking).
Proof.
  intro HP. unfold box_grid.
  assert (ND : NoDup ranking) by (eapply Permutation_NoDup; [apply Permutation_sym, HP|apply seq_NoDup]).
  assert (B : forall i, In i ranking -> i < s * s).
  { intros i Hi. apply (Permutation_in _ HP) in Hi. apply in_seq in Hi. lia. }
  set (f := fun idx => in_box den xmin xmax ymin ymax (idx / s) (idx mod s)).
  assert (G : forall l, NoDup l -> (forall i, In i l -> i < s * s) ->
              NoDup (map (fun idx => idx mod s * s + idx / s) (filter f l))).
  { induction l as [|a l IH]; intros N Bl; simpl; [constructor|].
    inversion N; subst. destruct (f a); [|apply IH; auto; intros; apply Bl; now right].
    simpl. constructor; [|apply IH; auto; intros; apply Bl; now right].
    intro Hin. apply in_map_iff in Hin. destruct Hin as [b [E Hb]]. apply filter_In in Hb. destruct Hb as [Hb _].
    assert (a = b).
    { rewrite <- (transp_invol s a), <- (transp_invol s b); [|apply Bl; now right|apply Bl; now left].
      unfold transp at 1 3. change (b mod s * s + b / s) with (transp s b) in E.
      change (a mod s * s + a / s) with (transp s a) in E. now rewrite E. }
    subst. contradiction. }
  apply G; auto.
Qed.

(* dataframe box: exactly the positions (after dropping incomplete rows) inside the half-open box *)
Theorem box_df_spec xmin xmax ymin ymax rows i :
  let kept := filter complete rows in
  In i (box_df xmin xmax ymin ymax rows) <->
  i < length kept /\
  let r := nth i kept {| complete := true; rx := 0%Qc; ry := 0%Qc |} in
  (xmin <= rx r /\ rx r < xmax /\ ymin <= ry r /\ ry r < ymax)%Qc.
Proof.
  simpl. unfold box_df. rewrite filter_In, in_seq, !andb_true_iff, !Qcleb_iff, !Qcltb_iff. split.
  - intros [A (((B & C) & D) & E)]. split; [lia|auto].
  - intros [A (B & C & D & E)]. split; [lia|auto].
Qed.

(* loader: for EVERY name, "<name>.py" is loaded as <name> *)
Lemma eqb_ascii_list_refl a : eqb_ascii_list a a = true.
Proof.
  unfold eqb_ascii_list. rewrite Nat.eqb_refl. simpl. induction a as [|c a IH]; simpl; auto.
  rewrite Ascii.eqb_refl. auto.
Qed.

Theorem load_name_py id : load_name (id ++ dot_py) = id.
Proof.
  unfold load_name. rewrite app_length. simpl (length dot_py).
  replace (length id + 3 - 3) with (length id) by lia.
  destruct (Nat.leb_spec 3 (length id + 3)) as [L|L]; [|lia]. simpl.
  rewrite skipn_app, Nat.sub_diag, skipn_all.
  change (skipn 0 dot_py) with dot_py. rewrite app_nil_l, eqb_ascii_list_refl.
  rewrite firstn_app, Nat.sub_diag, firstn_all. change (firstn 0 dot_py) with (@nil ascii). apply app_nil_r.
Qed.

(* ... which was false of the pre-repair code (strip removes characters, not a suffix) *)
Example strip_refuted :
  strip_chars dot_py (list_ascii_of_string "happy.py") = list_ascii_of_string "ha" /\
  strip_chars dot_py (list_ascii_of_string "copyp.py") = list_ascii_of_string "co" /\
  strip_chars dot_py (list_ascii_of_string "p.py") = [].
Proof. repeat split. Qed.

(* user-defined constraints *)
Theorem user_eq_marks_true eq pt r i : In i (user_eq eq pt r) <-> In i r /\ bev eq (pt i) = true.
Proof. unfold user_eq. rewrite filter_In, negb_involutive. tauto. Qed.

Theorem user_file_marks_negative g pt r i : In i (user_file g pt r) <-> In i r /\ (ev g (pt i) < 0)%Qc.
Proof.
  unfold user_file. rewrite filter_In, negb_true_iff. split; intros [A B]; split; auto.
  - apply Qcnot_le_lt. intro L. apply Qcleb_iff in L. congruence.
  - destruct (Qcleb 0%Qc (ev g (pt i))) eqn:E; auto. apply Qcleb_iff in E. apply Qclt_not_le in B. contradiction.
Qed.
