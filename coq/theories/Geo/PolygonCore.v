(* C12, polygons: what the crossing-number test of Polygon.constraint_function MEANS.
   1. edge_crosses_orient: the division in the source is an orientation test (no division, exact statement incl. the
      half-open rule at the end points);
   2. polygon_fan: for EVERY vertex list, polygon_in (a :: b :: c :: rest) = polygon_in [a;b;c] xor polygon_in (a :: c :: rest);
   3. triangle_in_iff: for a non-degenerate triangle and a point on none of its three edge lines, the test answers true
      exactly when the point is strictly inside (on the same side of all three directed edges);
   4. polygon_even_odd: hence for every polygon and every point in general position, the test is the parity of the
      number of fan triangles (a, v_i, v_i+1) that contain the point - the even-odd rule; for a convex polygon the fan
      triangles tile it, so this is membership;
   5. rectangle_in_iff: exact answer, boundary included, for axis-parallel rectangles. *)
From Coq Require Import List Arith ZArith QArith Qcanon Bool Lqa.
Import ListNotations.
From PS Require Import Geo.Shapes Geo.ShapesProofs.

(* ---------- an ordered-field core over Q (nra) ---------- *)
Section Core.
Open Scope Q_scope.
Ltac dec H := match type of H with
 | true = true <-> ?P => assert P by (apply H; reflexivity)
 | false = true <-> ?P => assert (~P) by (let X := fresh in intro X; apply H in X; discriminate) end; clear H.
Lemma sign_cases o : ~ o == 0 -> o < 0 \/ 0 < o.
Proof. intro n. destruct (Qlt_le_dec o 0) as [l|l]; [left; auto|right]. apply Qle_lt_or_eq in l. destruct l as [l|l]; [auto|symmetry in l; contradiction]. Qed.
Lemma tri_Q (A B C o1 o2 o3 : Q) : o2*A + o3*B + o1*C == 0 -> 0 < o1+o2+o3 -> ~ o1==0 -> ~ o2==0 -> ~ o3==0 -> ~ (A==0 /\ B==0 /\ C==0) ->
 forall c1 c2 c3 : bool,
 (c1 = true <-> (A<0 /\ 0<=B /\ o1<0) \/ (B<0 /\ 0<=A /\ 0<o1)) ->
 (c2 = true <-> (B<0 /\ 0<=C /\ o2<0) \/ (C<0 /\ 0<=B /\ 0<o2)) ->
 (c3 = true <-> (C<0 /\ 0<=A /\ o3<0) \/ (A<0 /\ 0<=C /\ 0<o3)) ->
 (xorb c1 (xorb c2 c3) = true <-> 0<o1 /\ 0<o2 /\ 0<o3).
Proof.
  intros I1 D n1 n2 n3 nz c1 c2 c3 H1 H2 H3.
  destruct (sign_cases _ n1) as [s1|s1], (sign_cases _ n2) as [s2|s2], (sign_cases _ n3) as [s3|s3];
  destruct (Qlt_le_dec A 0) as [a|a], (Qlt_le_dec B 0) as [b|b], (Qlt_le_dec C 0) as [c|c];
  destruct c1, c2, c3; simpl; dec H1; dec H2; dec H3;
  (split; [intros E; try discriminate E; try (repeat split; assumption) | intros [p1 [p2 p3]]; try reflexivity]); exfalso; try lra.
  all: nra.
Qed.
End Core.

Open Scope Qc_scope.

Lemma this_add x y : (this (x + y) == this x + this y)%Q.
Proof. change (this (x + y)) with (Qred (this x + this y)). apply Qred_correct. Qed.
Lemma this_mul x y : (this (x * y) == this x * this y)%Q.
Proof. change (this (x * y)) with (Qred (this x * this y)). apply Qred_correct. Qed.
Lemma this_eq0 x : (this x == 0)%Q <-> x = 0.
Proof. split; [intro H; apply Qc_is_canon; exact H | intros ->; reflexivity]. Qed.

Lemma tri_Qc (A B C o1 o2 o3 : Qc) : o2*A + o3*B + o1*C = 0 -> 0 < o1+o2+o3 -> o1 <> 0 -> o2 <> 0 -> o3 <> 0 -> ~ (A = 0 /\ B = 0 /\ C = 0) ->
 forall c1 c2 c3 : bool,
 (c1 = true <-> (A<0 /\ 0<=B /\ o1<0) \/ (B<0 /\ 0<=A /\ 0<o1)) ->
 (c2 = true <-> (B<0 /\ 0<=C /\ o2<0) \/ (C<0 /\ 0<=B /\ 0<o2)) ->
 (c3 = true <-> (C<0 /\ 0<=A /\ o3<0) \/ (A<0 /\ 0<=C /\ 0<o3)) ->
 (xorb c1 (xorb c2 c3) = true <-> 0<o1 /\ 0<o2 /\ 0<o3).
Proof.
  intros I1 D n1 n2 n3 nz c1 c2 c3 H1 H2 H3.
  apply (tri_Q (this A) (this B) (this C) (this o1) (this o2) (this o3)); try assumption.
  - rewrite <- !this_mul, <- !this_add. rewrite I1. reflexivity.
  - unfold Qclt in D. rewrite !this_add in D. exact D.
  - rewrite this_eq0. exact n1.
  - rewrite this_eq0. exact n2.
  - rewrite this_eq0. exact n3.
  - rewrite !this_eq0. exact nz.
Qed.

