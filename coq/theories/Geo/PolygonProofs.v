(* C12, polygons, part 2 (see Geo/PolygonCore.v for the overview) *)
From Coq Require Import List Arith ZArith QArith Qcanon Bool.
Import ListNotations.
From PS Require Import Geo.Shapes Geo.ShapesProofs Geo.PolygonCore.
Open Scope Qc_scope.

(* ---------- 1. the crossing test is an orientation test ---------- *)
Lemma pos_of_lt a b : a < b -> 0 < b - a.
Proof. intro H. apply (proj1 (Qclt_minus_iff a b)) in H. exact H. Qed.
Lemma lt_of_pos a b : 0 < b - a -> a < b.
Proof. intro H. apply (proj2 (Qclt_minus_iff a b)). exact H. Qed.
Lemma nonneg_of_le a b : a <= b -> 0 <= b - a.
Proof. intro H. apply (proj1 (Qcle_minus_iff a b)) in H. exact H. Qed.
Lemma le_of_nonneg a b : 0 <= b - a -> a <= b.
Proof. intro H. apply (proj2 (Qcle_minus_iff a b)). exact H. Qed.
Lemma lt_iff_neg u v : u < v <-> u - v < 0.
Proof.
  split; intro H.
  - apply lt_of_pos. replace (0 - (u - v)) with (v - u) by ring. apply pos_of_lt. exact H.
  - apply lt_of_pos. apply pos_of_lt in H. replace (v - u) with (0 - (u - v)) by ring. exact H.
Qed.
Lemma le_iff_nonneg u v : u <= v <-> 0 <= v - u.
Proof. split; [apply nonneg_of_le|apply le_of_nonneg]. Qed.

Lemma div_lt_pos x1 n d w x : 0 < d -> (x1 + n / d * w < x <-> x1 * d + n * w < x * d).
Proof.
  intro Hd. assert (Nd : d <> 0) by (intro Z; rewrite Z in Hd; discriminate).
  replace (x1 * d + n * w) with ((x1 + n / d * w) * d) by (field; exact Nd).
  split; intro H.
  - apply Qcmult_lt_compat_r; assumption.
  - apply Qcnot_le_lt. intro L. apply (Qcmult_le_compat_r _ _ d) in L; [|apply Qclt_le_weak; exact Hd].
    apply Qcle_not_lt in L. contradiction.
Qed.

(* the crossing inequality of the source, multiplied out: sign (y2 - y1) decides the direction *)
Lemma cross_up x y x1 y1 x2 y2 : 0 < y2 - y1 ->
  (x1 + (y - y1) / (y2 - y1) * (x2 - x1) < x <-> orient (x1, y1) (x2, y2) (x, y) < 0).
Proof.
  intro Hd. rewrite (div_lt_pos x1 (y - y1) (y2 - y1) (x2 - x1) x Hd). unfold orient; simpl.
  rewrite (lt_iff_neg (x1 * (y2 - y1) + (y - y1) * (x2 - x1)) (x * (y2 - y1))).
  replace (x1 * (y2 - y1) + (y - y1) * (x2 - x1) - x * (y2 - y1)) with ((x2 - x1) * (y - y1) - (y2 - y1) * (x - x1)) by ring.
  tauto.
Qed.
Lemma cross_down x y x1 y1 x2 y2 : y2 - y1 < 0 ->
  (x1 + (y - y1) / (y2 - y1) * (x2 - x1) < x <-> 0 < orient (x1, y1) (x2, y2) (x, y)).
Proof.
  intro Hd.
  assert (Hd' : 0 < y1 - y2).
  { apply lt_of_pos in Hd || idtac. apply pos_of_lt. apply (proj2 (lt_iff_neg y2 y1)). exact Hd. }
  assert (N : y2 - y1 <> 0) by (intro Z; rewrite Z in Hd; discriminate).
  assert (N' : y1 - y2 <> 0) by (intro Z; rewrite Z in Hd'; discriminate).
  replace ((y - y1) / (y2 - y1)) with ((y1 - y) / (y1 - y2)) by (field; split; assumption).
  rewrite (div_lt_pos x1 (y1 - y) (y1 - y2) (x2 - x1) x Hd'). unfold orient; simpl.
  split; intro H.
  - apply pos_of_lt in H.
    replace (x * (y1 - y2) - (x1 * (y1 - y2) + (y1 - y) * (x2 - x1))) with ((x2 - x1) * (y - y1) - (y2 - y1) * (x - x1)) in H by ring.
    exact H.
  - apply lt_of_pos.
    replace (x * (y1 - y2) - (x1 * (y1 - y2) + (y1 - y) * (x2 - x1))) with ((x2 - x1) * (y - y1) - (y2 - y1) * (x - x1)) by ring.
    exact H.
Qed.

Theorem edge_crosses_orient p a b :
  edge_crosses p (a, b) = true <->
  (snd a - snd p < 0 /\ 0 <= snd b - snd p /\ orient a b p < 0) \/
  (snd b - snd p < 0 /\ 0 <= snd a - snd p /\ 0 < orient a b p).
Proof.
  destruct p as [x y], a as [x1 y1], b as [x2 y2]. unfold edge_crosses. cbn [fst snd].
  rewrite andb_true_iff, orb_true_iff, !andb_true_iff, !Qcltb_iff, !Qcleb_iff.
  rewrite (lt_iff_neg y1 y), (lt_iff_neg y2 y), (le_iff_nonneg y y2), (le_iff_nonneg y y1).
  assert (UP : y1 - y < 0 -> 0 <= y2 - y -> 0 < y2 - y1).
  { intros U1 U2. apply pos_of_lt. apply Qclt_le_trans with y; [apply (proj2 (lt_iff_neg y1 y)); exact U1 | apply le_of_nonneg; exact U2]. }
  assert (DN : y2 - y < 0 -> 0 <= y1 - y -> y2 - y1 < 0).
  { intros U1 U2. apply (proj1 (lt_iff_neg y2 y1)). apply Qclt_le_trans with y; [apply (proj2 (lt_iff_neg y2 y)); exact U1 | apply le_of_nonneg; exact U2]. }
  split.
  - intros [[[U1 U2]|[U1 U2]] X].
    + left. repeat split; auto. apply (proj1 (cross_up x y x1 y1 x2 y2 (UP U1 U2))). exact X.
    + right. repeat split; auto. apply (proj1 (cross_down x y x1 y1 x2 y2 (DN U1 U2))). exact X.
  - intros [[U1 [U2 X]]|[U1 [U2 X]]].
    + split; [left; auto|]. apply (proj2 (cross_up x y x1 y1 x2 y2 (UP U1 U2))). exact X.
    + split; [right; auto|]. apply (proj2 (cross_down x y x1 y1 x2 y2 (DN U1 U2))). exact X.
Qed.

(* ---------- 2. fan decomposition: pure parity algebra, valid for EVERY vertex list ---------- *)
Lemma edges_cons2 (a b : Qc * Qc) t : edges (a :: b :: t) = (a, b) :: combine (b :: t) (t ++ [a]).
Proof. reflexivity. Qed.

Lemma polygon_in_tri a b c p :
  polygon_in [a; b; c] p = xorb (edge_crosses p (a, b)) (xorb (edge_crosses p (b, c)) (edge_crosses p (c, a))).
Proof. unfold polygon_in, edges. cbn [rot1 app combine map parity fold_right]. now rewrite xorb_false_r. Qed.

Theorem polygon_fan a b c rest p :
  polygon_in (a :: b :: c :: rest) p = xorb (polygon_in [a; b; c] p) (polygon_in (a :: c :: rest) p).
Proof.
  rewrite polygon_in_tri. unfold polygon_in. rewrite !edges_cons2.
  change (combine (b :: c :: rest) ((c :: rest) ++ [a])) with ((b, c) :: combine (c :: rest) (rest ++ [a])).
  cbn [map parity fold_right].
  set (T := fold_right xorb false (map (edge_crosses p) (combine (c :: rest) (rest ++ [a])))).
  rewrite (edge_crosses_sym p c a).
  destruct (edge_crosses p (a, b)), (edge_crosses p (b, c)), (edge_crosses p (a, c)), T; reflexivity.
Qed.

Lemma edge_crosses_same p a : edge_crosses p (a, a) = false.
Proof.
  destruct (edge_crosses p (a, a)) eqn:E; auto. apply edge_crosses_orient in E.
  destruct E as [[U1 [U2 _]]|[U1 [U2 _]]]; apply Qclt_not_le in U1; contradiction.
Qed.

Lemma polygon_in_1 a p : polygon_in [a] p = false.
Proof. unfold polygon_in, edges. cbn [rot1 app combine map parity fold_right]. now rewrite edge_crosses_same. Qed.
Lemma polygon_in_2 a b p : polygon_in [a; b] p = false.
Proof. unfold polygon_in, edges. cbn [rot1 app combine map parity fold_right]. rewrite (edge_crosses_sym p b a). now destruct (edge_crosses p (a, b)). Qed.

Theorem polygon_fan_parity a l p :
  polygon_in (a :: l) p = parity (map (fun t => let '(u, v, w) := t in polygon_in [u; v; w] p) (fan a l)).
Proof.
  revert a. induction l as [|b t IH]; intro a.
  - apply polygon_in_1.
  - destruct t as [|c rest].
    + apply polygon_in_2.
    + rewrite polygon_fan. change (fan a (b :: c :: rest)) with ((a, b, c) :: fan a (c :: rest)).
      cbn [map parity fold_right]. f_equal. apply (IH a).
Qed.

(* ---------- 3. the triangle ---------- *)
Lemma orient_sum a b c p : orient a b p + orient b c p + orient c a p = orient a b c.
Proof. unfold orient. ring. Qed.
Lemma orient_bary_y a b c p :
  orient b c p * (snd a - snd p) + orient c a p * (snd b - snd p) + orient a b p * (snd c - snd p) = 0.
Proof. unfold orient. ring. Qed.
Lemma orient_flat a b c : snd a = snd b -> snd b = snd c -> orient a b c = 0.
Proof. unfold orient. intros -> ->. ring. Qed.

Lemma Qcltb_true x y : x < y -> Qcltb x y = true.
Proof. apply Qcltb_iff. Qed.
Lemma Qcltb_false x y : y <= x -> Qcltb x y = false.
Proof. intro H. destruct (Qcltb x y) eqn:E; auto. apply Qcltb_iff in E. apply Qcle_not_lt in H. contradiction. Qed.

Lemma triangle_ccw a b c p : 0 < orient a b c -> orient a b p <> 0 -> orient b c p <> 0 -> orient c a p <> 0 ->
  (polygon_in [a; b; c] p = true <-> 0 < orient a b p /\ 0 < orient b c p /\ 0 < orient c a p).
Proof.
  intros D n1 n2 n3. rewrite polygon_in_tri.
  apply (tri_Qc (snd a - snd p) (snd b - snd p) (snd c - snd p)).
  - apply orient_bary_y.
  - rewrite orient_sum. exact D.
  - exact n1.
  - exact n2.
  - exact n3.
  - intros [A [B C]].
    assert (E1 : snd a = snd b).
    { transitivity (snd a - snd p + snd p); [ring|]. rewrite A, <- B. ring. }
    assert (E2 : snd b = snd c).
    { transitivity (snd b - snd p + snd p); [ring|]. rewrite B, <- C. ring. }
    rewrite (orient_flat a b c E1 E2) in D. discriminate.
  - apply edge_crosses_orient.
  - apply edge_crosses_orient.
  - apply edge_crosses_orient.
Qed.

Lemma polygon_in_tri_rev a b c p : polygon_in [a; c; b] p = polygon_in [a; b; c] p.
Proof.
  rewrite !polygon_in_tri. rewrite (edge_crosses_sym p a c), (edge_crosses_sym p c b), (edge_crosses_sym p b a).
  destruct (edge_crosses p (a, b)), (edge_crosses p (b, c)), (edge_crosses p (c, a)); reflexivity.
Qed.
Lemma orient_swap a b p : orient b a p = - orient a b p.
Proof. unfold orient. ring. Qed.
Lemma orient_swap23 a b c : orient a c b = - orient a b c.
Proof. unfold orient. ring. Qed.
Lemma neg_pos x : 0 < - x <-> x < 0.
Proof.
  split; intro H.
  - apply lt_of_pos. replace (0 - x) with (- x) by ring. exact H.
  - apply pos_of_lt in H. replace (0 - x) with (- x) in H by ring. exact H.
Qed.
Lemma neg_nz x : x <> 0 -> - x <> 0.
Proof. intros H Z. apply H. transitivity (- - x); [ring|]. rewrite Z. ring. Qed.

(* for a non-degenerate triangle of either orientation and a point on none of its edge lines, the crossing test
   answers true exactly when the point is strictly inside *)
Theorem triangle_in_iff a b c p : tri_general p (a, b, c) -> polygon_in [a; b; c] p = tri_inb p (a, b, c).
Proof.
  intros [D [n1 [n2 n3]]].
  assert (S : orient a b c < 0 \/ 0 < orient a b c).
  { destruct (Qclt_le_dec (orient a b c) 0) as [l|l]; [left; exact l|right]. apply Qcle_lt_or_eq in l.
    destruct l as [l|l]; [exact l|symmetry in l; contradiction]. }
  unfold tri_inb.
  destruct S as [neg|pos].
  - (* clockwise: reverse *)
    pose proof (triangle_ccw a c b p) as T.
    rewrite polygon_in_tri_rev in T.
    rewrite (orient_swap23 a b c), (orient_swap c a p), (orient_swap b c p), (orient_swap a b p) in T.
    specialize (T (proj2 (neg_pos _) neg) (neg_nz _ n3) (neg_nz _ n2) (neg_nz _ n1)).
    rewrite !neg_pos in T.
    destruct (polygon_in [a; b; c] p).
    + destruct (proj1 T eq_refl) as [p3 [p2 p1]].
      rewrite (Qcltb_true _ _ p1), (Qcltb_true _ _ p2), (Qcltb_true _ _ p3). now rewrite orb_true_r.
    + symmetry. apply orb_false_iff. split.
      * (* all positive would make the sum positive *)
        destruct (Qcltb 0 (orient a b p)) eqn:E1, (Qcltb 0 (orient b c p)) eqn:E2, (Qcltb 0 (orient c a p)) eqn:E3; auto.
        apply Qcltb_iff in E1, E2, E3. exfalso.
        assert (P : 0 < orient a b p + orient b c p + orient c a p).
        { apply Qclt_trans with (orient a b p + orient b c p).
          - apply Qclt_trans with (orient a b p); [exact E1|].
            apply lt_of_pos. replace (orient a b p + orient b c p - orient a b p) with (orient b c p) by ring. exact E2.
          - apply lt_of_pos. replace (orient a b p + orient b c p + orient c a p - (orient a b p + orient b c p)) with (orient c a p) by ring. exact E3. }
        rewrite orient_sum in P. apply Qclt_not_le in P. apply P. apply Qclt_le_weak. exact neg.
      * destruct (Qcltb (orient a b p) 0) eqn:E1, (Qcltb (orient b c p) 0) eqn:E2, (Qcltb (orient c a p) 0) eqn:E3; auto.
        apply Qcltb_iff in E1, E2, E3. exfalso.
        assert (X : false = true) by (apply T; repeat split; assumption). discriminate.
  - pose proof (triangle_ccw a b c p pos n1 n2 n3) as T.
    destruct (polygon_in [a; b; c] p).
    + destruct (proj1 T eq_refl) as [p1 [p2 p3]].
      rewrite (Qcltb_true _ _ p1), (Qcltb_true _ _ p2), (Qcltb_true _ _ p3). reflexivity.
    + symmetry. apply orb_false_iff. split.
      * destruct (Qcltb 0 (orient a b p)) eqn:E1, (Qcltb 0 (orient b c p)) eqn:E2, (Qcltb 0 (orient c a p)) eqn:E3; auto.
        apply Qcltb_iff in E1, E2, E3. exfalso.
        assert (X : false = true) by (apply T; repeat split; assumption). discriminate.
      * destruct (Qcltb (orient a b p) 0) eqn:E1, (Qcltb (orient b c p) 0) eqn:E2, (Qcltb (orient c a p) 0) eqn:E3; auto.
        apply Qcltb_iff in E1, E2, E3. exfalso.
        assert (P : orient a b p + orient b c p + orient c a p < 0).
        { apply Qclt_trans with (orient a b p + orient b c p).
          - apply lt_of_pos. replace (orient a b p + orient b c p - (orient a b p + orient b c p + orient c a p)) with (0 - orient c a p) by ring.
            apply pos_of_lt. exact E3.
          - apply Qclt_trans with (orient a b p); [|exact E1].
            apply lt_of_pos. replace (orient a b p - (orient a b p + orient b c p)) with (0 - orient b c p) by ring. apply pos_of_lt. exact E2. }
        rewrite orient_sum in P. apply Qclt_not_le in P. apply P. apply Qclt_le_weak. exact pos.
Qed.

(* ---------- 4. every polygon, every point in general position: the even-odd rule over the fan ---------- *)
Theorem polygon_even_odd a l p : (forall t, In t (fan a l) -> tri_general p t) ->
  polygon_in (a :: l) p = parity (map (tri_inb p) (fan a l)).
Proof.
  intro G. rewrite polygon_fan_parity. f_equal. apply map_ext_in. intros [[u v] w] Hin.
  apply triangle_in_iff. apply (G _ Hin).
Qed.

Lemma Qcleb_inv_false x y : Qcleb x y = false -> y < x.
Proof. intro H. apply Qcnot_le_lt. intro L. apply Qcleb_iff in L. congruence. Qed.
Lemma Qcltb_inv_false x y : Qcltb x y = false -> y <= x.
Proof. intro H. apply Qcnot_lt_le. intro L. apply Qcltb_iff in L. congruence. Qed.

(* ---------- 5. axis-parallel rectangles: the exact answer, boundary included ---------- *)
Theorem rectangle_in_iff xa xb ya yb p : xa <= xb -> ya <= yb ->
  polygon_in [(xa, ya); (xb, ya); (xb, yb); (xa, yb)] p =
  Qcltb xa (fst p) && Qcleb (fst p) xb && Qcltb ya (snd p) && Qcleb (snd p) yb.
Proof.
  intros Hx Hy. destruct p as [x y]. unfold polygon_in, edges. cbn [rot1 app combine map parity fold_right fst snd].
  rewrite (edge_crosses_sym (x, y) (xa, yb) (xa, ya)).
  assert (F1 : edge_crosses (x, y) ((xa, ya), (xb, ya)) = false).
  { destruct (edge_crosses (x, y) ((xa, ya), (xb, ya))) eqn:E; auto. apply edge_crosses_orient in E. cbn [fst snd] in E.
    destruct E as [[U1 [U2 _]]|[U1 [U2 _]]]; apply Qclt_not_le in U1; contradiction. }
  assert (F2 : edge_crosses (x, y) ((xb, yb), (xa, yb)) = false).
  { destruct (edge_crosses (x, y) ((xb, yb), (xa, yb))) eqn:E; auto. apply edge_crosses_orient in E. cbn [fst snd] in E.
    destruct E as [[U1 [U2 _]]|[U1 [U2 _]]]; apply Qclt_not_le in U1; contradiction. }
  rewrite F1, F2. rewrite xorb_false_l, xorb_false_l, xorb_false_r.
  (* the two vertical edges *)
  assert (V : forall xe, edge_crosses (x, y) ((xe, ya), (xe, yb)) = Qcltb ya y && Qcleb y yb && Qcltb xe x).
  { intro xe. unfold edge_crosses.
    replace (xe + (y - ya) / (yb - ya) * (xe - xe)) with xe by (unfold Qcdiv; ring).
    destruct (Qcltb ya y && Qcleb y yb) eqn:S1; cbn [orb andb]; auto.
    destruct (Qcltb yb y && Qcleb y ya) eqn:S2; cbn [orb andb]; auto.
    exfalso. apply andb_true_iff in S2. destruct S2 as [S2 S3]. apply Qcltb_iff in S2. apply Qcleb_iff in S3.
    apply (Qclt_not_le _ _ S2). apply Qcle_trans with ya; assumption. }
  rewrite (V xb), (V xa).
  destruct (Qcltb ya y) eqn:Ey, (Qcleb y yb) eqn:Ey2; cbn [andb xorb]; rewrite ?andb_false_r; auto.
  - destruct (Qcltb xa x) eqn:E1, (Qcleb x xb) eqn:E2, (Qcltb xb x) eqn:E3; cbn; auto; exfalso.
    all: try (apply Qcltb_iff in E1); try (apply Qcltb_inv_false in E1); try (apply Qcltb_iff in E3); try (apply Qcltb_inv_false in E3);
      try (apply Qcleb_iff in E2); try (apply Qcleb_inv_false in E2);
      first [ exact (Qclt_not_le _ _ E3 E2) | exact (Qclt_not_le _ _ E2 E3) | exact (Qclt_not_le _ _ E3 (Qcle_trans _ _ _ E1 Hx)) ].
Qed.
