(* C02 - signals in the span of the basis are reconstructed exactly.  Model: Recon/Predict.v. *)
From Coq Require Import List Arith Lia QArith Qcanon Ring.
Import ListNotations.
From PS Require Import LA.Sums LA.Gram LA.GramProofs LA.Dim Recon.Predict Recon.PredictProofs.
Close Scope Qc_scope.
Open Scope nat_scope.

(* If the selected sensor rows B_S have trivial kernel (full column rank, stated without constructing an inverse) and the
   measurements are the sensor values of a signal B a0 in the span of the basis, then every least-squares certificate
   has a = a0, hence the reconstruction B a equals the signal B a0 at EVERY location: for every basis matrix, every
   sensor set (this is the statement for cost- and region-constrained optimizers), every coefficient vector. *)
Theorem C02_exact_recovery : forall p m BS a0 a z, kernel_trivial p m BS ->
  cert_ok p m BS (matvec m BS a0) a z -> forall j, j < m -> a j = a0 j.
Proof. exact cert_exact_recovery. Qed.
Print Assumptions C02_exact_recovery.

Theorem C02_reconstruction_everywhere : forall m (B : nat -> nat -> Qc) a a0, (forall j, j < m -> a j = a0 j) ->
  forall i, matvec m B a i = matvec m B a0 i.
Proof. exact full_matvec_ext. Qed.
Print Assumptions C02_reconstruction_everywhere.

(* Default (greedy pivoted-QR) optimizer: NO further assumption is needed.  If the basis matrix (n sensors x m modes)
   has full column rank (trivial kernel), then any selection that starts with the m greedy picks - the default ranking
   cut at any n_sensors >= n_basis_modes, whatever the order of the tail (SSPOR shuffles it) - has trivial kernel, so
   C02_exact_recovery applies to it.  Proof: either all m pivots have positive residual, and m sequentially independent
   vectors of Q^m admit no non-zero vector orthogonal to all of them (dimension lemma), or a pivot has zero residual
   and every row of B already lies in the span of the rows ranked before it. *)
Theorem C02_default_qr_selection_has_full_rank : forall m n B sel, m <= n ->
  kernel_trivial n m B -> firstn m sel = rk_of m n B m ->
  kernel_trivial (length sel) m (fun i => B (nth i sel 0)).
Proof. exact default_qr_selection_kernel_trivial. Qed.
Print Assumptions C02_default_qr_selection_has_full_rank.

(* the rows named by rk_of are the first m entries of the model ranking after any k >= m steps *)
Theorem C02_rk_of_is_the_ranking_prefix : forall m n B k, m <= k -> k <= n ->
  firstn m (gram_greedy n k (gram m B)) = rk_of m n B m.
Proof. exact greedy_firstn. Qed.
Print Assumptions C02_rk_of_is_the_ranking_prefix.

Example C02_example :
  let B := of_rows [[q 3 1; q (-1) 1]; [q 0 1; q 0 1]; [q 1 1; q 4 1]; [q 6 1; q (-2) 1]; [q 2 1; q 2 1]] in
  rk_of 2 5 B 2 = [3; 2] /\ firstn 2 (gram_greedy 5 2 (gram 2 B)) = [3; 2].
Proof. split; vm_compute; reflexivity. Qed.

(* non-vacuity: the example matrix has trivial kernel (rows 0 and 2 already force d = 0), so the hypotheses of
   C02_default_qr_selection_has_full_rank are met with the model's own ranking *)
Example C02_hypotheses_met :
  let B := of_rows [[q 3 1; q (-1) 1]; [q 0 1; q 0 1]; [q 1 1; q 4 1]; [q 6 1; q (-2) 1]; [q 2 1; q 2 1]] in
  kernel_trivial 5 2 B /\ kernel_trivial 3 2 (fun i => B (nth i [3; 2; 0] 0)).
Proof.
  cbv zeta. set (B := of_rows _).
  assert (K : kernel_trivial 5 2 B).
  { intros d H. pose proof (H 0 ltac:(lia)) as E0. pose proof (H 2 ltac:(lia)) as E2.
    unfold matvec, dot in E0, E2. cbn [sum] in E0, E2.
    change (B 0 0) with (q 3 1) in E0. change (B 0 1) with (q (-1) 1) in E0.
    change (B 2 0) with (q 1 1) in E2. change (B 2 1) with (q 4 1) in E2.
    set (d0 := d 0) in *. set (d1 := d 1) in *.
    assert (D0 : (q 13 1 * d0 = 0)%Qc).
    { transitivity ((q 4 1 * (0 + q 3 1 * d0 + q (-1) 1 * d1) + (0 + q 1 1 * d0 + q 4 1 * d1))%Qc).
      - replace (q 13 1) with (q 4 1 * q 3 1 + q 1 1)%Qc by (apply Qc_is_canon; vm_compute; reflexivity).
        replace (q (-1) 1) with (- (1))%Qc by (apply Qc_is_canon; vm_compute; reflexivity).
        replace (q 1 1) with 1%Qc by (apply Qc_is_canon; vm_compute; reflexivity). ring.
      - rewrite E0, E2. ring. }
    assert (Z0 : d0 = 0%Qc).
    { destruct (Qcmult_integral _ _ D0) as [X|X]; [discriminate X|exact X]. }
    assert (Z1 : d1 = 0%Qc).
    { rewrite Z0 in E0. transitivity (- (0 + q 3 1 * 0 + q (-1) 1 * d1))%Qc; [|rewrite E0; ring].
      replace (q (-1) 1) with (- (1))%Qc by (apply Qc_is_canon; vm_compute; reflexivity). ring. }
    intros [|[|j]] Hj; [exact Z0|exact Z1|lia]. }
  split; [exact K|].
  apply (C02_default_qr_selection_has_full_rank 2 5 B [3; 2; 0] ltac:(lia) K). vm_compute. reflexivity.
Qed.
