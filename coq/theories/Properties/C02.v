(* C02 - signals in the span of the basis are reconstructed exactly.  Model: Recon/Predict.v. *)
From Coq Require Import List Arith QArith Qcanon.
Import ListNotations.
From PS Require Import LA.Sums LA.Gram LA.GramProofs Recon.Predict Recon.PredictProofs.
Close Scope Qc_scope.
Open Scope nat_scope.

(* If the selected sensor rows B_S have trivial kernel (full column rank, stated without constructing an inverse) and the
   measurements are the sensor values of a signal B a0 in the span of the basis, then every least-squares certificate
   has a = a0, hence the reconstruction B a equals the signal B a0 at EVERY location: for every basis matrix, every
   sensor set (this is the statement for cost- and region-constrained optimizers), every coefficient vector. *)
Theorem C02_exact_recovery : forall p m BS a0 a z, kernel_trivial p m BS ->
  cert_ok p m BS (matvec m BS a0) a z -> forall j, j < m -> a j = a0 j.
Proof. exact cert_exact_recovery. Qed.
Print Assumptions C02_exact_recovery.

Theorem C02_reconstruction_everywhere : forall m (B : nat -> nat -> Qc) a a0, (forall j, j < m -> a j = a0 j) ->
  forall i, matvec m B a i = matvec m B a0 i.
Proof. exact full_matvec_ext. Qed.
Print Assumptions C02_reconstruction_everywhere.

(* Default (greedy QR) optimizer, partial: the ranked rows with positive residual are independent of the rows before them,
   and once the largest residual is zero every row of B is a combination of the ranked rows - so a coefficient vector
   annihilated by the ranked rows is annihilated by all of B.  What is NOT proved is the dimension count showing that a
   full-column-rank B cannot keep positive residuals after n_basis_modes pivots; the correspondence checks it exactly. *)
Theorem C02_greedy_rows_span_partial : forall m n B R ranked, resid_ok m n B R ranked ->
  (forall a, a < n -> nrm2 m (R a) = 0%Qc) ->
  forall d, (forall p, In p ranked -> dot m (B p) d = 0%Qc) -> forall a, a < n -> dot m (B a) d = 0%Qc.
Proof.
  intros m n B R ranked H Z d Hd a Ha.
  pose proof (zero_residual_dependent m n B R ranked a H Ha (Z a Ha)) as L.
  rewrite dot_comm. apply lincomb_orth with (gens := map B ranked); auto.
  intros g Hg. apply in_map_iff in Hg. destruct Hg as [p [<- Hp]]. rewrite dot_comm. auto.
Qed.
Print Assumptions C02_greedy_rows_span_partial.
