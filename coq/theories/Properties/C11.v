(* C11 - bases return consistent mode matrices and inverses.  Model: Basis/Basis.v. *)
From Coq Require Import List Arith ZArith QArith Qcanon.
Import ListNotations.
From PS Require Import LA.Sums LA.Gram Basis.Basis Basis.BasisProofs.
Close Scope Qc_scope.
Open Scope nat_scope.

(* asking for k modes returns the first k columns of the full matrix; too many (or non-positive) is rejected; an
   unfitted basis raises NotFittedError *)
Theorem C11_repr_is_prefix : forall M avail k, (0 < k)%Z -> (k <= Z.of_nat avail)%Z ->
  matrix_representation (Some M) avail (ReqCount k) = RMatrix (cols (Z.to_nat k) M) /\
  cols (Z.to_nat k) (cols avail M) = cols (Z.to_nat k) M.
Proof. exact repr_is_prefix. Qed.
Print Assumptions C11_repr_is_prefix.
Theorem C11_repr_reject : forall M avail k, (k <= 0 \/ Z.of_nat avail < k)%Z ->
  matrix_representation (Some M) avail (ReqCount k) = RValueError.
Proof. exact repr_reject. Qed.
Print Assumptions C11_repr_reject.
Theorem C11_repr_shape : forall k M, length (cols k M) = length M /\ forall r, In r (cols k M) -> length r <= k.
Proof. exact repr_shape. Qed.
Print Assumptions C11_repr_shape.

(* Identity reproduces the first training examples exactly and its inverse is the identity *)
Theorem C11_identity_exact : forall X nf k M avail i j, identity_fit X nf k = Some (M, avail) -> i < avail -> j < nf ->
  mat_entry M j i = mat_entry X i j.
Proof. exact identity_exact. Qed.
Print Assumptions C11_identity_exact.
Theorem C11_identity_inverse : forall n i j, i < n -> j < n ->
  mat_entry (identity_inverse n) i j = (if Nat.eqb i j then 1 else 0)%Qc.
Proof. exact identity_inverse_is_identity. Qed.
Print Assumptions C11_identity_inverse.

(* SVD: under the contract "modes are orthonormal" (checked per case inside Coq), data in the span of k modes - in
   particular data of rank at most k - are reproduced exactly by projecting on the modes (the inverse is the transpose) *)
Theorem C11_svd_reproduces : forall n k (u : nat -> nat -> Qc) (c : nat -> Qc),
  (forall a b, a < k -> b < k -> dot n (u a) (u b) = (if Nat.eqb a b then 1 else 0)%Qc) ->
  let x := fun t => sum k (fun a => (c a * u a t)%Qc) in
  forall t, sum k (fun a => (dot n x (u a) * u a t)%Qc) = x t.
Proof. exact svd_reproduces. Qed.
Print Assumptions C11_svd_reproduces.

(* RandomProjection: under the Penrose contract of numpy.linalg.pinv, the inverse is a left inverse of the mode matrix
   whenever the mode matrix has trivial kernel *)
Theorem C11_pinv_left_inverse : forall n k (M P : fmat),
  (forall i j, i < n -> j < k -> sum k (fun a => (M i a * sum n (fun t => (P a t * M t j)%Qc))%Qc) = M i j) ->
  (forall d, (forall i, i < n -> sum k (fun a => (M i a * d a)%Qc) = 0%Qc) -> forall a, a < k -> d a = 0%Qc) ->
  forall a j, a < k -> j < k -> sum n (fun t => (P a t * M t j)%Qc) = (if Nat.eqb a j then 1 else 0)%Qc.
Proof. exact pinv_left_inverse. Qed.
Print Assumptions C11_pinv_left_inverse.

(* Custom: an accepted fit holds exactly the requested number of modes (the first columns of the supplied matrix), and a
   request for more modes than the supplied matrix has columns is rejected *)
Theorem C11_custom_fit : forall U ncols k,
  (forall M avail, custom_fit U ncols k = Some (M, avail) -> avail = k /\ k <= ncols /\ M = cols k U) /\
  (ncols < k -> custom_fit U ncols k = None).
Proof. intros. split; [intros M avail; apply custom_fit_spec | apply custom_fit_reject]. Qed.
Print Assumptions C11_custom_fit.
