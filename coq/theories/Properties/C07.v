(* C07 - reconstruction is the least-squares fit of the measurements in the basis.
   Model: Recon/Predict.v - yhat = B a with (a, z) a minimum-norm least-squares certificate for the sensor rows. *)
From Coq Require Import List Arith QArith Qcanon.
Import ListNotations.
From PS Require Import LA.Sums LA.Gram Recon.Predict Recon.PredictProofs.
Close Scope Qc_scope.
Open Scope nat_scope.

(* the executable certificate checker evaluated on every observed prediction is sound and complete *)
Theorem C07_check_cert_iff : forall p m BS y a z, check_cert p m BS y a z = true <-> cert_ok p m BS y a z.
Proof. exact check_cert_iff. Qed.
Print Assumptions C07_check_cert_iff.

(* the values at the selected sensors are the least-squares best approximation of the measurements, for ANY
   measurements, any number of sensors (below, equal to, above the number of modes), any basis *)
Theorem C07_least_squares : forall p m BS y a z a', cert_ok p m BS y a z ->
  (nrm2 p (residual p m BS a y) <= nrm2 p (residual p m BS a' y))%Qc.
Proof. exact cert_least_squares. Qed.
Print Assumptions C07_least_squares.

(* minimum-norm least-squares coefficients are unique, so the reconstruction B a is a function of the measurements ... *)
Theorem C07_unique : forall p m BS y a1 z1 a2 z2, cert_ok p m BS y a1 z1 -> cert_ok p m BS y a2 z2 ->
  forall j, j < m -> a1 j = a2 j.
Proof. exact cert_unique. Qed.
Print Assumptions C07_unique.

(* ... and a linear one *)
Theorem C07_linear : forall p m BS y1 a1 z1 y2 a2 z2 c1 c2, cert_ok p m BS y1 a1 z1 -> cert_ok p m BS y2 a2 z2 ->
  cert_ok p m BS (vadd (vscale c1 y1) (vscale c2 y2)) (vadd (vscale c1 a1) (vscale c2 a2)) (vadd (vscale c1 z1) (vscale c2 z2)).
Proof. exact cert_linear. Qed.
Print Assumptions C07_linear.

(* exact interpolation whenever the measurements can be matched at the sensors (independent rows, p <= m) *)
Theorem C07_interpolates : forall p m BS y a z a', cert_ok p m BS y a z ->
  (forall i, i < p -> matvec m BS a' i = y i) -> forall i, i < p -> matvec m BS a i = y i.
Proof. exact cert_interpolates. Qed.
Print Assumptions C07_interpolates.

(* shapes: a 1-D vector and the same vector as a one-row batch take the same branch and give the same width;
   k samples give k x n_features; a wrong width is rejected *)
Theorem C07_shapes : forall nf nm ns k cols br out,
  (predict_shape nf nm ns (Batch k cols) = POk br out -> out = Batch k nf /\ cols = ns /\ (br = Square <-> ns = nm)) /\
  (cols <> ns -> predict_shape nf nm ns (Batch k cols) = PValueError /\ predict_shape nf nm ns (Vec cols) = PValueError) /\
  match predict_shape nf nm ns (Vec cols), predict_shape nf nm ns (Batch 1 cols) with
  | POk b1 (Vec o1), POk b2 (Batch 1 o2) => b1 = b2 /\ o1 = o2
  | PValueError, PValueError => True
  | _, _ => False
  end.
Proof. intros. split; [apply predict_batch_shape|split; [apply predict_wrong_width|apply predict_vec_eq_batch1]]. Qed.
Print Assumptions C07_shapes.
