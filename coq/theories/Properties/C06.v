(* C06 - constrained selection stays greedy among permitted sensors; reduces to QR / CCQR.
   Same abstract setting as C05 (arbitrary positive key oracle). *)
From Coq Require Import List Arith ZArith.
Import ListNotations.
From PS Require Import Sel.Argmax Sel.Greedy Sel.GreedyProofs Sel.NormCalc Sel.RegionProofs.
From PS Require Import Properties.C05.

(* every one of the first N picks has the largest key among the not-yet-ranked sensors of its own class *)
Theorem C06_max_n_within_class : forall key n kk g N, feasible key n kk g N -> forall i, i < N ->
  let st := gqr key OMax g n i in let p := picked (dv_gqr key (permit_of OMax g)) st in
  forall c, In c (snd st) -> (In c (lin_idx g) <-> In p (lin_idx g)) -> (key (fst st) c <= key (fst st) p)%Z.
Proof. intros key n kk g N (A & B & C & D & E & F & G & H & I & J). eapply max_n_within_class; eauto. Qed.
Print Assumptions C06_max_n_within_class.

Theorem C06_exact_n_within_class : forall key n kk g N, feasible key n kk g N -> forall i, i < N ->
  let st := gqr key OExact g n i in let p := picked (dv_gqr key (permit_of OExact g)) st in
  forall c, In c (snd st) -> (In c (lin_idx g) <-> In p (lin_idx g)) -> (key (fst st) c <= key (fst st) p)%Z.
Proof. intros key n kk g N (A & B & C & D & E & F & G & H & I & J). eapply exact_n_within_class; eauto. Qed.
Print Assumptions C06_exact_n_within_class.

Theorem C06_predetermined_within_class : forall key n kk g N, feasible key n kk g N -> n_sensors g = Some N ->
  exists outp inp, fst (gqr key OPre g n N) = outp ++ inp /\
    (forall i, i < N - n_const g -> let st := gqr key OPre g n i in
       forall c, In c (snd st) -> ~ In c (lin_idx g) -> (key (fst st) c <= key (fst st) (nth i outp 0%nat))%Z) /\
    (forall i, i < n_const g -> let st := gqr key OPre g n (N - n_const g + i) in
       forall c, In c (snd st) -> In c (lin_idx g) -> (key (fst st) c <= key (fst st) (nth i inp 0%nat))%Z).
Proof.
  intros key n kk g N (A & B & C & D & E & F & G & H & I & J) K.
  destruct (predetermined_split key A n kk g B C D E N F G H I J K) as (o & i & X1 & _ & _ & _ & _ & X6 & X7).
  exists o, i. auto.
Qed.
Print Assumptions C06_predetermined_within_class.

(* when the unconstrained ranking already satisfies the constraint, the first N sensors are the unconstrained ones *)
Theorem C06_inactive_eq_qr : forall key n kk g N, feasible key n kk g N ->
  (count_in (lin_idx g) (firstn N (all_sensors g)) <= n_const g -> fst (gqr key OMax g n N) = firstn N (all_sensors g)) /\
  (count_in (lin_idx g) (firstn N (all_sensors g)) = n_const g -> fst (gqr key OExact g n N) = firstn N (all_sensors g)) /\
  (n_sensors g = Some N ->
   (forall j, j < N - n_const g -> ~ In (nth j (all_sensors g) 0) (lin_idx g)) ->
   (forall j, N - n_const g <= j < N -> In (nth j (all_sensors g) 0) (lin_idx g)) ->
   fst (gqr key OPre g n N) = firstn N (all_sensors g)).
Proof.
  intros key n kk g N (A & B & C & D & E & F & G & H & I & J). split; [|split].
  - intro X. eapply inactive_max_n; eauto.
  - intro X. eapply inactive_exact_n; eauto.
  - intros X Y Z. eapply inactive_predetermined; eauto.
Qed.
Print Assumptions C06_inactive_eq_qr.

(* allowance zero: the first N sensors equal, in order and with identical tie-breaking, those of CCQR with a cost on
   every region sensor that exceeds every residual norm *)
Theorem C06_s0_eq_ccqr : forall key n kk g N Cbig, feasible key n kk g N -> (forall rk c, (key rk c < Cbig)%Z) ->
  n_const g = 0 -> N + length (lin_idx g) <= n ->
  let ccqr := run (dv_ccqr key (region_cost g Cbig)) N (init n) in
  fst (gqr key OMax g n N) = fst ccqr /\ fst (gqr key OExact g n N) = fst ccqr.
Proof. intros key n kk g N Cbig (A & B & C & D & E & F & G & H & I & J) K Z1 Z2. eapply s0_eq_ccqr; eauto. Qed.
Print Assumptions C06_s0_eq_ccqr.
