(* C09 - classifier predictions match the most recent fit or sensor update.  Model: Class/SSPOC.v. *)
From Coq Require Import List Arith Bool.
Import ListNotations.
From PS Require Import Class.SSPOC Class.SSPOCProofs.

(* the invariant holds in every state reachable by successful fit / update_sensors / update_n_basis_modes calls, for
   every answer of the threshold-count oracle *)
Theorem C09_inv_reachable : forall i bm ns thr h s, run_ok (ctor i bm ns thr) h = Some s -> Inv s.
Proof. exact inv_reachable. Qed.
Print Assumptions C09_inv_reachable.

Theorem C09_inv_step : forall s o s', Inv s -> step s o = (s', None) -> Inv s'.
Proof. exact inv_step. Qed.
Print Assumptions C09_inv_step.

(* After ANY successful operation from a state satisfying the invariant:
   - with zero sensors, predict uses the dummy classifier fitted on the labels of the most recent fit;
   - otherwise, an operation that refits (fit(refit=True), update_sensors with training data, update_n_basis_modes
     with refit) leaves predict = "the classifier trained on the sensor columns of THAT data for the CURRENT
     selection, applied to the input as given", and a fit that skips refitting leaves predict = "the classifier
     trained on the basis coordinates of THAT data, applied to input . Psi^-T of THAT fit".
   Never a classifier from an earlier call. *)
Theorem C09_predict_after_step : forall s o s', Inv s -> step s o = (s', None) ->
  (n_sensors s' = Some 0 -> exists f, fitted s' = Some f /\ predict s' = PDummy (f_data f)) /\
  (n_sensors s' <> Some 0 -> n_sensors s' <> None /\ expected_after o s').
Proof. exact predict_after_step. Qed.
Print Assumptions C09_predict_after_step.

Example C09_example :
  let d1 := {| d_id := 1; d_rows := 10; d_width := 6 |} in
  let d2 := {| d_id := 2; d_rows := 12; d_width := 6 |} in
  exists s, run_ok (ctor false (Some 4) (Some 3) None) [Fit d1 true 0; Fit d2 false 0; Upd (Some 2) None (Some d1) 0; Upd None (Some 5) (Some d2) 0] = Some s
    /\ n_sensors s = Some 0 /\ predict s = PDummy d2 /\ refit_ s = true.
Proof. eexists. split; [vm_compute; reflexivity|]. repeat split. Qed.
