(* C04 - cost-constrained ranking maximises residual norm minus cost at every step.
   Model: LA/Ccqr.v over the Gram model; comparisons of sqrt(a) - c are decided exactly (LA/SqrtCmp.v), their meaning is
   stated in the real numbers (these theorems depend on the standard-library axioms of the reals). *)
From Coq Require Import List Arith QArith Qcanon Reals.
Import ListNotations.
From PS Require Import Sel.ArgmaxGen Sel.Greedy LA.Sums LA.Gram LA.GramProofs LA.SqrtCmp LA.SqrtCmpProofs LA.Ccqr LA.CcqrProofs.
Close Scope Qc_scope.
Close Scope R_scope.
Open Scope nat_scope.

(* the exact comparison means what it should *)
Theorem C04_sqrt_leb_spec : forall k1 k2, sqrt_leb k1 k2 = true <-> (val k1 <= val k2)%R.
Proof. exact sqrt_leb_spec. Qed.
Print Assumptions C04_sqrt_leb_spec.

(* every pick maximises (residual norm - cost) among the sensors not yet ranked; the residual rows R are those of
   C03 (squared residual = squared distance to the span of the ranked rows); a zero-residual pivot leaves them unchanged *)
Theorem C04_ccqr_step_max : forall m n B cost j,
  let '(G, (rk, cs)) := grun (Qc * Qc)%type sqrt_leb (ccqr_key cost) n j (ginit n (gram m B)) in
  let R := rows_after m n B rk in
  cs <> [] ->
  let p := nth (argmax_by (Qc * Qc)%type sqrt_leb (map (ccqr_key cost G) cs)) cs 0 in
  In p cs /\ resid_ok m n B R rk /\
  forall c, In c cs -> (sqrt (r (nrm2 m (R c))) - r (cost c) <= sqrt (r (nrm2 m (R p))) - r (cost p))%R.
Proof. exact ccqr_step_max. Qed.
Print Assumptions C04_ccqr_step_max.

Theorem C04_zero_pivot_removes_no_direction : forall G p, G p p = 0%Qc -> forall a b, schur_f G p a b = G a b.
Proof. exact zero_pivot_identity. Qed.
Print Assumptions C04_zero_pivot_removes_no_direction.

(* adding the same constant to every cost never changes the ranking *)
Theorem C04_ccqr_shift : forall n k cost d G, ccqr_gram n k (fun c => (cost c + d)%Qc) G = ccqr_gram n k cost G.
Proof. exact ccqr_shift. Qed.
Print Assumptions C04_ccqr_shift.

(* zero costs reproduce the QR ranking *)
Theorem C04_ccqr_zero_eq_qr : forall m n k B, ccqr_gram n k (fun _ => 0%Qc) (gram m B) = gram_greedy n k (gram m B).
Proof. exact ccqr_zero_eq_qr. Qed.
Print Assumptions C04_ccqr_zero_eq_qr.

(* a sensor whose cost exceeds its norm is never picked while a zero-cost sensor with non-zero residual is available *)
Theorem C04_ccqr_prohibitive : forall m n B cost j i z,
  let '(G, (rk, cs)) := grun (Qc * Qc)%type sqrt_leb (ccqr_key cost) n j (ginit n (gram m B)) in
  let R := rows_after m n B rk in
  In i cs -> In z cs -> cost z = 0%Qc -> (0 < nrm2 m (R z))%Qc ->
  (sqrt (r (nrm2 m (B i))) < r (cost i))%R ->
  nth (argmax_by (Qc * Qc)%type sqrt_leb (map (ccqr_key cost G) cs)) cs 0 <> i.
Proof. exact ccqr_prohibitive. Qed.
Print Assumptions C04_ccqr_prohibitive.
