(* C20 - no call modifies the caller's arrays or the stored basis.
   Model: Eff/IR.v (effect IR: alias / fresh / in-place write / call; a function body is a bag of statements that may
   run in any order, any number of times) regenerated from /repo/pysensors/**.py by harness/effects.py on every run.
   The executable analysis [never_writes] is evaluated by vm_compute on the regenerated program for every public entry
   point and parameter; the theorems below say what a [true] answer means, for every program and every execution. *)
From Coq Require Import List Arith Bool Lia.
Import ListNotations.
From PS Require Import Eff.IR Eff.Sound Eff.History Eff.HistoryProofs.

(* the summaries computed bottom-up are the ones the soundness theorem is stated for *)
Theorem C20_summaries_ok : forall P k fn, nth_error P k = Some fn ->
  nth_error (summaries P) k = Some (summarise (firstn k (summaries P)) fn).
Proof. exact summaries_ok. Qed.
Print Assumptions C20_summaries_ok.

(* every location that existed before the call and is written by SOME execution of function k (through any chain of
   calls to earlier functions) was passed for a parameter the analysis reports as may-write *)
Theorem C20_never_written_sound : forall P k fn ls n0 c' l,
  nth_error P k = Some fn -> (forall l', In (Some l') ls -> l' < n0) ->
  steps P k (f_body fn) {| st := bind_params (f_params fn) ls; next := n0; written := [] |} c' ->
  In l (written c') -> l < n0 ->
  exists p, In p (f_params fn) /\ bind_params (f_params fn) ls p = Some l /\ may_write (firstn k (summaries P)) fn p = true.
Proof. intros P. exact (never_written_sound P (summaries P) (summaries_ok P)). Qed.
Print Assumptions C20_never_written_sound.

(* the form of the obligations checked on the regenerated model: [never_writes P k i = true] means that no execution of
   function k mutates the object passed for parameter i, unless the caller passed the very same object also for
   another parameter that is reported as written *)
Theorem C20_obligation_sound : forall P k i fn p ls n0 c' l,
  nth_error P k = Some fn -> NoDup (f_params fn) -> nth_error (f_params fn) i = Some p ->
  never_writes P k i = true ->
  (forall l', In (Some l') ls -> l' < n0) ->
  steps P k (f_body fn) {| st := bind_params (f_params fn) ls; next := n0; written := [] |} c' ->
  In l (written c') -> bind_params (f_params fn) ls p = Some l ->
  exists q, q <> p /\ In q (f_params fn) /\ bind_params (f_params fn) ls q = Some l /\ may_write (firstn k (summaries P)) fn q = true.
Proof. exact obligation_sound. Qed.
Print Assumptions C20_obligation_sound.

(* the same for aliasing: a variable that holds a pre-existing object at the end holds the object of a parameter that the
   analysis says may reach it (used for the attributes handed back by a call) *)
Theorem C20_reach_obligation_sound : forall P k i j fn p o ls n0 c' l,
  nth_error P k = Some fn -> NoDup (f_params fn) -> nth_error (f_params fn) i = Some p -> nth_error (f_outs fn) j = Some o ->
  never_reaches P k i j = true ->
  (forall l', In (Some l') ls -> l' < n0) ->
  steps P k (f_body fn) {| st := bind_params (f_params fn) ls; next := n0; written := [] |} c' ->
  st c' o = Some l -> bind_params (f_params fn) ls p = Some l ->
  exists q, q <> p /\ In q (f_params fn) /\ bind_params (f_params fn) ls q = Some l /\ may_reach (firstn k (summaries P)) fn q o = true.
Proof. exact reach_obligation_sound. Qed.
Print Assumptions C20_reach_obligation_sound.

(* HISTORIES.  The obligation decided on the regenerated model is [history_safe_fast prog entries n = true]. It is the
   boolean [history_safe], and [history_safe] means: in every world reachable from the empty one through ANY sequence of
   caller allocations and public calls (any entry point, any arguments among the existing objects, attributes keeping
   their values between calls), no location written in place is an array that belongs to the caller. *)
Theorem C20_history_safe_fast_eq : forall P es ng, history_safe_fast P es ng = history_safe P es ng.
Proof. exact history_safe_fast_eq. Qed.
Print Assumptions C20_history_safe_fast_eq.

Theorem C20_history_safe_sound : forall P es ng, history_safe P es ng = true ->
  forall w, reachable P es w -> forall l, In l (w_written w) -> ~ In l (w_prot w).
Proof. exact history_safe_sound. Qed.
Print Assumptions C20_history_safe_sound.

(* non-vacuity: a two-function program in which the callee writes its first parameter through a view; the analysis
   reports the caller's parameter 0 as written and parameter 1 as untouched, and an execution that does write exists *)
Definition demo : program :=
  [ {| f_params := [0; 1]; f_body := [SAlias 2 0; SWrite 2; SFresh 3; SWrite 3]; f_rets := [3]; f_outs := [] |};
    {| f_params := [0; 1]; f_body := [SAlias 5 0; SCall 0 [5; 1] 6 []; SWrite 6]; f_rets := [6]; f_outs := [] |} ].
Example C20_demo_analysis : never_writes demo 1 0 = false /\ never_writes demo 1 1 = true /\ never_writes demo 0 1 = true.
Proof. vm_compute. repeat split. Qed.
Example C20_demo_execution : exists c',
  steps demo 0 [SAlias 2 0; SWrite 2; SFresh 3; SWrite 3] {| st := bind_params [0; 1] [Some 0; Some 1]; next := 2; written := [] |} c'
  /\ In 0 (written c').
Proof.
  eexists. split.
  - eapply st_alias; [left; reflexivity|]. eapply st_write; [right; left; reflexivity|reflexivity|]. apply st_refl.
  - left. reflexivity.
Qed.

(* non-vacuity of the history theorem: an object that stores its argument in attribute 0 ("set") and a second entry
   point that overwrites the stored array in place ("scale") are rejected; with a copy in "set" they are accepted; and a
   history in which the unsafe pair does write a caller array exists *)
Definition unsafe_prog : program :=
  [ {| f_params := [0; 1]; f_body := [SAlias 1 0]; f_rets := []; f_outs := [1] |};          (* set(x): self.a = x *)
    {| f_params := [0]; f_body := [SWrite 0]; f_rets := []; f_outs := [0] |} ].              (* scale(): self.a *= 2 *)
Definition safe_prog : program :=
  [ {| f_params := [0; 1]; f_body := [SFresh 1]; f_rets := []; f_outs := [1] |};            (* set(x): self.a = x.copy() *)
    {| f_params := [0]; f_body := [SWrite 0]; f_rets := []; f_outs := [0] |} ].
Definition demo_entries : list entry :=
  [ {| e_fn := 0; e_nexp := 1; e_fields := [0] |}; {| e_fn := 1; e_nexp := 0; e_fields := [0] |} ].
Example C20_history_demo : history_safe unsafe_prog demo_entries 1 = false /\ history_safe safe_prog demo_entries 1 = true /\
  history_safe_fast safe_prog demo_entries 1 = true.
Proof. vm_compute. repeat split. Qed.
Example C20_history_unsafe_run : exists w, reachable unsafe_prog demo_entries w /\ In 0 (w_written w) /\ In 0 (w_prot w).
Proof.
  eexists. split.
  - eapply r_step. eapply r_step. eapply r_step. apply r_init.
    + apply h_alloc.
    + eapply (h_call unsafe_prog demo_entries _ {| e_fn := 0; e_nexp := 1; e_fields := [0] |} _ [Some 0]);
        [left; reflexivity|reflexivity|reflexivity|simpl; intros l [E|[]]; injection E as <-; lia|].
      simpl. eapply st_alias; [left; reflexivity|]. apply st_refl.
    + eapply (h_call unsafe_prog demo_entries _ {| e_fn := 1; e_nexp := 0; e_fields := [0] |} _ []);
        [right; left; reflexivity|reflexivity|reflexivity|simpl; intros l []|].
      simpl. eapply st_write; [left; reflexivity|reflexivity|]. apply st_refl.
  - simpl. split; left; reflexivity.
Qed.
