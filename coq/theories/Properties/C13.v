(* C13 - box, coordinate and user-defined constraint helpers map sensors correctly.  Model: Geo/Helpers.v. *)
From Coq Require Import Ascii String.
From Coq Require Import List Arith ZArith QArith Qcanon Bool Permutation.
Import ListNotations.
From PS Require Import Geo.Shapes Geo.ShapesProofs Geo.Helpers Geo.HelpersProofs.
Close Scope Qc_scope.
Open Scope nat_scope.

(* square pixel grid, full permutation of the sensors, every side length and every box: the helper returns exactly
   the pixels with x_min <= x <= x_max and y_min <= y <= y_max where x = j mod side, y = j div side
   (the swap-and-ravel in the code is the transposition of the grid, proved to be an involution) *)
Theorem C13_box_grid_set : forall den xmin xmax ymin ymax s ranking j,
  Permutation ranking (seq 0 (s * s)) ->
  (In j (box_grid den xmin xmax ymin ymax s s ranking) <->
   j < s * s /\ in_box den xmin xmax ymin ymax (j mod s) (j / s) = true).
Proof. exact box_grid_set. Qed.
Print Assumptions C13_box_grid_set.

Theorem C13_box_grid_nodup : forall den xmin xmax ymin ymax s ranking,
  Permutation ranking (seq 0 (s * s)) -> NoDup (box_grid den xmin xmax ymin ymax s s ranking).
Proof. exact box_grid_nodup. Qed.
Print Assumptions C13_box_grid_nodup.

(* dataframe box: positions (after dropping incomplete rows) with x_min <= x < x_max and y_min <= y < y_max *)
Theorem C13_box_df_spec : forall xmin xmax ymin ymax rows i,
  let kept := filter complete rows in
  In i (box_df xmin xmax ymin ymax rows) <->
  i < length kept /\
  let r := nth i kept {| complete := true; rx := 0%Qc; ry := 0%Qc |} in
  (xmin <= rx r /\ rx r < xmax /\ ymin <= ry r /\ ry r < ymax)%Qc.
Proof. exact box_df_spec. Qed.
Print Assumptions C13_box_df_spec.

(* index <-> coordinate conversion are inverse to each other *)
Theorem C13_coords_inverse : forall side idx x y,
  (0 < side -> grid_ravel side (grid_coords side idx) = idx) /\
  (x < side -> grid_coords side (grid_ravel side (x, y)) = (x, y)).
Proof. intros. split; [apply grid_ravel_coords|apply grid_coords_ravel]. Qed.
Print Assumptions C13_coords_inverse.

(* equation strings mark the sensors where the equation is true; files those where the function is negative *)
Theorem C13_user_eq_marks_true : forall eq pt r i, In i (user_eq eq pt r) <-> In i r /\ bev eq (pt i) = true.
Proof. exact user_eq_marks_true. Qed.
Print Assumptions C13_user_eq_marks_true.
Theorem C13_user_file_marks_negative : forall g pt r i, In i (user_file g pt r) <-> In i r /\ (ev g (pt i) < 0)%Qc.
Proof. exact user_file_marks_negative. Qed.
Print Assumptions C13_user_file_marks_negative.

(* the function is loaded from ANY file named <identifier>.py (no condition on the identifier at all) *)
Theorem C13_load_name_py : forall id, load_name (id ++ dot_py) = id.
Proof. exact load_name_py. Qed.
Print Assumptions C13_load_name_py.

(* the pre-repair behaviour (str.strip(".py")) violated it; kept as the documented witness of the fixed finding *)
Theorem C13_strip_refuted :
  strip_chars dot_py (list_ascii_of_string "happy.py") = list_ascii_of_string "ha" /\
  strip_chars dot_py (list_ascii_of_string "copyp.py") = list_ascii_of_string "co" /\
  strip_chars dot_py (list_ascii_of_string "p.py") = [].
Proof. exact strip_refuted. Qed.
Print Assumptions C13_strip_refuted.

Example C13_example : box_grid 2 2 5 0 2 4 4 [5; 0; 9; 14; 3; 6; 1; 2; 4; 7; 8; 10; 11; 12; 13; 15] = [5; 6; 1; 2].
Proof. vm_compute. reflexivity. Qed.
