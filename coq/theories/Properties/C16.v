(* C16 - the seed only orders the unranked tail; equal seeds give equal rankings. *)
From Coq Require Import List Arith Permutation.
Import ListNotations.
From PS Require Import Sel.Perm Sel.PermProofs.

(* SSPOR.fit's ranking is  firstn m r ++ perm_of seed (skipn m r)  where r is the optimizer's output for
   the stored basis matrix (m = its number of columns) and perm_of is numpy's Generator.permutation,
   an arbitrary function here. *)
Theorem C16_seed_leading : forall perm_of m r s1 s2, m <= length r ->
  firstn m (fit_ranking perm_of m r s1) = firstn m (fit_ranking perm_of m r s2).
Proof. exact seed_leading. Qed.
Print Assumptions C16_seed_leading.

Theorem C16_leading_is_optimizer_ranking : forall perm_of m r s, m <= length r ->
  firstn m (fit_ranking perm_of m r s) = firstn m r.
Proof. exact seed_leading_is_optimizer. Qed.
Print Assumptions C16_leading_is_optimizer_ranking.

Theorem C16_seed_tail_set : forall perm_of m r s1 s2, m <= length r ->
  (forall s t, Permutation t (perm_of s t)) ->
  Permutation (skipn m (fit_ranking perm_of m r s1)) (skipn m (fit_ranking perm_of m r s2)).
Proof. exact seed_tail_set. Qed.
Print Assumptions C16_seed_tail_set.

Theorem C16_no_tail_no_seed_effect : forall perm_of m r s, length r <= m -> perm_of s [] = [] ->
  fit_ranking perm_of m r s = r.
Proof. exact seed_short. Qed.
Print Assumptions C16_no_tail_no_seed_effect.

Theorem C16_same_seed_same_ranking : forall perm_of m r s1 s2, s1 = s2 ->
  fit_ranking perm_of m r s1 = fit_ranking perm_of m r s2.
Proof. exact same_seed_same_ranking. Qed.
Print Assumptions C16_same_seed_same_ranking.

Example C16_example :
  let perm_of := fun s t => if Nat.even s then rev t else t in
  fit_ranking perm_of 2 [4;1;0;3;2] 0 = [4;1;2;3;0] /\ fit_ranking perm_of 2 [4;1;0;3;2] 1 = [4;1;0;3;2].
Proof. split; reflexivity. Qed.
