(* C12 - shape constraints return exactly the sensors on the constrained side.  Model: Geo/Shapes.v over Qc. *)
From Coq Require Import List Arith ZArith QArith Qcanon Bool Permutation.
Import ListNotations.
From PS Require Import Geo.Shapes Geo.ShapesProofs Geo.PolygonProofs.
Open Scope Qc_scope.

(* for EVERY shape predicate, every ranking and both loc values: the result is exactly the set of ranked sensors on
   the constrained side ... *)
Theorem C12_constrained_spec : forall (P : Type) (inside : P -> bool) l pt r i,
  In i (constrained inside l pt r) <-> In i r /\ on_side l (inside (pt i)) = true.
Proof. intros P. exact (@constrained_spec P). Qed.
Print Assumptions C12_constrained_spec.

(* ... listed in the order of the input ranking (the map is a homomorphism for concatenation) ... *)
Theorem C12_constrained_order : forall (P : Type) (inside : P -> bool) l pt r1 r2,
  constrained inside l pt (r1 ++ r2) = constrained inside l pt r1 ++ constrained inside l pt r2.
Proof. intros P. exact (@constrained_order P). Qed.
Print Assumptions C12_constrained_order.

(* ... and the 'in' and 'out' answers partition the ranking *)
Theorem C12_in_out_partition : forall (P : Type) (inside : P -> bool) pt r,
  Permutation r (constrained inside LIn pt r ++ constrained inside LOut pt r) /\
  (forall i, ~ (In i (constrained inside LIn pt r) /\ In i (constrained inside LOut pt r))).
Proof. intros P. exact (@in_out_partition P). Qed.
Print Assumptions C12_in_out_partition.

(* geometric meaning of the predicates (closed disc, closed cylinder, closed parabola region, strictly right of the
   directed line, closed ellipse in the frame rotated by (c, s)) *)
Theorem C12_circle_in_iff : forall cx cy r p, circle_in cx cy r p = true <-> sq (fst p - cx) + sq (snd p - cy) <= sq r.
Proof. exact circle_in_iff. Qed.
Print Assumptions C12_circle_in_iff.
Theorem C12_cylinder_in_iff : forall cx cy cz r h x y z,
  cylinder_in cx cy cz r h AxZ (x, y, z) = true <->
  sq (x - cx) + sq (y - cy) <= sq r /\ cz - h / q 2 1 <= z /\ z <= cz + h / q 2 1.
Proof. exact cylinder_in_iff. Qed.
Print Assumptions C12_cylinder_in_iff.
Theorem C12_cylinder_in_iff_Y : forall cx cy cz r h x y z,
  cylinder_in cx cy cz r h AxY (x, y, z) = true <->
  sq (x - cx) + sq (z - cz) <= sq r /\ cy - h / q 2 1 <= y /\ y <= cy + h / q 2 1.
Proof. exact cylinder_in_iff_Y. Qed.
Print Assumptions C12_cylinder_in_iff_Y.
Theorem C12_cylinder_in_iff_X : forall cx cy cz r h x y z,
  cylinder_in cx cy cz r h AxX (x, y, z) = true <->
  sq (y - cy) + sq (z - cz) <= sq r /\ cx - h / q 2 1 <= x /\ x <= cx + h / q 2 1.
Proof. exact cylinder_in_iff_X. Qed.
Print Assumptions C12_cylinder_in_iff_X.
(* the three axes describe one solid with the coordinates exchanged *)
Theorem C12_cylinder_axes_exchange : forall cx cy cz r h x y z,
  cylinder_in cx cy cz r h AxY (x, y, z) = cylinder_in cx cz cy r h AxZ (x, z, y) /\
  cylinder_in cx cy cz r h AxX (x, y, z) = cylinder_in cz cy cx r h AxZ (z, y, x).
Proof. exact cylinder_axes_exchange. Qed.
Print Assumptions C12_cylinder_axes_exchange.
Theorem C12_parabola_in_iff : forall h k a p, parabola_in h k a p = true <-> a * sq (fst p - h) <= snd p - k.
Proof. exact parabola_in_iff. Qed.
Print Assumptions C12_parabola_in_iff.
Theorem C12_line_right_of : forall x1 x2 y1 y2 pt r i,
  In i (constrained_line x1 x2 y1 y2 pt r) <-> In i r /\ line_cross x1 x2 y1 y2 (pt i) < 0.
Proof. exact line_spec. Qed.
Print Assumptions C12_line_right_of.
Theorem C12_ellipse_in_iff : forall cx cy hw hh c s p,
  ellipse_in cx cy hw hh c s p = true <->
  sq (fst (ellipse_uv cx cy c s p)) / sq hw + sq (snd (ellipse_uv cx cy c s p)) / sq hh <= 1.
Proof. exact ellipse_in_iff. Qed.
Print Assumptions C12_ellipse_in_iff.
Theorem C12_ellipse_frame_is_rotation : forall cx cy c s p, c * c + s * s = 1 ->
  let (u, v) := ellipse_uv cx cy c s p in sq u + sq v = sq (fst p - cx) + sq (snd p - cy).
Proof. exact ellipse_uv_rotation. Qed.
Print Assumptions C12_ellipse_frame_is_rotation.

(* polygon: the crossing-parity answer does not depend on the starting vertex nor on the orientation of an edge
   (named _partial when the polygon clause had no independent characterisation; the theorems below now supply one) *)
Theorem C12_polygon_rotate_invariant_partial : forall k poly p, polygon_in (Nat.iter k rot1 poly) p = polygon_in poly p.
Proof. exact polygon_rotate_invariant. Qed.
Print Assumptions C12_polygon_rotate_invariant_partial.
Theorem C12_polygon_edge_orientation : forall p a b, edge_crosses p (a, b) = edge_crosses p (b, a).
Proof. exact edge_crosses_sym. Qed.
Print Assumptions C12_polygon_edge_orientation.

(* polygon, meaning.  (a) The test applied to one edge - with its division - is an orientation test: the edge is
   counted iff it spans the height of the point (lower end excluded, upper end included) and the point lies on the
   far side of it. *)
Theorem C12_polygon_edge_is_orientation_test : forall p a b,
  edge_crosses p (a, b) = true <->
  (snd a - snd p < 0 /\ 0 <= snd b - snd p /\ orient a b p < 0) \/
  (snd b - snd p < 0 /\ 0 <= snd a - snd p /\ 0 < orient a b p).
Proof. exact edge_crosses_orient. Qed.
Print Assumptions C12_polygon_edge_is_orientation_test.

(* (b) a triangle of either orientation, a point on none of its three edge lines: true exactly for the points strictly
   inside (same side of the three directed edges) *)
Theorem C12_triangle_in_iff : forall a b c p, tri_general p (a, b, c) -> polygon_in [a; b; c] p = tri_inb p (a, b, c).
Proof. exact triangle_in_iff. Qed.
Print Assumptions C12_triangle_in_iff.

(* (c) EVERY vertex list (convex or not, self-intersecting or not), every point in general position with respect to
   the fan triangles (a, v_i, v_i+1): the answer is the parity of the number of fan triangles containing the point -
   the even-odd rule.  For a convex polygon the fan triangles tile it, so this is membership. *)
Theorem C12_polygon_even_odd : forall a l p, (forall t, In t (fan a l) -> tri_general p t) ->
  polygon_in (a :: l) p = parity (map (tri_inb p) (fan a l)).
Proof. exact polygon_even_odd. Qed.
Print Assumptions C12_polygon_even_odd.

(* (d) axis-parallel rectangles: the exact answer including the boundary convention of the source
   (left and lower sides excluded, right and upper sides included) *)
Theorem C12_rectangle_in_iff : forall xa xb ya yb p, xa <= xb -> ya <= yb ->
  polygon_in [(xa, ya); (xb, ya); (xb, yb); (xa, yb)] p =
  Qcltb xa (fst p) && Qcleb (fst p) xb && Qcltb ya (snd p) && Qcleb (snd p) yb.
Proof. exact rectangle_in_iff. Qed.
Print Assumptions C12_rectangle_in_iff.

(* the hypotheses of (c) are met by a non-convex pentagon with a point of its notch and a point of its body *)
Definition C12_pentagon := [(q 0 1, q 0 1); (q 4 1, q 0 1); (q 4 1, q 4 1); (q 2 1, q 1 1); (q 0 1, q 4 1)].
Lemma C12_nz : forall x : Qc, Qeq_bool (this x) 0 = false -> x <> 0.
Proof. intros x H E. rewrite E in H. discriminate H. Qed.
Example C12_polygon_hypotheses_met :
  Forall (tri_general (q 2 1, q 5 2)) (fan (q 0 1, q 0 1) (tl C12_pentagon)) /\
  polygon_in C12_pentagon (q 2 1, q 5 2) = false /\
  Forall (tri_general (q 1 1, q 1 3)) (fan (q 0 1, q 0 1) (tl C12_pentagon)) /\
  polygon_in C12_pentagon (q 1 1, q 1 3) = true.
Proof.
  unfold C12_pentagon. cbn [tl fan].
  split; [|split; [vm_compute; reflexivity|split; [|vm_compute; reflexivity]]];
  repeat (apply Forall_cons; [cbn [tri_general]; repeat split; apply C12_nz; vm_compute; reflexivity|]); apply Forall_nil.
Qed.

(* grid coordinates: x = index mod side, y = index div side, inverse to x + side * y *)
Theorem C12_grid_coords_inverse : forall side idx x y,
  ((0 < side)%nat -> grid_ravel side (grid_coords side idx) = idx) /\
  ((x < side)%nat -> grid_coords side (grid_ravel side (x, y)) = (x, y)).
Proof. intros. split; [apply grid_ravel_coords|apply grid_coords_ravel]. Qed.
Print Assumptions C12_grid_coords_inverse.

Example C12_example :
  constrained (circle_in (q 2 1) (q 2 1) (q 3 2)) LIn (grid_point 5) [12; 0; 7; 24; 13; 11; 2]%nat = [12; 7; 13; 11]%nat /\
  constrained (circle_in (q 2 1) (q 2 1) (q 3 2)) LOut (grid_point 5) [12; 0; 7; 24; 13; 11; 2]%nat = [0; 24; 2]%nat.
Proof. split; vm_compute; reflexivity. Qed.
