(* C14 - selected sensors are always the leading part of the ranking; constructor argument and setters are
   equivalent.  Model: Recon/SSPOR.v (token machine mirroring the attributes of SSPOR). *)
From Coq Require Import List Arith ZArith Bool.
Import ListNotations.
From PS Require Import Sel.Perm Sel.PermProofs Recon.SSPOR Recon.SSPORProofs.

(* a setter changes nothing but n_sensors; a rejected setter changes nothing at all *)
Theorem C14_setter_frames : forall s v s' e, set_number_of_sensors s v = (s', e) ->
  basis s' = basis s /\ opt s' = opt s /\ n_basis_modes s' = n_basis_modes s /\
  basis_matrix s' = basis_matrix s /\ ranked s' = ranked s /\ (e <> None -> s' = s).
Proof. exact setter_frames. Qed.
Print Assumptions C14_setter_frames.

(* fit's matrix and ranking tokens do not mention n_sensors *)
Theorem C14_fit_ignores_n_sensors : forall s seed ns auto s1 s2,
  fit_tail s seed = (s1, None) -> fit_tail (set_ns s ns auto) seed = (s2, None) ->
  basis_matrix s1 = basis_matrix s2 /\ ranked s1 = ranked s2 /\ basis s1 = basis s2.
Proof. exact fit_tail_ignores_n. Qed.
Print Assumptions C14_fit_ignores_n_sensors.

(* after ANY sequence of setter calls (accepted or rejected) and observers, the observable state - which matrix,
   which ranking, how many leading sensors - is that of a fresh model constructed with the final value *)
Theorem C14_setters_equiv_ctor : forall b bm o v0 d seed h s0 s1 s2 es n r,
  ctor b bm o v0 = inl s0 -> fit s0 d seed = (s1, None) ->
  forallb setter_op h = true -> run s1 h = (s2, es) ->
  ranked s1 = Some r ->
  final_n (d_width (bt_data (mt_basis (rt_mat r)))) (n_sensors s1) h = Some n ->
  (exists j, In (SetN (VInt (Z.of_nat n))) (firstn j h)) \/ ns_auto s1 = false ->
  forall s0' s1', ctor b bm o (VInt (Z.of_nat n)) = inl s0' -> fit s0' d seed = (s1', None) ->
  obs s2 = obs s1'.
Proof. exact setters_equiv_ctor. Qed.
Print Assumptions C14_setters_equiv_ctor.

(* selection = leading part of the ranking; nested for different counts (list level) *)
Theorem C14_selected_prefix : forall k1 k2 r, k1 <= k2 -> selected k1 r = firstn k1 (selected k2 r).
Proof. exact selected_prefix. Qed.
Print Assumptions C14_selected_prefix.

Example C14_example :
  let d := {| d_id := 1; d_rows := 4; d_width := 7 |} in
  exists s0 s1 s2 es, ctor Identity None OQR (VInt 2) = inl s0 /\ fit s0 d (Some 5) = (s1, None) /\
    run s1 [SetN (VInt 9); Observe; SetN (VInt 3); SetN VFloat; SetN (VInt 0)] = (s2, es) /\
    n_sensors s2 = Some 3 /\ es = [Some ValueError; None; None; Some ValueError; Some ValueError].
Proof. do 4 eexists. repeat split; vm_compute; reflexivity. Qed.
