(* C10 - sparse sensor weights reproduce the full-state discriminant.  Model: Class/Coef.v.
   The two solvers (sklearn OrthogonalMatchingPursuit, MultiTaskLasso) are oracles; what is proved is pysensors' glue
   (orientation, shapes) and the soundness of the contract checker run on every observed result.  The optimality of
   MultiTaskLasso's result is NOT proved (partial): it is decided by an objective-gap comparison in the harness. *)
From Coq Require Import List Arith QArith Qcanon.
Import ListNotations.
From PS Require Import LA.Sums LA.Gram Basis.Basis Class.Coef Class.CoefProofs.
Close Scope Qc_scope.
Open Scope nat_scope.

Theorem C10_coef_shape_binary : forall r n, solve_shape 2 r n (squeeze_T (CMat 1 r)) = Some (CVec n).
Proof. exact coef_shape_binary. Qed.
Print Assumptions C10_coef_shape_binary.

Theorem C10_coef_shape_multiclass : forall c r n, 2 < c -> solve_shape c r n (squeeze_T (CMat c r)) = Some (CMat n c).
Proof. exact coef_shape_multiclass. Qed.
Print Assumptions C10_coef_shape_multiclass.

Theorem C10_binary_contract_checker_sound_partial : forall tol r n psi s w b, check_affine_fit tol r n psi s w b = true ->
  (forall i, i < r -> (Qcabs (sum n (fun j => (mat_entry psi i j * nth j s 0)%Qc) + b - nth i w 0) <= tol)%Qc) /\
  nonzeros s <= r /\ length s = n.
Proof. exact check_affine_fit_sound. Qed.
Print Assumptions C10_binary_contract_checker_sound_partial.
