(* C10 - sparse sensor weights reproduce the full-state discriminant.  Model: Class/Coef.v.
   The two solvers (sklearn OrthogonalMatchingPursuit, MultiTaskLasso) are oracles; what is proved is pysensors' glue
   (orientation, shapes) and the soundness of the contract checker run on every observed result.  The optimality of
   MultiTaskLasso is an oracle too, but its result is CERTIFIED per case: weak duality for the group-lasso objective is
   proved over the reals (Class/Dual.v) and the executable certificate checker over exact rationals (Class/DualCheck.v)
   is sound for it, so every accepted output minimises the objective up to the stated gap among ALL real matrices. *)
From Coq Require Import List Arith QArith Qcanon.
Import ListNotations.
From Coq Require Import Reals.
From PS Require Import LA.Sums LA.Gram LA.SqrtCmpProofs Basis.Basis Class.Coef Class.CoefProofs Class.Dual Class.DualCheck.
Close Scope Qc_scope.
Open Scope nat_scope.

Theorem C10_coef_shape_binary : forall r n, solve_shape 2 r n (squeeze_T (CMat 1 r)) = Some (CVec n).
Proof. exact coef_shape_binary. Qed.
Print Assumptions C10_coef_shape_binary.

Theorem C10_coef_shape_multiclass : forall c r n, 2 < c -> solve_shape c r n (squeeze_T (CMat c r)) = Some (CMat n c).
Proof. exact coef_shape_multiclass. Qed.
Print Assumptions C10_coef_shape_multiclass.

Theorem C10_binary_contract_checker_sound_partial : forall tol r n psi s w b, check_affine_fit tol r n psi s w b = true ->
  (forall i, i < r -> (Qcabs (sum n (fun j => (mat_entry psi i j * nth j s 0)%Qc) + b - nth i w 0) <= tol)%Qc) /\
  nonzeros s <= r /\ length s = n.
Proof. exact check_affine_fit_sound. Qed.
Print Assumptions C10_binary_contract_checker_sound_partial.

(* ---- multiclass clause.  Objective (the one MultiTaskLasso minimises, intercept included):
        f(S, b) = 1/(2r) sum_{i<r,c<C} (W_ic - (Psi S)_ic - b_c)^2 + alpha sum_{j<n} sqrt (sum_c S_jc^2).
   Weak duality: every dual-feasible theta bounds f from below, for all real S, b. *)
Theorem C10_group_lasso_weak_duality : forall r n C Psi W alpha, 0 < r -> (0 <= alpha)%R ->
  forall theta, feasible r n C Psi alpha theta -> forall S b, (dual r C W theta <= objective r n C Psi W alpha S b)%R.
Proof. exact weak_duality. Qed.
Print Assumptions C10_group_lasso_weak_duality.

(* The certificate checker evaluated on every observed multiclass result (exact rational values of the floats: Psi^-1,
   the classifier's weights W, the returned sensor weights S, an intercept b, a dual point theta, rational upper bounds
   u_j of the row norms): if it accepts, the returned weights minimise the objective up to [gap] among all real S', b'. *)
Theorem C10_multiclass_certificate_sound : forall r n C Psi W S theta b u alpha gap,
  check_dual r n C Psi W S theta b u alpha gap = true ->
  let PsiR := fun i j => SqrtCmpProofs.r (Psi i j) in let WR := fun i c => SqrtCmpProofs.r (W i c) in
  let SR := fun j c => SqrtCmpProofs.r (S j c) in let bR := fun c => SqrtCmpProofs.r (b c) in
  forall S' b', (objective r n C PsiR WR (SqrtCmpProofs.r alpha) SR bR <=
                 objective r n C PsiR WR (SqrtCmpProofs.r alpha) S' b' + SqrtCmpProofs.r gap)%R.
Proof. exact check_dual_sound. Qed.
Print Assumptions C10_multiclass_certificate_sound.

(* non-vacuity: a 2-mode, 3-sensor, 2-class instance whose all-zero weight matrix is certified optimal (alpha large), and
   the same certificate is rejected when alpha is too small for the dual point *)
Example C10_certificate_example :
  let Psi := [[q 1 1; q 0 1; q 1 1]; [q 0 1; q 1 1; q 1 1]] in
  let W := [[q 1 1; q (-1) 1]; [q (-1) 1; q 1 1]] in
  let S := [[q 0 1; q 0 1]; [q 0 1; q 0 1]; [q 0 1; q 0 1]] in
  let theta := [[q 1 2; q (-1) 2]; [q (-1) 2; q 1 2]] in
  check_dual_lists 2 3 2 Psi W S theta [q 0 1; q 0 1] [q 0 1; q 0 1; q 0 1] (q 1 1) (q 0 1) = true /\
  check_dual_lists 2 3 2 Psi W S theta [q 0 1; q 0 1] [q 0 1; q 0 1; q 0 1] (q 1 2) (q 0 1) = false.
Proof. split; vm_compute; reflexivity. Qed.
