(* C01 - every sensor ranking is a permutation of the sensor indices.
   Only statements, each closed by [exact] of a lemma proved elsewhere, each followed by Print Assumptions. *)
From Coq Require Import List Arith Permutation Bool.
Import ListNotations.
From PS Require Import Sel.Perm Sel.PermProofs.

(* the pivot bookkeeping of CCQR/GQR: whatever offsets argmax returns (any matrix, costs, constraint
   option; out-of-range offsets are no-ops), the tracked list is a permutation of 0..n-1 *)
Theorem C01_swap_track_perm : forall n offs, Permutation (seq 0 n) (swap_track n offs).
Proof. exact swap_track_perm. Qed.
Print Assumptions C01_swap_track_perm.

(* the replay used by the correspondence check is such a run and yields a permutation *)
Theorem C01_replay_perm : forall n lead q, replay n lead = Some q -> Permutation (seq 0 n) q.
Proof. exact replay_perm. Qed.
Print Assumptions C01_replay_perm.

Theorem C01_replay_is_run : forall lead p j q, replay_from p j lead = Some q ->
  exists offs, length offs = length lead /\ q = swap_track_from p j offs.
Proof. exact replay_from_is_swap_track. Qed.
Print Assumptions C01_replay_is_run.

(* SSPOR's tail shuffle keeps the ranking a permutation, provided the random generator returns a
   permutation of the slice it is given (contract of numpy.random.Generator.permutation) *)
Theorem C01_shuffle_tail_perm : forall m r tail',
  Permutation (skipn m r) tail' -> Permutation r (shuffle_tail m r tail').
Proof. exact shuffle_tail_perm. Qed.
Print Assumptions C01_shuffle_tail_perm.

(* the selected sensors are distinct valid indices and their number is n_sensors *)
Theorem C01_selected_ok : forall n k r, Permutation (seq 0 n) r -> k <= n ->
  NoDup (selected k r) /\ (forall i, In i (selected k r) -> i < n) /\ length (selected k r) = k.
Proof. exact selected_ok. Qed.
Print Assumptions C01_selected_ok.

(* the executable permutation checker run on every observed ranking (LAPACK's included) is sound *)
Theorem C01_checker_sound : forall n l, is_perm_of_range n l = true -> Permutation (seq 0 n) l.
Proof. exact is_perm_of_range_sound. Qed.
Print Assumptions C01_checker_sound.

Theorem C01_nodup_checker_sound : forall l, nodupb l = true -> NoDup l.
Proof. exact nodupb_sound. Qed.
Print Assumptions C01_nodup_checker_sound.

(* non-vacuity: a concrete run of the loop *)
Example C01_example : swap_track 6 [3;0;2;9;1] = [3;1;4;0;5;2] /\ replay 6 [3;1;4] = Some [3;1;4;0;2;5].
Proof. split; vm_compute; reflexivity. Qed.
