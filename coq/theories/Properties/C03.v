(* C03 - the default ranking follows the greedy max-residual (pivoted QR) rule.
   Model: LA/Gram.v - pivoted QR as pivoted Cholesky on the Gram matrix G = B B^T over exact rationals. *)
From Coq Require Import List Arith Lia QArith Qcanon.
Import ListNotations.
From PS Require Import Sel.ArgmaxGen Sel.Greedy Sel.Perm Sel.PermProofs LA.Sums LA.Gram LA.GramProofs LA.Dim LA.Ccqr LA.CcqrProofs.
Close Scope Qc_scope.
Open Scope nat_scope.

(* what the loop holds is meaningful: one elimination step maps the Gram matrix of rows R to the Gram matrix of the
   rows with their component along the pivot row removed *)
Theorem C03_schur_is_gram_of_deflated : forall m n G R p,
  (forall a b, a < n -> b < n -> G a b = dot m (R a) (R b)) -> p < n ->
  forall a b, a < n -> b < n -> schur_f G p a b = dot m (deflate m G R p a) (deflate m G R p b).
Proof. exact schur_is_gram_of_deflated. Qed.
Print Assumptions C03_schur_is_gram_of_deflated.

(* the squared residual of a sensor IS its squared distance to the span of the rows ranked before it:
   a lower bound for every linear combination, attained by one *)
Theorem C03_residual_is_distance : forall m n B R ranked a, resid_ok m n B R ranked -> a < n ->
  (forall v, lincomb m (map B ranked) v -> (nrm2 m (R a) <= nrm2 m (vsub (B a) v))%Qc) /\
  (exists v, lincomb m (map B ranked) v /\ nrm2 m (vsub (B a) v) = nrm2 m (R a)).
Proof. exact residual_is_distance. Qed.
Print Assumptions C03_residual_is_distance.

(* every pick of the model has the largest squared residual among the sensors not yet ranked, for every matrix
   (any shape, rank-deficient, zero rows, ties: numpy's first maximum) *)
Theorem C03_greedy_step_spec : forall m n B j,
  let '(G, (rk, cs)) := grun Qc Qcleb qr_key n j (ginit n (gram m B)) in
  let R := rows_after m n B rk in
  cs <> [] ->
  let p := nth (argmax_by Qc Qcleb (map (qr_key G) cs)) cs 0 in
  In p cs /\ (forall c, In c cs -> (nrm2 m (R c) <= nrm2 m (R p))%Qc) /\ resid_ok m n B R rk.
Proof. exact greedy_step_spec. Qed.
Print Assumptions C03_greedy_step_spec.

(* ranked rows with positive residual are linearly independent of the rows ranked before them; a zero residual means
   dependence *)
Theorem C03_positive_pivot_independent : forall m n B R ranked p, resid_ok m n B R ranked -> p < n ->
  ((0 < nrm2 m (R p))%Qc -> ~ lincomb m (map B ranked) (B p)) /\
  (nrm2 m (R p) = 0%Qc -> lincomb m (map B ranked) (B p)).
Proof. intros. split; [now apply (positive_pivot_independent m n)|now apply (zero_residual_dependent m n)]. Qed.
Print Assumptions C03_positive_pivot_independent.

(* "the first r ranked sensor rows of a rank-r basis matrix are linearly independent": if B has r rows (idx 0 .. idx (r-1))
   none of which is a combination of the ones before it, then at every step j < r the pick has POSITIVE residual - hence
   (C03_positive_pivot_independent) it is not a combination of the rows ranked before it.  Uses the dimension lemma
   (LA/Dim.v: more vectors than dimensions have a non-trivial relation). *)
Theorem C03_rank_r_pivots_positive : forall m n B (idx : nat -> nat) r j,
  (forall k, k < r -> idx k < n) -> seq_indep m (fun k => B (idx k)) r -> j < r -> j <= n ->
  let '(G, (rk, cs)) := grun Qc Qcleb qr_key n j (ginit n (gram m B)) in
  let R := rows_after m n B rk in
  cs <> [] ->
  let p := nth (argmax_by Qc Qcleb (map (qr_key G) cs)) cs 0 in
  (0 < nrm2 m (R p))%Qc.
Proof. exact rank_pivots_positive. Qed.
Print Assumptions C03_rank_r_pivots_positive.

Theorem C03_dimension_lemma : forall m (u g : nat -> nat -> Qc) r j, seq_indep m u r ->
  (forall k, k < r -> lincomb m (map g (seq 0 j)) (u k)) -> r <= j.
Proof. exact span_dim. Qed.
Print Assumptions C03_dimension_lemma.

(* CCQR without costs IS the same ranking, ties included (GQR without constraint runs the very same loop: its
   constraint map is the identity, Sel/NormCalc.permit_free) *)
Theorem C03_ccqr_nocost_eq_qr : forall m n k B,
  ccqr_gram n k (fun _ => 0%Qc) (gram m B) = gram_greedy n k (gram m B).
Proof. exact ccqr_zero_eq_qr. Qed.
Print Assumptions C03_ccqr_nocost_eq_qr.

(* an SSPOR model's leading sensors are the optimizer's ranking of its own basis matrix (the shuffle starts at m) *)
Theorem C03_sspor_leading : forall perm_of m r s, m <= length r -> firstn m (fit_ranking perm_of m r s) = firstn m r.
Proof. exact seed_leading_is_optimizer. Qed.
Print Assumptions C03_sspor_leading.

Example C03_example :
  let B := of_rows [[q 3 1; q (-1) 1]; [q 0 1; q 0 1]; [q 1 1; q 4 1]; [q 6 1; q (-2) 1]; [q 2 1; q 2 1]] in
  firstn 2 (gram_greedy 5 2 (gram 2 B)) = [3; 2] /\ check_greedy 0%Qc 0%Qc 5 (gram 2 B) [3; 2] = true /\
  check_greedy 0%Qc 0%Qc 5 (gram 2 B) [3; 4] = false.
Proof. repeat split; vm_compute; reflexivity. Qed.

(* non-vacuity of the rank theorem: rows 3 and 2 of the example matrix are sequentially independent (shown with the
   residual machinery itself), so the hypothesis of C03_rank_r_pivots_positive is met with r = 2 *)
Example C03_rank_hypothesis_met :
  let B := of_rows [[q 3 1; q (-1) 1]; [q 0 1; q 0 1]; [q 1 1; q 4 1]; [q 6 1; q (-2) 1]; [q 2 1; q 2 1]] in
  let idx := fun k => nth k [3; 2] 0 in
  (forall k, k < 2 -> idx k < 5) /\ seq_indep 2 (fun k => B (idx k)) 2.
Proof.
  cbv zeta. split.
  - intros [|[|k]] Hk; simpl; lia.
  - intros [|[|k]] Hk; [| |lia].
    + simpl. apply (positive_pivot_independent 2 5 _ _ [] 3 (resid_ok_init 2 5 _)); [lia|].
      unfold Qclt. vm_compute. reflexivity.
    + simpl. set (B := of_rows _).
      pose proof (resid_ok_step 2 5 B B [] 3 ltac:(lia) (resid_ok_init 2 5 B)) as R1. simpl in R1.
      apply (positive_pivot_independent 2 5 B _ [3] 2 R1); [lia|].
      unfold Qclt. vm_compute. reflexivity.
Qed.
