(* C17 - scores and error metrics equal their definitions.  Model: Recon/Scores.v (squared form, exact rationals).
   The model IS the definition, so the theorems are consistency laws; the weight of this property lies on the
   correspondence (recomputation through the public predict). *)
From Coq Require Import List Arith QArith Qcanon.
Import ListNotations.
From PS Require Import Recon.Scores Recon.ScoresProofs.
Close Scope Qc_scope.
Open Scope nat_scope.

(* score = - sqrt(mse): never positive ... *)
Theorem C17_mse_nonneg : forall x pred, 0 < count x -> (0 <= mse x pred)%Qc.
Proof. exact mse_nonneg. Qed.
Print Assumptions C17_mse_nonneg.

(* ... and zero exactly when the reconstruction reproduces the data entry by entry *)
Theorem C17_mse_zero_iff : forall x pred, 0 < count x -> (mse x pred = 0%Qc <-> forall v, In v (sqdiff x pred) -> v = 0%Qc).
Proof. exact mse_zero_iff. Qed.
Print Assumptions C17_mse_zero_iff.

(* relative reconstruction error is invariant under a common rescaling of data and prediction *)
Theorem C17_rel_err_scale_invariant : forall c d p, c <> 0%Qc -> sqnorm d <> 0%Qc -> rel_err2 (mscale c d) (mscale c p) = rel_err2 d p.
Proof. exact rel_err_scale_invariant. Qed.
Print Assumptions C17_rel_err_scale_invariant.

Example C17_example :
  mse [[q 1 1; q 2 1]; [q 3 1; q 4 1]] [[q 1 1; q 0 1]; [q 3 1; q 2 1]] = q 2 1 /\
  optimality [[q 2 1; q 1 1]; [q 1 1; q 3 1]] = q 5 1 /\ optimality [[q 0 1; q 1 1]; [q 2 1; q 0 1]] = q 2 1 /\
  optimality [[q 1 1; q 0 1]; [q 0 1; q 1 1]; [q 1 1; q 1 1]] = q 3 1 /\
  rel_err2 [[q 3 1; q 4 1]] [[q 3 1; q 1 1]] = q 3600 1.
Proof. repeat split; apply Qc_is_canon; vm_compute; reflexivity. Qed.
