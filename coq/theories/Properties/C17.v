(* C17 - scores and error metrics equal their definitions.  Model: Recon/Scores.v (squared form, exact rationals).
   The model IS the definition, so the theorems are consistency laws; the weight of this property lies on the
   correspondence (recomputation through the public predict). *)
From Coq Require Import List Arith QArith Qcanon.
Import ListNotations.
From PS Require Import LA.Sums Recon.Scores Recon.ScoresProofs Recon.SSPOR Recon.SSPORProofs.
Close Scope Qc_scope.
Open Scope nat_scope.

(* score = - sqrt(mse): never positive ... *)
Theorem C17_mse_nonneg : forall x pred, 0 < count x -> (0 <= mse x pred)%Qc.
Proof. exact mse_nonneg. Qed.
Print Assumptions C17_mse_nonneg.

(* ... and zero exactly when the reconstruction reproduces the data entry by entry *)
Theorem C17_mse_zero_iff : forall x pred, 0 < count x -> (mse x pred = 0%Qc <-> forall v, In v (sqdiff x pred) -> v = 0%Qc).
Proof. exact mse_zero_iff. Qed.
Print Assumptions C17_mse_zero_iff.

(* relative reconstruction error is invariant under a common rescaling of data and prediction *)
Theorem C17_rel_err_scale_invariant : forall c d p, c <> 0%Qc -> sqnorm d <> 0%Qc -> rel_err2 (mscale c d) (mscale c p) = rel_err2 d p.
Proof. exact rel_err_scale_invariant. Qed.
Print Assumptions C17_rel_err_scale_invariant.

(* determinant, square selection: the criterion is |det B_S|: never negative, and its square is det^2 *)
Theorem C17_optimality_square_nonneg : forall BS, length BS = length (hd [] BS) -> (0 <= optimality BS)%Qc.
Proof. exact optimality_square_nonneg. Qed.
Print Assumptions C17_optimality_square_nonneg.

Theorem C17_optimality_square_sq : forall BS, length BS = length (hd [] BS) -> (optimality BS * optimality BS = det BS * det BS)%Qc.
Proof. exact optimality_square_sq. Qed.
Print Assumptions C17_optimality_square_sq.

(* the Laplace expansion of the model is the familiar 2 x 2 formula *)
Theorem C17_det2 : forall a b c d : Qc, (det [[a; b]; [c; d]] = a * d - b * c)%Qc.
Proof. exact det2. Qed.
Print Assumptions C17_det2.

(* tall selection: entry (i, j) of the matrix whose determinant is taken is the inner product of COLUMNS (modes) i and j
   of B_S over the selected sensors - B_S^T B_S, not B_S B_S^T - and that matrix is symmetric *)
Theorem C17_transpose_mul_entry : forall A i j, i < length (hd [] A) -> j < length (hd [] A) ->
  nth j (nth i (transpose_mul A) []) 0%Qc = qsum (map (fun r => nth i r 0 * nth j r 0)%Qc A).
Proof. exact transpose_mul_entry. Qed.
Print Assumptions C17_transpose_mul_entry.

Theorem C17_transpose_mul_sym : forall A i j, i < length (hd [] A) -> j < length (hd [] A) ->
  nth j (nth i (transpose_mul A) []) 0%Qc = nth i (nth j (transpose_mul A) []) 0%Qc.
Proof. exact transpose_mul_sym. Qed.
Print Assumptions C17_transpose_mul_sym.

(* one mode, any p >= 2 sensors: det(B_S^T B_S) is the squared norm of that mode over the selected sensors
   (the transposed product B_S B_S^T would have rank one and determinant 0) *)
Theorem C17_optimality_one_mode : forall col, 2 <= length col ->
  optimality (map (fun v => [v]) col) = qsum (map (fun v => v * v)%Qc col).
Proof. exact optimality_one_mode. Qed.
Print Assumptions C17_optimality_one_mode.

(* two modes, any p >= 3 sensors: det(B_S^T B_S) = |a|^2 |b|^2 - <a, b>^2, hence never negative (Cauchy-Schwarz) *)
Theorem C17_optimality_two_modes : forall l : list (Qc * Qc), 3 <= length l ->
  optimality (map (fun p => [fst p; snd p]) l) =
  (qsum (map (fun p => fst p * fst p) l) * qsum (map (fun p => snd p * snd p) l)
   - qsum (map (fun p => fst p * snd p) l) * qsum (map (fun p => fst p * snd p) l))%Qc.
Proof. exact optimality_two_modes. Qed.
Print Assumptions C17_optimality_two_modes.

Theorem C17_optimality_two_modes_nonneg : forall l : list (Qc * Qc), 3 <= length l ->
  (0 <= optimality (map (fun p => [fst p; snd p]) l))%Qc.
Proof. exact optimality_two_modes_nonneg. Qed.
Print Assumptions C17_optimality_two_modes_nonneg.

(* reconstruction_error (like score and predict) is an observer of the SSPOR machine: one call returns the state it was
   given, whether it succeeds or raises ... *)
Theorem C17_error_curve_changes_nothing : forall s s' e, step s Observe = (s', e) -> s' = s.
Proof. exact observe_noop. Qed.
Print Assumptions C17_error_curve_changes_nothing.

(* ... and in EVERY history of fits, setter calls, mode updates and observers the final model - basis matrix, ranking,
   sensor count in force - is the one reached by the same history with the observers left out *)
Theorem C17_observers_leave_no_trace : forall h s, fst (run s h) = fst (run s (filter (fun o => negb (is_observe o)) h)).
Proof. exact observers_leave_no_trace. Qed.
Print Assumptions C17_observers_leave_no_trace.

Example C17_observers_example :
  exists s0 s1, ctor Identity (Some 2) OQR (VInt 3) = inl s0 /\
    run s0 [Observe; Fit dB None; Observe; SetN (VInt 2); Observe] = (s1, [Some NotFittedError; None; None; None; None]) /\
    n_sensors s1 = Some 2 /\ run s0 [Fit dB None; SetN (VInt 2)] = (s1, [None; None]).
Proof. eexists. eexists. split; [reflexivity|]. split; [vm_compute; reflexivity|]. split; vm_compute; reflexivity. Qed.

(* determinant() builds theta = c @ phi with c[i, top_sensors[i]] = 1: theta is phi restricted to the chosen rows, in the
   order of top_sensors (repeated sensors included) - the matrix the correspondence hands to [optimality] *)
Theorem C17_selection_product_picks_rows : forall n S phi i c, nth i S 0 < n -> sel_product n S phi i c = phi (nth i S 0) c.
Proof. exact selection_product_picks_rows. Qed.
Print Assumptions C17_selection_product_picks_rows.

(* PARTIAL (m <= 2): where the two branches of determinant() meet (p = m) they agree: det(B_S^T B_S) = (det B_S)^2.
   The full statement - for every m - needs multiplicativity of the Laplace determinant and is not proved; the
   code takes one branch per call and the correspondence judges that branch against the same branch of the model. *)
Theorem C17_det_branches_agree_partial : forall a b c d : Qc,
  (det (transpose_mul [[a]]) = det [[a]] * det [[a]] /\
   det (transpose_mul [[a; b]; [c; d]]) = det [[a; b]; [c; d]] * det [[a; b]; [c; d]])%Qc.
Proof. intros a b c d. split; [exact (det_branches_agree_1 a) | exact (det_branches_agree_2 a b c d)]. Qed.
Print Assumptions C17_det_branches_agree_partial.

Example C17_example :
  mse [[q 1 1; q 2 1]; [q 3 1; q 4 1]] [[q 1 1; q 0 1]; [q 3 1; q 2 1]] = q 2 1 /\
  optimality [[q 2 1; q 1 1]; [q 1 1; q 3 1]] = q 5 1 /\ optimality [[q 0 1; q 1 1]; [q 2 1; q 0 1]] = q 2 1 /\
  optimality [[q 1 1; q 0 1]; [q 0 1; q 1 1]; [q 1 1; q 1 1]] = q 3 1 /\
  rel_err2 [[q 3 1; q 4 1]] [[q 3 1; q 1 1]] = q 3600 1.
Proof. repeat split; apply Qc_is_canon; vm_compute; reflexivity. Qed.
