(* C05 - region constraints bound the number of selected sensors inside the region.
   Model: Sel/Greedy.v (the pivoting loop of GQR over an ARBITRARY positive key oracle: the guarantee does not depend
   on which sensors happen to have large norms) + Sel/NormCalc.v (transcription of _norm_calc.py).
   Setting of every theorem: n sensors; all_sensors g is the complete output (ranked part ++ untouched part) of the
   unconstrained run of the same loop with the same oracle after kk = min(n, m) steps; the region L = lin_idx g is
   duplicate-free and within range; N = effective n_sensors <= kk; allowance s = n_const g. *)
From Coq Require Import List Arith ZArith Lia.
Import ListNotations.
From PS Require Import Sel.Argmax Sel.Greedy Sel.GreedyProofs Sel.NormCalc Sel.RegionProofs Sel.TieRefuted.

Definition gqr (key : list nat -> nat -> Z) (o : option_name) (g : settings) (n t : nat) : state :=
  run (dv_gqr key (permit_of o g)) t (init n).
Definition unconstrained (key : list nat -> nat -> Z) (n kk : nat) : list nat := pivots (run (dv_free key) kk (init n)).

(* feasible: the region holds at least s sensors, at least N - s lie outside, no candidate has zero residual *)
Definition feasible (key : list nat -> nat -> Z) (n kk : nat) (g : settings) (N : nat) : Prop :=
  (forall rk c, (0 < key rk c)%Z) /\ all_sensors g = unconstrained key n kk /\ kk <= n /\
  NoDup (lin_idx g) /\ (forall x, In x (lin_idx g) -> x < n) /\ eff_n g = N /\ N <= kk /\
  n_const g <= length (lin_idx g) /\ N + length (lin_idx g) <= n + n_const g /\ n_const g <= N.

Theorem C05_max_n_count : forall key n kk g N, feasible key n kk g N ->
  count_in (lin_idx g) (fst (gqr key OMax g n N)) <= n_const g.
Proof. intros key n kk g N (A & B & C & D & E & F & G & H & I & J). eapply max_n_count; eauto. Qed.
Print Assumptions C05_max_n_count.

Theorem C05_exact_n_count : forall key n kk g N, feasible key n kk g N ->
  count_in (lin_idx g) (fst (gqr key OExact g n N)) = n_const g.
Proof. intros key n kk g N (A & B & C & D & E & F & G & H & I & J). eapply exact_n_count; eauto. Qed.
Print Assumptions C05_exact_n_count.

Theorem C05_predetermined_split : forall key n kk g N, feasible key n kk g N -> n_sensors g = Some N ->
  exists outp inp, fst (gqr key OPre g n N) = outp ++ inp /\ length outp = N - n_const g /\ length inp = n_const g /\
    (forall c, In c outp -> ~ In c (lin_idx g)) /\ (forall c, In c inp -> In c (lin_idx g)).
Proof.
  intros key n kk g N (A & B & C & D & E & F & G & H & I & J) K.
  destruct (predetermined_split key A n kk g B C D E N F G H I J K) as (o & i & X1 & X2 & X3 & X4 & X5 & _).
  exists o, i. auto.
Qed.
Print Assumptions C05_predetermined_split.

(* the ranked list has N entries, all distinct (so "count" counts sensors) *)
Theorem C05_first_N_distinct : forall key o g n N, N <= n ->
  length (fst (gqr key o g n N)) = N /\ NoDup (fst (gqr key o g n N)).
Proof.
  intros key o g n N H. unfold gqr.
  destruct (run_invariant _ (dv_gqr_len key (permit_of o g)) n N H) as (L & P & _). split; auto.
  assert (ND : NoDup (fst (run (dv_gqr key (permit_of o g)) N (init n)) ++ snd (run (dv_gqr key (permit_of o g)) N (init n))))
    by (eapply Permutation.Permutation_NoDup; [apply Permutation.Permutation_sym, P|apply seq_NoDup]).
  eapply NoDup_app_l; eauto.
Qed.
Print Assumptions C05_first_N_distinct.

(* non-vacuity: a 6-sensor oracle (keys depend on the history) meeting every hypothesis, all three options *)
Definition ex_key (rk : list nat) (c : nat) : Z := Z.of_nat (1 + (c * 7 + length rk * 3 + fold_right Nat.add 0%nat rk) mod 11).
Definition ex_A := Eval vm_compute in unconstrained ex_key 6 4.
Definition ex_g (ns s : nat) := {| lin_idx := [1; 2; 4]; all_sensors := ex_A; n_sensors := Some ns; n_const := s |}.
Example C05_example :
  feasible ex_key 6 4 (ex_g 4 1) 4 /\
  fst (gqr ex_key OFree (ex_g 4 1) 6 4) = [3; 2; 1; 4] /\
  fst (gqr ex_key OMax (ex_g 4 1) 6 4) = [3; 2; 5; 0] /\
  fst (gqr ex_key OExact (ex_g 4 1) 6 4) = [3; 2; 5; 0] /\
  fst (gqr ex_key OPre (ex_g 4 1) 6 4) = [3; 5; 0; 2].
Proof.
  split; [|repeat split; vm_compute; reflexivity].
  unfold feasible. split; [intros; unfold ex_key; lia|]. split; [reflexivity|]. split; [lia|].
  split; [repeat constructor; simpl; intuition discriminate|]. split; [simpl; intros x [<-|[<-|[<-|[]]]]; lia|].
  simpl. repeat split; lia.
Qed.

(* The hypothesis "all_sensors g = unconstrained key n kk" of the two counting theorems cannot be weakened to "all_sensors is A
   greedy ranking of the same oracle" (each entry attains the maximum among the sensors not yet ranked, ties broken in any way):
   witness = the exact squared residual norms of a 6 x 3 integer matrix whose third step has an exact tie.  This is the model-level
   statement of the two known findings of this property (known_findings.json): scipy's QR, which usually supplies all_sensors,
   breaks exact ties differently from GQR's argmax. *)
Theorem C05_ties_in_all_sensors_refuted :
  exists key n kk N, (forall rk c, 0 < key rk c)%Z /\ kk <= n /\ N <= kk /\
   (exists g, greedy_ranking key n kk (all_sensors g) /\ NoDup (lin_idx g) /\ (forall x, In x (lin_idx g) -> x < n) /\ eff_n g = N /\
       n_const g <= length (lin_idx g) /\ N + length (lin_idx g) <= n + n_const g /\ n_const g <= N /\
       n_const g < count_in (lin_idx g) (fst (gqr key OMax g n N))) /\
   (exists g, greedy_ranking key n kk (all_sensors g) /\ NoDup (lin_idx g) /\ (forall x, In x (lin_idx g) -> x < n) /\ eff_n g = N /\
       n_const g <= length (lin_idx g) /\ N + length (lin_idx g) <= n + n_const g /\ n_const g <= N /\
       count_in (lin_idx g) (fst (gqr key OExact g n N)) <> n_const g).
Proof. exact ties_in_all_sensors_refuted. Qed.
Print Assumptions C05_ties_in_all_sensors_refuted.
