(* C19 - invalid requests are rejected and rejected setters change nothing.
   Models: Guard/Guards.v (decision functions of every guard, over classes of Python values) and the SSPOR token
   machine Recon/SSPOR.v (what a rejected call leaves behind). *)
From Coq Require Import List ZArith Bool.
Import ListNotations.
From PS Require Import Recon.SSPOR Recon.SSPORProofs Guard.Guards Guard.GuardProofs.
From PS Require Class.SSPOC Class.SSPOCProofs.
Open Scope Z_scope.

(* --- every value of the invalid classes is rejected with the stated exception class --- *)
Theorem C19_sspor_ctor_rejects : forall v, bad_count v -> g_sspor_ctor v = Err ValueError.
Proof. exact sspor_ctor_rejects. Qed.
Print Assumptions C19_sspor_ctor_rejects.

Theorem C19_sspor_set_n_rejects : forall nf v, bad_count v \/ v = PNone \/ too_large v nf ->
  g_sspor_set_n true nf v = Err ValueError.
Proof. exact sspor_set_n_rejects. Qed.
Print Assumptions C19_sspor_set_n_rejects.

Theorem C19_sspor_update_modes_rejects : forall have xr v,
  bad_count v \/ v = PNone \/ (exists k, as_INT v = Some k /\ have < k /\ (xr = None \/ exists r, xr = Some r /\ r < k)) ->
  g_sspor_update_modes have xr v = Err ValueError.
Proof. exact sspor_update_modes_rejects. Qed.
Print Assumptions C19_sspor_update_modes_rejects.

Theorem C19_sspor_wrong_arrays_rejected : forall nsens nf x,
  ((x = NotArray \/ exists w, x = Arr w /\ w <> nsens) -> g_sspor_predict true nsens x = Err ValueError) /\
  ((x = NotArray \/ exists w, x = Arr w /\ w <> nf) ->
     g_sspor_score true nf x = Err ValueError /\ g_sspor_recon_error true nf x = Err ValueError).
Proof. intros. split; [apply sspor_consumers_reject|apply sspor_score_rejects]. Qed.
Print Assumptions C19_sspor_wrong_arrays_rejected.

(* ... and arrays that are neither 1-D nor 2-D (a 0-d array, a 3-D stack) are no measurement arrays at all *)
Theorem C19_sspor_wrong_rank_rejected : forall n nf, g_sspor_predict true n BadRank = Err ValueError /\
  g_sspor_score true nf BadRank = Err ValueError /\ g_sspor_recon_error true nf BadRank = Err ValueError.
Proof. exact bad_rank_rejected. Qed.
Print Assumptions C19_sspor_wrong_rank_rejected.

Theorem C19_sspor_count_too_large_at_fit : forall n nf, nf < n -> g_sspor_fit_count n nf = Err ValueError.
Proof. exact sspor_fit_count_rejects. Qed.
Print Assumptions C19_sspor_count_too_large_at_fit.

Theorem C19_unfitted_raise_NotFitted : forall n x nf v t avail,
  g_sspor_predict false n x = Err NotFittedError /\ g_sspor_score false n x = Err NotFittedError /\
  g_sspor_recon_error false n x = Err NotFittedError /\ g_sspor_getter false = Err NotFittedError /\
  g_sspor_set_n false nf v = Err NotFittedError /\
  g_sspoc_update_sensors false nf v t = Err NotFittedError /\ g_sspoc_getter false = Err NotFittedError /\
  g_basis_modes false avail v = Err NotFittedError.
Proof. intros. repeat split. Qed.
Print Assumptions C19_unfitted_raise_NotFitted.

Theorem C19_sspoc_update_sensors_rejects : forall nf v t,
  bad_count0 v \/ too_large v nf \/ (v = PNone /\ t = false) -> g_sspoc_update_sensors true nf v t = Err ValueError.
Proof. exact sspoc_update_sensors_rejects. Qed.
Print Assumptions C19_sspoc_update_sensors_rejects.

Theorem C19_sspoc_update_modes_rejects : forall have rows v,
  bad_count v \/ v = PNone \/ (exists k, as_INT v = Some k /\ have < k /\ rows < k) ->
  g_sspoc_update_modes have rows v = Err ValueError.
Proof. exact sspoc_update_modes_rejects. Qed.
Print Assumptions C19_sspoc_update_modes_rejects.

Theorem C19_basis_guards : forall v avail k rows width,
  (bad_count v -> g_identity_ctor v = Err ValueError /\ g_svd_ctor v = Err ValueError /\ (v <> PAuto -> g_rp_ctor v = Err ValueError)) /\
  (bad_count v \/ too_large v avail -> g_basis_modes true avail v = Err ValueError) /\
  (rows < k -> g_identity_fit k rows = Err ValueError) /\
  (rows < k \/ width < k -> g_svd_fit k rows width = Err ValueError).
Proof.
  intros. split; [apply basis_ctors_reject|split; [apply basis_modes_rejects|split; [apply identity_fit_rejects|apply svd_fit_rejects]]].
Qed.
Print Assumptions C19_basis_guards.

Theorem C19_optimizer_and_helper_guards : forall d l n ns dt xmin xmax ymin ymax nxi nyi,
  (d <> 1 -> l <> n -> g_ccqr_ctor (Some d) = Err ValueError /\ g_ccqr_fit (Some l) n = Err ValueError) /\
  g_gqr_option OptOther = Err NotImplementedError /\
  ((ns = 0 \/ dt = false \/ xmax <= xmin \/ ymax <= ymin \/ nxi = false \/ nyi = false) ->
     g_box ns dt xmin xmax ymin ymax nxi nyi = Err ValueError).
Proof. intros. split; [apply ccqr_rejects|split; [reflexivity|apply box_rejects]]. Qed.
Print Assumptions C19_optimizer_and_helper_guards.

(* --- a rejected setter / update call changes nothing (SSPOR machine, every state) --- *)
Theorem C19_rejected_setter_noop : forall s v s' e, set_number_of_sensors s v = (s', Some e) -> s' = s.
Proof. exact setter_rejected_noop. Qed.
Print Assumptions C19_rejected_setter_noop.

Theorem C19_rejected_update_noop_partial : forall s v x,
  Recon.SSPOR.pos_int v = None \/
  (exists k, Recon.SSPOR.pos_int v = Some k /\
     (match b_fit (basis s), b_modes (basis s) with Some _, Some avail => Nat.leb k avail | _, _ => false end) = false /\
     (x = None \/ exists d, x = Some d /\ (d_rows d < k)%nat)) ->
  update_n_basis_modes s v x = (s, Some Recon.SSPOR.ValueError).
Proof. exact update_rejected_early_noop. Qed.
Print Assumptions C19_rejected_update_noop_partial.

(* SSPOC machine (Class/SSPOC.v, every state): a rejected update_sensors - unfitted model, neither count nor threshold, more sensors
   than there are, refit data of another width than the fitted weights - changes nothing, and the last of these IS rejected *)
Theorem C19_sspoc_rejected_update_sensors_noop : forall s n t xy cnt s' e,
  Class.SSPOC.update_sensors s n t xy cnt = (s', Some e) -> s' = s.
Proof. exact Class.SSPOCProofs.rejected_update_sensors_noop. Qed.
Print Assumptions C19_sspoc_rejected_update_sensors_noop.
Theorem C19_sspoc_wrong_width_refit_rejected : forall s f n t d cnt,
  Class.SSPOC.fitted s = Some f -> Class.SSPOC.d_width d <> Class.SSPOC.d_width (Class.SSPOC.f_data f) ->
  Class.SSPOC.update_sensors s n t (Some d) cnt = (s, Some Class.SSPOC.ValueError).
Proof. exact Class.SSPOCProofs.wrong_width_refit_rejected. Qed.
Print Assumptions C19_sspoc_wrong_width_refit_rejected.

(* what is missing from the _partial statement is false of the faithful model: a rejection that happens inside the
   re-fit triggered by update_n_basis_modes leaves a changed model behind (recorded as a known finding) *)
Theorem C19_late_rejection_refuted :
  exists s0 s1 s2, ctor Identity (Some 2%nat) OQR (VInt 5) = inl s0 /\ fit s0 dB None = (s1, None) /\
    update_n_basis_modes s1 (VInt 4) (Some dC) = (s2, Some Recon.SSPOR.ValueError) /\ obs s2 <> obs s1.
Proof. exact late_rejection_refuted. Qed.
Print Assumptions C19_late_rejection_refuted.

Example C19_example : g_sspor_set_n true 8 (PInt 3) = Ok /\ g_sspor_set_n true 8 PFloat = Err ValueError /\
  g_sspoc_update_sensors true 8 (PInt 0) false = Ok /\ g_sspoc_update_sensors true 8 (PInt (-2)) false = Err ValueError.
Proof. repeat split. Qed.
