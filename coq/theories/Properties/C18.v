(* C18 - the ranking depends only on the geometry of the sensor rows.  Models: LA/Gram.v, LA/Ccqr.v. *)
From Coq Require Import List Arith Lia QArith Qcanon.
Import ListNotations.
From PS Require Import LA.Sums LA.Gram LA.GramProofs LA.Ccqr LA.Invariance.
Close Scope Qc_scope.
Open Scope nat_scope.

(* right multiplication by ANY orthogonal matrix (reordering training examples, flipping mode signs, rotations)
   leaves the Gram matrix, hence every ranking computed from it, unchanged *)
Theorem C18_gram_right_orth : forall m B Q, orthogonal m Q -> forall a b, gram m (rmul m B Q) a b = gram m B a b.
Proof. exact gram_right_orth. Qed.
Print Assumptions C18_gram_right_orth.

Theorem C18_rank_right_orth : forall m n k B Q, orthogonal m Q ->
  gram_greedy n k (gram m (rmul m B Q)) = gram_greedy n k (gram m B) /\
  forall cost, ccqr_gram n k cost (gram m (rmul m B Q)) = ccqr_gram n k cost (gram m B).
Proof. exact rank_right_orth. Qed.
Print Assumptions C18_rank_right_orth.

(* positive rescaling: QR ranking unchanged; CCQR ranking unchanged when the costs are rescaled alike *)
Theorem C18_rank_scale_qr : forall m n k B c, (0 < c)%Qc ->
  gram_greedy n k (gram m (fun x t => (c * B x t)%Qc)) = gram_greedy n k (gram m B).
Proof. exact rank_scale_qr. Qed.
Print Assumptions C18_rank_scale_qr.

Theorem C18_rank_scale_ccqr : forall m n k B cost c, (0 < c)%Qc ->
  ccqr_gram n k (fun x => (c * cost x)%Qc) (gram m (fun x t => (c * B x t)%Qc)) = ccqr_gram n k cost (gram m B).
Proof. exact rank_scale_ccqr. Qed.
Print Assumptions C18_rank_scale_ccqr.

(* the GQR constraint maps address costs and regions by sensor id through the running permutation (Sel/NormCalc.v takes
   the candidate's id, never its position); sensor relabelling itself is decided by the metamorphic correspondence only
   (partial: no equivariance theorem is proved) *)
Example C18_example :
  let B := of_rows [[q 3 1; q (-1) 1]; [q 0 1; q 2 1]; [q 1 1; q 4 1]; [q 6 1; q (-2) 1]] in
  let Q := of_rows [[q 3 5; q 4 5]; [q (-4) 5; q 3 5]] in
  orthogonal 2 Q /\ gram_greedy 4 2 (gram 2 (rmul 2 B Q)) = gram_greedy 4 2 (gram 2 B).
Proof.
  split; [|vm_compute; reflexivity].
  intros u v Hu Hv. destruct u as [|[|u]]; destruct v as [|[|v]]; try lia; apply Qc_is_canon; vm_compute; reflexivity.
Qed.
