(* C18 - the ranking depends only on the geometry of the sensor rows.  Models: LA/Gram.v, LA/Ccqr.v. *)
From Coq Require Import List Arith Lia QArith Qcanon.
Import ListNotations.
From PS Require Import Sel.Greedy Sel.NormCalc Sel.RelabelAbs LA.Sums LA.Gram LA.GramProofs LA.SqrtCmp LA.Ccqr LA.Invariance LA.Relabel.
Close Scope Qc_scope.
Open Scope nat_scope.

(* right multiplication by ANY orthogonal matrix (reordering training examples, flipping mode signs, rotations)
   leaves the Gram matrix, hence every ranking computed from it, unchanged *)
Theorem C18_gram_right_orth : forall m B Q, orthogonal m Q -> forall a b, gram m (rmul m B Q) a b = gram m B a b.
Proof. exact gram_right_orth. Qed.
Print Assumptions C18_gram_right_orth.

Theorem C18_rank_right_orth : forall m n k B Q, orthogonal m Q ->
  gram_greedy n k (gram m (rmul m B Q)) = gram_greedy n k (gram m B) /\
  forall cost, ccqr_gram n k cost (gram m (rmul m B Q)) = ccqr_gram n k cost (gram m B).
Proof. exact rank_right_orth. Qed.
Print Assumptions C18_rank_right_orth.

(* positive rescaling: QR ranking unchanged; CCQR ranking unchanged when the costs are rescaled alike *)
Theorem C18_rank_scale_qr : forall m n k B c, (0 < c)%Qc ->
  gram_greedy n k (gram m (fun x t => (c * B x t)%Qc)) = gram_greedy n k (gram m B).
Proof. exact rank_scale_qr. Qed.
Print Assumptions C18_rank_scale_qr.

Theorem C18_rank_scale_ccqr : forall m n k B cost c, (0 < c)%Qc ->
  ccqr_gram n k (fun x => (c * cost x)%Qc) (gram m (fun x t => (c * B x t)%Qc)) = ccqr_gram n k cost (gram m B).
Proof. exact rank_scale_ccqr. Qed.
Print Assumptions C18_rank_scale_ccqr.

(* RELABELLING the sensors relabels the ranking in the same way, whenever the greedy choices are unique.
   (a) Gram-matrix model: row (sg a) of the relabelled basis matrix is row a of B (tu = inverse of sg on 0..n-1);
       QR, and CCQR with the costs relabelled alike. *)
Theorem C18_relabel_qr : forall m n sg tu, (forall a, a < n -> sg a < n /\ tu (sg a) = a) -> (forall a, a < n -> tu a < n /\ sg (tu a) = a) ->
  forall B k, k <= n -> (forall j, j < k -> LA.Relabel.unique_at Qc Qcleb qr_key n (gram m B) j) ->
  firstn k (gram_greedy n k (gram m (relabelled tu B))) = map sg (firstn k (gram_greedy n k (gram m B))).
Proof. exact relabel_qr. Qed.
Print Assumptions C18_relabel_qr.

Theorem C18_relabel_ccqr : forall m n sg tu, (forall a, a < n -> sg a < n /\ tu (sg a) = a) -> (forall a, a < n -> tu a < n /\ sg (tu a) = a) ->
  forall B cost k, k <= n -> (forall j, j < k -> LA.Relabel.unique_at (Qc * Qc) sqrt_leb (ccqr_key cost) n (gram m B) j) ->
  firstn k (ccqr_gram n k (fun x => cost (tu x)) (gram m (relabelled tu B))) = map sg (firstn k (ccqr_gram n k cost (gram m B))).
Proof. exact relabel_ccqr. Qed.
Print Assumptions C18_relabel_ccqr.

(* (b) the pivoting loop of GQR with EVERY constraint option (and CCQR) over ANY residual-norm oracle: if the oracle is
       relabelled alike (key2 (map sg history) (sg c) = key1 history c) and the region, the unconstrained ranking and the
       costs are relabelled alike, the ranked sensors are the relabelled ones.  The constraint maps of _norm_calc.py
       are carried along by the relabelling (first theorem). *)
Theorem C18_constraint_maps_relabel : forall sg, (forall x y, sg x = sg y -> x = y) ->
  forall o g j c, permit_of o (relabel_settings sg g) j (sg c) = permit_of o g j c.
Proof. exact permit_relabel. Qed.
Print Assumptions C18_constraint_maps_relabel.

Theorem C18_relabel_gqr_every_option : forall sg, (forall x y, sg x = sg y -> x = y) ->
  forall key1 key2, (forall rk c, key2 (map sg rk) (sg c) = key1 rk c) ->
  forall o g n k, k <= n -> Permutation.Permutation (seq 0 n) (map sg (seq 0 n)) ->
  (forall j, j < k -> Sel.RelabelAbs.unique_at (v_gqr key1 (permit_of o g)) n j) ->
  fst (run (dv_gqr key2 (permit_of o (relabel_settings sg g))) k (init n)) = map sg (fst (run (dv_gqr key1 (permit_of o g)) k (init n))).
Proof. exact relabel_gqr. Qed.
Print Assumptions C18_relabel_gqr_every_option.

Theorem C18_relabel_ccqr_loop : forall sg key1 key2, (forall rk c, key2 (map sg rk) (sg c) = key1 rk c) ->
  forall cost1 cost2 n k, k <= n -> Permutation.Permutation (seq 0 n) (map sg (seq 0 n)) -> (forall c, cost2 (sg c) = cost1 c) ->
  (forall j, j < k -> Sel.RelabelAbs.unique_at (v_ccqr key1 cost1) n j) ->
  fst (run (dv_ccqr key2 cost2) k (init n)) = map sg (fst (run (dv_ccqr key1 cost1) k (init n))).
Proof. exact Sel.RelabelAbs.relabel_ccqr. Qed.
Print Assumptions C18_relabel_ccqr_loop.

Example C18_example :
  let B := of_rows [[q 3 1; q (-1) 1]; [q 0 1; q 2 1]; [q 1 1; q 4 1]; [q 6 1; q (-2) 1]] in
  let Q := of_rows [[q 3 5; q 4 5]; [q (-4) 5; q 3 5]] in
  orthogonal 2 Q /\ gram_greedy 4 2 (gram 2 (rmul 2 B Q)) = gram_greedy 4 2 (gram 2 B).
Proof.
  split; [|vm_compute; reflexivity].
  intros u v Hu Hv. destruct u as [|[|u]]; destruct v as [|[|v]]; try lia; apply Qc_is_canon; vm_compute; reflexivity.
Qed.

(* non-vacuity of the relabelling theorem: the 4-sensor matrix above, relabelled by the cycle 0->2->3->1->0, has unique
   greedy choices at both steps and its ranking is the relabelled one *)
Example C18_relabel_example :
  let B := of_rows [[q 3 1; q (-1) 1]; [q 0 1; q 2 1]; [q 1 1; q 4 1]; [q 6 1; q (-2) 1]] in
  let sg := fun a => match a with 0 => 2 | 1 => 0 | 2 => 3 | 3 => 1 | _ => a end in
  let tu := fun a => match a with 2 => 0 | 0 => 1 | 3 => 2 | 1 => 3 | _ => a end in
  firstn 2 (gram_greedy 4 2 (gram 2 (relabelled tu B))) = map sg (firstn 2 (gram_greedy 4 2 (gram 2 B))) /\
  firstn 2 (gram_greedy 4 2 (gram 2 B)) = [3; 2].
Proof. split; vm_compute; reflexivity. Qed.
