(* C15 - refitting and mode updates leave no trace of earlier fits.  Model: Recon/SSPOR.v. *)
From Coq Require Import List Arith ZArith Bool.
Import ListNotations.
From PS Require Import Recon.SSPOR Recon.SSPORProofs.

(* For every history of fit / update_n_basis_modes / set_number_of_sensors / observer calls that all succeed, on a
   model whose basis has a user-chosen number of modes (Identity(k), SVD(k), RandomProjection(k)), with any
   optimizer configuration: the observable state (which basis matrix, which ranking, how many sensors) is the one
   obtained by configuring a never-fitted model with the user's settings [reset s] and fitting it once on the data
   of the last fit with the last seed. *)
Theorem C15_refit_fresh_no_default : forall b bm o v s0 h s es r,
  ctor b bm o v = inl s0 -> (bm <> None \/ b <> Identity) ->
  run s0 h = (s, es) -> Forall (eq None) es -> ranked s = Some r ->
  exists s', fit (reset s) (bt_data (mt_basis (rt_mat r))) (rt_seed r) = (s', None) /\ obs s' = obs s.
Proof. exact refit_fresh_no_default. Qed.
Print Assumptions C15_refit_fresh_no_default.

(* General form, any basis: holds along histories in which every fit meets [fit_ok_cond] (nothing frozen, or the
   frozen Identity default equals the number of examples of the new data). *)
Theorem C15_refit_fresh_partial : forall b bm o v s0 h s es r,
  ctor b bm o v = inl s0 -> run s0 h = (s, es) -> Forall (eq None) es -> ops_ok s0 h ->
  ranked s = Some r ->
  exists s', fit (reset s) (bt_data (mt_basis (rt_mat r))) (rt_seed r) = (s', None) /\ obs s' = obs s.
Proof. exact refit_fresh. Qed.
Print Assumptions C15_refit_fresh_partial.

(* ... and the unrestricted statement is FALSE of the faithful model: Identity() freezes its default number of
   modes at the first fit (basis/_identity.py:57-59).  Recorded as a known finding. *)
Theorem C15_identity_default_refuted :
  exists s0 s es r, ctor Identity None OQR VNone = inl s0 /\ run s0 [Fit dA None; Fit dB None] = (s, es) /\
    Forall (eq None) es /\ ranked s = Some r /\
    forall s', fit (reset s) (bt_data (mt_basis (rt_mat r))) (rt_seed r) = (s', None) -> obs s' <> obs s.
Proof. exact identity_default_frozen_refuted. Qed.
Print Assumptions C15_identity_default_refuted.

(* update_n_basis_modes(k), k no larger than the fitted basis: re-ranks on the first k modes of the SAME basis *)
Theorem C15_update_modes_keeps_basis : forall s k tk avail s',
  b_fit (basis s) = Some tk -> b_modes (basis s) = Some avail -> k <= avail -> 0 < k ->
  update_n_basis_modes s (VInt (Z.of_nat k)) None = (s', None) ->
  basis s' = basis s /\ basis_matrix s' = Some {| mt_basis := tk; mt_k := k |} /\
  exists r, ranked s' = Some r /\ rt_mat r = {| mt_basis := tk; mt_k := k |} /\ rt_opt r = opt s.
Proof. exact update_modes_keeps_basis. Qed.
Print Assumptions C15_update_modes_keeps_basis.

(* non-vacuity: a history with refits on data of different widths and a mode update meets all hypotheses *)
Example C15_example :
  let d1 := {| d_id := 1; d_rows := 5; d_width := 6 |} in
  let d2 := {| d_id := 2; d_rows := 5; d_width := 9 |} in
  exists s0 s es, ctor SVD (Some 3) (OCCQR None) VNone = inl s0 /\
    run s0 [Fit d1 (Some 1); Fit d2 None; UpdModes (VInt 2) None; SetN (VInt 4); Fit d1 (Some 7)] = (s, es) /\
    Forall (eq None) es /\ n_sensors s = Some 4 /\ n_basis_modes s = Some 2.
Proof. do 3 eexists. split; [reflexivity|]. split; [vm_compute; reflexivity|]. split; [repeat constructor|]. split; reflexivity. Qed.
