(* C15 - refitting and mode updates leave no trace of earlier fits.  Model: Recon/SSPOR.v. *)
From Coq Require Import List Arith ZArith Bool.
Import ListNotations.
From PS Require Import Recon.SSPOR Recon.SSPORProofs.

(* For EVERY history of fit / update_n_basis_modes / set_number_of_sensors / observer calls that all succeed, on a model
   with any basis (Identity with or without a user-chosen number of modes, SVD(k), RandomProjection(k)) and any optimizer
   configuration: the observable state (which basis matrix, which ranking, how many sensors) is the one obtained by
   configuring a never-fitted model with the user's settings [reset s] and fitting it once on the data of the last fit
   with the last seed.  No side condition: since the repair of the Identity default (fix commit, known_findings.json)
   nothing in the model is frozen by an earlier fit. *)
Theorem C15_refit_fresh : forall b bm o v s0 h s es r,
  ctor b bm o v = inl s0 -> run s0 h = (s, es) -> Forall (eq None) es -> ranked s = Some r ->
  exists s', fit (reset s) (bt_data (mt_basis (rt_mat r))) (rt_seed r) = (s', None) /\ obs s' = obs s.
Proof. exact refit_fresh. Qed.
Print Assumptions C15_refit_fresh.

(* the history that used to refute the statement (Identity() fitted on 3 examples, then on 5) now ends in the state of a
   fresh model fitted on the 5 examples *)
Theorem C15_identity_default_recomputed :
  exists s0 s es s', ctor Identity None OQR VNone = inl s0 /\ run s0 [Fit dA None; Fit dB None] = (s, es) /\
    Forall (eq None) es /\ fit s0 dB None = (s', None) /\ obs s' = obs s.
Proof. exact identity_default_recomputed. Qed.
Print Assumptions C15_identity_default_recomputed.

(* update_n_basis_modes(k), k no larger than the fitted basis: re-ranks on the first k modes of the SAME basis *)
Theorem C15_update_modes_keeps_basis : forall s k tk avail s',
  b_fit (basis s) = Some tk -> b_modes (basis s) = Some avail -> k <= avail -> 0 < k ->
  update_n_basis_modes s (VInt (Z.of_nat k)) None = (s', None) ->
  basis s' = basis s /\ basis_matrix s' = Some {| mt_basis := tk; mt_k := k |} /\
  exists r, ranked s' = Some r /\ rt_mat r = {| mt_basis := tk; mt_k := k |} /\ rt_opt r = opt s.
Proof. exact update_modes_keeps_basis. Qed.
Print Assumptions C15_update_modes_keeps_basis.

(* non-vacuity: a history with refits on data of different widths and a mode update meets all hypotheses *)
Example C15_example :
  let d1 := {| d_id := 1; d_rows := 5; d_width := 6 |} in
  let d2 := {| d_id := 2; d_rows := 5; d_width := 9 |} in
  exists s0 s es, ctor SVD (Some 3) (OCCQR None) VNone = inl s0 /\
    run s0 [Fit d1 (Some 1); Fit d2 None; UpdModes (VInt 2) None; SetN (VInt 4); Fit d1 (Some 7)] = (s, es) /\
    Forall (eq None) es /\ n_sensors s = Some 4 /\ n_basis_modes s = Some 2.
Proof. do 3 eexists. split; [reflexivity|]. split; [vm_compute; reflexivity|]. split; [repeat constructor|]. split; reflexivity. Qed.
