(* C08 - classification sensors are the top-magnitude sensors, or those above threshold.
   Model: Class/Select.v (exact integer magnitudes = scaled doubles). *)
From Coq Require Import List Arith ZArith Bool.
Import ListNotations.
From PS Require Import Sel.Perm Class.Select Class.SelectProofs.
Open Scope Z_scope.

(* threshold mode selects EXACTLY the sensors whose magnitude is at least the threshold *)
Theorem C08_thr_exact : forall t m i, In i (above_thr t m) <-> (i < length m)%nat /\ t <= mag m i.
Proof. exact thr_exact. Qed.
Print Assumptions C08_thr_exact.

(* raising the threshold can only remove sensors *)
Theorem C08_thr_antitone : forall t1 t2 m, t1 <= t2 -> incl (above_thr t2 m) (above_thr t1 m).
Proof. exact thr_antitone. Qed.
Print Assumptions C08_thr_antitone.

(* threshold 0 selects every sensor (magnitudes are absolute values) *)
Theorem C08_thr0_all : forall m, (forall i, 0 <= mag m i) -> above_thr 0 m = seq 0 (length m).
Proof. exact thr0_all. Qed.
Print Assumptions C08_thr0_all.

(* the checker run on every observed top-n selection is sound for the specification: n distinct valid sensors, listed
   in non-increasing magnitude, every selected one at least as large as every unselected one *)
Theorem C08_check_topk_sound : forall m sel k, check_topk m sel k = true -> topk_spec m sel k.
Proof. exact check_topk_sound. Qed.
Print Assumptions C08_check_topk_sound.

(* a smaller n_sensors yields a prefix of a larger one *)
Theorem C08_topk_prefix : forall m sel k1 k2, topk_spec m sel k2 -> (k1 <= k2)%nat -> topk_spec m (firstn k1 sel) k1.
Proof. exact topk_prefix. Qed.
Print Assumptions C08_topk_prefix.

(* after any sequence of update_sensors calls the stored n_sensors equals the number of selected sensors *)
Theorem C08_count_consistent : forall m (h : list (request * sel_state)),
  Forall (fun p => valid_update m (fst p) (snd p)) h ->
  Forall (fun p => st_n_sensors (snd p) = length (st_selected (snd p))) h.
Proof. exact count_consistent_history. Qed.
Print Assumptions C08_count_consistent.

Theorem C08_check_thr_sound : forall t m sel, check_thr t m sel = true -> sel = above_thr t m.
Proof. exact check_thr_sound. Qed.
Print Assumptions C08_check_thr_sound.

Example C08_example :
  check_topk [5; 0; 9; 5; 2] [2; 3; 0]%nat 3 = true /\ check_topk [5; 0; 9; 5; 2] [2; 0; 3]%nat 3 = true /\
  check_topk [5; 0; 9; 5; 2] [2; 4; 0]%nat 3 = false /\ above_thr 5 [5; 0; 9; 5; 2] = [0; 2; 3]%nat.
Proof. repeat split. Qed.
