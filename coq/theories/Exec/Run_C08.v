From Coq Require Import List Arith ZArith Bool.
Import ListNotations.
From PS Require Import Sel.Perm Class.Select.
Open Scope Z_scope.

(* one observed update_sensors call.  mode 0: by count k ; mode 1: by threshold t.
   m: the magnitudes numpy computed; sel: selected_sensors; ns: the stored n_sensors afterwards *)
Definition case_count (m : list Z) (k : nat) (sel : list nat) (ns : nat) : nat :=
  ((if check_topk m sel k then 0 else 1) + (if Nat.eqb ns (length sel) then 0 else 2))%nat.
Definition case_thr (m : list Z) (t : Z) (sel : list nat) (ns : nat) : nat :=
  ((if check_thr t m sel then 0 else 1) + (if Nat.eqb ns (length sel) then 0 else 2))%nat.
(* aggregation of one coefficient row *)
Definition case_agg (me : method) (rows : list (list Z)) (obs : list Z) (tol : Z) : nat :=
  if forallb (fun p => check_agg me (fst p) (snd p) tol) (combine rows obs) && Nat.eqb (length rows) (length obs) then 0%nat else 1%nat.
Definition case_default (coefs : list Z) (r c thr tol2 : Z) : nat :=
  if check_default_thr coefs r c thr tol2 then 0%nat else 1%nat.
