(* Runners for C05 / C06: the norm_calc transcription evaluated directly, and the abstract GQR / CCQR loop driven by
   a table of observed residual norms (table[j][c] = norm of sensor c at step j, as an exact scaled integer). *)
From Coq Require Import List Arith ZArith Bool.
Import ListNotations.
From PS Require Import Sel.Argmax Sel.Greedy Sel.NormCalc.

Definition G (L A : list nat) (ns : option nat) (s : nat) : settings :=
  {| lin_idx := L; all_sensors := A; n_sensors := ns; n_const := s |}.

Definition permits (o : option_name) (g : settings) (j : nat) (cands : list nat) : list bool :=
  map (permit_of o g j) cands.

Definition key_of_table (table : list (list Z)) (rk : list nat) (c : nat) : Z :=
  nth c (nth (length rk) table []) 0%Z.

Definition gqr_pivots (o : option_name) (g : settings) (n k : nat) (table : list (list Z)) : list nat :=
  pivots (run (dv_gqr (key_of_table table) (permit_of o g)) k (init n)).

Definition ccqr_pivots (costs : list Z) (n k : nat) (table : list (list Z)) : list nat :=
  pivots (run (dv_ccqr (key_of_table table) (fun c => nth c costs 0%Z)) k (init n)).
