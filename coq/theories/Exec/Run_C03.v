From Coq Require Import List Arith QArith Qcanon Bool.
Import ListNotations.
From PS Require Import LA.Sums LA.Gram LA.SqrtCmp LA.Ccqr.
Open Scope Qc_scope.

(* deterministic model ranking, follow-mode verdict with tolerance, follow-mode verdict exact *)
Definition case_c03 (rho tau : Qc) (n k : nat) (G : fmat) (picks : list nat) : list nat * nat * nat :=
  let d := follow n (memo n G) picks in
  (firstn k (gram_greedy n k G),
   if check_follow rho tau d picks [] then 1%nat else 0%nat,
   if check_follow 0 0 d picks [] then 1%nat else 0%nat).

(* C04: deterministic CCQR model ranking and the exact squared residuals seen along the OBSERVED picks
   (numerator, denominator pairs) so that the harness can judge near-ties of sqrt(d) - cost *)
Definition qpair (x : Qc) : Z * positive := (Qnum (this x), Qden (this x)).
Definition case_c04 (n k : nat) (costs : list Qc) (G : fmat) (picks : list nat) : list nat * list (list (Z * positive)) :=
  (firstn k (ccqr_gram n k (cost_of_list costs) G), map (map qpair) (follow n (memo n G) picks)).
