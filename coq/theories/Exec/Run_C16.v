From Coq Require Import List Arith Bool.
Import ListNotations.
From PS Require Import Sel.Perm.

(* r: optimizer output for the stored basis matrix; t1, t2: what Generator(seed_i).permutation returned for
   skipn m r; a1, a2: SSPOR.all_sensors for seeds 1, 2; a1': a second fit with seed 1 *)
Definition case_seed (m : nat) (r t1 t2 a1 a2 a1' : list nat) : nat :=
  (if list_eqb (shuffle_tail m r t1) a1 then 0 else 1) +
  (if list_eqb (shuffle_tail m r t2) a2 then 0 else 2) +
  (if list_eqb (firstn m a1) (firstn m a2) then 0 else 4) +
  (if same_multiset (skipn m a1) (skipn m a2) then 0 else 8) +
  (if list_eqb a1 a1' then 0 else 16) +
  (if same_multiset (skipn m r) t1 && same_multiset (skipn m r) t2 then 0 else 32).
