(* Runner for the SSPOR token machine: used by the correspondence checks of C14, C15 and C19. *)
From Coq Require Import List Arith ZArith Bool.
Import ListNotations.
From PS Require Import Recon.SSPOR.

Definition D (i r w : nat) : data := {| d_id := i; d_rows := r; d_width := w |}.

Fixpoint run_codes (s : sspor) (h : list op) : list (nat * list (list nat)) :=
  match h with
  | [] => []
  | o :: t => let (s1, e) := step s o in (err_code e, state_code s1) :: run_codes s1 t
  end.

(* a whole case: constructor arguments, then the history.  A rejected constructor yields [(code, [])] *)
Definition run_case (b : bkind) (bm : option nat) (o : ocfg) (v : pyval) (h : list op) : list (nat * list (list nat)) :=
  match ctor b bm o v with
  | inr e => [(err_code (Some e), [])]
  | inl s0 => (0, state_code s0) :: run_codes s0 h
  end.
