(* Runners evaluated by the correspondence check of C01 (and C16): the executable definitions the
   theorems of Properties/C01.v are about, applied to what the implementation was observed to do. *)
From Coq Require Import List Arith Bool.
Import ListNotations.
From PS Require Import Sel.Perm.

(* optimizer level: replaying the swaps implied by the first k entries of the observed ranking must
   reproduce the whole observed ranking; the ranking must pass the permutation checker *)
Definition case_opt (n : nat) (lead full : list nat) : nat :=
  match replay n lead with
  | Some p => (if list_eqb p full then 0 else 1) + (if is_perm_of_range n full then 0 else 2)
  | None => 4
  end.

(* SSPOR level: r = what the optimizer returned for the stored basis matrix, tail' = what the random
   generator returned for skipn m r, all = SSPOR.all_sensors, sel = SSPOR.selected_sensors *)
Definition case_sspor (n m : nat) (r tail' all : list nat) (ns : nat) (sel : list nat) : nat :=
  (if list_eqb (shuffle_tail m r tail') all then 0 else 1) +
  (if same_multiset (skipn m r) tail' then 0 else 2) +
  (if list_eqb (selected ns all) sel then 0 else 4) +
  (if is_perm_of_range n all then 0 else 8) +
  (if nodupb sel && forallb (fun i => Nat.ltb i n) sel && Nat.eqb (length sel) ns then 0 else 16).

(* SSPOC level: the selection is a duplicate-free list of valid indices of the reported length *)
Definition case_sspoc (n ns : nat) (sel : list nat) : nat :=
  (if nodupb sel then 0 else 1) + (if forallb (fun i => Nat.ltb i n) sel then 0 else 2) +
  (if Nat.eqb (length sel) ns then 0 else 4).
