(* Sensor selection of SSPOC.update_sensors (model, executable).  Magnitudes are exact: every double is k * 2^-e,
   the harness scales all numbers of one case by a common power of two, so they are integers here.
   Source: pysensors/classification/_sspoc.py 372-422 (selection), 262-268 (default threshold). *)
From Coq Require Import List Arith ZArith Bool Lia.
Import ListNotations.
From PS Require Import Sel.Perm.
Open Scope Z_scope.

Definition mag (m : list Z) (i : nat) : Z := nth i m 0.

(* threshold mode: np.nonzero(magnitude >= threshold)[0]  - indices in increasing order *)
Definition above_thr (t : Z) (m : list Z) : list nat :=
  filter (fun i => t <=? mag m i) (seq 0 (length m)).

(* top-n mode: argsort(-magnitude)[:n].  numpy's argsort is not stable, so the model is the relational
   specification, decided by this checker on the observed selection. *)
Fixpoint nonincreasing (m : list Z) (sel : list nat) : bool :=
  match sel with
  | [] => true
  | i :: rest => match rest with [] => true | j :: _ => (mag m j <=? mag m i) && nonincreasing m rest end
  end.

Definition check_topk (m : list Z) (sel : list nat) (k : nat) : bool :=
  Nat.eqb (length sel) k && nodupb sel && forallb (fun i => Nat.ltb i (length m)) sel &&
  nonincreasing m sel &&
  forallb (fun j => existsb (Nat.eqb j) sel ||
                    forallb (fun i => mag m j <=? mag m i) sel) (seq 0 (length m)).

Definition check_thr (t : Z) (m : list Z) (sel : list nat) : bool := list_eqb (above_thr t m) sel.

(* the state of the two settings after update_sensors (n_sensors given => threshold ignored) *)
Inductive request := ByCount (k : nat) | ByThreshold (t : Z).
Record sel_state := { st_n_sensors : nat; st_threshold : option Z; st_selected : list nat }.

(* aggregation across classes, checked against numpy's result (exact for max/min/median-of-odd, within one unit in
   the last place of the scaled representation for mean and even medians) *)
Inductive method := MMax | MMin | MMean | MMedian.
Definition zabs_row (r : list Z) := map Z.abs r.
Definition zmax (l : list Z) := fold_right Z.max 0 l.
Definition zmin (l : list Z) := match l with [] => 0 | x :: t => fold_right Z.min x t end.
Definition zsum (l : list Z) := fold_right Z.add 0 l.
Fixpoint insert (x : Z) (l : list Z) := match l with [] => [x] | y :: t => if x <=? y then x :: l else y :: insert x t end.
Definition zsort (l : list Z) := fold_right insert [] l.
(* [obs] is the aggregate numpy returned, on the same scale; tol in scaled units *)
Definition check_agg (me : method) (row : list Z) (obs tol : Z) : bool :=
  let a := zabs_row row in
  let c := Z.of_nat (length a) in
  match me with
  | MMax => obs =? zmax a
  | MMin => obs =? zmin a
  | MMean => Z.abs (c * obs - zsum a) <=? c * tol
  | MMedian => let s := zsort a in
               let n := length s in
               if Nat.even n then Z.abs (2 * obs - (nth (n / 2 - 1) s 0 + nth (n / 2) s 0)) <=? 2 * tol
               else obs =? nth (n / 2) s 0
  end.

(* documented default threshold ||s||_F / (2 r c), decided on squares: |thr^2 (2rc)^2 - sum s^2| <= tol2 *)
Definition check_default_thr (coefs : list Z) (r c : Z) (thr tol2 : Z) : bool :=
  Z.abs (thr * thr * (2 * r * c) * (2 * r * c) - zsum (map (fun x => x * x) coefs)) <=? tol2.
