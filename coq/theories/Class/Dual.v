(* C10, multiclass clause: weak duality for the group-lasso (MultiTaskLasso) objective over the reals.
     f(S, b) = 1/(2r) * sum_{i<r, c<C} (W_ic - (Psi S)_ic - b_c)^2  +  alpha * sum_{j<n} sqrt (sum_c S_jc^2)
   For every dual-feasible theta (column sums zero, || (Psi^T theta)_j || <= alpha for every sensor j)
     D(theta) = <theta, W> - r/2 * ||theta||^2  <=  f(S, b)        for ALL real S, b.
   Hence a returned S whose objective is at most D(theta) + gap minimises the objective up to gap - a certificate that
   is checked per case on the exact rational values of the floats (Class/DualCheck.v). *)
From Coq Require Import Reals Lra Lia Arith.
Open Scope R_scope.

Fixpoint rsum (n : nat) (f : nat -> R) : R := match n with O => 0 | S k => rsum k f + f k end.

Lemma rsum_ext n f g : (forall i, (i < n)%nat -> f i = g i) -> rsum n f = rsum n g.
Proof. induction n; simpl; intros H; auto. rewrite IHn, H; auto. Qed.
Lemma rsum_add n f g : rsum n (fun i => f i + g i) = rsum n f + rsum n g.
Proof. induction n; simpl; [lra|rewrite IHn; lra]. Qed.
Lemma rsum_sub n f g : rsum n (fun i => f i - g i) = rsum n f - rsum n g.
Proof. induction n; simpl; [lra|rewrite IHn; lra]. Qed.
Lemma rsum_scale n c f : rsum n (fun i => c * f i) = c * rsum n f.
Proof. induction n; simpl; [lra|rewrite IHn; lra]. Qed.
Lemma rsum_scale_r n c f : rsum n (fun i => f i * c) = rsum n f * c.
Proof. induction n; simpl; [lra|rewrite IHn; lra]. Qed.
Lemma rsum_zero n f : (forall i, (i < n)%nat -> f i = 0) -> rsum n f = 0.
Proof. induction n; simpl; intros H; auto. rewrite IHn, H; auto. lra. Qed.
Lemma rsum_le n f g : (forall i, (i < n)%nat -> f i <= g i) -> rsum n f <= rsum n g.
Proof. induction n; simpl; intros H; [lra|]. assert (rsum n f <= rsum n g) by (apply IHn; auto). specialize (H n ltac:(lia)). lra. Qed.
Lemma rsum_nonneg n f : (forall i, (i < n)%nat -> 0 <= f i) -> 0 <= rsum n f.
Proof. intro H. replace 0 with (rsum n (fun _ => 0)) by (apply rsum_zero; auto). now apply rsum_le. Qed.
Lemma rsum_swap n m (f : nat -> nat -> R) : rsum n (fun i => rsum m (fun j => f i j)) = rsum m (fun j => rsum n (fun i => f i j)).
Proof.
  induction n; simpl.
  - symmetry. apply rsum_zero. auto.
  - rewrite IHn, <- rsum_add. reflexivity.
Qed.
Lemma rsum_sq_zero n f : rsum n (fun i => f i * f i) = 0 -> forall i, (i < n)%nat -> f i = 0.
Proof.
  induction n; intros H i Hi; [lia|]. simpl in H.
  assert (A : 0 <= rsum n (fun i0 => f i0 * f i0)) by (apply rsum_nonneg; intros; nra).
  assert (B : 0 <= f n * f n) by nra.
  destruct (Nat.eq_dec i n) as [->|Hne]; [nra|]. apply IHn; [lra|lia].
Qed.

(* <x, g> <= alpha * ||x||  whenever ||g||^2 <= alpha^2 (Cauchy-Schwarz in the form that is needed) *)
Lemma dot_le_alpha_norm k (x g : nat -> R) alpha : 0 <= alpha ->
  rsum k (fun c => g c * g c) <= alpha * alpha ->
  rsum k (fun c => x c * g c) <= alpha * sqrt (rsum k (fun c => x c * x c)).
Proof.
  intros Ha Hg.
  set (X := rsum k (fun c => x c * x c)). set (G := rsum k (fun c => g c * g c)) in *. set (P := rsum k (fun c => x c * g c)).
  assert (HX : 0 <= X) by (apply rsum_nonneg; intros; nra).
  assert (HG : 0 <= G) by (apply rsum_nonneg; intros; nra).
  destruct (Req_dec X 0) as [Z|NZ].
  - (* x = 0 *)
    assert (Hz : forall c, (c < k)%nat -> x c = 0) by (apply rsum_sq_zero; exact Z).
    unfold P. rewrite (rsum_zero k (fun c => x c * g c)) by (intros; rewrite Hz by auto; lra).
    rewrite Z, sqrt_0. lra.
  - set (s := sqrt X). assert (Hs : 0 < s) by (apply sqrt_lt_R0; lra).
    assert (Hss : s * s = X) by (apply sqrt_sqrt; lra).
    (* sum (t x - g)^2 >= 0 for every t *)
    assert (Q : forall t, 0 <= t * t * X - 2 * t * P + G).
    { intro t. replace (t * t * X - 2 * t * P + G) with (rsum k (fun c => (t * x c - g c) * (t * x c - g c))).
      - apply rsum_nonneg. intros c Hc. apply (Rle_0_sqr (t * x c - g c)).
      - unfold X, P, G. rewrite <- !rsum_scale, <- rsum_sub, <- rsum_add. apply rsum_ext. intros; ring. }
    destruct (Req_dec alpha 0) as [A0|AN].
    + (* alpha = 0: g = 0 *)
      subst alpha. assert (G = 0) by lra.
      assert (Hz : forall c, (c < k)%nat -> g c = 0) by (apply rsum_sq_zero; exact H).
      unfold P. rewrite (rsum_zero k (fun c => x c * g c)) by (intros; rewrite Hz by auto; lra). lra.
    + assert (Hap : 0 < alpha) by lra.
      specialize (Q (alpha / s)).
      assert (E : alpha / s * (alpha / s) * X = alpha * alpha).
      { unfold Rdiv. rewrite <- Hss. field. lra. }
      rewrite E in Q.
      (* 2 (alpha/s) P <= alpha^2 + G <= 2 alpha^2 *)
      assert (H2 : 2 * (alpha / s) * P <= 2 * alpha * alpha) by lra.
      assert (H3 : P / s <= alpha).
      { unfold Rdiv in *. assert (alpha * (/ s * P) <= alpha * alpha) by lra.
        apply Rmult_le_reg_l with alpha; [exact Hap|]. lra. }
      fold s. unfold Rdiv in H3.
      assert (P <= alpha * s).
      { apply Rmult_le_reg_r with (/ s); [apply Rinv_0_lt_compat; exact Hs|].
        replace (alpha * s * / s) with alpha by (field; lra). exact H3. }
      exact H.
Qed.

Section WeakDuality.
Variables r n C : nat.
Variable Psi : nat -> nat -> R.        (* r x n : rows = basis modes, columns = sensors *)
Variable W : nat -> nat -> R.          (* r x C *)
Variable alpha : R.
Hypothesis r_pos : (0 < r)%nat.
Hypothesis alpha_nonneg : 0 <= alpha.
Let rr := INR r.

Definition resid (S : nat -> nat -> R) (b : nat -> R) (i c : nat) : R := W i c - rsum n (fun j => Psi i j * S j c) - b c.
Definition sq_loss S b : R := rsum r (fun i => rsum C (fun c => resid S b i c * resid S b i c)).
Definition rownorm (S : nat -> nat -> R) (j : nat) : R := sqrt (rsum C (fun c => S j c * S j c)).
Definition objective S b : R := / (2 * rr) * sq_loss S b + alpha * rsum n (rownorm S).

Definition dual (theta : nat -> nat -> R) : R :=
  rsum r (fun i => rsum C (fun c => theta i c * W i c)) - rr / 2 * rsum r (fun i => rsum C (fun c => theta i c * theta i c)).
Definition back (theta : nat -> nat -> R) (j c : nat) : R := rsum r (fun i => Psi i j * theta i c).     (* (Psi^T theta)_jc *)
Definition feasible (theta : nat -> nat -> R) : Prop :=
  (forall c, (c < C)%nat -> rsum r (fun i => theta i c) = 0) /\
  (forall j, (j < n)%nat -> rsum C (fun c => back theta j c * back theta j c) <= alpha * alpha).

Theorem weak_duality theta : feasible theta -> forall S b, dual theta <= objective S b.
Proof.
  intros [Hcol Hball] S b.
  assert (Hrr : 0 < rr) by (unfold rr; apply lt_0_INR; exact r_pos).
  (* Young: v^2/(2r) >= theta v - r theta^2 / 2, entry by entry *)
  assert (Y : rsum r (fun i => rsum C (fun c => theta i c * resid S b i c))
              - rr / 2 * rsum r (fun i => rsum C (fun c => theta i c * theta i c)) <= / (2 * rr) * sq_loss S b).
  { unfold sq_loss. rewrite <- !rsum_scale.
    rewrite <- rsum_sub. apply rsum_le. intros i Hi. rewrite <- !rsum_scale, <- rsum_sub. apply rsum_le. intros c Hc.
    set (v := resid S b i c). set (t := theta i c).
    assert (0 <= / (2 * rr) * ((v - rr * t) * (v - rr * t))).
    { apply Rmult_le_pos; [left; apply Rinv_0_lt_compat; lra|apply (Rle_0_sqr (v - rr * t))]. }
    replace (/ (2 * rr) * ((v - rr * t) * (v - rr * t))) with (/ (2 * rr) * (v * v) - t * v + rr / 2 * (t * t)) in H by (field; lra).
    lra. }
  (* <theta, resid> = <theta, W> - sum_j <S_j, back_j> - 0 *)
  assert (E : rsum r (fun i => rsum C (fun c => theta i c * resid S b i c)) =
              rsum r (fun i => rsum C (fun c => theta i c * W i c)) - rsum n (fun j => rsum C (fun c => S j c * back theta j c))).
  { unfold resid.
    rewrite (rsum_ext r _ (fun i => rsum C (fun c => theta i c * W i c) - rsum C (fun c => theta i c * rsum n (fun j => Psi i j * S j c))
                                    - rsum C (fun c => theta i c * b c))).
    2:{ intros i Hi. rewrite <- !rsum_sub. apply rsum_ext. intros; ring. }
    rewrite !rsum_sub.
    assert (Z : rsum r (fun i => rsum C (fun c => theta i c * b c)) = 0).
    { rewrite rsum_swap. apply rsum_zero. intros c Hc. rewrite rsum_scale_r, (Hcol c Hc). ring. }
    rewrite Z.
    assert (T : rsum r (fun i => rsum C (fun c => theta i c * rsum n (fun j => Psi i j * S j c))) =
                rsum n (fun j => rsum C (fun c => S j c * back theta j c))).
    { unfold back.
      rewrite (rsum_ext r _ (fun i => rsum C (fun c => rsum n (fun j => theta i c * (Psi i j * S j c))))).
      2:{ intros i Hi. apply rsum_ext. intros c Hc. now rewrite rsum_scale. }
      rewrite (rsum_ext r _ (fun i => rsum n (fun j => rsum C (fun c => theta i c * (Psi i j * S j c))))).
      2:{ intros i Hi. apply rsum_swap. }
      rewrite rsum_swap. apply rsum_ext. intros j Hj. rewrite rsum_swap. apply rsum_ext. intros c Hc.
      rewrite <- rsum_scale. apply rsum_ext. intros; ring. }
    rewrite T. ring. }
  (* <S_j, back_j> <= alpha ||S_j|| *)
  assert (CS : rsum n (fun j => rsum C (fun c => S j c * back theta j c)) <= alpha * rsum n (rownorm S)).
  { rewrite <- rsum_scale. apply rsum_le. intros j Hj. unfold rownorm. apply dot_le_alpha_norm; auto. }
  unfold dual, objective. lra.
Qed.

(* consequence used by the certificate: an objective value within [gap] of a dual value is within [gap] of every other *)
Corollary gap_certificate theta S b gap : feasible theta -> objective S b <= dual theta + gap ->
  forall S' b', objective S b <= objective S' b' + gap.
Proof. intros F H S' b'. pose proof (weak_duality theta F S' b'). lra. Qed.
End WeakDuality.
