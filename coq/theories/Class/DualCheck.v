(* C10, multiclass clause: an executable certificate checker over exact rationals for "the returned weight matrix
   minimises the group-lasso objective up to gap", sound for the REAL objective of Class/Dual.v (sqrt included). *)
From Coq Require Import List Arith Lia QArith Qcanon Bool Reals Qreals Lra.
Import ListNotations.
From PS Require Import LA.Sums LA.Gram LA.SqrtCmp LA.SqrtCmpProofs Class.Dual.

Notation qr := SqrtCmpProofs.r.

Section Check.
Variables r n C : nat.
Variables Psi W S theta : nat -> nat -> Qc.
Variables b u : nat -> Qc.
Variables alpha gap : Qc.

Definition rq : Qc := Q2Qc (inject_Z (Z.of_nat r)).
Definition residq (i c : nat) : Qc := (W i c - sum n (fun j => Psi i j * S j c) - b c)%Qc.
Definition sq_lossq : Qc := sum r (fun i => sum C (fun c => residq i c * residq i c))%Qc.
Definition backq (j c : nat) : Qc := sum r (fun i => Psi i j * theta i c)%Qc.
Definition TW : Qc := sum r (fun i => sum C (fun c => theta i c * W i c))%Qc.
Definition TT : Qc := sum r (fun i => sum C (fun c => theta i c * theta i c))%Qc.

Definition check_dual : bool :=
  (0 <? r)%nat && Qcleb 0 alpha &&
  forallb (fun c => if Qc_eq_dec (sum r (fun i => theta i c)) 0 then true else false) (seq 0 C) &&
  forallb (fun j => Qcleb (sum C (fun c => backq j c * backq j c))%Qc (alpha * alpha)%Qc) (seq 0 n) &&
  forallb (fun j => Qcleb 0 (u j) && Qcleb (sum C (fun c => S j c * S j c))%Qc (u j * u j)%Qc) (seq 0 n) &&
  Qcleb (sq_lossq + Q2Qc 2 * rq * alpha * sum n u)%Qc (Q2Qc 2 * rq * (TW + gap) - rq * rq * TT)%Qc.
End Check.

(* ------------------------------------------------------------------ bridging Qc sums to real sums *)
Lemma qr_sum k f : qr (sum k f) = rsum k (fun i => qr (f i)).
Proof. induction k; simpl; [apply r_0|]. now rewrite r_add, IHk. Qed.

Lemma qr_rq k : qr (rq k) = INR k.
Proof.
  unfold rq. rewrite r_Q2Qc. unfold Q2R. simpl. rewrite Rinv_1, Rmult_1_r. now rewrite <- INR_IZR_INZ.
Qed.

Lemma Qcleb_R x y : Qcleb x y = true -> (qr x <= qr y)%R.
Proof. unfold Qcleb. rewrite Qle_bool_iff. apply r_le. Qed.

Lemma qr_2 : qr (Q2Qc 2) = 2%R.
Proof. rewrite r_Q2Qc. unfold Q2R. simpl. lra. Qed.

Theorem check_dual_sound r n C Psi W S theta b u alpha gap :
  check_dual r n C Psi W S theta b u alpha gap = true ->
  let PsiR := fun i j => qr (Psi i j) in let WR := fun i c => qr (W i c) in
  let SR := fun j c => qr (S j c) in let bR := fun c => qr (b c) in
  forall S' b', (objective r n C PsiR WR (qr alpha) SR bR <= objective r n C PsiR WR (qr alpha) S' b' + qr gap)%R.
Proof.
  unfold check_dual. rewrite !andb_true_iff. intros (((((Hr & Ha) & Hcol) & Hball) & Hu) & Hgap). cbv zeta. intros S' b'.
  apply Nat.ltb_lt in Hr. apply Qcleb_R in Ha. rewrite r_0 in Ha.
  rewrite forallb_forall in Hcol, Hball, Hu.
  set (PsiR := fun i j => qr (Psi i j)). set (WR := fun i c => qr (W i c)). set (SR := fun j c => qr (S j c)).
  set (bR := fun c => qr (b c)). set (thR := fun i c => qr (theta i c)).
  assert (Hrr : (0 < INR r)%R) by (apply lt_0_INR; exact Hr).
  apply (gap_certificate r n C PsiR WR (qr alpha) Hr Ha thR SR bR (qr gap)).
  - (* dual feasibility *)
    split.
    + intros c Hc. specialize (Hcol c ltac:(apply in_seq; lia)). destruct (Qc_eq_dec _ 0) as [E|]; [|discriminate].
      apply (f_equal qr) in E. rewrite qr_sum, r_0 in E. exact E.
    + intros j Hj. specialize (Hball j ltac:(apply in_seq; lia)). apply Qcleb_R in Hball.
      rewrite qr_sum, r_mul in Hball. unfold back.
      erewrite rsum_ext; [exact Hball|]. intros c Hc. cbv beta. unfold backq. rewrite r_mul, qr_sum.
      f_equal; apply rsum_ext; intros i Hi; now rewrite r_mul.
  - (* the objective of the returned point is at most dual + gap *)
    apply Qcleb_R in Hgap.
    rewrite r_add, r_sub, !r_mul, r_add, qr_2, qr_rq in Hgap. rewrite qr_sum in Hgap.
    (* row norms are bounded by the rational upper bounds u_j *)
    assert (Hrow : (rsum n (rownorm C SR) <= rsum n (fun j => qr (u j)))%R).
    { apply rsum_le. intros j Hj. specialize (Hu j ltac:(apply in_seq; lia)). apply andb_true_iff in Hu. destruct Hu as [U0 U2].
      apply Qcleb_R in U0, U2. rewrite r_0 in U0. rewrite qr_sum, r_mul in U2. unfold rownorm.
      rewrite <- (sqrt_square (qr (u j))) by exact U0. apply sqrt_le_1_alt.
      erewrite rsum_ext; [exact U2|]. intros c Hc. cbv beta. unfold SR. now rewrite r_mul. }
    (* the rational quantities are the real ones *)
    assert (EL : qr (sq_lossq r n C Psi W S b) = sq_loss r n C PsiR WR SR bR).
    { unfold sq_lossq, sq_loss. rewrite qr_sum. apply rsum_ext. intros i Hi. rewrite qr_sum. apply rsum_ext. intros c Hc.
      rewrite r_mul. unfold residq, resid. rewrite !r_sub, qr_sum.
      assert (X : rsum n (fun j => qr (Psi i j * S j c)%Qc) = rsum n (fun j => (PsiR i j * SR j c)%R)) by (apply rsum_ext; intros; apply r_mul).
      rewrite X. reflexivity. }
    assert (ETW : qr (TW r C W theta) = rsum r (fun i => rsum C (fun c => (thR i c * WR i c)%R))).
    { unfold TW. rewrite qr_sum. apply rsum_ext. intros i Hi. rewrite qr_sum. apply rsum_ext. intros; apply r_mul. }
    assert (ETT : qr (TT r C theta) = rsum r (fun i => rsum C (fun c => (thR i c * thR i c)%R))).
    { unfold TT. rewrite qr_sum. apply rsum_ext. intros i Hi. rewrite qr_sum. apply rsum_ext. intros; apply r_mul. }
    rewrite EL, ETW, ETT in Hgap.
    unfold objective, dual.
    set (L := sq_loss r n C PsiR WR SR bR) in *.
    set (tw := rsum r (fun i => rsum C (fun c => (thR i c * WR i c)%R))) in *.
    set (tt := rsum r (fun i => rsum C (fun c => (thR i c * thR i c)%R))) in *.
    set (U := rsum n (fun j => qr (u j))) in *. set (N := rsum n (rownorm C SR)) in *.
    set (rr := INR r) in *. set (a := qr alpha) in *. set (g := qr gap) in *.
    assert (HaN : (a * N <= a * U)%R) by (apply Rmult_le_compat_l; assumption).
    (* divide the checked inequality by 2 rr > 0 *)
    assert (D : (/ (2 * rr) * L + a * U <= tw + g - rr / 2 * tt)%R).
    { apply Rmult_le_reg_l with (2 * rr)%R; [lra|].
      replace (2 * rr * (/ (2 * rr) * L + a * U))%R with (L + 2 * rr * a * U)%R by (field; lra).
      replace (2 * rr * (tw + g - rr / 2 * tt))%R with (2 * rr * (tw + g) - rr * rr * tt)%R by (field; lra).
      exact Hgap. }
    lra.
Qed.

(* list-based entry point for the cases files *)
Definition vec (l : list Qc) : nat -> Qc := fun j => nth j l 0%Qc.
Definition check_dual_lists (r n C : nat) (Psi W S theta : list (list Qc)) (b u : list Qc) (alpha gap : Qc) : bool :=
  check_dual r n C (of_rows Psi) (of_rows W) (of_rows S) (of_rows theta) (vec b) (vec u) alpha gap.
