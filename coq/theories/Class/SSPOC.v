(* Token machine for pysensors.classification.SSPOC (model, executable): which classifier object is inside
   self.classifier after a history of fit / update_sensors / update_n_basis_modes, and how predict dispatches.
   Source: _sspoc.py ctor 161-176, fit 178-283, predict 285-312, update_sensors 314-444, update_n_basis_modes 446-491.
   Numerical results are named by tokens; the number of sensors a threshold selects is an oracle answer carried by
   the operation ([cnt]), so that theorems hold for every possible answer. *)
From Coq Require Import List Arith Bool Lia.
Import ListNotations.

Record data := { d_id : nat; d_rows : nat; d_width : nat }.

(* everything the pipeline "basis -> Psi^-1 -> classifier on x.Psi^-T -> sparse weights s" depends on *)
Record ftok := { f_data : data;              (* data of this fit (classifier training, labels) *)
                 f_bdata : data;             (* data the basis object was last fitted on *)
                 f_bmodes : option nat;      (* basis.n_basis_modes when the basis was fitted *)
                 f_nbm : option nat }.       (* SSPOC.n_basis_modes: rows of Psi^-1 in use *)
Inductive req := RCount (k : nat) | RThr (t : nat).      (* threshold identified by an id; 0 = the default *)
Record stok := { s_fit : ftok; s_req : req }.            (* a selection: which weights, which request *)
Inductive ctok := CBasis (f : ftok) | CCols (d : data) (s : stok).   (* what self.classifier was last trained on *)

(* b_default: no number of modes was configured by the user (constructor default, never assigned since): an Identity basis then
   takes all examples of the data of EVERY fit *)
Record basis_st := { b_identity : bool; b_modes : option nat; b_default : bool; b_fit : option (data * option nat) }.

Record sspoc := {
  basis : basis_st;
  refit_ : bool;
  clf : option ctok;
  n_sensors : option nat;        (* attribute n_sensors *)
  threshold : option nat;        (* attribute threshold (id) *)
  nbm : option nat;              (* attribute n_basis_modes *)
  fitted : option ftok;          (* sensor_coef_ / basis_matrix_inverse_ come from this fit *)
  sel : option stok;             (* sparse_sensors_ *)
  dummy : option data            (* dummy_ was fitted on the labels of this data *)
}.

Definition ctor (ident : bool) (bmodes : option nat) (ns : option nat) (thr : option nat) : sspoc :=
  {| basis := {| b_identity := ident; b_modes := bmodes; b_default := match bmodes with None => true | Some _ => false end; b_fit := None |}; refit_ := false; clf := None; n_sensors := ns; threshold := thr;
     nbm := None; fitted := None; sel := None; dummy := None |}.

Inductive err := ValueError | NotFittedError.

(* update_sensors(n_sensors=nreq, threshold=treq, xy=xy); [cnt] = number of sensors the threshold selects *)
Definition update_sensors (s : sspoc) (nreq : option nat) (treq : option nat) (xy : option data) (cnt : nat)
  : sspoc * option err :=
  match fitted s with
  | None => (s, Some NotFittedError)
  | Some f =>
      let decided :=
        match nreq, treq with
        | None, None => None
        | Some k, _ => if d_width (f_data f) <? k then None else Some (Some k, threshold s, {| s_fit := f; s_req := RCount k |}, k)
        | None, Some t => Some (Some cnt, Some t, {| s_fit := f; s_req := RThr t |}, cnt)
        end in
      (* refit data of another width than the fitted weights are rejected before anything is decided (fix 63dea7e) *)
      let xy_ok := match xy with Some d => Nat.eqb (d_width d) (d_width (f_data f)) | None => true end in
      match (if xy_ok then decided else None) with
      | None => (s, Some ValueError)
      | Some (ns, th, st, count) =>
          let s1 := {| basis := basis s; refit_ := refit_ s; clf := clf s; n_sensors := ns; threshold := th; nbm := nbm s;
                       fitted := fitted s; sel := Some st; dummy := dummy s |} in
          match xy with
          | Some d => if 0 <? count
                      then ({| basis := basis s1; refit_ := true; clf := Some (CCols d st); n_sensors := ns; threshold := th;
                               nbm := nbm s; fitted := fitted s; sel := Some st; dummy := dummy s |}, None)
                      else (s1, None)
          | None => (s1, None)
          end
      end
  end.

(* fit(x, y, prefit_basis, refit).  The basis keeps its own n_basis_modes (SVD / RandomProjection / Identity(k)). *)
Definition fit (s : sspoc) (d : data) (prefit refit : bool) (cnt : nat) : sspoc * option err :=
  (* basis.fit(x): Identity() with the default setting takes all examples of THIS data *)
  let bm' := if b_default (basis s) then Some (d_rows d) else b_modes (basis s) in
  let b := if prefit then basis s
           else {| b_identity := b_identity (basis s); b_modes := bm'; b_default := b_default (basis s); b_fit := Some (d, bm') |} in
  (* Identity.fit rejects data with fewer examples than a user-chosen n_basis_modes *)
  let too_few := negb prefit && b_identity (basis s) && negb (b_default (basis s)) &&
                 match b_modes (basis s) with Some k => d_rows d <? k | None => false end in
  if too_few then (s, Some ValueError) else
  match b_fit b with
  | None => (s, Some NotFittedError)
  | Some (bd, bm) =>
      (* matrix_inverse(n_basis_modes = self.n_basis_modes): bound check *)
      let ok := match nbm s, b_modes b with
                | Some k, Some avail => k <=? avail
                | Some _, None => false
                | None, _ => true end in
      if negb ok then ({| basis := b; refit_ := refit_ s; clf := clf s; n_sensors := n_sensors s; threshold := threshold s;
                          nbm := nbm s; fitted := fitted s; sel := sel s; dummy := dummy s |}, Some ValueError)
      else
        let f := {| f_data := d; f_bdata := bd; f_bmodes := bm; f_nbm := nbm s |} in
        (* the classifier is trained on the basis coordinates: it no longer expects sensor columns *)
        let s1 := {| basis := b; refit_ := false; clf := Some (CBasis f); n_sensors := n_sensors s; threshold := threshold s;
                     nbm := nbm s; fitted := Some f; sel := None; dummy := dummy s |} in
        let thr := match threshold s with Some t => t | None => 0 end in
        let (s2, e) := update_sensors s1 (n_sensors s) (Some thr) (if refit then Some d else None) cnt in
        match e with
        | Some _ => (s2, e)
        | None => ({| basis := basis s2; refit_ := refit_ s2; clf := clf s2; n_sensors := n_sensors s2; threshold := threshold s2;
                      nbm := nbm s2; fitted := fitted s2; sel := sel s2; dummy := Some d |}, None)
        end
  end.

Definition update_n_basis_modes (s : sspoc) (k : nat) (d : data) (refit : bool) (cnt : nat) : sspoc * option err :=
  if k =? 0 then (s, Some ValueError) else
  let have := match b_fit (basis s), b_modes (basis s) with Some _, Some avail => k <=? avail | _, _ => false end in
  let setk (s : sspoc) (b : basis_st) :=
    {| basis := b; refit_ := refit_ s; clf := clf s; n_sensors := n_sensors s; threshold := threshold s; nbm := Some k;
       fitted := fitted s; sel := sel s; dummy := dummy s |} in
  if have then fit (setk s (basis s)) d true refit cnt
  else if d_rows d <? k then (s, Some ValueError)
  else fit (setk s {| b_identity := b_identity (basis s); b_modes := Some k; b_default := false; b_fit := b_fit (basis s) |}) d false refit cnt.

(* ---------- predict ---------- *)
Inductive input := AtSensors | FullState.
Inductive ptok :=
  | PDummy (d : data)                  (* dummy classifier fitted on the labels of d *)
  | PDirect (c : ctok)                 (* classifier applied to the input as given *)
  | PViaBasis (c : ctok) (f : ftok)    (* classifier applied to input . Psi^-T of fit f *)
  | PNotFitted.
Definition predict (s : sspoc) : ptok :=
  match fitted s, clf s with
  | Some f, Some c =>
      match n_sensors s with
      | Some 0 => match dummy s with Some d => PDummy d | None => PNotFitted end
      | _ => if refit_ s then PDirect c else PViaBasis c f
      end
  | _, _ => PNotFitted
  end.

(* ---------- histories ---------- *)
Inductive op :=
  | Fit (d : data) (refit : bool) (cnt : nat)
  | Upd (nreq : option nat) (treq : option nat) (xy : option data) (cnt : nat)
  | UpdModes (k : nat) (d : data) (refit : bool) (cnt : nat).
Definition step (s : sspoc) (o : op) : sspoc * option err :=
  match o with
  | Fit d r c => fit s d false r c
  | Upd n t xy c => update_sensors s n t xy c
  | UpdModes k d r c => update_n_basis_modes s k d r c
  end.
Fixpoint run (s : sspoc) (h : list op) : sspoc :=
  match h with [] => s | o :: t => run (fst (step s o)) t end.

(* ---------- encodings for the correspondence runner ---------- *)
Definition on (o : option nat) : nat := match o with None => 0 | Some n => S n end.
Definition ftok_code (f : ftok) : list nat := [d_id (f_data f); d_id (f_bdata f); on (f_bmodes f); on (f_nbm f)].
Definition req_code (r : req) : list nat := match r with RCount k => [0; k] | RThr t => [1; t] end.
Definition stok_code (s : stok) : list nat := ftok_code (s_fit s) ++ req_code (s_req s).
Definition ctok_code (c : ctok) : list nat :=
  match c with CBasis f => 0 :: ftok_code f | CCols d s => 1 :: d_id d :: stok_code s end.
Definition ptok_code (p : ptok) : list nat :=
  match p with
  | PDummy d => [0; d_id d]
  | PDirect c => 1 :: ctok_code c
  | PViaBasis c f => 2 :: ftok_code f ++ ctok_code c
  | PNotFitted => [3]
  end.
Definition err_code (e : option err) : nat := match e with None => 0 | Some ValueError => 1 | Some NotFittedError => 2 end.
Fixpoint run_codes (s : sspoc) (h : list op) : list (nat * list nat * list nat) :=
  match h with
  | [] => []
  | o :: t => let (s1, e) := step s o in
              (err_code e, ptok_code (predict s1), [on (n_sensors s1); (if refit_ s1 then 1 else 0)]) :: run_codes s1 t
  end.
