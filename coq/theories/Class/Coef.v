(* SSPOC sensor weights (model): glue of _sspoc.py 246-260 and utils/_optimizers.py around two sklearn solvers that are
   oracles with contracts.  Binary: OrthogonalMatchingPursuit(tol=0) on (Psi^-1, w): Psi^-1 s + b 1 = w with at most
   r = rows(Psi^-1) non-zero sensors.  Multiclass: MultiTaskLasso(alpha = l1_penalty) on (Psi^-1, W), result
   transposed: one row per sensor, one column per class. *)
From Coq Require Import List Arith QArith Qcanon Bool.
Import ListNotations.
From PS Require Import LA.Sums LA.Gram Basis.Basis.
Open Scope Qc_scope.

(* shapes of the glue.  classifier.coef_ : (1 x r) for two classes, (c x r) otherwise *)
Inductive cshape := CVec (len : nat) | CMat (rows cols : nat).
Definition squeeze_T (coef : cshape) : cshape :=
  match coef with
  | CMat 1 r => CVec r              (* np.squeeze(coef_).T : a vector stays a vector *)
  | CMat c r => CMat r c
  | v => v
  end.
(* s = solver(w, psi): binary -> coef_ of OMP (n features); multiclass -> coef_.T of MultiTaskLasso: (n x c) *)
Definition solve_shape (n_classes : nat) (psi_rows n_features : nat) (w : cshape) : option cshape :=
  if Nat.eqb n_classes 2
  then match w with CVec r => if Nat.eqb r psi_rows then Some (CVec n_features) else None | _ => None end
  else match w with CMat r c => if Nat.eqb r psi_rows then Some (CMat n_features c) else None | _ => None end.

(* binary contract, executable: |Psi^-1 s + b - w| <= tol entrywise and at most r non-zero entries *)
Definition nonzeros (s : list Qc) : nat := length (filter (fun v => negb (Qc_eq_bool v 0)) s).
Definition check_affine_fit (tol : Qc) (r n : nat) (psi : matrix) (s w : list Qc) (b : Qc) : bool :=
  forallb (fun i => close tol (sum n (fun j => mat_entry psi i j * nth j s 0) + b) (nth i w 0)) (seq 0 r) &&
  Nat.leb (nonzeros s) r && Nat.eqb (length s) n.

(* the group-lasso objective in squared-free form is not rational (row norms); the harness compares objective values in
   floating point.  What IS exact: rows of S reported as zero, and the data-fit part *)
Definition fit_sq (r n c : nat) (psi : matrix) (S W : matrix) (b : list Qc) : Qc :=
  sum r (fun i => sum c (fun k => let e := nth k (nth i W []) 0 - sum n (fun j => mat_entry psi i j * mat_entry S j k) - nth k b 0 in e * e)).
