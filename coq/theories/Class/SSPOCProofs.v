From Coq Require Import List Arith Bool Lia.
Import ListNotations.
From PS Require Import Class.SSPOC.

(* invariant: the dummy classifier belongs to the last fit; the flag refit_ says which kind of classifier is stored *)
Definition Inv (s : sspoc) : Prop :=
  match fitted s with
  | None => clf s = None
  | Some f =>
      dummy s = Some (f_data f) /\
      ((refit_ s = false /\ clf s = Some (CBasis f)) \/
       (refit_ s = true /\ exists d st, clf s = Some (CCols d st) /\ s_fit st = f))
  end.

Lemma inv_ctor i bm ns thr : Inv (ctor i bm ns thr).
Proof. reflexivity. Qed.

(* what a successful update_sensors with training data leaves behind *)
Lemma upd_shape s n t d cnt s' : update_sensors s n t (Some d) cnt = (s', None) ->
  exists f st count, fitted s = Some f /\ fitted s' = Some f /\ sel s' = Some st /\ s_fit st = f /\
    n_sensors s' = Some count /\ dummy s' = dummy s /\ basis s' = basis s /\ nbm s' = nbm s /\
    ((0 < count /\ clf s' = Some (CCols d st) /\ refit_ s' = true) \/
     (count = 0 /\ clf s' = clf s /\ refit_ s' = refit_ s)).
Proof.
  unfold update_sensors. destruct (fitted s) as [f|] eqn:Ef; [|discriminate]. cbv zeta.
  destruct (Nat.eqb (d_width d) (d_width (f_data f))); [|discriminate].
  destruct n as [k|]; [destruct (d_width (f_data f) <? k); [discriminate|]|destruct t as [t|]; [|discriminate]].
  - destruct (Nat.ltb_spec 0 k) as [L|L]; intros H; injection H as <-; simpl;
    exists f, {| s_fit := f; s_req := RCount k |}, k; repeat split; auto.
    right. repeat split; auto. lia.
  - destruct (Nat.ltb_spec 0 cnt) as [L|L]; intros H; injection H as <-; simpl;
    exists f, {| s_fit := f; s_req := RThr t |}, cnt; repeat split; auto.
    right. repeat split; auto. lia.
Qed.

Lemma upd_shape_noxy s n t cnt s' : update_sensors s n t None cnt = (s', None) ->
  exists f st count, fitted s = Some f /\ fitted s' = Some f /\ sel s' = Some st /\ s_fit st = f /\
    n_sensors s' = Some count /\ dummy s' = dummy s /\ basis s' = basis s /\ nbm s' = nbm s /\
    clf s' = clf s /\ refit_ s' = refit_ s.
Proof.
  unfold update_sensors. destruct (fitted s) as [f|] eqn:Ef; [|discriminate]. cbv zeta.
  destruct n as [k|]; [destruct (d_width (f_data f) <? k); [discriminate|]|destruct t as [t|]; [|discriminate]];
  intros H; injection H as <-; simpl; eexists; eexists; eexists; repeat split; eauto.
Qed.

(* what a successful fit leaves behind *)
Lemma fit_shape s d prefit refit cnt s' : fit s d prefit refit cnt = (s', None) ->
  exists f count, fitted s' = Some f /\ f_data f = d /\ f_nbm f = nbm s /\ dummy s' = Some d /\
    n_sensors s' = Some count /\ nbm s' = nbm s /\
    exists st, sel s' = Some st /\ s_fit st = f /\
    ((refit = true /\ 0 < count /\ clf s' = Some (CCols d st) /\ refit_ s' = true) \/
     ((refit = false \/ count = 0) /\ clf s' = Some (CBasis f) /\ refit_ s' = false)).
Proof.
  unfold fit.
  set (bm' := if b_default (basis s) then Some (d_rows d) else b_modes (basis s)).
  set (b := if prefit then basis s
            else {| b_identity := b_identity (basis s); b_modes := bm'; b_default := b_default (basis s); b_fit := Some (d, bm') |}).
  destruct (negb prefit && b_identity (basis s) && negb (b_default (basis s)) && _); [discriminate|].
  destruct (b_fit b) as [[bd bm]|]; [|discriminate].
  destruct (negb _); [discriminate|].
  set (f := {| f_data := d; f_bdata := bd; f_bmodes := bm; f_nbm := nbm s |}).
  set (s1 := {| basis := b; refit_ := false; clf := Some (CBasis f); n_sensors := n_sensors s; threshold := threshold s;
                nbm := nbm s; fitted := Some f; sel := None; dummy := dummy s |}).
  destruct refit.
  - destruct (update_sensors s1 (n_sensors s) (Some match threshold s with Some t => t | None => 0 end) (Some d) cnt) as [s2 e] eqn:E.
    destruct e; [discriminate|]. intros H; injection H as <-. simpl.
    destruct (upd_shape _ _ _ _ _ _ E) as (f' & st & count & F1 & F2 & S & SF & N & D & B & NB & X).
    simpl in F1. injection F1 as <-. exists f, count. repeat split; auto.
    exists st. repeat split; auto. destruct X as [(L & C & R)|(Z & C & R)]; [left|right]; repeat split; auto.
  - destruct (update_sensors s1 (n_sensors s) (Some match threshold s with Some t => t | None => 0 end) None cnt) as [s2 e] eqn:E.
    destruct e; [discriminate|]. intros H; injection H as <-. simpl.
    destruct (upd_shape_noxy _ _ _ _ _ E) as (f' & st & count & F1 & F2 & S & SF & N & D & B & NB & C & R).
    simpl in F1. injection F1 as <-. exists f, count. repeat split; auto.
    exists st. repeat split; auto.
Qed.

Lemma fit_inv s d prefit refit cnt s' : fit s d prefit refit cnt = (s', None) -> Inv s'.
Proof.
  intro H. destruct (fit_shape _ _ _ _ _ _ H) as (f & count & F & FD & _ & D & _ & _ & st & S & SF & X).
  unfold Inv. rewrite F. rewrite FD. split; auto.
  destruct X as [(_ & _ & C & R)|(_ & C & R)]; [right|left]; eauto.
Qed.

Lemma update_modes_fit s k d refit cnt s' : update_n_basis_modes s k d refit cnt = (s', None) ->
  exists s0 prefit, fit s0 d prefit refit cnt = (s', None) /\ nbm s0 = Some k.
Proof.
  unfold update_n_basis_modes. destruct (k =? 0); [discriminate|].
  destruct (match b_fit (basis s) with Some _ => match b_modes (basis s) with Some avail => k <=? avail | None => false end | None => false end).
  - intro H. eexists. exists true. split; [exact H|reflexivity].
  - destruct (d_rows d <? k); [discriminate|]. intro H. eexists. exists false. split; [exact H|reflexivity].
Qed.

Definition with_xy (o : op) : bool := match o with Upd _ _ None _ => false | _ => true end.

Theorem inv_step s o s' : Inv s -> step s o = (s', None) -> Inv s'.
Proof.
  intros HI H. destruct o as [d r c|n t xy c|k d r c]; simpl in H.
  - eapply fit_inv; eauto.
  - destruct xy as [d|].
    + destruct (upd_shape _ _ _ _ _ _ H) as (f & st & count & F1 & F2 & S & SF & N & D & B & NB & X).
      unfold Inv in *. rewrite F1 in HI. rewrite F2. destruct HI as [HD HC]. split; [congruence|].
      destruct X as [(L & C & R)|(Z & C & R)].
      * right. split; auto. exists d, st. auto.
      * rewrite C, R. exact HC.
    + destruct (upd_shape_noxy _ _ _ _ _ H) as (f & st & count & F1 & F2 & S & SF & N & D & B & NB & C & R).
      unfold Inv in *. rewrite F1 in HI. rewrite F2, C, R, D. exact HI.
  - destruct (update_modes_fit _ _ _ _ _ _ H) as (s0 & p & Hf & _). eapply fit_inv; eauto.
Qed.

Fixpoint run_ok (s : sspoc) (h : list op) : option sspoc :=
  match h with
  | [] => Some s
  | o :: t => match step s o with (s1, None) => run_ok s1 t | (_, Some _) => None end
  end.

Theorem inv_reachable i bm ns thr h s : run_ok (ctor i bm ns thr) h = Some s -> Inv s.
Proof.
  assert (G : forall h s0, Inv s0 -> run_ok s0 h = Some s -> Inv s).
  { induction h0 as [|o t IH]; intros s0 HI H; simpl in H; [injection H as <-; auto|].
    destruct (step s0 o) as [s1 [e|]] eqn:E; [discriminate|]. apply (IH s1); auto. eapply inv_step; eauto. }
  apply G. apply inv_ctor.
Qed.

(* ---- the classifier in use is the one produced by the most recent fit or update ---- *)
Definition expected_after (o : op) (s' : sspoc) : Prop :=
  match o with
  | Fit d true _ | Upd _ _ (Some d) _ | UpdModes _ d true _ =>
      (* refitted on the sensor columns of the data just given, for the CURRENT selection *)
      exists st, sel s' = Some st /\ fitted s' = Some (s_fit st) /\ predict s' = PDirect (CCols d st)
  | Fit d false _ | UpdModes _ d false _ =>
      (* trained on the basis coordinates of the data just given; full-state input goes through Psi^-T of THIS fit *)
      exists f, fitted s' = Some f /\ f_data f = d /\ predict s' = PViaBasis (CBasis f) f
  | Upd _ _ None _ => True
  end.

Theorem predict_after_step s o s' : Inv s -> step s o = (s', None) ->
  (n_sensors s' = Some 0 -> exists f, fitted s' = Some f /\ predict s' = PDummy (f_data f)) /\
  (n_sensors s' <> Some 0 -> n_sensors s' <> None /\ expected_after o s').
Proof.
  intros HI H.
  assert (FitCase : forall s0 d p r c, fit s0 d p r c = (s', None) ->
    (n_sensors s' = Some 0 -> exists f, fitted s' = Some f /\ predict s' = PDummy (f_data f)) /\
    (n_sensors s' <> Some 0 -> n_sensors s' <> None /\
       if r then exists st, sel s' = Some st /\ fitted s' = Some (s_fit st) /\ predict s' = PDirect (CCols d st)
       else exists f, fitted s' = Some f /\ f_data f = d /\ predict s' = PViaBasis (CBasis f) f)).
  { intros s0 d p r c Hf.
    destruct (fit_shape _ _ _ _ _ _ Hf) as (f & count & F & FD & _ & D & N & _ & st & S & SF & X).
    split.
    - intro Z. exists f. split; auto. unfold predict. rewrite F, Z, D, FD.
      destruct X as [(_ & _ & C & _)|(_ & C & _)]; rewrite C; reflexivity.
    - intro NZ. split; [congruence|]. rewrite N in NZ.
      assert (count <> 0) by congruence.
      destruct X as [(-> & L & C & R)|([->|Z] & C & R)]; try lia.
      + exists st. rewrite SF. repeat split; auto. unfold predict. rewrite F, C, N, R. destruct count; [lia|reflexivity].
      + exists f. repeat split; auto. unfold predict. rewrite F, C, N, R. destruct count; [lia|reflexivity]. }
  destruct o as [d r c|n t xy c|k d r c]; simpl in H.
  - destruct (FitCase _ _ _ _ _ H) as [A B]. split; [exact A|]. intro NZ. destruct (B NZ) as [B1 B2]. split; [exact B1|].
    simpl. destruct r; exact B2.
  - destruct xy as [d|].
    + destruct (upd_shape _ _ _ _ _ _ H) as (f & st & count & F1 & F2 & S & SF & N & D & B & NB & X).
      unfold Inv in HI. rewrite F1 in HI. destruct HI as [HD HC]. split.
      * intro Z. exists f. split; auto. unfold predict. rewrite F2, Z, D, HD.
        destruct X as [(L & C & R)|(Zc & C & R)]; [rewrite C; reflexivity|].
        rewrite C. destruct HC as [(_ & ->)|(_ & d0 & st0 & -> & _)]; reflexivity.
      * intro NZ. split; [congruence|]. rewrite N in NZ. simpl.
        destruct X as [(L & C & R)|(Zc & C & R)]; [|congruence].
        exists st. rewrite SF. repeat split; auto. unfold predict. rewrite F2, C, N, R. destruct count; [lia|reflexivity].
    + destruct (upd_shape_noxy _ _ _ _ _ H) as (f & st & count & F1 & F2 & S & SF & N & D & B & NB & C & R).
      unfold Inv in HI. rewrite F1 in HI. destruct HI as [HD HC]. split.
      * intro Z. exists f. split; auto. unfold predict. rewrite F2, Z, D, HD, C.
        destruct HC as [(_ & ->)|(_ & d0 & st0 & -> & _)]; reflexivity.
      * intro NZ. split; [congruence|]. simpl. exact I.
  - destruct (update_modes_fit _ _ _ _ _ _ H) as (s0 & p & Hf & _).
    destruct (FitCase _ _ _ _ _ Hf) as [A B]. split; [exact A|]. intro NZ. destruct (B NZ) as [B1 B2]. split; [exact B1|].
    simpl. destruct r; exact B2.
Qed.

(* a rejected update_sensors - unfitted model, no criterion, too many sensors, refit data of the wrong width - changes nothing *)
Theorem rejected_update_sensors_noop s n t xy cnt s' e : update_sensors s n t xy cnt = (s', Some e) -> s' = s.
Proof.
  unfold update_sensors. destruct (fitted s) as [f|]; [|intro H; injection H as <- _; reflexivity]. cbv zeta.
  destruct (match xy with Some d => Nat.eqb (d_width d) (d_width (f_data f)) | None => true end).
  - destruct n as [k|]; [destruct (d_width (f_data f) <? k)|destruct t as [t|]];
    try (intro H; injection H as <- _; reflexivity);
    destruct xy as [d|]; try destruct (0 <? _); intro H; discriminate H.
  - intro H; injection H as <- _; reflexivity.
Qed.
Theorem wrong_width_refit_rejected s f n t d cnt : fitted s = Some f -> d_width d <> d_width (f_data f) ->
  update_sensors s n t (Some d) cnt = (s, Some ValueError).
Proof.
  intros Ef N. unfold update_sensors. rewrite Ef. cbv zeta.
  destruct (Nat.eqb_spec (d_width d) (d_width (f_data f))) as [E|_]; [contradiction|reflexivity].
Qed.
