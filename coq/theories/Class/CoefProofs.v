From Coq Require Import List Arith Lia QArith Qcanon Bool.
Import ListNotations.
From PS Require Import LA.Sums LA.Gram LA.GramProofs Basis.Basis Class.Coef.
Open Scope Qc_scope.

(* shape of the weights: a vector of n_features entries for two classes, n_features x n_classes otherwise *)
Theorem coef_shape_binary r n : solve_shape 2 r n (squeeze_T (CMat 1 r)) = Some (CVec n).
Proof. unfold solve_shape, squeeze_T. simpl. now rewrite Nat.eqb_refl. Qed.

Theorem coef_shape_multiclass c r n : (2 < c)%nat -> solve_shape c r n (squeeze_T (CMat c r)) = Some (CMat n c).
Proof.
  intro H. unfold solve_shape, squeeze_T.
  destruct c as [|[|[|c]]]; try lia. simpl. now rewrite Nat.eqb_refl.
Qed.

Lemma close_iff tol a b : close tol a b = true <-> Qcabs (a - b) <= tol.
Proof. unfold close, Qcle. apply Qle_bool_iff. Qed.

Lemma forallb_seq' (f : nat -> bool) m : forallb f (seq 0 m) = true <-> forall j, (j < m)%nat -> f j = true.
Proof. rewrite forallb_forall. split; intros H j Hj; apply H; [apply in_seq; lia|apply in_seq in Hj; lia]. Qed.

(* what the per-case contract check establishes (exact when tol = 0): the sensor weights map through Psi^-1 onto the
   classifier's weight vector up to ONE common offset, with at most r non-zero sensors *)
Theorem check_affine_fit_sound tol r n psi s w b : check_affine_fit tol r n psi s w b = true ->
  (forall i, (i < r)%nat -> Qcabs (sum n (fun j => mat_entry psi i j * nth j s 0) + b - nth i w 0) <= tol) /\
  (nonzeros s <= r)%nat /\ length s = n.
Proof.
  unfold check_affine_fit. rewrite !andb_true_iff, forallb_seq'. intros [[A B] Cc]. split; [|split].
  - intros i Hi. apply close_iff. now apply A.
  - now apply Nat.leb_le.
  - now apply Nat.eqb_eq.
Qed.
