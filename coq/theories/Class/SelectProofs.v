From Coq Require Import List Arith ZArith Bool Lia.
Import ListNotations.
From PS Require Import Sel.Perm Sel.PermProofs Class.Select.
Open Scope Z_scope.

(* ---------------- threshold mode ---------------- *)
Theorem thr_exact t m i : In i (above_thr t m) <-> (i < length m)%nat /\ t <= mag m i.
Proof.
  unfold above_thr. rewrite filter_In, in_seq, Z.leb_le. split; intros [A B]; split; auto; lia.
Qed.

Theorem thr_antitone t1 t2 m : t1 <= t2 -> incl (above_thr t2 m) (above_thr t1 m).
Proof. intros H i Hi. apply thr_exact in Hi. apply thr_exact. destruct Hi; split; auto; lia. Qed.

Lemma filter_all {A} (f : A -> bool) l : (forall x, In x l -> f x = true) -> filter f l = l.
Proof. induction l as [|a l IH]; simpl; intros H; auto. rewrite H by auto. f_equal. apply IH. auto. Qed.

Theorem thr0_all m : (forall i, 0 <= mag m i) -> above_thr 0 m = seq 0 (length m).
Proof. intro H. unfold above_thr. apply filter_all. intros i _. apply Z.leb_le. apply H. Qed.

Lemma filter_len_le {A} (f : A -> bool) l : (length (filter f l) <= length l)%nat.
Proof. induction l as [|a l IH]; simpl; auto. destruct (f a); simpl; lia. Qed.

Theorem thr_nodup_bounded t m : NoDup (above_thr t m) /\ (length (above_thr t m) <= length m)%nat.
Proof.
  unfold above_thr. split. apply NoDup_filter, seq_NoDup.
  eapply Nat.le_trans. apply filter_len_le. now rewrite seq_length.
Qed.

(* ---------------- top-n mode ---------------- *)
Definition topk_spec (m : list Z) (sel : list nat) (k : nat) : Prop :=
  length sel = k /\ NoDup sel /\ (forall i, In i sel -> (i < length m)%nat) /\
  nonincreasing m sel = true /\
  (forall i j, In i sel -> (j < length m)%nat -> ~ In j sel -> mag m j <= mag m i).

Lemma nonincr_head m a l : nonincreasing m (a :: l) = true -> forall j, In j l -> mag m j <= mag m a.
Proof.
  revert a. induction l as [|b l IH]; intros a H j Hj; [destruct Hj|].
  simpl in H. apply andb_true_iff in H. destruct H as [H1 H2]. apply Z.leb_le in H1.
  destruct Hj as [<-|Hj]; auto. specialize (IH b H2 j Hj). lia.
Qed.

Lemma nonincr_tail m a l : nonincreasing m (a :: l) = true -> nonincreasing m l = true.
Proof. destruct l; simpl; auto. intro H. apply andb_true_iff in H. tauto. Qed.

Lemma nonincr_app m l1 l2 : nonincreasing m (l1 ++ l2) = true ->
  nonincreasing m l1 = true /\ forall i j, In i l1 -> In j l2 -> mag m j <= mag m i.
Proof.
  induction l1 as [|a l1 IH]; intros H.
  - split; auto. intros i j [].
  - change ((a :: l1) ++ l2) with (a :: (l1 ++ l2)) in H.
    pose proof (nonincr_head _ _ _ H) as Hh. pose proof (nonincr_tail _ _ _ H) as Ht.
    destruct (IH Ht) as [I1 I2]. split.
    + destruct l1 as [|b l1]; auto.
      change (nonincreasing m (a :: b :: l1)) with ((mag m b <=? mag m a) && nonincreasing m (b :: l1)).
      rewrite I1, andb_true_r. apply Z.leb_le. apply Hh. now left.
    + intros i j [<-|Hi] Hj; auto. apply Hh. apply in_or_app. now right.
Qed.

Lemma existsb_eqb_In j l : existsb (Nat.eqb j) l = true <-> In j l.
Proof.
  rewrite existsb_exists. split.
  - intros [x [Hx E]]. apply Nat.eqb_eq in E. now subst.
  - intro H. exists j. split; auto. apply Nat.eqb_refl.
Qed.

Theorem check_topk_sound m sel k : check_topk m sel k = true -> topk_spec m sel k.
Proof.
  unfold check_topk, topk_spec. rewrite !andb_true_iff. intros [[[[L N] B] S] U].
  apply Nat.eqb_eq in L. apply nodupb_sound in N. rewrite forallb_forall in B, U.
  repeat split; auto.
  - intros i Hi. specialize (B i Hi). now apply Nat.ltb_lt in B.
  - intros i j Hi Hj Hn. specialize (U j). rewrite in_seq in U. specialize (U ltac:(lia)).
    apply orb_true_iff in U. destruct U as [U|U].
    + apply existsb_eqb_In in U. contradiction.
    + rewrite forallb_forall in U. apply Z.leb_le. now apply U.
Qed.

(* a smaller n_sensors yields a prefix of a larger one *)
Theorem topk_prefix m sel k1 k2 : topk_spec m sel k2 -> (k1 <= k2)%nat -> topk_spec m (firstn k1 sel) k1.
Proof.
  intros (L & N & B & S & U) Hk. unfold topk_spec.
  rewrite <- (firstn_skipn k1 sel) in S. destruct (nonincr_app _ _ _ S) as [S1 S2].
  repeat split.
  - rewrite firstn_length. lia.
  - now apply NoDup_firstn.
  - intros i Hi. apply B. eapply In_firstn; eauto.
  - exact S1.
  - intros i j Hi Hj Hn.
    destruct (in_dec Nat.eq_dec j sel) as [Hin|Hout].
    + rewrite <- (firstn_skipn k1 sel) in Hin. apply in_app_or in Hin. destruct Hin as [Hin|Hin]; [contradiction|].
      now apply S2.
    + apply U; auto. eapply In_firstn; eauto.
Qed.

(* every selected sensor dominates every unselected one, and the list is in non-increasing order *)
Theorem topk_dominates m sel k i j : topk_spec m sel k -> In i sel -> (j < length m)%nat -> ~ In j sel -> mag m j <= mag m i.
Proof. intros (_ & _ & _ & _ & U). apply U. Qed.

(* ---------------- the stored count always equals the number of selected sensors ---------------- *)
(* one update_sensors call: a top-n selection is any list meeting the specification *)
Definition valid_update (m : list Z) (req : request) (st : sel_state) : Prop :=
  match req with
  | ByCount k => topk_spec m (st_selected st) k /\ st_n_sensors st = k
  | ByThreshold t => st_selected st = above_thr t m /\ st_n_sensors st = length (above_thr t m) /\ st_threshold st = Some t
  end.

Theorem count_consistent m req st : valid_update m req st -> st_n_sensors st = length (st_selected st).
Proof. destruct req; simpl; [intros [(L & _) E]; congruence|intros (E1 & E2 & _); congruence]. Qed.

Theorem count_consistent_history m (h : list (request * sel_state)) :
  Forall (fun p => valid_update m (fst p) (snd p)) h ->
  Forall (fun p => st_n_sensors (snd p) = length (st_selected (snd p))) h.
Proof. induction 1; constructor; auto. eapply count_consistent; eauto. Qed.

(* the threshold checker is exact *)
Theorem check_thr_sound t m sel : check_thr t m sel = true -> sel = above_thr t m.
Proof. intro H. symmetry. now apply list_eqb_sound. Qed.
