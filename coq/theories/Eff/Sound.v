(* Soundness of the may-write / may-return analysis of Eff/IR.v with respect to the bag-of-statements semantics. *)
From Coq Require Import List Arith Bool Lia.
Import ListNotations.
From PS Require Import Eff.IR.

Lemma mem_In x l : mem x l = true <-> In x l.
Proof.
  unfold mem. rewrite existsb_exists. split.
  - intros [y [Hy E]]. apply Nat.eqb_eq in E. now subst.
  - intro H. exists x. split; auto. apply Nat.eqb_refl.
Qed.

Lemma upd_same s v l : upd s v l v = l.
Proof. unfold upd. now rewrite Nat.eqb_refl. Qed.
Lemma upd_other s v l x : x <> v -> upd s v l x = s x.
Proof. intro H. unfold upd. destruct (Nat.eqb_spec x v); congruence. Qed.

(* what a parameter is bound to *)
Lemma bind_params_spec params ls p l : bind_params params ls p = Some l ->
  exists j, nth_error params j = Some p /\ nth_error ls j = Some (Some l).
Proof.
  unfold bind_params. revert ls. induction params as [|q params IH]; intros ls H; simpl in H; [discriminate|].
  destruct ls as [|x ls]; simpl in H; [discriminate|].
  unfold upd in H. destruct (Nat.eqb_spec p q) as [->|Hne].
  - exists 0. simpl. subst. auto.
  - destruct (IH ls H) as [j [A B]]. exists (S j). auto.
Qed.

(* closedness gives the two propagation rules *)
Lemma closed_alias sums body Vs d s : closed sums body Vs = true -> In (SAlias d s) body -> mem s Vs = true -> mem d Vs = true.
Proof.
  unfold closed. rewrite forallb_forall. intros H Hin Hs. specialize (H _ Hin). simpl in H. rewrite Hs in H. exact H.
Qed.

Lemma reaches_intro args Vs idxs j a : In j idxs -> nth_error args j = Some a -> mem a Vs = true -> reaches args Vs idxs = true.
Proof. intros Hj Ha Hm. unfold reaches. apply existsb_exists. exists j. split; [exact Hj|]. cbv beta. unfold var in *. rewrite Ha. exact Hm. Qed.

Lemma closed_call sums body Vs f args d outs sm j a : closed sums body Vs = true -> In (SCall f args d outs) body ->
  nth_error sums f = Some sm -> In j (s_rets sm) -> nth_error args j = Some a -> mem a Vs = true -> mem d Vs = true.
Proof.
  unfold closed. rewrite forallb_forall. intros H Hin Hs Hj Ha Hm. specialize (H _ Hin). simpl in H. rewrite Hs in H.
  apply andb_true_iff in H. destruct H as [H _]. rewrite (reaches_intro _ _ _ _ _ Hj Ha Hm) in H. exact H.
Qed.

Lemma closed_call_out sums body Vs f args d outs sm n o so j a : closed sums body Vs = true -> In (SCall f args d outs) body ->
  nth_error sums f = Some sm -> nth_error outs n = Some o -> nth_error (s_outs sm) n = Some so ->
  In j so -> nth_error args j = Some a -> mem a Vs = true -> mem o Vs = true.
Proof.
  unfold closed. rewrite forallb_forall. intros H Hin Hs Ho Hso Hj Ha Hm. specialize (H _ Hin). simpl in H. rewrite Hs in H.
  apply andb_true_iff in H. destruct H as [_ H]. rewrite forallb_forall in H.
  assert (Hc : In (o, so) (combine outs (s_outs sm))).
  { clear - Ho Hso. revert outs Ho Hso. generalize (s_outs sm). induction n as [|n IH]; intros l outs Ho Hso.
    - destruct outs; [discriminate|]. destruct l; [discriminate|]. simpl in *. injection Ho as ->. injection Hso as ->. now left.
    - destruct outs; [discriminate|]. destruct l; [discriminate|]. simpl in *. right. eauto. }
  specialize (H _ Hc). simpl in H. rewrite (reaches_intro _ _ _ _ _ Hj Ha Hm) in H. exact H.
Qed.

(* what a variable holds after the out-variables of a call were copied back *)
Lemma upd_outs_spec s vs ls x : 
  upd_outs s vs ls x = s x \/ exists n, nth_error vs n = Some x /\ nth_error ls n = Some (upd_outs s vs ls x).
Proof.
  unfold upd_outs. revert ls. induction vs as [|v vs IH]; intro ls; [now left|].
  destruct ls as [|l ls]; [now left|]. simpl. unfold upd at 1 3. destruct (Nat.eqb_spec x v) as [->|Hne].
  - right. exists 0. auto.
  - destruct (IH ls) as [E|[n [A B]]]; [left; exact E|right; exists (S n); auto].
Qed.

Section Program.
Variable P : program.
(* the summaries the analysis computed: function k was summarised with the summaries of the functions before it *)
Variable sums : list summary.
Hypothesis sums_ok : forall k fn, nth_error P k = Some fn -> nth_error sums k = Some (summarise (firstn k sums) fn).

Definition old_ok (fn : func) (ss : list summary) (init : store) (n0 : loc) (c : cfg) : Prop :=
  n0 <= next c /\
  (forall v l, st c v = Some l -> l < next c) /\
  (forall v l, st c v = Some l -> l < n0 ->
     exists p, In p (f_params fn) /\ init p = Some l /\
       (holds ss fn p = None \/ exists Vs, holds ss fn p = Some Vs /\ mem v Vs = true)).

Definition writes_ok (fn : func) (ss : list summary) (init : store) (n0 : loc) (w0 : list loc) (c : cfg) : Prop :=
  forall l, In l (written c) -> In l w0 \/ n0 <= l \/
    exists p, In p (f_params fn) /\ init p = Some l /\ may_write ss fn p = true.

Definition sound_fun (k : nat) : Prop :=
  forall fn, nth_error P k = Some fn ->
  forall ls n0 w0 c',
    (forall l, In (Some l) ls -> l < n0) ->
    steps P k (f_body fn) {| st := bind_params (f_params fn) ls; next := n0; written := w0 |} c' ->
    let ss := firstn k sums in
    let init := bind_params (f_params fn) ls in
    old_ok fn ss init n0 c' /\ writes_ok fn ss init n0 w0 c'.

Lemma firstn_nth_error {A} k (l : list A) f : f < k -> nth_error (firstn k l) f = nth_error l f.
Proof.
  revert l f; induction k as [|k IH]; intros l f H; [lia|]. destruct l as [|a l]; [now destruct f|].
  destruct f as [|f]; simpl; auto. apply IH. lia.
Qed.

Lemma holds_contains ss fn p Vs : holds ss fn p = Some Vs -> closed ss (f_body fn) Vs = true /\ mem p Vs = true.
Proof.
  unfold holds. destruct (closed ss (f_body fn) _ && mem p _) eqn:E; [|discriminate].
  intro H. injection H as <-. now apply andb_true_iff in E.
Qed.

Lemma sound_all : forall k, sound_fun k.
Proof.
  induction k as [k IHk] using lt_wf_ind. intros fn Hfn ls n0 w0 c' Hls Hsteps.
  cbv zeta. set (ss := firstn k sums). set (init := bind_params (f_params fn) ls).
  (* generalise the starting configuration to any configuration satisfying the invariants *)
  assert (G : forall kk body c, steps P kk body c c' -> kk = k -> body = f_body fn -> old_ok fn ss init n0 c -> writes_ok fn ss init n0 w0 c ->
              old_ok fn ss init n0 c' /\ writes_ok fn ss init n0 w0 c').
  { clear Hsteps. intros kk body c Hs.
    induction Hs as [kk body c|kk body c c' d s Hin Hs IH|kk body c c' d Hin Hs IH|kk body c c' v l Hin Hv Hs IH
                    |kk body c c' f args d outs fnc cc res Hin Hfk Hfc Hcallee _ Hres Hs IH]; intros Ek Eb HO HW; subst kk body.
    - auto.
    - (* alias *) apply IH; [reflexivity|reflexivity| |exact HW].
      destruct HO as (Hn & Hb & Ho). split; [exact Hn|]. split.
      + intros v l Hv. simpl in *. unfold upd in Hv. destruct (Nat.eqb_spec v d); [apply (Hb s); auto|apply (Hb v); auto].
      + intros v l Hv Hl. simpl in *. unfold upd in Hv. destruct (Nat.eqb_spec v d) as [->|Hne]; [|apply Ho; auto].
        destruct (Ho s l Hv Hl) as (p & Hp & Hi & [Hn'|[Vs [HS Hm]]]); exists p; repeat split; auto.
        right. exists Vs. split; auto. destruct (holds_contains _ _ _ _ HS) as [Hc _]. eapply closed_alias; eauto.
    - (* fresh *) apply IH; [reflexivity|reflexivity| |exact HW].
      destruct HO as (Hn & Hb & Ho). split; [simpl; lia|]. split.
      + intros v l Hv. simpl in *. unfold upd in Hv. destruct (Nat.eqb_spec v d); [injection Hv as <-; lia|specialize (Hb v l Hv); lia].
      + intros v l Hv Hl. simpl in *. unfold upd in Hv. destruct (Nat.eqb_spec v d); [injection Hv as <-; lia|apply Ho; auto].
    - (* write *) apply IH; [reflexivity|reflexivity|exact HO|].
      intros l' Hl'. simpl in Hl'. destruct Hl' as [<-|Hl']; [|apply HW; auto].
      destruct HO as (Hn & Hb & Ho). destruct (Nat.lt_ge_cases l n0) as [Hold|Hnew]; [|right; left; lia].
      right. right. destruct (Ho v l Hv Hold) as (p & Hp & Hi & [Hn'|[Vs [HS Hm]]]); exists p; repeat split; auto.
      + unfold may_write. now rewrite Hn'.
      + unfold may_write. rewrite HS. unfold writes_into. apply existsb_exists. exists (SWrite v). split; auto.
    - (* call *)
      destruct HO as (Hn & Hb & Ho).
      assert (Hargs : forall l, In (Some l) (map (st c) args) -> l < next c).
      { intros l Hl. apply in_map_iff in Hl. destruct Hl as [a [Ha _]]. eapply Hb; eauto. }
      destruct (IHk f Hfk fnc Hfc (map (st c) args) (next c) (written c) cc Hargs Hcallee) as [CO CW].
      cbv zeta in CO, CW. destruct CO as (Cn & Cb & Co).
      assert (Hsf : nth_error ss f = Some (summarise (firstn f sums) fnc)).
      { unfold ss. rewrite firstn_nth_error by auto. now apply sums_ok. }
      apply IH; [reflexivity|reflexivity| | ].
      + (* the invariant after the call *)
        (* facts about the store [upd (st c) d res] before the out-variables are copied back *)
        assert (B1 : forall v l, upd (st c) d res v = Some l -> l < S (next cc)).
        { intros v l Hv. unfold upd in Hv. destruct (Nat.eqb_spec v d) as [->|Hne].
          - destruct Hres as [->|[r [Hr ->]]]; [injection Hv as <-; lia|]. specialize (Cb r l Hv). lia.
          - specialize (Hb v l Hv). lia. }
        (* a callee variable that holds an old location at the end holds the location of a callee parameter, whose
           position is found in the summary *)
        assert (K : forall o l, st cc o = Some l -> l < n0 ->
                  exists j a, nth_error (f_params fnc) j <> None /\ nth_error args j = Some a /\ st c a = Some l /\
                    (forall q, nth_error (f_params fnc) j = Some q ->
                       holds (firstn f sums) fnc q = None \/ exists Vs, holds (firstn f sums) fnc q = Some Vs /\ mem o Vs = true)).
        { intros o l Hv Hl. destruct (Co o l Hv ltac:(lia)) as (q & Hq & Hiq & Hhq).
          destruct (bind_params_spec _ _ _ _ Hiq) as (j & Hj & Hlj).
          rewrite nth_error_map in Hlj. destruct (nth_error args j) as [a|] eqn:Ea; [|discriminate]. simpl in Hlj. injection Hlj as Hla.
          exists j, a. split; [congruence|]. split; [exact Ea|]. split; [exact Hla|]. intros q' Hq'. rewrite Hj in Hq'. injection Hq' as <-. exact Hhq. }
        assert (O1 : forall v l, upd (st c) d res v = Some l -> l < n0 ->
                  exists p, In p (f_params fn) /\ init p = Some l /\
                    (holds ss fn p = None \/ exists Vs, holds ss fn p = Some Vs /\ mem v Vs = true)).
        { intros v l Hv Hl. unfold upd in Hv. destruct (Nat.eqb_spec v d) as [->|Hne]; [|apply Ho; auto].
          destruct Hres as [->|[r [Hr ->]]]; [injection Hv as <-; lia|].
          destruct (K r l Hv Hl) as (j & a & Hjn & Ea & Hla & Hh).
          destruct (nth_error (f_params fnc) j) as [q|] eqn:Hj; [|congruence]. specialize (Hh q eq_refl).
          assert (Hret : In j (s_rets (summarise (firstn f sums) fnc))).
          { unfold summarise. simpl. apply filter_In. split; [apply in_seq; split; [lia|]; simpl; apply nth_error_Some; congruence|].
            rewrite Hj. unfold may_return. destruct Hh as [->|[Vs [-> Hm]]]; auto.
            apply existsb_exists. exists r. auto. }
          destruct (Ho a l Hla Hl) as (p & Hp & Hi & [Hn'|[Vs [HS Hm]]]); exists p; repeat split; auto.
          right. exists Vs. split; auto. destruct (holds_contains _ _ _ _ HS) as [Hc _]. eapply closed_call; eauto. }
        split; [simpl; lia|]. split.
        * intros v l Hv. simpl in *.
          destruct (upd_outs_spec (upd (st c) d res) outs (map (st cc) (f_outs fnc)) v) as [E|[n [A B]]].
          -- rewrite E in Hv. eapply B1; eauto.
          -- rewrite Hv in B. rewrite nth_error_map in B. destruct (nth_error (f_outs fnc) n) as [o|]; [|discriminate].
             simpl in B. injection B as B. specialize (Cb o l B). lia.
        * intros v l Hv Hl. simpl in *.
          destruct (upd_outs_spec (upd (st c) d res) outs (map (st cc) (f_outs fnc)) v) as [E|[n [A B]]].
          -- rewrite E in Hv. apply O1; auto.
          -- rewrite Hv in B. rewrite nth_error_map in B. destruct (nth_error (f_outs fnc) n) as [o|] eqn:Eo; [|discriminate].
             simpl in B. injection B as B.
             destruct (K o l B Hl) as (j & a & Hjn & Ea & Hla & Hh).
             destruct (nth_error (f_params fnc) j) as [q|] eqn:Hj; [|congruence]. specialize (Hh q eq_refl).
             set (so := filter (fun i => match nth_error (f_params fnc) i with Some p => may_reach (firstn f sums) fnc p o | None => true end)
                               (seq 0 (length (f_params fnc)))).
             assert (Hso : nth_error (s_outs (summarise (firstn f sums) fnc)) n = Some so).
             { unfold summarise. simpl. rewrite nth_error_map, Eo. reflexivity. }
             assert (Hjs : In j so).
             { unfold so. apply filter_In. split; [apply in_seq; split; [lia|]; simpl; apply nth_error_Some; congruence|].
               rewrite Hj. unfold may_reach. destruct Hh as [->|[Vs [-> Hm]]]; auto. }
             destruct (Ho a l Hla Hl) as (p & Hp & Hi & [Hn'|[Vs [HS Hm]]]); exists p; repeat split; auto.
             right. exists Vs. split; auto. destruct (holds_contains _ _ _ _ HS) as [Hc _].
             eapply (closed_call_out ss (f_body fn) Vs f args d outs _ n v so j a); eauto.
      + (* writes performed by the callee *)
        intros l Hl. simpl in Hl. destruct (CW l Hl) as [Hw|[Hnew|(q & Hq & Hiq & Hmw)]]; [apply HW; auto|right; left; lia|].
        destruct (Nat.lt_ge_cases l n0) as [Hold|Hnew]; [|right; left; lia].
        destruct (bind_params_spec _ _ _ _ Hiq) as (j & Hj & Hlj).
        assert (Hwr : In j (s_writes (summarise (firstn f sums) fnc))).
        { unfold summarise. simpl. apply filter_In. split; [apply in_seq; split; [lia|]; simpl; apply nth_error_Some; congruence|].
          now rewrite Hj. }
        rewrite nth_error_map in Hlj. destruct (nth_error args j) as [a|] eqn:Ea; [|discriminate]. simpl in Hlj. injection Hlj as Hla.
        right. right. destruct (Ho a l Hla Hold) as (p & Hp & Hi & [Hn'|[Vs [HS Hm]]]); exists p; repeat split; auto.
        * unfold may_write. now rewrite Hn'.
        * unfold may_write. rewrite HS. unfold writes_into. apply existsb_exists. exists (SCall f args d outs). split; auto.
          rewrite Hsf. eapply reaches_intro; eauto. }
  apply (G k (f_body fn) _ Hsteps eq_refl eq_refl).
  - (* the initial configuration *)
    split; [simpl; lia|]. split.
    + intros v l Hv. simpl in *. destruct (bind_params_spec _ _ _ _ Hv) as (j & _ & Hj). apply Hls. eapply nth_error_In; eauto.
    + intros v l Hv Hl. simpl in Hv. exists v. destruct (bind_params_spec _ _ _ _ Hv) as (j & Hj & _).
      split; [eapply nth_error_In; eauto|]. split; [exact Hv|].
      destruct (holds ss fn v) as [Vs|] eqn:E; [right|left; auto]. exists Vs. split; auto. now destruct (holds_contains _ _ _ _ E).
  - intros l Hl. simpl in Hl. now left.
Qed.

(* The statement used for public entry points: if the analysis says parameter number i of function number k is never
   written, then NO execution of the function mutates the object the caller passed for it (whatever the other arguments
   alias), unless the same object was also passed for a parameter the analysis does consider written. *)
Theorem never_written_sound k fn ls n0 c' l :
  nth_error P k = Some fn -> (forall l', In (Some l') ls -> l' < n0) ->
  steps P k (f_body fn) {| st := bind_params (f_params fn) ls; next := n0; written := [] |} c' ->
  In l (written c') -> l < n0 ->
  exists p, In p (f_params fn) /\ bind_params (f_params fn) ls p = Some l /\ may_write (firstn k sums) fn p = true.
Proof.
  intros Hfn Hls Hs Hl Hold. destruct (sound_all k fn Hfn ls n0 [] c' Hls Hs) as [_ HW].
  destruct (HW l Hl) as [[]|[Hn|H]]; [lia|exact H].
Qed.

(* the same for aliasing: a variable that holds a pre-existing location at the end of an execution holds the object of
   a parameter the analysis says may reach it *)
Theorem reached_sound k fn ls n0 c' o l :
  nth_error P k = Some fn -> (forall l', In (Some l') ls -> l' < n0) ->
  steps P k (f_body fn) {| st := bind_params (f_params fn) ls; next := n0; written := [] |} c' ->
  st c' o = Some l -> l < n0 ->
  exists p, In p (f_params fn) /\ bind_params (f_params fn) ls p = Some l /\ may_reach (firstn k sums) fn p o = true.
Proof.
  intros Hfn Hls Hs Ho Hold. destruct (sound_all k fn Hfn ls n0 [] c' Hls Hs) as [(_ & _ & HO) _].
  destruct (HO o l Ho Hold) as (p & Hp & Hi & Hh). exists p. repeat split; auto.
  unfold may_reach. destruct Hh as [->|[Vs [-> Hm]]]; auto.
Qed.
End Program.

(* the summaries computed bottom-up satisfy the hypothesis of the soundness theorem *)
Lemma summaries_from_prefix P : forall acc, exists rest, summaries_from acc P = acc ++ rest /\ length rest = length P.
Proof.
  induction P as [|fn P IH]; intro acc; simpl.
  - exists []. now rewrite app_nil_r.
  - destruct (IH (acc ++ [summarise acc fn])) as [rest [E L]]. exists (summarise acc fn :: rest).
    rewrite E, <- app_assoc. simpl. split; auto.
Qed.

Lemma summaries_from_ok P : forall acc k fn, nth_error P k = Some fn ->
  nth_error (summaries_from acc P) (length acc + k) =
  Some (summarise (firstn (length acc + k) (summaries_from acc P)) fn).
Proof.
  induction P as [|f0 P IH]; intros acc k fn H; [destruct k; discriminate|].
  destruct k as [|k]; simpl in H.
  - injection H as ->. simpl. destruct (summaries_from_prefix P (acc ++ [summarise acc fn])) as [rest [E _]].
    rewrite E, <- app_assoc, Nat.add_0_r. rewrite nth_error_app2 by lia. rewrite Nat.sub_diag. simpl.
    rewrite firstn_app, Nat.sub_diag, firstn_all. simpl. now rewrite app_nil_r.
  - simpl. specialize (IH (acc ++ [summarise acc f0]) k fn H). rewrite app_length in IH. simpl in IH.
    replace (length acc + S k) with (length acc + 1 + k) by lia. exact IH.
Qed.

Theorem summaries_ok P k fn : nth_error P k = Some fn ->
  nth_error (summaries P) k = Some (summarise (firstn k (summaries P)) fn).
Proof. intro H. exact (summaries_from_ok P [] k fn H). Qed.

(* final form: an obligation [never_writes P k i = true], checked by computation on the model regenerated from the
   source, means that no execution of function k mutates the object passed for its i-th parameter unless the caller
   passed the very same object for another parameter that the analysis does consider written *)
Theorem obligation_sound P k i fn p ls n0 c' l :
  nth_error P k = Some fn -> NoDup (f_params fn) -> nth_error (f_params fn) i = Some p ->
  never_writes P k i = true ->
  (forall l', In (Some l') ls -> l' < n0) ->
  steps P k (f_body fn) {| st := bind_params (f_params fn) ls; next := n0; written := [] |} c' ->
  In l (written c') -> bind_params (f_params fn) ls p = Some l ->
  exists q, q <> p /\ In q (f_params fn) /\ bind_params (f_params fn) ls q = Some l /\ may_write (firstn k (summaries P)) fn q = true.
Proof.
  intros Hfn ND Hp Hnw Hls Hs Hl Hb.
  assert (Hold : l < n0).
  { destruct (bind_params_spec _ _ _ _ Hb) as (j & _ & Hj). apply Hls. eapply nth_error_In; eauto. }
  destruct (never_written_sound P (summaries P) (summaries_ok P) k fn ls n0 c' l Hfn Hls Hs Hl Hold) as (q & Hq & Hbq & Hmw).
  exists q. repeat split; auto. intro E. subst q.
  unfold never_writes in Hnw. rewrite (summaries_ok P k fn Hfn) in Hnw. apply negb_true_iff in Hnw.
  assert (mem i (s_writes (summarise (firstn k (summaries P)) fn)) = true).
  { apply mem_In. unfold summarise. simpl. apply filter_In. split.
    - apply in_seq. split; [lia|]. simpl. apply nth_error_Some. congruence.
    - now rewrite Hp. }
  congruence.
Qed.

Theorem reach_obligation_sound P k i j fn p o ls n0 c' l :
  nth_error P k = Some fn -> NoDup (f_params fn) -> nth_error (f_params fn) i = Some p -> nth_error (f_outs fn) j = Some o ->
  never_reaches P k i j = true ->
  (forall l', In (Some l') ls -> l' < n0) ->
  steps P k (f_body fn) {| st := bind_params (f_params fn) ls; next := n0; written := [] |} c' ->
  st c' o = Some l -> bind_params (f_params fn) ls p = Some l ->
  exists q, q <> p /\ In q (f_params fn) /\ bind_params (f_params fn) ls q = Some l /\ may_reach (firstn k (summaries P)) fn q o = true.
Proof.
  intros Hfn ND Hp Ho Hnr Hls Hs Hl Hb.
  assert (Hold : l < n0).
  { destruct (bind_params_spec _ _ _ _ Hb) as (n & _ & Hn). apply Hls. eapply nth_error_In; eauto. }
  destruct (reached_sound P (summaries P) (summaries_ok P) k fn ls n0 c' o l Hfn Hls Hs Hl Hold) as (q & Hq & Hbq & Hmr).
  exists q. repeat split; auto. intro E. subst q.
  unfold never_reaches in Hnr. rewrite (summaries_ok P k fn Hfn) in Hnr. unfold summarise in Hnr. simpl in Hnr.
  rewrite nth_error_map, Ho in Hnr. simpl in Hnr. apply negb_true_iff in Hnr.
  assert (X : mem i (filter (fun i0 => match nth_error (f_params fn) i0 with Some p0 => may_reach (firstn k (summaries P)) fn p0 o | None => true end)
                            (seq 0 (length (f_params fn)))) = true).
  { apply mem_In. apply filter_In. split.
    - apply in_seq. split; [lia|]. simpl. apply nth_error_Some. congruence.
    - now rewrite Hp. }
  congruence.
Qed.

(* ------------------------------------------------------------------ the fast summaries are the summaries *)
Lemma idx_filter_spec {A B} (g : A -> bool) (h : B -> A) (ps : list B) :
  idx_filter g (map h ps) = filter (fun i => match nth_error ps i with Some p => g (h p) | None => true end) (seq 0 (length ps)).
Proof.
  unfold idx_filter. rewrite map_length.
  assert (G : forall s, map fst (filter (fun ih : nat * A => g (snd ih)) (combine (seq s (length ps)) (map h ps))) =
                        filter (fun i => match nth_error ps (i - s) with Some p => g (h p) | None => true end) (seq s (length ps))).
  { induction ps as [|p ps IH]; intro s; [reflexivity|]. simpl. rewrite Nat.sub_diag. simpl.
    assert (E : filter (fun i => match nth_error (p :: ps) (i - s) with Some p0 => g (h p0) | None => true end) (seq (S s) (length ps)) =
                filter (fun i => match nth_error ps (i - S s) with Some p0 => g (h p0) | None => true end) (seq (S s) (length ps))).
    { apply filter_ext_in. intros i Hi. apply in_seq in Hi. replace (i - s) with (S (i - S s)) by lia. reflexivity. }
    destruct (g (h p)); simpl; rewrite IH, E; reflexivity. }
  rewrite (G 0). apply filter_ext. intro i. now rewrite Nat.sub_0_r.
Qed.

Lemma summarise_fast_eq sums fn : summarise_fast sums fn = summarise sums fn.
Proof.
  unfold summarise_fast, summarise. cbv zeta. f_equal.
  - rewrite idx_filter_spec. reflexivity.
  - rewrite idx_filter_spec. reflexivity.
  - apply map_ext. intro o. rewrite idx_filter_spec. reflexivity.
Qed.

Theorem summaries_fast_eq P : summaries_fast P = summaries P.
Proof.
  unfold summaries_fast, summaries. generalize (@nil summary). induction P as [|fn P IH]; intro acc; simpl; [reflexivity|].
  rewrite summarise_fast_eq. apply IH.
Qed.
