(* Histories of public calls for C20.  Object attributes are GLOBAL variables (field-based: one variable per attribute
   name, whatever object carries it); a public entry point receives the current values of the globals it touches as
   trailing parameters and hands their final values back through its out-variables.  Between two calls the globals keep
   their values.  [history_safe] (executable, evaluated by vm_compute on the regenerated program) computes the set T of
   globals that may ever hold an array supplied by a caller and checks that no entry point may write in place
   (a) an explicit parameter, or (b) a global in T. *)
From Coq Require Import List Arith Bool Lia.
Import ListNotations.
From PS Require Import Eff.IR.

(* a public entry point: function number, number of explicit parameters, global ids of the remaining parameters (the
   out-variables of the function are the same globals in the same order) *)
Record entry := { e_fn : nat; e_nexp : nat; e_fields : list nat }.

Definition field_of (e : entry) (i : nat) : option nat :=
  if i <? e_nexp e then None else nth_error (e_fields e) (i - e_nexp e).

(* may parameter i of entry e hold a caller array, given that the globals in T may *)
Definition src_tainted (e : entry) (T : list nat) (i : nat) : bool :=
  match field_of e i with None => true | Some g => mem g T end.

Definition taint_step (sums : list summary) (es : list entry) (T : list nat) : list nat :=
  fold_right (fun e acc =>
    match nth_error sums (e_fn e) with
    | None => e_fields e ++ acc
    | Some sm => fold_right (fun gso a => if existsb (src_tainted e T) (snd gso) && negb (mem (fst gso) a) then fst gso :: a else a)
                            acc (combine (e_fields e) (s_outs sm))
    end) T es.

Fixpoint taint_iter (n : nat) (sums : list summary) (es : list entry) (T : list nat) : list nat :=
  match n with O => T | S n' => taint_iter n' sums es (taint_step sums es T) end.

Definition taint_closed (sums : list summary) (es : list entry) (T : list nat) : bool :=
  forallb (fun e =>
    match nth_error sums (e_fn e) with
    | None => false
    | Some sm => forallb (fun gso => implb (existsb (src_tainted e T) (snd gso)) (mem (fst gso) T)) (combine (e_fields e) (s_outs sm))
    end) es.

Definition writes_safe (sums : list summary) (es : list entry) (T : list nat) : bool :=
  forallb (fun e =>
    match nth_error sums (e_fn e) with
    | None => false
    | Some sm => forallb (fun i => negb (src_tainted e T i)) (s_writes sm)
    end) es.

(* shape of an entry with respect to the function it names *)
Definition entry_wf (P : program) (e : entry) : bool :=
  match nth_error P (e_fn e) with
  | None => false
  | Some fn => Nat.eqb (length (f_params fn)) (e_nexp e + length (e_fields e)) &&
               Nat.eqb (length (f_outs fn)) (length (e_fields e)) &&
               Nat.eqb (length (nodup Nat.eq_dec (f_params fn))) (length (f_params fn)) &&
               Nat.eqb (length (nodup Nat.eq_dec (e_fields e))) (length (e_fields e))
  end.

Definition tainted_with (sums : list summary) (es : list entry) (nglobals : nat) : list nat :=
  taint_iter (S nglobals) sums es [].
Definition history_safe_with (sums : list summary) (P : program) (es : list entry) (nglobals : nat) : bool :=
  let T := tainted_with sums es nglobals in
  forallb (entry_wf P) es && taint_closed sums es T && writes_safe sums es T.

Definition tainted (P : program) := tainted_with (summaries P).
Definition history_safe (P : program) := history_safe_with (summaries P) P.
(* what the harness evaluates (one closure per parameter); equal to [history_safe] by Sound.summaries_fast_eq *)
Definition history_safe_fast (P : program) := history_safe_with (summaries_fast P) P.
