(* Effect IR for C20 (model + executable analysis): which parameters of a function may be mutated in place, and which
   parameters its result may alias.  A function body is a BAG of statements that may execute in any order, any number
   of times (an over-approximation of all control flow).  Programs are lists of functions; a function may only call
   functions that appear EARLIER in the list (the translator emits them in dependency order; a recursive call is emitted
   as its most pessimistic effect: every argument written and aliased by the result and by every attribute).  Object
   attributes are global variables threaded through calls copy-in / copy-out (parameters + out-variables). *)
From Coq Require Import List Arith Bool Lia.
Import ListNotations.

Definition var := nat.
Inductive stmt :=
  | SAlias (d s : var)                       (* d may now refer to the object s refers to (view, transpose, attribute, ...) *)
  | SFresh (d : var)                         (* d refers to a newly allocated object (copy, arithmetic, constructor, ...) *)
  | SWrite (v : var)                         (* the object v refers to is mutated in place *)
  | SCall (f : nat) (args : list var) (d : var) (outs : list var).
      (* d := f(args), f an earlier function of the program; afterwards the caller's variables [outs] receive the final
         values of the callee's out-variables (object attributes are threaded through calls copy-in / copy-out) *)

Record func := { f_params : list var; f_body : list stmt; f_rets : list var; f_outs : list var }.
Definition program := list func.

(* ------------------------------------------------------------------ concrete semantics *)
Definition loc := nat.
Definition store := var -> option loc.
Definition upd (s : store) (v : var) (l : option loc) : store := fun x => if Nat.eqb x v then l else s x.

Record cfg := { st : store; next : loc; written : list loc }.

Definition bind_params (params : list var) (ls : list (option loc)) : store :=
  fold_right (fun pv s => upd s (fst pv) (snd pv)) (fun _ => None) (combine params ls).

Definition upd_outs (s : store) (vs : list var) (ls : list (option loc)) : store :=
  fold_right (fun pv s => upd s (fst pv) (snd pv)) s (combine vs ls).

(* runs of a function body: any statement of the body, any number of times; a call runs the callee's body on a store
   that binds its parameters to the locations of the arguments and hands back the location of one of its return
   variables (or a new object) *)
Inductive steps (P : program) : nat -> list stmt -> cfg -> cfg -> Prop :=
  | st_refl k body c : steps P k body c c
  | st_alias k body c c' d s : In (SAlias d s) body ->
      steps P k body {| st := upd (st c) d (st c s); next := next c; written := written c |} c' -> steps P k body c c'
  | st_fresh k body c c' d : In (SFresh d) body ->
      steps P k body {| st := upd (st c) d (Some (next c)); next := S (next c); written := written c |} c' -> steps P k body c c'
  | st_write k body c c' v l : In (SWrite v) body -> st c v = Some l ->
      steps P k body {| st := st c; next := next c; written := l :: written c |} c' -> steps P k body c c'
  | st_call k body c c' f args d outs fn cc res : In (SCall f args d outs) body -> f < k -> nth_error P f = Some fn ->
      steps P f (f_body fn) {| st := bind_params (f_params fn) (map (st c) args); next := next c; written := written c |} cc ->
      (res = Some (next cc) \/ exists r, In r (f_rets fn) /\ res = st cc r) ->
      steps P k body {| st := upd_outs (upd (st c) d res) outs (map (st cc) (f_outs fn)); next := S (next cc); written := written cc |} c' ->
      steps P k body c c'.

(* ------------------------------------------------------------------ the analysis *)
(* summary of a function: indices of the parameters it may write / its result may alias *)
Record summary := { s_writes : list nat; s_rets : list nat; s_outs : list (list nat) }.

Definition mem (x : nat) (l : list nat) : bool := existsb (Nat.eqb x) l.
Definition nth_var (i : nat) (l : list var) : option var := nth_error l i.

(* does one of the arguments at the positions [idxs] belong to Vs *)
Definition reaches (args : list var) (Vs : list var) (idxs : list nat) : bool :=
  existsb (fun i => match nth_error args i with Some a => mem a Vs | None => false end) idxs.

(* one round of the forward "may hold the same object" closure *)
Definition grow (sums : list summary) (body : list stmt) (Vs : list var) : list var :=
  fold_right (fun s acc =>
    match s with
    | SAlias d src => if mem src acc && negb (mem d acc) then d :: acc else acc
    | SCall f args d outs =>
        match nth_error sums f with
        | Some sm =>
            let acc1 := if reaches args acc (s_rets sm) && negb (mem d acc) then d :: acc else acc in
            fold_right (fun oso a => if reaches args acc (snd oso) && negb (mem (fst oso) a) then fst oso :: a else a) acc1 (combine outs (s_outs sm))
        | None => if existsb (fun a => mem a acc) args then d :: outs ++ acc else acc
        end
    | _ => acc
    end) Vs body.
Fixpoint iterate (n : nat) (sums : list summary) (body : list stmt) (Vs : list var) : list var :=
  match n with
  | O => Vs
  | S n' => let Vs' := grow sums body Vs in
            if Nat.eqb (length Vs') (length Vs) then Vs else iterate n' sums body Vs'      (* grow only adds: same length = fixpoint *)
  end.

(* S is closed under the rules: checked, not assumed *)
Definition closed (sums : list summary) (body : list stmt) (Vs : list var) : bool :=
  forallb (fun s =>
    match s with
    | SAlias d src => implb (mem src Vs) (mem d Vs)
    | SCall f args d outs =>
        match nth_error sums f with
        | Some sm => implb (reaches args Vs (s_rets sm)) (mem d Vs) &&
                     forallb (fun oso => implb (reaches args Vs (snd oso)) (mem (fst oso) Vs)) (combine outs (s_outs sm))
        | None => implb (existsb (fun a => mem a Vs) args) (mem d Vs && forallb (fun o => mem o Vs) outs)
        end
    | _ => true
    end) body.

(* may the object bound to parameter p be written, given that S is closed and contains p *)
Definition writes_into (sums : list summary) (body : list stmt) (Vs : list var) : bool :=
  existsb (fun s =>
    match s with
    | SWrite v => mem v Vs
    | SCall f args d outs =>
        match nth_error sums f with
        | Some sm => reaches args Vs (s_writes sm)
        | None => existsb (fun a => mem a Vs) args
        end
    | _ => false
    end) body.

Definition holds (sums : list summary) (fn : func) (p : var) : option (list var) :=
  let Vs := iterate (S (S (length (f_body fn)))) sums (f_body fn) [p] in
  if closed sums (f_body fn) Vs && mem p Vs then Some Vs else None.

Definition may_write (sums : list summary) (fn : func) (p : var) : bool :=
  match holds sums fn p with Some Vs => writes_into sums (f_body fn) Vs | None => true end.
Definition may_return (sums : list summary) (fn : func) (p : var) : bool :=
  match holds sums fn p with Some Vs => existsb (fun r => mem r Vs) (f_rets fn) | None => true end.

Definition may_reach (sums : list summary) (fn : func) (p o : var) : bool :=
  match holds sums fn p with Some Vs => mem o Vs | None => true end.

Definition summarise (sums : list summary) (fn : func) : summary :=
  {| s_writes := filter (fun i => match nth_error (f_params fn) i with Some p => may_write sums fn p | None => true end) (seq 0 (length (f_params fn)));
     s_rets := filter (fun i => match nth_error (f_params fn) i with Some p => may_return sums fn p | None => true end) (seq 0 (length (f_params fn)));
     s_outs := map (fun o => filter (fun i => match nth_error (f_params fn) i with Some p => may_reach sums fn p o | None => true end)
                                    (seq 0 (length (f_params fn)))) (f_outs fn) |}.

(* summaries of a whole program, bottom-up *)
Fixpoint summaries_from (acc : list summary) (P : program) : list summary :=
  match P with [] => acc | fn :: rest => summaries_from (acc ++ [summarise acc fn]) rest end.
Definition summaries (P : program) : list summary := summaries_from [] P.

(* the same summaries computed with one closure per parameter instead of one per (parameter, question) pair: this is
   what the harness evaluates; Eff/Sound.v proves [summaries_fast P = summaries P] *)
Definition idx_filter {A} (g : A -> bool) (hs : list A) : list nat :=
  map fst (filter (fun ih => g (snd ih)) (combine (seq 0 (length hs)) hs)).
Definition summarise_fast (sums : list summary) (fn : func) : summary :=
  let hs := map (holds sums fn) (f_params fn) in
  {| s_writes := idx_filter (fun h => match h with Some Vs => writes_into sums (f_body fn) Vs | None => true end) hs;
     s_rets := idx_filter (fun h => match h with Some Vs => existsb (fun r => mem r Vs) (f_rets fn) | None => true end) hs;
     s_outs := map (fun o => idx_filter (fun h => match h with Some Vs => mem o Vs | None => true end) hs) (f_outs fn) |}.
Fixpoint summaries_fast_from (acc : list summary) (P : program) : list summary :=
  match P with [] => acc | fn :: rest => summaries_fast_from (acc ++ [summarise_fast acc fn]) rest end.
Definition summaries_fast (P : program) : list summary := summaries_fast_from [] P.

(* the obligation emitted for a public entry point: parameter number i of function number k is never written *)
Definition never_writes (P : program) (k i : nat) : bool :=
  match nth_error (summaries P) k with Some sm => negb (mem i (s_writes sm)) | None => false end.

(* parameter number i of function number k never ends up in (is never aliased by) out-variable number j *)
Definition never_reaches (P : program) (k i j : nat) : bool :=
  match nth_error (summaries P) k with
  | Some sm => match nth_error (s_outs sm) j with Some so => negb (mem i so) | None => false end
  | None => false
  end.
