(* Effect IR for C20 (model + executable analysis): which parameters of a function may be mutated in place, and which
   parameters its result may alias.  A function body is a BAG of statements that may execute in any order, any number
   of times (an over-approximation of all control flow).  Programs are lists of functions; a function may only call
   functions that appear EARLIER in the list (the translator emits them in dependency order; unresolved or recursive
   calls are emitted as calls to a most-pessimistic function). *)
From Coq Require Import List Arith Bool Lia.
Import ListNotations.

Definition var := nat.
Inductive stmt :=
  | SAlias (d s : var)                       (* d may now refer to the object s refers to (view, transpose, attribute, ...) *)
  | SFresh (d : var)                         (* d refers to a newly allocated object (copy, arithmetic, constructor, ...) *)
  | SWrite (v : var)                         (* the object v refers to is mutated in place *)
  | SCall (f : nat) (args : list var) (d : var).   (* d := f(args), f an earlier function of the program *)

Record func := { f_params : list var; f_body : list stmt; f_rets : list var }.
Definition program := list func.

(* ------------------------------------------------------------------ concrete semantics *)
Definition loc := nat.
Definition store := var -> option loc.
Definition upd (s : store) (v : var) (l : option loc) : store := fun x => if Nat.eqb x v then l else s x.

Record cfg := { st : store; next : loc; written : list loc }.

Definition bind_params (params : list var) (ls : list (option loc)) : store :=
  fold_right (fun pv s => upd s (fst pv) (snd pv)) (fun _ => None) (combine params ls).

(* runs of a function body: any statement of the body, any number of times; a call runs the callee's body on a store
   that binds its parameters to the locations of the arguments and hands back the location of one of its return
   variables (or a new object) *)
Inductive steps (P : program) : nat -> list stmt -> cfg -> cfg -> Prop :=
  | st_refl k body c : steps P k body c c
  | st_alias k body c c' d s : In (SAlias d s) body ->
      steps P k body {| st := upd (st c) d (st c s); next := next c; written := written c |} c' -> steps P k body c c'
  | st_fresh k body c c' d : In (SFresh d) body ->
      steps P k body {| st := upd (st c) d (Some (next c)); next := S (next c); written := written c |} c' -> steps P k body c c'
  | st_write k body c c' v l : In (SWrite v) body -> st c v = Some l ->
      steps P k body {| st := st c; next := next c; written := l :: written c |} c' -> steps P k body c c'
  | st_call k body c c' f args d fn cc res : In (SCall f args d) body -> f < k -> nth_error P f = Some fn ->
      steps P f (f_body fn) {| st := bind_params (f_params fn) (map (st c) args); next := next c; written := written c |} cc ->
      (res = Some (next cc) \/ exists r, In r (f_rets fn) /\ res = st cc r) ->
      steps P k body {| st := upd (st c) d res; next := S (next cc); written := written cc |} c' -> steps P k body c c'.

(* ------------------------------------------------------------------ the analysis *)
(* summary of a function: indices of the parameters it may write / its result may alias *)
Record summary := { s_writes : list nat; s_rets : list nat }.
Definition pessimistic (arity : nat) : summary := {| s_writes := seq 0 arity; s_rets := seq 0 arity |}.

Definition mem (x : nat) (l : list nat) : bool := existsb (Nat.eqb x) l.
Definition nth_var (i : nat) (l : list var) : option var := nth_error l i.

(* one round of the forward "may hold the same object" closure *)
Definition grow (sums : list summary) (body : list stmt) (Vs : list var) : list var :=
  fold_right (fun s acc =>
    match s with
    | SAlias d src => if mem src acc && negb (mem d acc) then d :: acc else acc
    | SCall f args d =>
        match nth_error sums f with
        | Some sm => if existsb (fun i => match nth_error args i with Some a => mem a acc | None => false end) (s_rets sm) && negb (mem d acc)
                     then d :: acc else acc
        | None => if existsb (fun a => mem a acc) args && negb (mem d acc) then d :: acc else acc
        end
    | _ => acc
    end) Vs body.
Fixpoint iterate (n : nat) (sums : list summary) (body : list stmt) (Vs : list var) : list var :=
  match n with O => Vs | S n' => iterate n' sums body (grow sums body Vs) end.

(* S is closed under the rules: checked, not assumed *)
Definition closed (sums : list summary) (body : list stmt) (Vs : list var) : bool :=
  forallb (fun s =>
    match s with
    | SAlias d src => implb (mem src Vs) (mem d Vs)
    | SCall f args d =>
        match nth_error sums f with
        | Some sm => implb (existsb (fun i => match nth_error args i with Some a => mem a Vs | None => false end) (s_rets sm)) (mem d Vs)
        | None => implb (existsb (fun a => mem a Vs) args) (mem d Vs)
        end
    | _ => true
    end) body.

(* may the object bound to parameter p be written, given that S is closed and contains p *)
Definition writes_into (sums : list summary) (body : list stmt) (Vs : list var) : bool :=
  existsb (fun s =>
    match s with
    | SWrite v => mem v Vs
    | SCall f args d =>
        match nth_error sums f with
        | Some sm => existsb (fun i => match nth_error args i with Some a => mem a Vs | None => false end) (s_writes sm)
        | None => existsb (fun a => mem a Vs) args
        end
    | _ => false
    end) body.

Definition holds (sums : list summary) (fn : func) (p : var) : option (list var) :=
  let Vs := iterate (S (length (f_body fn))) sums (f_body fn) [p] in
  if closed sums (f_body fn) Vs && mem p Vs then Some Vs else None.

Definition may_write (sums : list summary) (fn : func) (p : var) : bool :=
  match holds sums fn p with Some Vs => writes_into sums (f_body fn) Vs | None => true end.
Definition may_return (sums : list summary) (fn : func) (p : var) : bool :=
  match holds sums fn p with Some Vs => existsb (fun r => mem r Vs) (f_rets fn) | None => true end.

Definition summarise (sums : list summary) (fn : func) : summary :=
  {| s_writes := filter (fun i => match nth_error (f_params fn) i with Some p => may_write sums fn p | None => true end) (seq 0 (length (f_params fn)));
     s_rets := filter (fun i => match nth_error (f_params fn) i with Some p => may_return sums fn p | None => true end) (seq 0 (length (f_params fn))) |}.

(* summaries of a whole program, bottom-up *)
Fixpoint summaries_from (acc : list summary) (P : program) : list summary :=
  match P with [] => acc | fn :: rest => summaries_from (acc ++ [summarise acc fn]) rest end.
Definition summaries (P : program) : list summary := summaries_from [] P.

(* the obligation emitted for a public entry point: parameter number i of function number k is never written *)
Definition never_writes (P : program) (k i : nat) : bool :=
  match nth_error (summaries P) k with Some sm => negb (mem i (s_writes sm)) | None => false end.
