(* Soundness of [history_safe] over histories of public calls (C20, "over sequences of calls"). *)
From Coq Require Import List Arith Bool Lia.
Import ListNotations.
From PS Require Import Eff.IR Eff.Sound Eff.History.

(* ------------------------------------------------------------------ every location in use lies below the frontier *)
Definition bounded (c : cfg) : Prop :=
  (forall v l, st c v = Some l -> l < next c) /\ (forall l, In l (written c) -> l < next c).

Lemma steps_bounded P k body c c' : steps P k body c c' -> bounded c -> bounded c' /\ next c <= next c'.
Proof.
  intro Hs. induction Hs as [k body c|k body c c' d s Hin Hs IH|k body c c' d Hin Hs IH|k body c c' v l Hin Hv Hs IH
                            |k body c c' f args d outs fn cc res Hin Hfk Hfn Hcallee IHc Hres Hs IH]; intros [B1 B2].
  - split; [split; auto|lia].
  - apply IH. split; simpl; auto. intros v l Hv. unfold upd in Hv. destruct (Nat.eqb v d); eauto.
  - destruct IH as [IH1 IH2].
    + split; simpl.
      * intros v l Hv. unfold upd in Hv. destruct (Nat.eqb v d); [injection Hv as <-; lia|]. specialize (B1 v l Hv). lia.
      * intros l Hl. specialize (B2 l Hl). lia.
    + simpl in IH2. split; [exact IH1|lia].
  - apply IH. split; simpl; auto. intros l' [<-|Hl]; eauto.
  - destruct IHc as [[C1 C2] Cn].
    + split; simpl; auto. intros v l Hv. destruct (bind_params_spec _ _ _ _ Hv) as (j & _ & Hj).
      rewrite nth_error_map in Hj. destruct (nth_error args j) as [a|]; [|discriminate]. simpl in Hj. injection Hj as Hj. eauto.
    + simpl in Cn. destruct IH as [IH1 IH2].
      * split; simpl.
        -- intros v l Hv.
           destruct (upd_outs_spec (upd (st c) d res) outs (map (st cc) (f_outs fn)) v) as [E|[n [A B]]].
           ++ rewrite E in Hv. unfold upd in Hv. destruct (Nat.eqb v d).
              ** destruct Hres as [->|[r [Hr ->]]]; [injection Hv as <-; lia|]. specialize (C1 r l Hv). lia.
              ** specialize (B1 v l Hv). lia.
           ++ rewrite Hv in B. rewrite nth_error_map in B. destruct (nth_error (f_outs fn) n) as [o|]; [|discriminate].
              simpl in B. injection B as B. specialize (C1 o l B). lia.
        -- intros l Hl. specialize (C2 l Hl). lia.
      * simpl in IH2. split; [exact IH1|lia].
Qed.

(* ------------------------------------------------------------------ histories *)
(* the world between two public calls: values of the global variables (object attributes), allocation frontier,
   every location written so far, and the arrays that belong to the caller *)
Record world := { w_glob : store; w_next : loc; w_written : list loc; w_prot : list loc }.

Definition w_init : world := {| w_glob := fun _ => None; w_next := 0; w_written := []; w_prot := [] |}.

Inductive hstep (P : program) (es : list entry) : world -> world -> Prop :=
  | h_alloc w :                                    (* the caller creates an array of its own *)
      hstep P es w {| w_glob := w_glob w; w_next := S (w_next w); w_written := w_written w; w_prot := w_next w :: w_prot w |}
  | h_call w e fn args c' :                        (* the caller calls a public entry point with any existing objects *)
      In e es -> nth_error P (e_fn e) = Some fn -> length args = e_nexp e ->
      (forall l, In (Some l) args -> l < w_next w) ->
      steps P (e_fn e) (f_body fn)
            {| st := bind_params (f_params fn) (args ++ map (w_glob w) (e_fields e)); next := w_next w; written := w_written w |} c' ->
      hstep P es w {| w_glob := upd_outs (w_glob w) (e_fields e) (map (st c') (f_outs fn)); w_next := next c';
                      w_written := written c'; w_prot := w_prot w |}.

Inductive reachable (P : program) (es : list entry) : world -> Prop :=
  | r_init : reachable P es w_init
  | r_step w w' : reachable P es w -> hstep P es w w' -> reachable P es w'.

Definition Inv (T : list nat) (w : world) : Prop :=
  (forall l, In l (w_prot w) -> l < w_next w) /\
  (forall g l, w_glob w g = Some l -> l < w_next w) /\
  (forall l, In l (w_written w) -> l < w_next w) /\
  (forall g l, w_glob w g = Some l -> In l (w_prot w) -> mem g T = true) /\
  (forall l, In l (w_written w) -> ~ In l (w_prot w)).

Lemma In_combine_nth {A B} (l1 : list A) (l2 : list B) n a b :
  nth_error l1 n = Some a -> nth_error l2 n = Some b -> In (a, b) (combine l1 l2).
Proof.
  revert l1 l2. induction n as [|n IH]; intros [|x l1] [|y l2] H1 H2; try discriminate; simpl in *.
  - left. congruence.
  - right. eauto.
Qed.

Section Safe.
Variable P : program.
Variable es : list entry.
Variable ng : nat.
Hypothesis safe : history_safe P es ng = true.
Let T := tainted P es ng.
Let sums := summaries P.

Lemma safe_parts : taint_closed sums es T = true /\ writes_safe sums es T = true.
Proof.
  unfold history_safe, history_safe_with in safe. cbv zeta in safe.
  apply andb_true_iff in safe. destruct safe as [H1 H3]. apply andb_true_iff in H1. destruct H1 as [H1 H2]. auto.
Qed.

(* a parameter bound to a protected location is an explicit parameter or a tainted global *)
Lemma param_source w e (args : list (option loc)) j l :
  Inv T w -> length args = e_nexp e ->
  nth_error (args ++ map (w_glob w) (e_fields e)) j = Some (Some l) -> In l (w_prot w) -> src_tainted e T j = true.
Proof.
  intros (_ & _ & _ & I3 & _) Hlen Hj Hl. unfold src_tainted, field_of.
  destruct (Nat.ltb_spec j (e_nexp e)) as [Hlt|Hge]; [reflexivity|].
  rewrite nth_error_app2 in Hj by lia. rewrite Hlen in Hj. rewrite nth_error_map in Hj.
  revert Hj. unfold var. destruct (nth_error (e_fields e) (j - e_nexp e)) as [g|]; simpl; intro Hj; [|discriminate]. injection Hj as Hj. eapply I3; eauto.
Qed.

Theorem inv_step w w' : Inv T w -> hstep P es w w' -> Inv T w'.
Proof.
  intros HI Hs. destruct Hs as [w|w e fn args c' He Hfn Hlen Hargs Hsteps].
  - (* allocation by the caller *)
    destruct HI as (I1 & I2 & I3 & I4 & I5). repeat split; simpl.
    + intros l [<-|Hl]; [lia|]. specialize (I1 l Hl). lia.
    + intros g l Hg. specialize (I2 g l Hg). lia.
    + intros l Hl. specialize (I3 l Hl). lia.
    + intros g l Hg [E|Hl]; [|eauto]. subst l. specialize (I2 g _ Hg). lia.
    + intros l Hl [E|Hp]; [|eapply I5; eauto]. subst l. specialize (I3 _ Hl). lia.
  - (* a public call *)
    pose proof HI as (I1 & I2 & I3 & I4 & I5).
    set (ls := args ++ map (w_glob w) (e_fields e)) in *.
    assert (Hls : forall l, In (Some l) ls -> l < w_next w).
    { intros l Hl. unfold ls in Hl. apply in_app_or in Hl. destruct Hl as [Hl|Hl]; [auto|].
      apply in_map_iff in Hl. destruct Hl as [g [Hg _]]. eauto. }
    destruct (sound_all P sums (summaries_ok P) (e_fn e) fn Hfn ls (w_next w) (w_written w) c' Hls Hsteps) as [HO HW].
    cbv zeta in HO, HW. destruct HO as (On & Ob & Oo).
    assert (Hb0 : bounded {| st := bind_params (f_params fn) ls; next := w_next w; written := w_written w |}).
    { split; simpl; auto. intros v l Hv. destruct (bind_params_spec _ _ _ _ Hv) as (j & _ & Hj). apply Hls. eapply nth_error_In; eauto. }
    destruct (steps_bounded _ _ _ _ _ Hsteps Hb0) as [[Bs Bw] _].
    destruct safe_parts as [Hclosed Hwsafe].
    assert (Hsum : nth_error sums (e_fn e) = Some (summarise (firstn (e_fn e) sums) fn)) by (apply summaries_ok; auto).
    unfold taint_closed in Hclosed. rewrite forallb_forall in Hclosed. specialize (Hclosed e He). rewrite Hsum in Hclosed.
    rewrite forallb_forall in Hclosed.
    unfold writes_safe in Hwsafe. rewrite forallb_forall in Hwsafe. specialize (Hwsafe e He). rewrite Hsum in Hwsafe.
    rewrite forallb_forall in Hwsafe.
    repeat split; simpl.
    + intros l Hl. specialize (I1 l Hl). lia.
    + intros g l Hg. destruct (upd_outs_spec (w_glob w) (e_fields e) (map (st c') (f_outs fn)) g) as [E|[n [A B]]].
      * rewrite E in Hg. specialize (I2 g l Hg). lia.
      * rewrite Hg in B. rewrite nth_error_map in B. destruct (nth_error (f_outs fn) n) as [o|]; [|discriminate].
        simpl in B. injection B as B. eauto.
    + exact Bw.
    + intros g l Hg Hl. destruct (upd_outs_spec (w_glob w) (e_fields e) (map (st c') (f_outs fn)) g) as [E|[n [A B]]].
      * rewrite E in Hg. eauto.
      * rewrite Hg in B. rewrite nth_error_map in B. destruct (nth_error (f_outs fn) n) as [o|] eqn:Eo; [|discriminate].
        simpl in B. injection B as B.
        destruct (Oo o l B (I1 l Hl)) as (p & Hp & Hip & Hh).
        destruct (bind_params_spec _ _ _ _ Hip) as (j & Hj & Hlj).
        set (so := filter (fun i => match nth_error (f_params fn) i with Some p0 => may_reach (firstn (e_fn e) sums) fn p0 o | None => true end)
                          (seq 0 (length (f_params fn)))).
        assert (Hso : nth_error (s_outs (summarise (firstn (e_fn e) sums) fn)) n = Some so).
        { unfold summarise. simpl. rewrite nth_error_map, Eo. reflexivity. }
        assert (Hjs : In j so).
        { unfold so. apply filter_In. split; [apply in_seq; split; [lia|]; simpl; apply nth_error_Some; congruence|].
          rewrite Hj. unfold may_reach. destruct Hh as [->|[Vs [-> Hm]]]; auto. }
        specialize (Hclosed (g, so) (In_combine_nth _ _ n g so A Hso)). simpl in Hclosed.
        assert (Hex : existsb (src_tainted e T) so = true).
        { apply existsb_exists. exists j. split; auto. eapply param_source; eauto. }
        rewrite Hex in Hclosed. exact Hclosed.
    + intros l Hl Hp. destruct (HW l Hl) as [Hw0|[Hnew|(p & Hpp & Hip & Hmw)]].
      * eapply I5; eauto.
      * specialize (I1 l Hp). lia.
      * destruct (bind_params_spec _ _ _ _ Hip) as (j & Hj & Hlj).
        assert (Hjw : In j (s_writes (summarise (firstn (e_fn e) sums) fn))).
        { unfold summarise. simpl. apply filter_In. split; [apply in_seq; split; [lia|]; simpl; apply nth_error_Some; congruence|].
          now rewrite Hj. }
        specialize (Hwsafe j Hjw). apply negb_true_iff in Hwsafe.
        rewrite (param_source w e args j l HI Hlen Hlj Hp) in Hwsafe. discriminate.
Qed.

Lemma inv_init : Inv T w_init.
Proof. repeat split; simpl; intros; try discriminate; contradiction. Qed.

(* in every world reachable through any sequence of caller allocations and public calls (with any arguments), no array
   of the caller has been written in place *)
Theorem history_safe_sound w : reachable P es w -> forall l, In l (w_written w) -> ~ In l (w_prot w).
Proof.
  intro Hr. assert (HI : Inv T w) by (induction Hr; [apply inv_init|eapply inv_step; eauto]).
  destruct HI as (_ & _ & _ & _ & I5). exact I5.
Qed.
End Safe.

(* what the harness evaluates is the same boolean *)
Theorem history_safe_fast_eq P es ng : history_safe_fast P es ng = history_safe P es ng.
Proof. unfold history_safe_fast, history_safe. now rewrite summaries_fast_eq. Qed.
